#!/usr/bin/env python3
"""Regenerates /verif/MANIFEST.json from the META dictionaries of props/cNN.py.
Properties without a check module are listed under not_applicable with the reason given in
PENDING (kept current by hand)."""
import importlib
import json
import os
import subprocess
import sys

HERE = os.path.dirname(os.path.dirname(os.path.abspath(__file__)))
sys.path.insert(0, os.path.join(HERE, "lib"))
sys.path.insert(0, HERE)

PENDING_REASON = ("no check registered yet: the TLA+ specification / conformance harness for this "
                  "property is not built (see DESIGN.md section 5 for the planned check)")


def main():
    props = [json.loads(l) for l in open(os.path.join(HERE, "properties.jsonl"))]
    na_path = os.path.join(HERE, "lib", "not_applicable.json")
    na_reasons = json.load(open(na_path)) if os.path.exists(na_path) else {}
    checks, na = [], []
    for p in props:
        pid = p["id"]
        try:
            mod = importlib.import_module("props." + pid.lower())
            meta = mod.META
        except (ModuleNotFoundError, AttributeError):
            na.append({"property_id": pid, "reason": na_reasons.get(pid, PENDING_REASON)})
            continue
        if pid in na_reasons:
            na.append({"property_id": pid, "reason": na_reasons[pid]})
            continue
        c = {
            "property_id": pid,
            "quick_cmd": "./check %s --tier quick" % pid,
            "thorough_cmd": "./check %s --tier thorough" % pid,
            "evidence_file": "/verif/evidence/%s.json" % pid,
            "replay_cmd_template": "./check %s --replay {path}" % pid,
            "engine": meta.get("engine", "tlc+harness"),
            "level_claimed": {
                "category": meta.get("level", "model_checking"),
                "text": meta["text"],
                "design_ref": meta.get("design_ref", "DESIGN.md section 5, " + pid),
            },
            "level_note": meta["note"],
            "technique": meta.get("technique", "TLA+ specification model-checked with TLC; "
                                  "implementation traces validated against it with TLC"),
        }
        checks.append(c)
    commits = subprocess.run(["git", "-C", "/repo", "log", "--format=%h %s", "8edd344..HEAD"],
                             stdout=subprocess.PIPE, text=True).stdout.strip().splitlines()
    hooks = [c.split()[0] for c in commits if not c.split(" ", 1)[1].startswith("fix:")]
    m = {
        "version": 1,
        "setup_cmd": "./setup.sh",
        "hooks": {
            "guard": "--cfg mmtk_verif",
            "enable": "harness/.cargo/config.toml sets rustflags = [\"--cfg\", \"mmtk_verif\"] for "
                      "every build of the harness workspace (path dependency on /repo); all hook "
                      "code in /repo is behind #[cfg(mmtk_verif)]",
            "baseline_off_cmd": "cd /repo && cargo nextest run --workspace --no-fail-fast "
                                "--tool-config-file pb:/w/lib/nextest.toml --profile pb "
                                "--test-threads 8 --offline",
            "source_commits": hooks,
            "add_only": True,
        },
        "engines": [
            {"name": "tlc+harness", "path": "/verif/check",
             "serves_properties": [c["property_id"] for c in checks],
             "kind_free_text": "TLA+ specifications under spec/ model-checked with TLC; Rust "
                               "harness (harness/) drives the real mmtk-core and records NDJSON "
                               "traces that TLC validates against Trace_*.tla"},
        ],
        "checks": checks,
        "notes": "Every check: ./check <Cnn> --tier quick|thorough. Exit 0 held / 1 VIOLATION / 2 "
                 "tool error. Known findings: KNOWN_FINDINGS.json.",
        "not_applicable": na,
    }
    with open(os.path.join(HERE, "MANIFEST.json"), "w") as f:
        json.dump(m, f, indent=1)
    print("MANIFEST.json: %d checks, %d not claimed" % (len(checks), len(na)))
    try:
        import jsonschema
        jsonschema.validate(m, json.load(open("/root/.vp/MANIFEST.schema.json")))
        print("schema: ok")
    except ImportError:
        print("jsonschema not available; not validated")


if __name__ == "__main__":
    main()
