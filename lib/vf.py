"""Shared machinery of the /verif checks: cargo builds of the harness against /repo's working tree,
TLC model checking, TLC trace validation, known-finding matching, evidence files, exit codes.

Exit codes of a check: 0 = property held on everything explored, 1 = violation (a line
`VIOLATION property=<id> replay=<path>` was printed), 2 = error of our own tooling."""
import json
import os
import re
import shutil
import subprocess
import threading
import sys
import time

VERIF = os.path.dirname(os.path.dirname(os.path.abspath(__file__)))
WORK = os.path.join(VERIF, "work")
HARNESS = os.path.join(VERIF, "harness")
SPEC = os.path.join(VERIF, "spec")
EVIDENCE = os.path.join(VERIF, "evidence")
REPLAYS = os.path.join(VERIF, "replays")
JARS = "/opt/veriftools/tla/tla2tools.jar:/opt/veriftools/tla/CommunityModules-deps.jar"
TRACE_JVM = ["-Xss1g", "-Dtlc2.tool.queue.IStateQueue=StateDeque"]


class ToolError(Exception):
    pass


def log(*a):
    print("[vf]", *a, flush=True)


def _env_offline(extra=None):
    env = dict(os.environ)
    env.setdefault("CARGO_NET_OFFLINE", "true")
    env.pop("JAVA_TOOL_OPTIONS", None)
    if extra:
        env.update(extra)
    return env


class Ctx:
    def __init__(self, pid, tier, seed, level="model_checking"):
        self.pid = pid
        self.tier = tier
        self.seed = seed
        self.level = level
        self.t0 = time.time()
        self.work = os.path.join(WORK, pid)
        os.makedirs(self.work, exist_ok=True)
        os.makedirs(EVIDENCE, exist_ok=True)
        self.violations = []
        self.known_hits = []
        self.cov = {
            "states": 0,
            "transitions": 0,
            "traces_validated_against_impl": 0,
            "samples": [],
            "mc_runs": [],
            "trace_runs": [],
        }
        self.assumptions = []
        self.known = []
        kf = os.path.join(VERIF, "KNOWN_FINDINGS.json")
        if os.path.exists(kf):
            self.known = json.load(open(kf)).get("findings", [])
        self._nrep = 0
        self._ntmp = 0
        self._lock = threading.RLock()

    # ------------------------------------------------------------------ builds
    def build(self, pkg, features=(), release=False, bin_name=None):
        """cargo build of one harness binary against /repo's current tree. Returns the path of a
        private copy of the binary (feature sets share one target dir; the copy keeps them apart)."""
        bin_name = bin_name or pkg
        feats = sorted(features)
        key = "-".join([bin_name] + feats + (["rel"] if release else [])) or bin_name
        cmd = ["cargo", "build", "--offline", "-q", "-p", pkg, "--bin", bin_name]
        if feats:
            cmd += ["--features", ",".join(feats)]
        if release:
            cmd.append("--release")
        t = time.time()
        p = subprocess.run(cmd, cwd=HARNESS, env=_env_offline(), stdout=subprocess.PIPE,
                           stderr=subprocess.STDOUT, text=True)
        if p.returncode != 0:
            sys.stdout.write(p.stdout[-6000:])
            raise ToolError("cargo build failed for %s %s" % (pkg, feats))
        src = os.path.join(WORK, "target", "release" if release else "debug", bin_name)
        os.makedirs(os.path.join(WORK, "bin"), exist_ok=True)
        dst = os.path.join(WORK, "bin", key)
        tmp = dst + ".tmp%d" % os.getpid()
        shutil.copy2(src, tmp)
        os.replace(tmp, dst)
        log("built %s in %.1fs" % (key, time.time() - t))
        return dst

    # ------------------------------------------------------------------ driver runs
    def run(self, argv, timeout=600, env=None, cwd=None, ok_codes=(0,)):
        """Run a harness driver. Returns (rc, output). rc -9 = timeout. Crashes of the code under
        test are data for the caller; nothing is raised here."""
        e = _env_offline(env)
        e["VERIF_SEED"] = str(self.seed)
        e["VERIF_TIER"] = self.tier
        e.setdefault("RUST_BACKTRACE", "0")
        try:
            p = subprocess.run(argv, cwd=cwd or self.work, env=e, stdout=subprocess.PIPE,
                               stderr=subprocess.STDOUT, text=True, timeout=timeout,
                               errors="replace")
            return p.returncode, p.stdout
        except subprocess.TimeoutExpired as ex:
            out = ex.stdout or ""
            if isinstance(out, bytes):
                out = out.decode(errors="replace")
            return -9, out

    # ------------------------------------------------------------------ TLC
    def _tlc(self, spec_dir, module, cfg, name, workers, timeout, jvm=(), tlc_args=(), env=None,
             xmx="4g"):
        meta = os.path.join(self.work, "tlc", name)
        shutil.rmtree(meta, ignore_errors=True)
        os.makedirs(meta, exist_ok=True)
        cmd = ["java", "-XX:+UseParallelGC", "-Xmx" + xmx] + list(jvm) + [
            "-cp", JARS, "tlc2.TLC", "-metadir", meta, "-cleanup", "-noGenerateSpecTE",
            "-workers", str(workers), "-config", cfg] + list(tlc_args) + [module]
        t = time.time()
        try:
            p = subprocess.run(cmd, cwd=spec_dir, env=_env_offline(env), stdout=subprocess.PIPE,
                               stderr=subprocess.STDOUT, text=True, timeout=timeout,
                               errors="replace")
            rc, out = p.returncode, p.stdout
        except subprocess.TimeoutExpired as ex:
            out = ex.stdout or ""
            if isinstance(out, bytes):
                out = out.decode(errors="replace")
            rc = -9
        shutil.rmtree(meta, ignore_errors=True)
        with open(os.path.join(self.work, "tlc_%s.log" % name), "w") as f:
            f.write(out)
        return rc, out, time.time() - t

    @staticmethod
    def _stats(out):
        st = {"generated": 0, "distinct": 0, "depth": 0}
        m = re.findall(r"(\d+) states generated, (\d+) distinct states found", out)
        if m:
            st["generated"], st["distinct"] = int(m[-1][0]), int(m[-1][1])
        m = re.findall(r"depth of the complete state graph search is (\d+)", out)
        if m:
            st["depth"] = int(m[-1])
        acts = {}
        for a, mod, d, tot in re.findall(
                r"^<(\w+) line \d+, col \d+ to line \d+, col \d+ of module (\w+)>: (\d+):(\d+)",
                out, re.M):
            acts[a] = {"distinct": int(d), "taken": int(tot)}
        st["actions"] = acts
        return st

    def tlc_mc(self, module, cfg, spec_dir=None, name=None, workers=4, timeout=900,
               expect_violation=False, require_actions=(), tlc_args=(), xmx="6g", env=None,
               count=True):
        """Model-check `module` with `cfg`. Returns a dict with ok / stats. A violation found by TLC
        on the specification itself (not on a trace) is a tool-level failure unless the run is a
        mutant (`expect_violation`), in which case *absence* of a violation is the failure."""
        spec_dir = spec_dir or SPEC
        name = name or os.path.splitext(os.path.basename(cfg))[0]
        rc, out, wall = self._tlc(spec_dir, module, cfg, name, workers, timeout,
                                  tlc_args=["-coverage", "1"] + list(tlc_args), xmx=xmx, env=env)
        st = self._stats(out)
        violated = bool(re.search(r"Error: (Invariant|Action property|Temporal properties|"
                                  r"Deadlock|Assumption|The postcondition|Evaluating)", out)) or \
            "is violated" in out
        finished = "Model checking completed" in out or "Finished in" in out
        res = {"name": name, "module": module, "cfg": os.path.basename(cfg), "rc": rc,
               "states": st["distinct"], "transitions": st["generated"], "depth": st["depth"],
               "actions": st["actions"], "wall_s": round(wall, 1), "violated": violated,
               "finished": finished, "timeout": rc == -9}
        log("TLC %s: %d distinct / %d generated, depth %d, %.1fs%s" % (
            name, st["distinct"], st["generated"], st["depth"], wall,
            " VIOLATED" if violated else ""))
        if rc == -9:
            raise ToolError("TLC timed out on %s (see %s/tlc_%s.log)" % (name, self.work, name))
        if expect_violation:
            if not violated:
                raise ToolError("mutant %s was NOT rejected by TLC: the property is vacuous in the "
                                "model" % name)
        else:
            if violated or not finished or rc != 0:
                sys.stdout.write(out[-5000:])
                raise ToolError("TLC reports an error on the specification itself (%s); see "
                                "%s/tlc_%s.log" % (name, self.work, name))
            for a in require_actions:
                if st["actions"].get(a, {}).get("taken", 0) == 0:
                    raise ToolError("action %s never taken in %s (vacuous model)" % (a, name))
        if count and not expect_violation:
            self.cov["states"] += st["distinct"]
            self.cov["transitions"] += st["generated"]
        self.cov["mc_runs"].append({k: res[k] for k in
                                    ("name", "states", "transitions", "depth", "wall_s")} |
                                   {"mutant_rejected": True} if expect_violation else
                                   {k: res[k] for k in
                                    ("name", "states", "transitions", "depth", "wall_s")} |
                                   {"actions": {a: v["taken"] for a, v in st["actions"].items()}})
        return res

    def tlc_trace(self, module, cfg, trace, spec_dir=None, name=None, timeout=900, env=None,
                  xmx="4g", key=None, what=None, ntraces=None, keyfn=None, replay_whole=False):
        """Validate one NDJSON trace file against a trace specification. The specification must
        print `TRACE_REJECTED` (from its POSTCONDITION or from an invariant) when it cannot match
        the whole file. Returns dict(accepted, matched, total, detail). A rejection is recorded as
        a violation of this property (or as a known finding when `key` is listed)."""
        spec_dir = spec_dir or SPEC
        name = name or ("trace_" + os.path.splitext(os.path.basename(trace))[0])
        e = {"TRACE": os.path.abspath(trace)}
        if env:
            e.update(env)
        nlines = sum(1 for _ in open(trace))
        rc, out, wall = self._tlc(spec_dir, module, cfg, name, 1, timeout, jvm=TRACE_JVM, env=e,
                                  xmx=xmx)
        st = self._stats(out)
        rejected = "TRACE_REJECTED" in out
        hard_error = (not rejected) and (rc != 0 or "Model checking completed" not in out)
        detail = ""
        m = re.search(r"TRACE_REJECTED.*", out)
        if m:
            detail = m.group(0)[:1500]
        viol_inv = re.search(r"Error: Invariant (\w+) is violated", out)
        if viol_inv and not rejected:
            rejected, hard_error = True, False
            detail = "invariant %s violated on the trace" % viol_inv.group(1)
        res = {"name": name, "accepted": not rejected and not hard_error, "events": nlines,
               "states": st["distinct"], "depth": st["depth"], "wall_s": round(wall, 1),
               "detail": detail}
        nbad = len(set(re.findall(r"ROW_REJECTED l=(\d+)", out)))
        log("TLC trace %s: %d events, %s, %.1fs %s" % (
            name, nlines, "accepted" if res["accepted"] and not nbad else
            "REJECTED (%d rows)" % nbad if nbad else "REJECTED", wall, detail[:300]))
        if rc == -9:
            raise ToolError("TLC timed out validating %s" % trace)
        if hard_error:
            sys.stdout.write(out[-5000:])
            raise ToolError("TLC failed while validating %s (rc=%s); see %s/tlc_%s.log" % (
                trace, rc, self.work, name))
        # Row mode: the trace spec consumed every line but printed `ROW_REJECTED l=<n>` for each
        # line (or history, at its first line) that the specification does not allow. Each one is
        # classified separately so that a known finding does not mask a different violation.
        tags = {}
        for n, t in re.findall(r'ROW_REJECTED l=(\d+)(?: tag=([^\s"]+))?', out):
            tags.setdefault(int(n), t)
        bad = sorted(tags)
        res["rejected_rows"] = len(bad)
        res["ignored_rows"] = 0
        if bad and not rejected:
            lines = open(trace).read().splitlines()
            seen = {}
            for n in bad:
                row = lines[n - 1] if 0 < n <= len(lines) else ""
                k = key
                if keyfn is not None:
                    try:
                        r = json.loads(row) if row else {}
                        r["_tag"], r["_line"] = tags[n], n
                        k = keyfn(r)
                    except Exception as ex:  # noqa: BLE001
                        k = "%s:unparsable-row(%s)" % (key, ex)
                    if k is None:      # the failed guard belongs to another property
                        res["ignored_rows"] += 1
                        continue
                elif tags[n]:
                    k = "%s:%s" % (key or name, tags[n])
                seen.setdefault(k or (name + ":row"), []).append((n, row))
            res["accepted"] = not seen
            for k, rows in seen.items():
                with self._lock:
                    self._ntmp += 1
                    tmp = os.path.join(self.work, "rejected_%d_%s.ndjson" % (
                        self._ntmp, re.sub(r"\W+", "_", k)[:80]))
                with open(tmp, "w") as f:
                    if replay_whole:
                        f.write("\n".join(lines) + "\n")
                    else:
                        for n, row in rows[:50]:
                            f.write(row + "\n")
                self.violation(k, (what or "rejected by the specification") +
                               " (%d place(s), first at line %d of %s)" % (
                                   len(rows), rows[0][0], os.path.basename(trace)), tmp,
                               extra=rows[0][1][:1500])
            with self._lock:
                self.cov["trace_runs"].append({k2: res[k2] for k2 in
                                               ("name", "accepted", "events", "states", "wall_s",
                                                "rejected_rows", "ignored_rows")})
                if ntraces is not None:
                    self.cov["traces_validated_against_impl"] += max(0, ntraces - len(bad))
                elif res["accepted"]:
                    self.cov["traces_validated_against_impl"] += 1
            return res
        self.cov["trace_runs"].append({k: res[k] for k in
                                       ("name", "accepted", "events", "states", "wall_s")})
        if res["accepted"]:
            self.cov["traces_validated_against_impl"] += (ntraces if ntraces is not None else 1)
        else:
            self.violation(key or (name + ":rejected"), what or detail or "trace rejected", trace,
                           extra=detail)
        return res

    # ------------------------------------------------------------------ findings
    def _known(self, key):
        for f in self.known:
            if f.get("property") == self.pid and f.get("status") == "known":
                k = f.get("key", "")
                if k == key or (f.get("key_is_regex") and re.fullmatch(k, key)):
                    return f
        return None

    def violation(self, key, what, replay_src=None, extra=None):
        """Record a violation identified by `key`. Known findings print KNOWN-FINDING and do not
        fail the check; anything else prints a VIOLATION line with a replay file."""
        with self._lock:
            return self._violation(key, what, replay_src, extra)

    def _violation(self, key, what, replay_src=None, extra=None):
        f = self._known(key)
        if f is not None:
            if key not in [k for k, _ in self.known_hits]:
                print("KNOWN-FINDING: property=%s %s [%s]" % (self.pid, f.get("what", what), key),
                      flush=True)
            self.known_hits.append((key, what))
            return False
        os.makedirs(os.path.join(REPLAYS, self.pid), exist_ok=True)
        self._nrep += 1
        dst = os.path.join(REPLAYS, self.pid, "%s_%d_%d.replay" % (self.tier, self.seed, self._nrep))
        with open(dst, "w") as out:
            out.write(json.dumps({"property": self.pid, "key": key, "what": what,
                                  "detail": extra}) + "\n")
            if replay_src and os.path.exists(replay_src):
                with open(replay_src) as src:
                    shutil.copyfileobj(src, out)
        self.violations.append({"key": key, "what": what, "replay": dst})
        print("VIOLATION property=%s replay=%s" % (self.pid, dst), flush=True)
        print("  key=%s what=%s" % (key, str(what)[:800]), flush=True)
        return True

    # ------------------------------------------------------------------ evidence
    def sample(self, s, cap=8):
        if len(self.cov["samples"]) < cap:
            self.cov["samples"].append(s)

    def sample_lines(self, path, n=3, maxlen=600):
        try:
            with open(path) as f:
                for i, line in enumerate(f):
                    if i >= n:
                        break
                    self.sample(line.strip()[:maxlen])
        except OSError:
            pass

    def finish(self, extra_cov=None, assumptions=None):
        cov = dict(self.cov)
        if extra_cov:
            cov.update(extra_cov)
        if not cov["samples"]:
            cov["samples"] = ["(no sample recorded)"]
        # states TLC explored while validating traces (one per consumed event and branch)
        cov["trace_states"] = sum(t.get("states", 0) for t in cov.get("trace_runs", []))
        if cov.get("states", 0) == 0:
            # no design-level model-checking run in this check: TLC's work is the trace validation
            cov["states"] = cov["trace_states"]
            cov["transitions"] = cov["trace_states"]
        if not isinstance(cov.get("exhaustive", False), bool):
            cov["exhaustive_note"] = cov.pop("exhaustive")
        cov["known_findings_hit"] = sorted({k for k, _ in self.known_hits})
        ev = {
            "property_id": self.pid,
            "tier": self.tier,
            "seed": self.seed,
            "level": self.level,
            "coverage": cov,
            "assumptions": (assumptions or []) + self.assumptions,
            "wall_s": round(time.time() - self.t0, 1),
            "violations": len(self.violations),
        }
        path = os.path.join(EVIDENCE, self.pid + ".json")
        tmp = path + ".tmp"
        with open(tmp, "w") as f:
            json.dump(ev, f, indent=1, default=str)
        os.replace(tmp, path)
        log("evidence written: %s (%.0fs, %d violation(s), %d known)" % (
            path, ev["wall_s"], len(self.violations), len(cov["known_findings_hit"])))
        return 1 if self.violations else 0


def read_ndjson(path):
    with open(path) as f:
        return [json.loads(l) for l in f if l.strip()]


def split_ndjson(path, parts, outdir, prefix, boundary_ev="Reset"):
    """Split a trace file into ~`parts` files at `boundary_ev` events (each part starts with one)."""
    lines = open(path).read().splitlines()
    starts = [i for i, l in enumerate(lines) if ('"ev":"%s"' % boundary_ev) in l[:40 + len(boundary_ev)]]
    if not starts or starts[0] != 0:
        starts = [0] + starts
    per = max(1, len(starts) // parts)
    cuts = starts[::per][:parts]
    cuts.append(len(lines))
    out = []
    os.makedirs(outdir, exist_ok=True)
    for i in range(len(cuts) - 1):
        p = os.path.join(outdir, "%s_%d.ndjson" % (prefix, i))
        with open(p, "w") as f:
            f.write("\n".join(lines[cuts[i]:cuts[i + 1]]) + "\n")
        out.append(p)
    return out
