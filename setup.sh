#!/bin/sh
# Builds the harness workspace offline against /repo's working tree (hooks on) and checks the tools.
set -e
cd "$(dirname "$0")"
export CARGO_NET_OFFLINE=true
mkdir -p work evidence replays
java -version 2>&1 | head -1
(cd harness && cargo build --offline --workspace 2>&1 | tail -3)
# feature builds used by the quick tier (valid-object bit)
(cd harness && cargo build --offline -p gcdrive --features vo_bit 2>&1 | tail -1)
# pin_object runs of C04
(cd harness && cargo build --offline -p gcdrive --features object_pinning 2>&1 | tail -1)
if [ -x ./setup_extra.sh ]; then ./setup_extra.sh; fi
echo "setup done"
