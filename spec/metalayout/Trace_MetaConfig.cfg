SPECIFICATION TraceSpec
CONSTANTS
  LogArch = 47
  LogUnit = 20
  LogGlobalRatio = 1
  LogLocalRatio = 1
  MaxOff = 0
  MaxSpecs = 0
  ImmixBlockLog = 15
  LocalBaseRule = "after_last_core_global"
  OffsetRule = "offset_after"
POSTCONDITION Accepted
CHECK_DEADLOCK FALSE
