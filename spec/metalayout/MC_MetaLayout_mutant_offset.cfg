\* Vacuity control: the overlap predicate that ignores the specs' offsets (DESIGN.md §9 item 1)
\* must be rejected.
SPECIFICATION Spec
CONSTANTS
  LogArch = 6
  LogUnit = 2
  LogGlobalRatio = 1
  LogLocalRatio = 1
  MaxOff = 12
  MaxSpecs = 2
  Overlap <- OverlapIgnoringOffset
INVARIANTS
  OverlapIsIntersection
  SanityIsDisjointness
CHECK_DEADLOCK FALSE
