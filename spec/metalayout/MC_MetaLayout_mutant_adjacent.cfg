\* Vacuity control: treating adjacent tables as overlapping must be rejected.
SPECIFICATION Spec
CONSTANTS
  LogArch = 6
  LogUnit = 2
  LogGlobalRatio = 1
  LogLocalRatio = 1
  MaxOff = 12
  MaxSpecs = 2
  Overlap <- OverlapInclusive
INVARIANTS
  OverlapIsIntersection
CHECK_DEADLOCK FALSE
