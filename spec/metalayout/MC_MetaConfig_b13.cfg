\* (Immix block size of the feature immix_smaller_block) The documented 64-bit layout (local tables after all global tables incl. the VM's): every placement
\* of the VM's per-object metadata (2 x 65 ordered subsets) with the real table shapes.
SPECIFICATION CSpec
CONSTANTS
  LogArch = 47
  LogUnit = 20
  LogGlobalRatio = 1
  LogLocalRatio = 1
  MaxOff = 0
  MaxSpecs = 0
  ImmixBlockLog = 13
  LocalBaseRule = "after_all_globals"
  OffsetRule = "offset_after"
INVARIANTS
  AllRangesDisjoint
  AllAligned
  AllInside
  ChainsAscending
  SameKindDisjoint
CHECK_DEADLOCK FALSE
