--------------------------------- MODULE MetaConfig ---------------------------------
(* C24. The side-metadata tables one configuration uses never alias and lie inside the reserved     *)
(* side-metadata range. Extends MetaLayout (ranges, Overlap, wide arithmetic) by the layout rules   *)
(* of src/util/metadata/side_metadata/{spec_defs,layout,global}.rs and src/vm/object_model.rs:      *)
(*   OffsetAfter(s)  = AlignUp(s.off + RangeSize(s), 8)               (side_metadata_offset_after)   *)
(*   core global chain: first at 0, each next at OffsetAfter(previous) (define_side_metadata_specs!) *)
(*   core local chain : first at LocalBase, each next at OffsetAfter(previous)                      *)
(*   VM global chain  : side_first() at VMGlobalBase, side_after(p) at OffsetAfter(p)               *)
(*   VM local chain   : side_first() at VMLocalBase,  side_after(p) at OffsetAfter(p)               *)
(*   VMGlobalBase = End(last core global), VMLocalBase = End(last core local)                       *)
(* The documented layout (util/metadata/mod.rs, "64-bits targets") puts the local tables after the  *)
(* end of ALL global tables including the VM's; the implementation on 64-bit targets starts the     *)
(* core local chain at OffsetAfter(last core global) = the very offset the first VM global table    *)
(* gets (DESIGN.md section 9 item 6). `LocalBaseRule` selects which of the two is modelled.          *)
(*                                                                                                  *)
(* A configuration is: which of the VM's per-object metadata are on the side (the forwarding        *)
(* pointer never is), the declaration order of the local ones, and the set of *uses*               *)
(*   [spec, lo, hi]   the spec is read/written for data addresses in [lo, hi)                       *)
(* (a global spec is used for every space of the plan, a local spec for the spaces of its policy).  *)
(* Metadata address of data address d under spec s (helpers.rs address_to_contiguous_meta_address): *)
(*   base + s.off + (d >> Ratio(s)).                                                                *)
(* NoAlias is stated in two strengths:                                                             *)
(*   RangesDisjoint  the whole tables [off, off + RangeSize) of any two distinct specs in use are   *)
(*                   disjoint (the property as worded; what the layout macros promise);             *)
(*   NoEffectiveAlias the parts of the tables that can actually be addressed through the uses       *)
(*                   [off + (lo >> ratio), off + (hi >> ratio)) are disjoint (what decides whether  *)
(*                   two tables can really corrupt each other given the spaces' address ranges).    *)
EXTENDS MetaLayout

\* ---- more wide arithmetic --------------------------------------------------------------------------
WMax(x, y) == IF WGe(x, y) THEN x ELSE y
WLt(x, y)  == ~WGe(x, y)
\* AlignUp(x, 8) (8 divides U)
WAlign8(x) == Wide(x.h, ((x.l + 7) \div 8) * 8)
\* floor(x / 2^r)
WShr(x, r) ==
    IF r = 0 THEN x
    ELSE IF r <= LogUnit
    THEN [h |-> x.h \div (2 ^ r), l |-> (x.h % (2 ^ r)) * (2 ^ (LogUnit - r)) + x.l \div (2 ^ r)]
    ELSE Wide(0, x.h \div (2 ^ (r - LogUnit)))
\* ceil(x / 2^r)
WShrUp(x, r) ==
    LET f == WShr(x, r)
        exact == IF r = 0 THEN TRUE
                 ELSE IF r <= LogUnit THEN x.l % (2 ^ r) = 0
                 ELSE x.l = 0 /\ x.h % (2 ^ (r - LogUnit)) = 0
    IN  IF exact THEN f ELSE WAdd(f, [h |-> 0, l |-> 1])

OffsetAfter(s) == WAlign8(End(s))
\* lay a sequence of shapes [n, g, lb, lr] out as a chain starting at `base`
RECURSIVE Chain(_, _, _)
Chain(shapes, base, k) ==        \* the first k specs of the chain
    IF k = 0 THEN << >>
    ELSE LET prev == Chain(shapes, base, k - 1)
             off  == IF k = 1 THEN base ELSE OffsetAfter(prev[k - 1])
         IN  Append(prev, [n |-> shapes[k].n, g |-> shapes[k].g, off |-> off,
                           lb |-> shapes[k].lb, lr |-> shapes[k].lr])
ChainOf(shapes, base) == Chain(shapes, base, Len(shapes))
ChainEnd(chain, base) == IF Len(chain) = 0 THEN base ELSE End(chain[Len(chain)])

\* ---- uses -------------------------------------------------------------------------------------------
SameTable(s1, s2) == s1.off = s2.off /\ s1.lb = s2.lb /\ s1.lr = s2.lr
EffStart(u) == WAdd(u.s.off, WShr(u.lo, Ratio(u.s)))
EffEnd(u)   == WAdd(u.s.off, WShrUp(u.hi, Ratio(u.s)))
EffOverlap(u1, u2) == ~(WGe(EffStart(u1), EffEnd(u2)) \/ WGe(EffStart(u2), EffEnd(u1)))
DataOverlap(u1, u2) == ~(WGe(u1.lo, u2.hi) \/ WGe(u2.lo, u1.hi))
\* two uses alias iff they can address a common metadata byte without being the same table used
\* for different data
Alias(u1, u2) == IF SameTable(u1.s, u2.s) THEN FALSE ELSE EffOverlap(u1, u2)
RangesDisjoint(S) == \A s1 \in S : \A s2 \in S : SameTable(s1, s2) \/ ~Overlap(s1, s2)
NoEffectiveAlias(Us) == \A u1 \in Us : \A u2 \in Us : ~Alias(u1, u2)
InsideReservation(S, reserved) == \A s \in S : WLe(End(s), reserved)

\* ================================================================================================
\* Model checking: the real table shapes (LogArch = 47, LogUnit = 20), every placement of the VM's
\* per-object metadata (side / header) and every declaration order.
\* ================================================================================================
CONSTANTS ImmixBlockLog,   \* 15 (13: feature immix_smaller_block)
          LocalBaseRule,   \* "after_last_core_global" (implemented on 64-bit) | "after_all_globals" (documented)
          OffsetRule       \* "offset_after" | a broken variant (vacuity control)
VARIABLE conf              \* [logSide, order]: the VM declaration

Sh(n, g, lb, lr) == [n |-> n, g |-> g, lb |-> lb, lr |-> lr]
CoreGlobalShapes == << Sh("VO_BIT", TRUE, 0, 3), Sh("SFT_DENSE_CHUNK_MAP_INDEX", TRUE, 3, 22),
                       Sh("CHUNK_MARK", TRUE, 3, 22) >>
\* b = log2 of the Immix block size: 15, or 13 with the feature immix_smaller_block
CoreLocalShapesB(b) ==
    << Sh("MALLOC_MS_ACTIVE_PAGE", FALSE, 3, 12), Sh("MS_OFFSET_MALLOC", FALSE, 0, 3),
       Sh("IX_LINE_MARK", FALSE, 3, 8), Sh("IX_BLOCK_DEFRAG", FALSE, 3, b),
       Sh("IX_BLOCK_MARK", FALSE, 3, b), Sh("MS_BLOCK_MARK", FALSE, 3, 16),
       Sh("MS_BLOCK_NEXT", FALSE, 6, 16), Sh("MS_BLOCK_PREV", FALSE, 6, 16),
       Sh("MS_BLOCK_LIST", FALSE, 6, 16), Sh("MS_BLOCK_SIZE", FALSE, 6, 16),
       Sh("MS_BLOCK_TLS", FALSE, 6, 16), Sh("MS_FREE", FALSE, 6, 16),
       Sh("MS_LOCAL_FREE", FALSE, 6, 16), Sh("MS_THREAD_FREE", FALSE, 6, 16),
       Sh("COMPRESSOR_MARK", FALSE, 0, 3), Sh("COMPRESSOR_OFFSET_VECTOR", FALSE, 6, 9) >>
CoreLocalShapes == CoreLocalShapesB(ImmixBlockLog)
VMLogShape == Sh("VMGlobalLogBitSpec", TRUE, 0, 3)
VMLocalShape(n) ==
    CASE n = "fwdbits" -> Sh("VMLocalForwardingBitsSpec", FALSE, 1, 3)
      [] n = "mark"    -> Sh("VMLocalMarkBitSpec", FALSE, 0, 3)
      [] n = "pin"     -> Sh("VMLocalPinningBitSpec", FALSE, 0, 3)
      [] n = "losmark" -> Sh("VMLocalLOSMarkNurserySpec", FALSE, 1, 12)
VMLocalNames == {"fwdbits", "mark", "pin", "losmark"}

\* a broken chain rule: the next offset computed from the size only, forgetting the spec's own offset
OffsetAfterM(s) == IF OffsetRule = "offset_after" THEN OffsetAfter(s) ELSE WAlign8(RangeSize(s))
RECURSIVE ChainM(_, _, _)
ChainM(shapes, base, k) ==
    IF k = 0 THEN << >>
    ELSE LET prev == ChainM(shapes, base, k - 1)
             off  == IF k = 1 THEN base ELSE OffsetAfterM(prev[k - 1])
         IN  Append(prev, [n |-> shapes[k].n, g |-> shapes[k].g, off |-> off,
                           lb |-> shapes[k].lb, lr |-> shapes[k].lr])

\* the four chains of a declaration
CoreG == ChainM(CoreGlobalShapes, WZero, Len(CoreGlobalShapes))
VMGBase == ChainEnd(CoreG, WZero)
VMG(c) == IF c.logSide THEN ChainM(<<VMLogShape>>, VMGBase, 1) ELSE << >>
LocalBase(c) == IF LocalBaseRule = "after_all_globals"
                THEN WAlign8(ChainEnd(VMG(c), VMGBase))
                ELSE OffsetAfterM(CoreG[Len(CoreG)])
CoreL(c) == ChainM(CoreLocalShapes, LocalBase(c), Len(CoreLocalShapes))
VMLBase(c) == ChainEnd(CoreL(c), LocalBase(c))
VML(c) == ChainM([i \in 1..Len(c.order) |-> VMLocalShape(c.order[i])], VMLBase(c), Len(c.order))
AllSpecs(c) == SeqSet(CoreG) \cup SeqSet(VMG(c)) \cup SeqSet(CoreL(c)) \cup SeqSet(VML(c))
Reserved(c) == WMax(ChainEnd(CoreL(c), LocalBase(c)),
                    WMax(ChainEnd(VMG(c), VMGBase), ChainEnd(VML(c), VMLBase(c))))

\* all sequences without repetition over subsets of S
RECURSIVE Orders(_)
Orders(S) == {<< >>} \cup UNION { { <<x>> \o q : q \in Orders(S \ {x}) } : x \in S }

CInit == /\ conf \in [logSide : BOOLEAN, order : Orders(VMLocalNames)]
         /\ ss = << >>
CNext == UNCHANGED <<conf, ss>>
CSpec == CInit /\ [][CNext]_<<conf, ss>>

\* every table of every chain has its own range, 8-byte aligned, inside the reservation
AllRangesDisjoint == RangesDisjoint(AllSpecs(conf))
AllAligned        == \A s \in AllSpecs(conf) : s.off.l % 8 = 0 /\ WellFormed(s)
AllInside         == InsideReservation(AllSpecs(conf), Reserved(conf))
\* chains are in ascending order with no gap larger than the alignment
ChainsAscending ==
    \A q \in {CoreG, VMG(conf), CoreL(conf), VML(conf)} :
        \A i \in 1..(Len(q) - 1) : q[i + 1].off = WAlign8(End(q[i]))
\* the part of the property that does hold for the implemented rule: tables of the same kind
\* (global with global, local with local) never share a range
SameKindDisjoint ==
    /\ RangesDisjoint(SeqSet(CoreG) \cup SeqSet(VMG(conf)))
    /\ RangesDisjoint(SeqSet(CoreL(conf)) \cup SeqSet(VML(conf)))
=====================================================================================
