\* 2^6 metadata addresses, wide numbers in base 4, offsets 0..12, 9 table shapes (sizes 2^1..2^5),
\* global and local: every sequence of up to 2 distinct specs
SPECIFICATION Spec
CONSTANTS
  LogArch = 6
  LogUnit = 2
  LogGlobalRatio = 1
  LogLocalRatio = 1
  MaxOff = 12
  MaxSpecs = 2
INVARIANTS
  OverlapIsIntersection
  SanityIsDisjointness
  WideArithmeticExact
CHECK_DEADLOCK FALSE
