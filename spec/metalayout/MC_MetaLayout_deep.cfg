\* thorough: every sequence of up to 3 distinct specs, offsets 0..7
SPECIFICATION Spec
CONSTANTS
  LogArch = 5
  LogUnit = 2
  LogGlobalRatio = 1
  LogLocalRatio = 1
  MaxOff = 7
  MaxSpecs = 3
INVARIANTS
  OverlapIsIntersection
  SanityIsDisjointness
  WideArithmeticExact
CHECK_DEADLOCK FALSE
