\* The implemented 64-bit layout (core local chain starts right after the last core global table):
\* what holds for every VM declaration is disjointness within the global and within the local tables.
SPECIFICATION CSpec
CONSTANTS
  LogArch = 47
  LogUnit = 20
  LogGlobalRatio = 1
  LogLocalRatio = 1
  MaxOff = 0
  MaxSpecs = 0
  ImmixBlockLog = 15
  LocalBaseRule = "after_last_core_global"
  OffsetRule = "offset_after"
INVARIANTS
  AllAligned
  AllInside
  ChainsAscending
  SameKindDisjoint
CHECK_DEADLOCK FALSE
