\* Vacuity control: a chain rule that forgets the previous table's own offset must be rejected.
SPECIFICATION CSpec
CONSTANTS
  LogArch = 47
  LogUnit = 20
  LogGlobalRatio = 1
  LogLocalRatio = 1
  MaxOff = 0
  MaxSpecs = 0
  ImmixBlockLog = 15
  LocalBaseRule = "after_all_globals"
  OffsetRule = "size_only"
INVARIANTS
  AllRangesDisjoint
CHECK_DEADLOCK FALSE
