------------------------------- MODULE Trace_Sanity -------------------------------
(* C25. Validates calls of the real side-metadata sanity checking (harness/d_header, sub-command    *)
(* `sanity`) against MetaLayout with LogArch = 47, LogUnit = 20. Independent rows:                  *)
(*   {"ev":"Pair","i":n,"s1":S,"s2":S,"ok":b}      b = verify_no_overlap_contiguous(s1,s2).is_ok()  *)
(*   {"ev":"Ctx","i":n,"ctxs":[{"p":policy,"g":[S..],"l":[S..]}..],"accepted":b,"msg":..}          *)
(*        b = a fresh SideMetadataSanity accepted verify_metadata_context(p, g, l) for every entry  *)
(*   S = {"n":name,"g":global?,"oh":offset div 2^20,"ol":offset mod 2^20,"lb":..,"lr":..}          *)
(* A Pair row is accepted iff ok <=> ~Overlap(s1, s2); a Ctx row iff accepted <=>                   *)
(* SanityAccepts(global specs, union of the local specs). Rows violating the generator constraints  *)
(* (ill-formed specs, local specs in a global list, differing global lists, a list naming a spec    *)
(* twice) are reported as class `generator`.                                                        *)
(* Rejected rows are printed as `ROW_REJECTED l=<line> tag=<class>`:                     *)
(*   accepts-overlap.offset_ignored  the real check accepted an overlapping set and its verdict is  *)
(*        the one obtained when range ends are computed without the specs' own offsets (DESIGN.md  *)
(*        §9 item 1: end = base + RangeSize instead of base + offset + RangeSize);                  *)
(*   accepts-overlap / rejects-disjoint  any other disagreement.                                    *)
EXTENDS MetaLayout, Json, IOUtils, TLC

Rec == ndJsonDeserialize(IOEnv.TRACE)
VARIABLE l

S(j) == [n |-> j.n, g |-> j.g, off |-> [h |-> j.oh, l |-> j.ol], lb |-> j.lb, lr |-> j.lr]
Specs(q) == [i \in 1..Len(q) |-> S(q[i])]
NoDup(q) == \A i \in 1..Len(q) : \A j \in 1..Len(q) : i # j => q[i] # q[j]

\* the verdict of the deviating check: every Overlap replaced by OverlapIgnoringOffset
DevNoPairOverlaps(X) == \A s1 \in X : \A s2 \in X : s1 # s2 => ~OverlapIgnoringOffset(s1, s2)
DevSanityAccepts(G, L) ==
    /\ GlobalTotalFits(G) /\ DevNoPairOverlaps(SeqSet(G))
    /\ \A s \in L : LocalFits(s)
    /\ DevNoPairOverlaps(L)

Verdict(impl, spec, dev) ==
    IF impl = spec THEN "ok"
    ELSE IF impl /\ ~spec THEN (IF impl = dev THEN "accepts-overlap.offset_ignored"
                                ELSE "accepts-overlap")
    ELSE "rejects-disjoint"

WhyPair(r) ==
    LET s1 == S(r.s1)
        s2 == S(r.s2)
    IN  IF ~(WellFormed(s1) /\ WellFormed(s2)) THEN "generator"
        ELSE Verdict(r.ok, ~Overlap(s1, s2), ~OverlapIgnoringOffset(s1, s2))

WhyCtx(r) ==
    LET n  == Len(r.ctxs)
        G  == Specs(r.ctxs[1].g)
        L  == UNION { SeqSet(Specs(r.ctxs[i].l)) : i \in 1..n }
        wf == /\ n >= 1
              /\ \A i \in 1..n : Specs(r.ctxs[i].g) = G /\ NoDup(Specs(r.ctxs[i].l))
              /\ NoDup(G)
              /\ \A s \in SeqSet(G) : WellFormed(s) /\ s.g
              /\ \A s \in L : WellFormed(s) /\ ~s.g
    IN  IF ~wf THEN "generator"
        ELSE Verdict(r.accepted, SanityAccepts(G, L), DevSanityAccepts(G, L))

Why(r) == IF r.ev = "Pair" THEN WhyPair(r)
          ELSE IF r.ev = "Ctx" THEN WhyCtx(r)
          ELSE "crash"

TInit == l = 1
TNext == /\ l <= Len(Rec)
         /\ LET why == Why(Rec[l])
            IN  IF why = "ok" THEN TRUE
                ELSE PrintT("ROW_REJECTED l=" \o ToString(l) \o " tag=" \o why)
         /\ l' = l + 1
         /\ UNCHANGED ss
TraceSpec == TInit /\ ss = << >> /\ [][TNext]_<<l, ss>>

Accepted ==
    LET d == TLCGet("stats").diameter
    IN  IF d = Len(Rec) + 1 THEN TRUE
        ELSE /\ PrintT("TRACE_REJECTED matched=" \o ToString(d - 1) \o " of=" \o ToString(Len(Rec)))
             /\ FALSE
======================================================================================
