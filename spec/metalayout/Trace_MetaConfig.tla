------------------------------ MODULE Trace_MetaConfig ------------------------------
(* C24 binding. One row per configuration (plan x feature build x ShadowVM placement variant):      *)
(* `gcdrive --mode layout` boots the plan and logs, through the accessor hooks of                   *)
(* /repo/src/verif_space.rs, the core spec chains, the VM's declaration, the reserved side-metadata *)
(* range and, for every space of the plan, its address range and its SideMetadataContext:           *)
(*   {"ev":"Layout","plan":..,"placement":P,"features":..,"resBytes":W,"coreG":[S..],"coreL":[S..],*)
(*    "vmGBase":W,"vmLBase":W,"vm":[{"n":role,"side":b,"s":S}..],"vmLocalOrder":[role..],           *)
(*    "spaces":[{"n":..,"lo":W,"hi":W,"g":[S..],"l":[S..]}..]}                                       *)
(*   S = {"n","g","oh","ol","lb","lr"} (offset = oh * 2^20 + ol), W = [h, l] likewise.              *)
(* Nothing of the spec's own tables is trusted: the row is checked for                              *)
(*   core-table / chain-core / vm-base / chain-vm : the logged offsets are what the layout rules of  *)
(*        MetaConfig compute (implemented rule: core local chain after the last core global)        *)
(*   range-overlap : the tables in use have pairwise disjoint ranges                                *)
(*   alias         : no two uses can address a common metadata byte                                 *)
(*   outside-reservation : every table in use ends inside the reserved range                        *)
(* and, when everything the VM can put on the side is on the side (placement 0), the same three     *)
(* for EVERY other declaration of the VM's metadata (in header / on the side, every declaration     *)
(* order), recomputed with the chain rules (tags hyp-..): the finite configuration space.        *)
EXTENDS MetaConfig, Json, IOUtils, TLC

Rec == ndJsonDeserialize(IOEnv.TRACE)
VARIABLE l

W(j) == [h |-> j[1], l |-> j[2]]
S(j) == [n |-> j.n, g |-> j.g, off |-> [h |-> j.oh, l |-> j.ol], lb |-> j.lb, lr |-> j.lr]
Specs(q) == [i \in 1..Len(q) |-> S(q[i])]
ShapeOf(s) == [n |-> s.n, g |-> s.g, lb |-> s.lb, lr |-> s.lr]
Shapes(q) == [i \in 1..Len(q) |-> ShapeOf(q[i])]

VMSpecNames == {"VMGlobalLogBitSpec", "VMLocalForwardingBitsSpec", "VMLocalMarkBitSpec",
                "VMLocalPinningBitSpec", "VMLocalLOSMarkNurserySpec"}
RoleOfName(n) == CASE n = "VMGlobalLogBitSpec" -> "log"
                   [] n = "VMLocalForwardingBitsSpec" -> "fwdbits"
                   [] n = "VMLocalMarkBitSpec" -> "mark"
                   [] n = "VMLocalPinningBitSpec" -> "pin"
                   [] n = "VMLocalLOSMarkNurserySpec" -> "losmark"
                   [] OTHER -> "core"

\* uses of a row: every spec of every space's context, for the data range of the space
UsesOf(e) ==
    UNION { { [s |-> S(e.spaces[i].g[j]), lo |-> W(e.spaces[i].lo), hi |-> W(e.spaces[i].hi), sp |-> e.spaces[i].n]
                : j \in 1..Len(e.spaces[i].g) }
            \cup { [s |-> S(e.spaces[i].l[j]), lo |-> W(e.spaces[i].lo), hi |-> W(e.spaces[i].hi), sp |-> e.spaces[i].n]
                : j \in 1..Len(e.spaces[i].l) }
            : i \in 1..Len(e.spaces) }
TablesOf(Us) == { u.s : u \in Us }

\* ---- (a) the logged offsets follow the layout rules ------------------------------------------------
CoreG_(e) == Specs(e.coreG)
CoreL_(e) == Specs(e.coreL)
CoreTableOK(e) == /\ Shapes(CoreG_(e)) = CoreGlobalShapes
                  /\ \E b \in {13, 15} : Shapes(CoreL_(e)) = CoreLocalShapesB(b)
ChainCoreOK(e) ==
    /\ CoreG_(e) = ChainOf(Shapes(CoreG_(e)), WZero)
    /\ CoreL_(e) = ChainOf(Shapes(CoreL_(e)), OffsetAfter(CoreG_(e)[Len(CoreG_(e))]))
VMBaseOK(e) ==
    /\ W(e.vmGBase) = End(CoreG_(e)[Len(CoreG_(e))])
    /\ W(e.vmLBase) = End(CoreL_(e)[Len(CoreL_(e))])
VMEntry(e, role) == CHOOSE x \in { e.vm[i] : i \in 1..Len(e.vm) } : x.n = role
ChainVMOK(e) ==
    /\ VMEntry(e, "log").side =>
         S(VMEntry(e, "log").s) = ChainOf(<<VMLogShape>>, W(e.vmGBase))[1]
    /\ LET ord == e.vmLocalOrder
           logged == [i \in 1..Len(ord) |-> S(VMEntry(e, ord[i]).s)]
       IN  /\ \A i \in 1..Len(ord) : VMEntry(e, ord[i]).side
           /\ logged = ChainOf([i \in 1..Len(ord) |-> VMLocalShape(ord[i])], W(e.vmLBase))
           \* the specs not in the declared side order are in the header
           /\ \A i \in 1..Len(e.vm) :
                (e.vm[i].n \notin {"log", "fwdptr"} /\ e.vm[i].n \notin { ord[k] : k \in 1..Len(ord) })
                    => ~e.vm[i].side
    /\ ~VMEntry(e, "fwdptr").side

\* ---- (b) the tables in use -------------------------------------------------------------------------
WellFormedUses(Us) == \A u \in Us : WellFormed(u.s) /\ WLt(u.lo, u.hi)
BadPair(T) == CHOOSE p \in { <<a, b>> \in T \X T : ~SameTable(a, b) /\ Overlap(a, b) } : TRUE
OverlapTag(T) == LET p == BadPair(T) IN p[1].n \o "~" \o p[2].n
AliasPair(Us) == CHOOSE p \in { <<a, b>> \in Us \X Us : Alias(a, b) } : TRUE
AliasTag(Us) == LET p == AliasPair(Us) IN p[1].s.n \o "@" \o p[1].sp \o "~" \o p[2].s.n \o "@" \o p[2].sp

\* ---- (c) every other declaration of the VM's metadata ----------------------------------------------
\* the VM chains of declaration c, laid out from the logged bases
HypVMG(e, c) == IF c.logSide THEN ChainOf(<<VMLogShape>>, W(e.vmGBase)) ELSE << >>
HypVML(e, c) == ChainOf([i \in 1..Len(c.order) |-> VMLocalShape(c.order[i])], W(e.vmLBase))
HypSpec(e, c, s) ==      \* the table that replaces logged table s under declaration c ({} = in the header)
    LET role == RoleOfName(s.n)
    IN  IF role = "core" THEN {s}
        ELSE IF role = "log" THEN (IF c.logSide THEN {HypVMG(e, c)[1]} ELSE {})
        ELSE LET ix == { i \in 1..Len(c.order) : c.order[i] = role }
             IN  IF ix = {} THEN {} ELSE {HypVML(e, c)[CHOOSE i \in ix : TRUE]}
HypUses(e, c) == UNION { { [u EXCEPT !.s = t] : t \in HypSpec(e, c, u.s) } : u \in UsesOf(e) }
HypReserved(e, c) ==
    WMax(End(CoreL_(e)[Len(CoreL_(e))]),
         WMax(ChainEnd(HypVMG(e, c), W(e.vmGBase)), ChainEnd(HypVML(e, c), W(e.vmLBase))))
LocalRolesIn(e) == { e.vm[i].n : i \in { k \in 1..Len(e.vm) : e.vm[k].n \notin {"log", "fwdptr"} } }
HypDecls(e) == [logSide : BOOLEAN, order : Orders(LocalRolesIn(e))]
OrdTag(c) == (IF c.logSide THEN "logS" ELSE "logH") \o
             (IF Len(c.order) = 0 THEN "" ELSE "," \o c.order[1]) \o
             (IF Len(c.order) > 1 THEN "," \o c.order[2] ELSE "") \o
             (IF Len(c.order) > 2 THEN "," \o c.order[3] ELSE "") \o
             (IF Len(c.order) > 3 THEN "," \o c.order[4] ELSE "")
AllOnSide(e) == \A i \in 1..Len(e.vm) : e.vm[i].n = "fwdptr" \/ e.vm[i].side
HypBadOverlap(e) == { c \in HypDecls(e) : ~RangesDisjoint(TablesOf(HypUses(e, c))) }
HypBadAlias(e)   == { c \in HypDecls(e) : ~NoEffectiveAlias(HypUses(e, c)) }
HypBadInside(e)  == { c \in HypDecls(e) : ~InsideReservation(TablesOf(HypUses(e, c)), HypReserved(e, c)) }

Rej(tag) == PrintT("ROW_REJECTED l=" \o ToString(l) \o " tag=" \o tag)
G(tag, cond) == IF cond THEN TRUE ELSE Rej(tag)

RowOK(e) ==
    LET Us == UsesOf(e)
        T  == TablesOf(Us)
    IN  /\ G("C24:core-table", CoreTableOK(e))
        /\ G("C24:chain-core", ChainCoreOK(e))
        /\ G("C24:vm-base", VMBaseOK(e))
        /\ G("C24:chain-vm", ChainVMOK(e))
        /\ G("C24:malformed-context", WellFormedUses(Us))
        /\ IF RangesDisjoint(T) THEN TRUE ELSE Rej("C24:range-overlap:" \o OverlapTag(T))
        /\ IF NoEffectiveAlias(Us) THEN TRUE ELSE Rej("C24:alias:" \o AliasTag(Us))
        /\ G("C24:outside-reservation", InsideReservation(T, W(e.resBytes)))
        /\ IF e.placement = 0 /\ AllOnSide(e)
           THEN /\ LET B == HypBadOverlap(e)
                   IN  IF B = {} THEN TRUE
                       ELSE LET c == CHOOSE x \in B : TRUE
                            IN  Rej("C24:hyp-range-overlap:" \o OverlapTag(TablesOf(HypUses(e, c)))
                                    \o ":" \o OrdTag(c))
                /\ LET B == HypBadAlias(e)
                   IN  IF B = {} THEN TRUE
                       ELSE LET c == CHOOSE x \in B : TRUE
                            IN  Rej("C24:hyp-alias:" \o AliasTag(HypUses(e, c)) \o ":" \o OrdTag(c))
                /\ G("C24:hyp-outside-reservation", HypBadInside(e) = {})
                /\ PrintT("HYP_DECLS l=" \o ToString(l) \o " n=" \o ToString(Cardinality(HypDecls(e))))
           ELSE TRUE

TInit == l = 1
TNext == /\ l <= Len(Rec)
         /\ LET e == Rec[l]
            IN  IF e.ev = "Layout" THEN RowOK(e)
                ELSE IF e.ev = "Crash" THEN Rej("crash") ELSE TRUE
         /\ l' = l + 1
         /\ UNCHANGED <<ss, conf>>
TraceSpec == TInit /\ ss = << >> /\ conf = [logSide |-> FALSE, order |-> << >>]
             /\ [][TNext]_<<l, ss, conf>>

Accepted ==
    LET d == TLCGet("stats").diameter
    IN  IF d = Len(Rec) + 1 THEN TRUE
        ELSE /\ PrintT("TRACE_REJECTED matched=" \o ToString(d - 1) \o " of=" \o ToString(Len(Rec)))
             /\ FALSE
=====================================================================================
