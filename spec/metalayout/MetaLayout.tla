--------------------------------- MODULE MetaLayout ---------------------------------
(* Side-metadata address layout (src/util/metadata/side_metadata/{global,helpers,layout}.rs) and    *)
(* C25: the side-metadata sanity check (sanity.rs) rejects exactly the overlapping spec sets.       *)
(* (C24 - tables used by one configuration never alias - extends this module.)                      *)
(*                                                                                                  *)
(* A side spec s = [n: name, g: global?, off: offset from the side-metadata base, lb:                *)
(* log_num_of_bits, lr: log_bytes_in_region]. Contiguous side metadata (all of it on 64-bit)        *)
(* occupies the addresses base + off .. base + off + RangeSize(s) - 1 with                          *)
(*   RangeSize(s) = 2^(LogArch - ratio(s)),  ratio(s) = lr + 3 - lb   (helpers.rs:                  *)
(*   metadata_address_range_size / log_data_meta_ratio).                                            *)
(*                                                                                                  *)
(* Offsets and sizes reach 2^48, TLC integers are 32-bit: quantities are "wide" numbers             *)
(* [h, l] = h * 2^LogUnit + l with 0 <= l < 2^LogUnit. The model checker runs with a small          *)
(* LogArch / LogUnit and checks the wide arithmetic against plain integers and the interval          *)
(* predicate against address *sets*.                                                                *)
EXTENDS Integers, Sequences, FiniteSets

CONSTANTS LogArch,         \* log2 of the address space covered by side metadata (47)
          LogUnit,         \* wide numbers are h * 2^LogUnit + l (20)
          LogGlobalRatio,  \* all global tables together must fit 2^(LogArch - LogGlobalRatio) (1)
          LogLocalRatio    \* each local table must fit 2^(LogArch - LogLocalRatio) (1)

\* ---- wide naturals --------------------------------------------------------------------------------
U == 2 ^ LogUnit
Wide(h, l)  == [h |-> h + (l \div U), l |-> l % U]
WAdd(x, y)  == Wide(x.h + y.h, x.l + y.l)
WGe(x, y)   == x.h > y.h \/ (x.h = y.h /\ x.l >= y.l)
WLe(x, y)   == WGe(y, x)
WPow2(e)    == IF e >= LogUnit THEN [h |-> 2 ^ (e - LogUnit), l |-> 0] ELSE [h |-> 0, l |-> 2 ^ e]
WZero       == [h |-> 0, l |-> 0]
RECURSIVE WSumSeq(_, _)
WSumSeq(xs, n) == IF n = 0 THEN WZero ELSE WAdd(WSumSeq(xs, n - 1), xs[n])

\* ---- ranges ---------------------------------------------------------------------------------------
Ratio(s)     == s.lr + 3 - s.lb                    \* log2(data bytes per metadata byte)
WellFormed(s) == /\ s.lb \in 0..6 /\ s.lr >= 0
                 /\ Ratio(s) >= 0 /\ Ratio(s) <= LogArch
                 /\ s.off.h >= 0 /\ s.off.l \in 0..(U - 1)
LogRange(s)  == LogArch - Ratio(s)
RangeSize(s) == WPow2(LogRange(s))
Start(s)     == s.off
End(s)       == WAdd(s.off, RangeSize(s))          \* exclusive
\* two address ranges overlap iff neither starts at or after the end of the other
Overlap(s1, s2) == ~(WGe(Start(s1), End(s2)) \/ WGe(Start(s2), End(s1)))

\* ---- the sanity check (C25) -----------------------------------------------------------------------
\* G: the global specs of the plan (a sequence: verify_global_specs_total_size adds them up as
\* given), L: the set of distinct local specs of all policies of the plan.
SeqSet(q) == { q[i] : i \in 1..Len(q) }
NoPairOverlaps(S) == \A s1 \in S : \A s2 \in S : s1 # s2 => ~Overlap(s1, s2)
GlobalTotalFits(G) ==
    WLe(WSumSeq([i \in 1..Len(G) |-> RangeSize(G[i])], Len(G)), WPow2(LogArch - LogGlobalRatio))
LocalFits(s) == LogRange(s) <= LogArch - LogLocalRatio
SanityAccepts(G, L) ==
    /\ GlobalTotalFits(G)
    /\ NoPairOverlaps(SeqSet(G))
    /\ \A s \in L : LocalFits(s)
    /\ NoPairOverlaps(L)

\* ================================================================================================
\* Model checking: small constants, every pair / triple of specs from a small universe.
\* ================================================================================================
CONSTANTS MaxOff,     \* offsets 0..MaxOff
          MaxSpecs    \* spec sets of up to MaxSpecs specs
VARIABLE ss           \* the sequence of specs declared so far (globals and locals mixed)

WVal(x) == x.h * U + x.l
FromInt(n) == Wide(0, n)
Universe ==
    { [n |-> "s", g |-> g, off |-> FromInt(o), lb |-> lb, lr |-> lr] :
        g \in BOOLEAN, o \in 0..MaxOff, lb \in 0..2, lr \in 0..2 }
Addrs(s) == WVal(s.off)..(WVal(s.off) + 2 ^ LogRange(s) - 1)    \* the range as a set of addresses

Init == ss = << >>
Declare == /\ Len(ss) < MaxSpecs
           /\ \E s \in { u \in Universe : WellFormed(u) } :
                /\ \A i \in 1..Len(ss) : ss[i] # s       \* a list never names a spec twice
                /\ ss' = Append(ss, s)
Next == Declare
Spec == Init /\ [][Next]_ss

Globals == SelectSeq(ss, LAMBDA s : s.g)
Locals  == { ss[i] : i \in { j \in 1..Len(ss) : ~ss[j].g } }

\* the interval predicate is exactly "the two address sets intersect"
OverlapIsIntersection ==
    \A i \in 1..Len(ss) : \A j \in 1..Len(ss) :
        Overlap(ss[i], ss[j]) <=> (Addrs(ss[i]) \cap Addrs(ss[j]) # {})
\* C25 on address sets: accepted iff all global tables are pairwise disjoint, all local tables are
\* pairwise disjoint, and the documented size limits hold
RECURSIVE SumSizes(_, _)
SumSizes(q, n) == IF n = 0 THEN 0 ELSE SumSizes(q, n - 1) + 2 ^ LogRange(q[n])
SanityIsDisjointness ==
    SanityAccepts(Globals, Locals) <=>
        /\ \A i \in 1..Len(ss) : \A j \in 1..Len(ss) :
             (i # j /\ ss[i].g = ss[j].g) => Addrs(ss[i]) \cap Addrs(ss[j]) = {}
        /\ SumSizes(Globals, Len(Globals)) <= 2 ^ (LogArch - LogGlobalRatio)
        /\ \A s \in Locals : 2 ^ LogRange(s) <= 2 ^ (LogArch - LogLocalRatio)
\* wide arithmetic is exact
WideArithmeticExact ==
    \A i \in 1..Len(ss) :
        /\ WVal(End(ss[i])) = WVal(ss[i].off) + 2 ^ LogRange(ss[i])
        /\ WVal(RangeSize(ss[i])) = 2 ^ LogRange(ss[i])
        /\ RangeSize(ss[i]).l \in 0..(U - 1) /\ End(ss[i]).l \in 0..(U - 1)
        /\ \A j \in 1..Len(ss) :
             WGe(End(ss[i]), Start(ss[j])) <=> (WVal(End(ss[i])) >= WVal(ss[j].off))
\* the universe contains overlapping and disjoint, adjacent pairs (vacuity control)
ASSUME UniverseNotVacuous ==
  MaxSpecs = 0 \/      \* (trace validation instantiates the module without a universe)
    /\ \E a \in Universe : \E b \in Universe :
          WellFormed(a) /\ WellFormed(b) /\ a # b /\ Overlap(a, b) /\ WVal(a.off) > 0 /\ WVal(b.off) > 0
    /\ \E a \in Universe : \E b \in Universe :
          WellFormed(a) /\ WellFormed(b) /\ End(a) = Start(b) /\ WVal(a.off) > 0

\* ---- the deviation of DESIGN.md §9 item 1 (also used as a mutant): the end of a range computed
\* ---- without the spec's own offset, i.e. as if every table started at the base address ----------
OverlapIgnoringOffset(s1, s2) ==
    ~(WGe(Start(s1), RangeSize(s2)) \/ WGe(Start(s2), RangeSize(s1)))
\* an off-by-one mutant: adjacent tables count as overlapping
OverlapInclusive(s1, s2) ==
    ~((WGe(Start(s1), End(s2)) /\ Start(s1) # End(s2)) \/ (WGe(Start(s2), End(s1)) /\ Start(s2) # End(s1)))
======================================================================================
