\* Vacuity control and design-level statement of DESIGN.md section 9 item 6: with the implemented local
\* base a VM global side table overlaps core local tables, so "all tables disjoint" must be rejected.
SPECIFICATION CSpec
CONSTANTS
  LogArch = 47
  LogUnit = 20
  LogGlobalRatio = 1
  LogLocalRatio = 1
  MaxOff = 0
  MaxSpecs = 0
  ImmixBlockLog = 15
  LocalBaseRule = "after_last_core_global"
  OffsetRule = "offset_after"
INVARIANTS
  AllRangesDisjoint
CHECK_DEADLOCK FALSE
