SPECIFICATION Spec
CONSTANTS
  Obj = {o1, o2, o3}
  Null = Null
  Stale = Stale
  NF = 1
  Roots = {1, 2}
  Mut = {1}
  ConservativeRegion = TRUE
  WithFlush = FALSE
  Mutant = "none"
SYMMETRY ObjSymmetry
INVARIANTS
  TypeOK
  RemsetSound
  LogInv
  NurseryKeeps
CHECK_DEADLOCK FALSE
