--------------------------------- MODULE GenRemset ---------------------------------
(* C05, design level: generational remembered sets (GenCopy, GenImmix, StickyImmix).               *)
(*                                                                                                 *)
(* Objects are young or old and carry an unlog bit. Mutators (several, interleaved; a reference    *)
(* write is two steps: the store, then the post-write barrier) write references through the object *)
(* barrier and copy arrays through the memory-region-copy barrier; each mutator has a modbuf and a *)
(* region modbuf that are flushed to the collector. A nursery collection traces from the roots,    *)
(* the remembered objects and the remembered slots through young objects only, promotes (and       *)
(* moves) every young survivor and reclaims the other young objects; a slot that still refers to   *)
(* a moved or reclaimed object afterwards holds the value Stale.                                   *)
(*                                                                                                 *)
(*   Store / WriteFast / WriteSlow   src/plan/barriers.rs ObjectBarrier (fast-path test, log_object)*)
(*   RegionCopy                      generational/barrier.rs memory_region_copy_slow               *)
(*   Flush                           generational/barrier.rs flush_modbuf / flush_region_modbuf    *)
(*                                   (buffer full, mutator destroyed; all mutators at every GC)    *)
(*   NurseryGC                       generational/gc_work.rs ProcessModBuf / ProcessRegionModBuf + *)
(*                                   the nursery trace (trace_object_nursery skips mature objects) *)
(*   FullGC                          full-heap trace (ProcessModBuf does nothing)                  *)
(*                                                                                                 *)
(* Deliberate abstractions: no addresses (a moved object is modelled by invalidating the slots     *)
(* that were not visited); every young survivor moves (the strictest case: StickyImmix may leave   *)
(* them in place); ids of reclaimed objects are reused.                                            *)
EXTENDS Naturals, FiniteSets, TLC, RemsetOps

CONSTANTS Obj,      \* object ids (model values; symmetric)
          Null,     \* the null reference
          Stale,    \* value of a slot that still refers to a moved or reclaimed object
          NF,       \* reference fields per object
          Roots,    \* root slots
          Mut,      \* mutators
          ConservativeRegion, \* TRUE: the region barrier remembers young destinations too
                              \* (StickyImmix: is_address_in_nursery is always false)
          WithFlush, \* FALSE: no explicit Flush steps (buffers reach the collector at GCs only);
                     \* used to keep the quick configuration small
          Mutant    \* "none" or the name of a deliberately broken variant (vacuity control)

Flds == 1..NF
Val == Obj \cup {Null, Stale}
Idle == <<>>

VARIABLES alive,       \* allocated, not yet reclaimed objects
          age,         \* Obj -> {"young", "old"}
          unlog,       \* Obj -> {0, 1}
          fields,      \* Obj -> [Flds -> Val]
          roots,       \* Roots -> Val
          modbuf,      \* Mut -> SUBSET Obj      thread-local object modbuf
          regbuf,      \* Mut -> SUBSET Obj  thread-local region modbuf (slices = whole field arrays)
          flushed,     \* objects in ProcessModBuf packets waiting in the Closure bucket
          regflushed,  \* slices in ProcessRegionModBuf packets
          pc           \* Mut -> Idle or <<src, val>>: the store is done, the barrier is not
vars == <<alive, age, unlog, fields, roots, modbuf, regbuf, flushed, regflushed, pc>>

Young == {o \in alive : age[o] = "young"}
Old == {o \in alive : age[o] = "old"}
Remembered == flushed \cup UNION {modbuf[m] : m \in Mut}
RegRemembered == regflushed \cup UNION {regbuf[m] : m \in Mut}
AtSafepoint == \A m \in Mut : pc[m] = Idle
RootVals == {roots[r] : r \in Roots}
Held == RootVals \cap alive               \* what a mutator can name

RECURSIVE Clo(_, _)
\* closure of S under the fields, restricted to objects of Within
Clo(S, Within) ==
    LET N == S \cup ({fields[o][k] : o \in S, k \in Flds} \cap Within)
    IN  IF N = S THEN S ELSE Clo(N, Within)
Reach == Clo(RootVals \cap alive, alive)

Init ==
    /\ alive = {}
    /\ age = [o \in Obj |-> "young"]
    /\ unlog = [o \in Obj |-> 0]
    /\ fields = [o \in Obj |-> [k \in Flds |-> Null]]
    /\ roots = [r \in Roots |-> Null]
    /\ modbuf = [m \in Mut |-> {}]
    /\ regbuf = [m \in Mut |-> {}]
    /\ flushed = {} /\ regflushed = {}
    /\ pc = [m \in Mut |-> Idle]

\* ---- mutator ----------------------------------------------------------------------------------
Alloc(m, r, pretenured) ==
    /\ pc[m] = Idle
    /\ \E o \in Obj \ alive :
        /\ alive' = alive \cup {o}
        /\ age' = [age EXCEPT ![o] = IF pretenured THEN "old" ELSE "young"]
        /\ unlog' = [unlog EXCEPT ![o] =
                        IF Mutant = "pretenured_logged" THEN 0 ELSE UnlogAtAlloc(pretenured)]
        /\ fields' = [fields EXCEPT ![o] = [k \in Flds |-> Null]]
        /\ roots' = [roots EXCEPT ![r] = o]
    /\ UNCHANGED <<modbuf, regbuf, flushed, regflushed, pc>>

\* slot.store(target) - the first half of a reference write
Store(m, src, k, val) ==
    /\ pc[m] = Idle
    /\ src \in Held /\ val \in Held \cup {Null}
    /\ fields' = [fields EXCEPT ![src][k] = val]
    /\ pc' = [pc EXCEPT ![m] = <<src, val>>]
    /\ UNCHANGED <<alive, age, unlog, roots, modbuf, regbuf, flushed, regflushed>>

\* the object the fast path tests
Tested(m) == IF Mutant = "tests_target" THEN pc[m][2] ELSE pc[m][1]
TestedUnlog(m) == IF Tested(m) = Null THEN 0 ELSE unlog[Tested(m)]

\* object_reference_write_post, fast path: the tested object is logged - nothing to do
WriteFast(m) ==
    /\ pc[m] # Idle
    /\ Mutant = "no_barrier" \/ ~TakesSlowPath(TestedUnlog(m))
    /\ pc' = [pc EXCEPT ![m] = Idle]
    /\ UNCHANGED <<alive, age, unlog, fields, roots, modbuf, regbuf, flushed, regflushed>>

\* slow path: log_object(src) exchanges 1 -> 0; the winner pushes src into its modbuf
WriteSlow(m) ==
    /\ pc[m] # Idle
    /\ Mutant # "no_barrier" /\ TakesSlowPath(TestedUnlog(m))
    /\ LET src == pc[m][1] IN
       IF unlog[src] = 1
       THEN /\ unlog' = [unlog EXCEPT ![src] = UnlogAfterWrite(1)]
            /\ modbuf' = [modbuf EXCEPT ![m] = @ \cup {src}]
       ELSE UNCHANGED <<unlog, modbuf>>
    /\ pc' = [pc EXCEPT ![m] = Idle]
    /\ UNCHANGED <<alive, age, fields, roots, regbuf, flushed, regflushed>>

\* memory_region_copy(src slice, dst slice): the field array of d := the field array of s, then
\* the region barrier on the destination slice
RegionCopy(m, s, d) ==
    /\ pc[m] = Idle
    /\ s \in Held /\ d \in Held /\ s # d
    /\ fields' = [fields EXCEPT ![d] = fields[s]]
    /\ LET decisive == IF Mutant = "region_tests_source" THEN s ELSE d
           remember == RegionMustRemember(age[decisive] = "old") \/ ConservativeRegion
       IN  regbuf' = [regbuf EXCEPT ![m] = IF remember THEN @ \cup {d} ELSE @]
    /\ UNCHANGED <<alive, age, unlog, roots, modbuf, flushed, regflushed, pc>>

Load(m, src, k, r) ==
    /\ pc[m] = Idle /\ src \in Held
    /\ roots' = [roots EXCEPT ![r] = fields[src][k]]
    /\ UNCHANGED <<alive, age, unlog, fields, modbuf, regbuf, flushed, regflushed, pc>>

DropRoot(r) ==
    /\ roots[r] # Null
    /\ roots' = [roots EXCEPT ![r] = Null]
    /\ UNCHANGED <<alive, age, unlog, fields, modbuf, regbuf, flushed, regflushed, pc>>

\* buffer full / destroy_mutator: hand the thread-local buffers to the collector
Flush(m) ==
    /\ WithFlush
    /\ pc[m] = Idle
    /\ modbuf[m] # {} \/ regbuf[m] # {}
    /\ flushed' = flushed \cup modbuf[m]
    /\ regflushed' = regflushed \cup regbuf[m]
    /\ modbuf' = [modbuf EXCEPT ![m] = {}]
    /\ regbuf' = [regbuf EXCEPT ![m] = {}]
    /\ UNCHANGED <<alive, age, unlog, fields, roots, pc>>

\* ---- collector --------------------------------------------------------------------------------
\* every collection first flushes every mutator (ScanMutatorRoots -> mutator.flush())
GCFlushed == IF Mutant = "no_flush_at_gc" THEN flushed ELSE Remembered
GCRegFlushed == IF Mutant = "no_flush_at_gc" THEN regflushed ELSE RegRemembered
KeptModbuf == IF Mutant = "no_flush_at_gc" THEN modbuf ELSE [m \in Mut |-> {}]
KeptRegbuf == IF Mutant = "no_flush_at_gc" THEN regbuf ELSE [m \in Mut |-> {}]

NurseryGC ==
    /\ AtSafepoint
    /\ LET proc  == IF Mutant = "skip_modbuf" THEN {} ELSE GCFlushed \cap alive
           pslots == IF Mutant = "skip_modbuf" THEN {} ELSE GCRegFlushed \cap alive
           seeds == (RootVals \cup {fields[o][k] : o \in proc \cup pslots, k \in Flds}) \cap Young
           surv  == Clo(seeds, Young)                      \* mature objects are not traced
           dead  == Young \ surv
           visited(o, k) == o \in surv \/ o \in proc \/ o \in pslots
       IN
       /\ alive' = alive \ dead
       /\ age' = [o \in Obj |-> IF o \in surv THEN "old" ELSE IF o \in dead THEN "young" ELSE age[o]]
       /\ unlog' = [o \in Obj |->
                       IF o \in surv THEN (IF Mutant = "promoted_logged" THEN 0 ELSE UnlogAfterGC)
                       ELSE IF o \in dead THEN 0
                       ELSE IF o \in proc /\ Mutant # "no_reset" THEN UnlogAfterGC
                       ELSE unlog[o]]
       /\ fields' = [o \in Obj |->
                       IF o \in dead THEN [k \in Flds |-> Null]
                       ELSE [k \in Flds |->
                               IF fields[o][k] \in Young /\ ~visited(o, k) THEN Stale
                               ELSE fields[o][k]]]
       /\ UNCHANGED roots                                   \* every root slot is visited
    /\ modbuf' = KeptModbuf /\ regbuf' = KeptRegbuf
    /\ flushed' = {} /\ regflushed' = {}
    /\ UNCHANGED pc

FullGC ==
    /\ AtSafepoint
    /\ LET R == Reach IN
       /\ alive' = R
       /\ age' = [o \in Obj |-> IF o \in R THEN "old" ELSE "young"]
       /\ unlog' = [o \in Obj |-> IF o \in R THEN UnlogAfterGC ELSE 0]
       /\ fields' = [o \in Obj |-> IF o \in R THEN fields[o] ELSE [k \in Flds |-> Null]]
       /\ UNCHANGED roots
    /\ modbuf' = [m \in Mut |-> {}] /\ regbuf' = [m \in Mut |-> {}]
    /\ flushed' = {} /\ regflushed' = {}
    /\ UNCHANGED pc

Next ==
    \/ \E m \in Mut, r \in Roots, p \in BOOLEAN : Alloc(m, r, p)
    \/ \E m \in Mut, s \in Obj, k \in Flds, v \in Obj \cup {Null} : Store(m, s, k, v)
    \/ \E m \in Mut : WriteFast(m) \/ WriteSlow(m) \/ Flush(m)
    \/ \E m \in Mut, s \in Obj, d \in Obj : RegionCopy(m, s, d)
    \/ \E m \in Mut, s \in Obj, k \in Flds, r \in Roots : Load(m, s, k, r)
    \/ \E r \in Roots : DropRoot(r)
    \/ NurseryGC
    \/ FullGC

Spec == Init /\ [][Next]_vars
ObjSymmetry == Permutations(Obj)

\* ---- properties -------------------------------------------------------------------------------
TypeOK ==
    /\ alive \subseteq Obj
    /\ age \in [Obj -> {"young", "old"}]
    /\ unlog \in [Obj -> {0, 1}]
    /\ fields \in [Obj -> [Flds -> Val]]
    /\ roots \in [Roots -> Val]
    /\ modbuf \in [Mut -> SUBSET Obj]
    /\ flushed \subseteq Obj

\* C05, first half: at every safepoint every old -> young reference is covered by the remembered set
RemsetSound ==
    AtSafepoint =>
        RemsetSoundOp(Old, Young, LAMBDA o : NF, LAMBDA o, k : fields[o][k], Remembered,
                      {<<o, k>> : o \in RegRemembered, k \in Flds})

\* the inductive reason
LogInv ==
    AtSafepoint => LogInvOp(Old, Young, LAMBDA o : unlog[o], Remembered)

\* C05, second half: whatever the mutators and collections did, no root and no field of an object
\* reachable from the roots refers to a moved or reclaimed object (a young object reachable only
\* through an old one survived the nursery collection and the referring slot was updated)
NurseryKeeps ==
    /\ \A r \in Roots : roots[r] # Stale /\ (roots[r] # Null => roots[r] \in alive)
    /\ \A o \in Reach : \A k \in Flds :
           fields[o][k] # Stale /\ (fields[o][k] # Null => fields[o][k] \in alive)
=====================================================================================
