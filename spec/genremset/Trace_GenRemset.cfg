SPECIFICATION GSpec
POSTCONDITION Accepted
INVARIANT StatsPrinted
INVARIANT GenStatsPrinted
CHECK_DEADLOCK FALSE
