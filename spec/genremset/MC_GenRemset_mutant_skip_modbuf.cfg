SPECIFICATION Spec
CONSTANTS
  Obj = {o1, o2, o3}
  Null = Null
  Stale = Stale
  NF = 1
  Roots = {1, 2}
  Mut = {1}
  ConservativeRegion = FALSE
  WithFlush = FALSE
  Mutant = "skip_modbuf"
SYMMETRY ObjSymmetry
INVARIANTS
  RemsetSound
  NurseryKeeps
CHECK_DEADLOCK FALSE
