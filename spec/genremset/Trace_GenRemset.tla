------------------------------ MODULE Trace_GenRemset ------------------------------
(* C05, conformance: validates traces of `gcdrive --mode gen` (GenCopy, GenImmix, StickyImmix on   *)
(* the real MMTk) against the remembered-set protocol of GenRemset.tla. The heap model, the graph  *)
(* checks after every collection (NurseryKeeps at the level of the real heap: every object the     *)
(* model reaches from the roots is found by the walker, intact, with every referring slot          *)
(* updated) come from HeapTrace; this module adds, in HeapTrace's extension record `ext`, the      *)
(* state of GenRemset (age, unlog bit, remembered objects, remembered slices) and checks every     *)
(* recorded step against the action it stands for, with the definitions of RemsetOps:              *)
(*                                                                                                 *)
(*   Alloc + AllocObs      GenRemset!Alloc       born young/logged or pretenured/unlogged          *)
(*   [BarrierSlow] Write   WriteFast/WriteSlow   slow path iff the source's unlog bit is 1; the    *)
(*                                               bit is 0 afterwards; the bit before the write is  *)
(*                                               the one the protocol gives the object             *)
(*   RegionSlow RegionCopy RegionCopy            an old destination slice is remembered            *)
(*   ModbufFlush/RegionFlush  Flush              only remembered things are flushed                *)
(*   ProcessModBuf.. GCEnd NurseryGC / FullGC    at a nursery GC every remembered object and       *)
(*                                               slice was processed; RemsetSound holds when the   *)
(*                                               GC starts; survivors are old and unlogged;        *)
(*                                               nothing reachable is left in the nursery space    *)
(*                                                                                                 *)
(* Never constrained: which mutator's buffer is flushed when, packet order, addresses, whether a   *)
(* young destination slice is remembered, retention of garbage, the kind of GC MMTk chooses.       *)
EXTENDS HeapTrace, RemsetOps

\* ---- the extension state -----------------------------------------------------------------------
InitExt == [keep |-> {},
            unlog |-> << >>,      \* id -> 0 / 1 (2: not known, adopt the next observation)
            age |-> << >>,        \* id -> "young" / "old"
            rem |-> {},           \* ids pushed into some modbuf since the last collection
            regs |-> {},          \* start addresses of slices pushed into some region modbuf
            regslots |-> {},      \* the same as slots <<id, k>>
            pendSlow |-> << >>,   \* BarrierSlow events since the last Write
            pendReg |-> << >>,    \* RegionSlow events since the last RegionCopy
            proc |-> {},          \* addresses processed by ProcessModBuf (nursery) in this GC
            procReg |-> {},       \* slice starts processed by ProcessRegionModBuf (nursery)
            synced |-> FALSE,     \* a collection has ended since the last Reset
            st |-> [slow |-> 0, fast |-> 0, region |-> 0, regionRemembered |-> 0, nurseryGCs |-> 0,
                    fullGCs |-> 0, processed |-> 0, oldToYoung |-> 0, flushesOutsideGC |-> 0]]
X == IF "unlog" \in DOMAIN ext THEN ext ELSE InitExt

Pretenured(sem) == sem \in {1, 3, 4, 5, 6}     \* immortal, code, read-only, large code, non-moving
UnlogOf(id) == IF id \in DOMAIN X.unlog THEN X.unlog[id] ELSE 2
AgeOf(id) == IF id \in DOMAIN X.age THEN X.age[id] ELSE "old"
OldIds == {o \in DOMAIN objs : AgeOf(o) = "old"}
YoungIds == {o \in DOMAIN objs : AgeOf(o) = "young"}
AddrsOf(S) == {objs[o].a : o \in S \cap DOMAIN objs}
SeqSet(s) == {s[i] : i \in DOMAIN s}
\* projected address of field k (1-based) of the object whose reference is a
FieldAddr(a, k) == AddW(SubW(a, RefOffW), 3 + k - 1)
HBump(key) == [X.st EXCEPT ![key] = @ + 1]

SoundNow ==
    RemsetSoundOp(OldIds, YoungIds, LAMBDA o : objs[o].nf, LAMBDA o, k : objs[o].f[k],
                  X.rem, X.regslots)

\* ---- steps -------------------------------------------------------------------------------------
GAlloc(e) ==
    IF AllocOK(e)
    THEN /\ DoAlloc(e)
         /\ ext' = [X EXCEPT !.unlog = (e.id :> UnlogAtAlloc(Pretenured(e.sem))) @@ @,
                             !.age = (e.id :> IF Pretenured(e.sem) THEN "old" ELSE "young") @@ @]
    ELSE FailStep /\ UNCHANGED ext

GAllocObs(e) ==
    IF G("C05:alloc-unlog-bit", UnlogOf(e.id) = 2 \/ e.ub = UnlogOf(e.id))
    THEN Skip /\ UNCHANGED ext
    ELSE FailStep /\ UNCHANGED ext

GenWriteOK(e) ==
    /\ G("C05:write-src-address", e.sa = objs[e.src].a)
    /\ G("C05:unlog-bit-before-write", UnlogOf(e.src) = 2 \/ e.ub = UnlogOf(e.src))
    /\ G("C05:barrier-slow-path-missing", TakesSlowPath(e.ub) => X.pendSlow = <<e.sa>>)
    /\ G("C05:barrier-slow-path-spurious", ~TakesSlowPath(e.ub) => X.pendSlow = << >>)
    /\ G("C05:unlog-bit-after-write", e.ua = UnlogAfterWrite(e.ub))
GWrite(e) ==
    IF "ub" \notin DOMAIN e
    THEN (IF WriteOK(e) THEN DoWrite(e) ELSE FailStep) /\ UNCHANGED ext
    ELSE IF WriteOK(e) /\ GenWriteOK(e)
    THEN /\ DoWrite(e)
         /\ ext' = [X EXCEPT !.unlog = (e.src :> e.ua) @@ @,
                             !.rem = IF TakesSlowPath(e.ub) THEN @ \cup {e.src} ELSE @,
                             !.pendSlow = << >>,
                             !.st = [HBump(IF TakesSlowPath(e.ub) THEN "slow" ELSE "fast") EXCEPT
                                       !.oldToYoung = @ + (IF e.tgt # Null /\ AgeOf(e.src) = "old"
                                                              /\ AgeOf(e.tgt) = "young" THEN 1 ELSE 0)]]
    ELSE FailStep /\ UNCHANGED ext

RegionOK(e) ==
    /\ G("C05:region-known", e.src \in DOMAIN objs /\ e.dst \in DOMAIN objs
            /\ e.sk >= 1 /\ e.sk + e.n - 1 <= objs[e.src].nf
            /\ e.dk >= 1 /\ e.dk + e.n - 1 <= objs[e.dst].nf)
    /\ G("C05:region-dst-address", e.da = FieldAddr(objs[e.dst].a, e.dk))
    /\ G("C05:region-barrier-missing",
            Len(X.pendReg) = 1 /\ X.pendReg[1].dst = e.da /\ X.pendReg[1].words = e.n)
    /\ G("C05:region-not-remembered",
            RegionMustRemember(AgeOf(e.dst) = "old") => X.pendReg[1].remembered)
GRegionCopy(e) ==
    IF RegionOK(e)
    THEN LET r == X.pendReg[1].remembered IN
         /\ objs' = [objs EXCEPT ![e.dst].f =
                        [j \in DOMAIN @ |-> IF j >= e.dk /\ j < e.dk + e.n
                                            THEN objs[e.src].f[e.sk + (j - e.dk)] ELSE @[j]]]
         /\ ext' = [X EXCEPT !.regs = IF r THEN @ \cup {e.da} ELSE @,
                             !.regslots = IF r THEN @ \cup {<<e.dst, k>> : k \in e.dk..(e.dk + e.n - 1)}
                                          ELSE @,
                             !.pendReg = << >>,
                             !.st = [HBump("region") EXCEPT !.regionRemembered = @ + (IF r THEN 1 ELSE 0)]]
         /\ UNCHANGED <<cfg, roots, ivl, imm, pinned, bound, failed, aux, stats>>
    ELSE FailStep /\ UNCHANGED ext

GFlush(e) ==
    \* (a buffer that fills up is flushed inside the barrier, before the Write event of that write)
    IF G("C05:flush-of-unremembered-object",
         X.synced => SeqSet(e.objs) \subseteq AddrsOf(X.rem) \cup SeqSet(X.pendSlow))
    \* flushes by the mutator thread (tag 1000): destroy_mutator or a full buffer
    THEN Skip /\ ext' = IF e.th = 1000 THEN [X EXCEPT !.st = HBump("flushesOutsideGC")] ELSE X
    ELSE FailStep /\ UNCHANGED ext
GRegionFlush(e) ==
    IF G("C05:flush-of-unremembered-slice",
         X.synced => SeqSet(e.starts) \subseteq X.regs \cup {X.pendReg[i].dst : i \in DOMAIN X.pendReg})
    THEN Skip /\ UNCHANGED ext ELSE FailStep /\ UNCHANGED ext

GenGCEndOK(e) ==
    /\ G("C05:barrier-event-outside-a-write", X.pendSlow = << >> /\ X.pendReg = << >>)
    /\ G("C05:RemsetSound", X.synced => SoundNow)
    /\ G("C05:remembered-object-not-processed", e.nursery => AddrsOf(X.rem) \subseteq X.proc)
    /\ G("C05:remembered-slice-not-processed", e.nursery => X.regs \subseteq X.procReg)
GGCEnd(e) ==
    IF GCEndOK(e) /\ GenGCEndOK(e)
    THEN /\ DoGCEnd(e)
         /\ ext' = [X EXCEPT !.unlog = [id \in NodeIds(e) \cup DOMAIN imm |-> UnlogAfterGC],
                             !.age = [id \in NodeIds(e) \cup DOMAIN imm |-> "old"],
                             !.rem = {}, !.regs = {}, !.regslots = {}, !.proc = {}, !.procReg = {},
                             !.synced = TRUE,
                             !.st = [HBump(IF e.nursery THEN "nurseryGCs" ELSE "fullGCs") EXCEPT
                                       !.processed = @ + (IF e.nursery THEN Cardinality(X.proc) ELSE 0)]]
    ELSE FailStep /\ UNCHANGED ext

\* the harness' report of the unlog bit and the space of everything reachable, taken inside
\* resume_mutators right after GCEnd
GGenObs(e) ==
    IF /\ G("C05:reachable-object-left-in-nursery", \A i \in DOMAIN e.objs : e.objs[i][3] = 0)
       /\ G("C05:survivor-not-unlogged", \A i \in DOMAIN e.objs : e.objs[i][2] = UnlogAfterGC)
    THEN Skip /\ UNCHANGED ext ELSE FailStep /\ UNCHANGED ext

GReset(e) ==
    /\ DoReset(e)
    /\ ext' = [X EXCEPT !.unlog = [id \in DOMAIN imm |-> IF failed THEN 2 ELSE UnlogOf(id)],
                        !.age = [id \in DOMAIN imm |-> "old"],
                        !.rem = {}, !.regs = {}, !.regslots = {}, !.pendSlow = << >>,
                        !.pendReg = << >>, !.proc = {}, !.procReg = {}, !.synced = FALSE]

GStep(e) ==
    CASE e.ev = "Boot" -> DoBoot(e) /\ ext' = InitExt
      [] e.ev = "Reset" -> GReset(e)
      [] failed -> Step(e) /\ UNCHANGED ext
      [] e.ev = "Alloc" -> GAlloc(e)
      [] e.ev = "AllocObs" -> GAllocObs(e)
      [] e.ev = "BarrierSlow" -> Skip /\ ext' = [X EXCEPT !.pendSlow = Append(@, e.src)]
      [] e.ev = "RegionSlow" -> Skip /\ ext' = [X EXCEPT !.pendReg = Append(@,
                                    [dst |-> e.dst, words |-> e.words, remembered |-> e.remembered])]
      [] e.ev = "Write" -> GWrite(e)
      [] e.ev = "RegionCopy" -> GRegionCopy(e)
      [] e.ev = "ModbufFlush" -> GFlush(e)
      [] e.ev = "RegionFlush" -> GRegionFlush(e)
      [] e.ev = "ProcessModBuf" ->
            Skip /\ ext' = [X EXCEPT !.proc = IF e.nursery THEN @ \cup SeqSet(e.objs) ELSE @]
      [] e.ev = "ProcessRegionModBuf" ->
            Skip /\ ext' = [X EXCEPT !.procReg = IF e.nursery THEN @ \cup SeqSet(e.starts) ELSE @]
      [] e.ev = "GCEnd" -> GGCEnd(e)
      [] e.ev = "GenObs" -> GGenObs(e)
      [] OTHER -> Step(e) /\ UNCHANGED ext

GNext == /\ l <= Len(Rec)
         /\ l' = l + 1
         /\ GStep(Rec[l])

GSpec == TInit /\ [][GNext]_vars

GenStatsPrinted == l = Len(Rec) + 1 => PrintT("GEN_STATS " \o ToString(X.st))
=====================================================================================
