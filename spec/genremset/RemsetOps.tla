--------------------------------- MODULE RemsetOps ---------------------------------
(* State-independent definitions of the generational remembered-set protocol (C05). They are the   *)
(* judged text shared by the design-level specification GenRemset.tla (model-checked) and by the   *)
(* trace specification Trace_GenRemset.tla (which evaluates them on what real runs logged).        *)
(*                                                                                                 *)
(* The unlog bit (GLOBAL_LOG_BIT_SPEC): 1 = "the object is old and not yet remembered",            *)
(* 0 = "young, or old and already in a modbuf".                                                    *)
(*   src/plan/barriers.rs            ObjectBarrier::object_reference_write_post / log_object       *)
(*   src/plan/generational/barrier.rs GenObjectBarrierSemantics (modbuf, region_modbuf, flush)     *)
(*   src/plan/generational/gc_work.rs ProcessModBuf / ProcessRegionModBuf                          *)
EXTENDS Naturals, FiniteSets

\* ---- mutator side ---------------------------------------------------------------------------
\* ObjectBarrier::object_reference_write_post: the slow path is taken iff the SOURCE is unlogged.
TakesSlowPath(unlogOfSrc) == unlogOfSrc = 1
\* log_object: compare-exchange 1 -> 0; the caller that wins the exchange pushes the source.
UnlogAfterWrite(unlogOfSrc) == 0
\* Allocation: pretenured objects (spaces created with get_mature_space_args: immortal, code,
\* read-only, non-moving) are born old and unlogged; nursery / LOS objects are born young, logged.
UnlogAtAlloc(pretenured) == IF pretenured THEN 1 ELSE 0
\* memory_region_copy_slow: a destination that is not (known to be) in the nursery is remembered;
\* remembering a young destination as well is allowed (StickyImmix cannot tell).
RegionMustRemember(dstIsOld) == dstIsOld

\* ---- collector side -------------------------------------------------------------------------
\* After any collection every survivor is old and unlogged: promoted by the copy / trace
\* (unlog_traced_object), reset by ProcessModBuf, or rebuilt by the full-heap trace.
UnlogAfterGC == 1

\* ---- the property ---------------------------------------------------------------------------
\* RemsetSound. Old, Young: sets of objects; NFld(o): number of reference fields; Fld(o, k): the
\* value of field k; Rem: remembered objects (all modbufs, flushed or not); RegSlots: remembered
\* slots <<o, k>> (all region modbufs).
RemsetSoundOp(Old, Young, NFld(_), Fld(_, _), Rem, RegSlots) ==
    \A o \in Old : \A k \in 1..NFld(o) :
        Fld(o, k) \in Young => (o \in Rem \/ <<o, k>> \in RegSlots)

\* Inductive strengthening: an old object is unlogged or remembered; a young object is logged.
LogInvOp(Old, Young, Unlog(_), Rem) ==
    /\ \A o \in Old : Unlog(o) = 1 \/ o \in Rem
    /\ \A o \in Young : Unlog(o) = 0
=====================================================================================
