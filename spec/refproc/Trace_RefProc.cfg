SPECIFICATION RefTraceSpec
POSTCONDITION Accepted
INVARIANT RefStatsPrinted
CHECK_DEADLOCK FALSE
