SPECIFICATION Spec
CONSTANTS
  Plain = {1}
  RefObj = {2}
  MaxReg = 1
  MaxGC = 2
  Moving = TRUE
  Requeue = FALSE
  Mutant = "final_not_kept_alive"
INVARIANTS KeepsLiveReferent ClearsDeadReferent OnlyClearedEnqueued DeadRefsDropped NoStaleEntry
           Finalization ReadyRetained OncePerRegistration ReachableAlive
CHECK_DEADLOCK FALSE
