SPECIFICATION Spec
CONSTANTS
  Plain = {1}
  RefObj = {2}
  MaxReg = 1
  MaxGC = 2
  Moving = TRUE
  Requeue = FALSE
  Mutant = "ready_lost"
INVARIANTS KeepsLiveReferent ClearsDeadReferent OnlyClearedEnqueued DeadRefsDropped NoStaleEntry
           Finalization ReadyRetained OncePerRegistration ReachableAlive
CHECK_DEADLOCK FALSE
