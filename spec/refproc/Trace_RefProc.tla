------------------------------- MODULE Trace_RefProc -------------------------------
(* C06 on recorded runs of the real MMTk (gcdrive --mode refs, ShadowVM binding).                   *)
(*                                                                                                   *)
(* EXTENDS HeapTrace: the heap model (objects by identity, strong fields, roots, the walker report   *)
(* of every collection) is HeapTrace's; this module owns the extension variable `ext`:               *)
(*   ref    reference object id -> referent id (0 = null); the referent slot is NOT a strong field    *)
(*          (HeapTrace's model of field 1 of a KIND_REF object stays Null, its closure is strong)     *)
(*   tab    <<soft, weak, phantom>> sets of registered reference objects (ReferenceProcessor tables)  *)
(*   cand, ready   bags (id -> registrations) of the FinalizableProcessor lists                       *)
(*   clr, clrn, enq   ClearReferent / EnqueueRefs callbacks seen since the last collection report      *)
(*   young  objects allocated in the default space since the last collection (certainly in the        *)
(*          nursery of a generational plan)                                                           *)
(*   keep   ids whose model entry must survive a collection although they are not reachable from the  *)
(*          roots (registered references, referents, finalizable objects, and what those reference)   *)
(*   quiet  inside the unjudged clean-up between two programs                                         *)
(*                                                                                                   *)
(* The judgement of a collection (RPOK) is the declarative postcondition of RefProc.tla, evaluated   *)
(* on the model state before the collection (R0 = Reach) and on what was observed: the callbacks, the *)
(* walker's view of every live reference object's referent slot, and the contents of MMTk's tables   *)
(* and finalizer lists at the end of the pause (hook refproc_snapshot, reported in GCEnd.rp).         *)
(*                                                                                                   *)
(* Soundness: MMTk's is_live() is exact only for objects the collection could have reclaimed. The    *)
(* specification therefore works with a MUST-live set (strongly reachable, plus what the collection  *)
(* must retain) and a MAY-live set (MUST plus garbage the collection does not examine: objects of     *)
(* never-collected spaces, objects that are not certainly young in a nursery collection, everything  *)
(* in the final-mark pause of the concurrent plan, and referents retained through soft references     *)
(* whose own liveness depends on the iteration order of retain_soft_refs). A referent must be kept    *)
(* when reference and referent are MUST-live, must be cleared and enqueued exactly once when the      *)
(* reference is MUST-live and the referent is not MAY-live, a reference that is not MAY-live must be   *)
(* dropped and never enqueued; in between only consistency is required.                              *)
EXTENDS HeapTrace

\* ---- bags and small helpers ---------------------------------------------------------------------
Cnt(s, x) == Cardinality({i \in DOMAIN s : s[i] = x})
RangeOf(s) == {s[i] : i \in DOMAIN s}
BagOf(s) == [x \in RangeOf(s) |-> Cnt(s, x)]
B(b, o) == IF o \in DOMAIN b THEN b[o] ELSE 0
BagAdd(b, o, n) == LET v == B(b, o) + n IN
                   IF v > 0 THEN (o :> v) @@ [x \in DOMAIN b \ {o} |-> b[x]]
                   ELSE [x \in DOMAIN b \ {o} |-> b[x]]
BagSum(a, b) == [x \in DOMAIN a \cup DOMAIN b |-> B(a, x) + B(b, x)]
EmptyBag == << >>

\* closure over the model's fields that tolerates ids the model no longer knows
RECURSIVE SCl(_, _)
SCl(S, F) ==
    LET K == S \cap DOMAIN F
        N == K \cup UNION { ({ F[o].f[k] : k \in DOMAIN F[o].f } \ {Null}) \cap DOMAIN F : o \in K }
    IN  IF N = K THEN K ELSE SCl(N, F)

ExtInit == [keep |-> {}, ref |-> << >>, tab |-> <<{}, {}, {}>>, cand |-> EmptyBag, ready |-> EmptyBag,
            clr |-> << >>, clrn |-> EmptyBag, enq |-> << >>, young |-> {}, quiet |-> FALSE,
            lastrp |-> << >>,
            st |-> [gcs |-> 0, nursery |-> 0, emergency |-> 0, kept |-> 0, cleared |-> 0,
                    deadrefs |-> 0, readied |-> 0, popped |-> 0, popnone |-> 0,
                    readyAcross |-> 0, cleanups |-> 0]]

AllTabs(x) == x.tab[1] \cup x.tab[2] \cup x.tab[3]
\* what must stay in the model across a collection: see `keep` above
KeepOf(x, F) == SCl(AllTabs(x) \cup ({x.ref[r] : r \in DOMAIN x.ref} \ {Null})
                    \cup DOMAIN x.cand \cup DOMAIN x.ready, F)
WithKeep(x, F) == [x EXCEPT !.keep = KeepOf(x, F)]

StBump(x, key, n) == [x EXCEPT !.st[key] = @ + n]

\* ---- mutator-side events --------------------------------------------------------------------------
KnownRef(r) == r \in DOMAIN objs /\ objs[r].k = 1 /\ r \in DOMAIN ext.ref

SetReferentOK(e) ==
    /\ G("C06:set-referent-unknown", KnownRef(e.ref) /\ (e.tgt = Null \/ e.tgt \in DOMAIN objs))
AddCandidateOK(e) == G("C06:add-candidate-unknown", KnownRef(e.ref) /\ e.kind \in 0..2)
\* the referent slot holds what the model says (a referent cleared or lost without a callback, or a
\* referent that was not forwarded, shows here or in the walker report)
GetReferentOK(e) ==
    /\ G("C06:get-referent-unknown", KnownRef(e.ref))
    /\ G("C06:referent-value", ext.ref[e.ref] = e.id)
    /\ G("C06:referent-not-in-model", e.id = Null \/ e.id \in DOMAIN objs)
AddFinalizerOK(e) == G("C06:add-finalizer-unknown", e.id \in DOMAIN objs)
\* get_finalized_object: one of the ready registrations, none only when nothing is ready
PopOK(e) ==
    IF e.id = Null THEN G("C06:pop-none-while-ready", DOMAIN ext.ready = {})
    ELSE /\ G("C06:pop-not-ready", B(ext.ready, e.id) > 0)
         /\ G("C06:pop-not-in-model", e.id \in DOMAIN objs)
\* get_all_finalizers: every registration (candidate or ready), each once
GetAllOK(e) == G("C06:get-all-finalizers", BagOf(e.ids) = BagSum(ext.cand, ext.ready))
GetForOK(e) ==
    G("C06:get-finalizers-for",
      /\ \A i \in DOMAIN e.ids : e.ids[i] = e.id
      /\ Len(e.ids) = B(ext.cand, e.id) + B(ext.ready, e.id))

\* ---- the collection --------------------------------------------------------------------------------
TableOf(rp, k) == RangeOf(IF k = 1 THEN rp.soft ELSE IF k = 2 THEN rp.weak ELSE rp.phantom)
Ref0(r) == IF r \in DOMAIN ext.clr THEN ext.clr[r] ELSE ext.ref[r]   \* referent when the GC started
NodeOf(e, id) == e.nodes[CHOOSE i \in DOMAIN e.nodes : e.nodes[i].id = id]

\* garbage that this collection may treat as live (not examined / not reclaimable by it)
MayGarbage(e) ==
    LET never == {o \in DOMAIN objs : objs[o].sem \in NeverCollectedSem} IN
    IF e.rp.pause = "FinalMark" THEN DOMAIN objs
    ELSE never \cup (IF e.nursery THEN DOMAIN objs \ ext.young ELSE {})

\* soft referents retained by a non-emergency collection: certainly those of strongly reachable soft
\* references; possibly those of soft references that become (or are treated as) live
RECURSIVE MayRetain(_, _)
MayRetain(S, g) ==
    LET N == SCl(S \cup ({Ref0(r) : r \in ext.tab[1] \cap (S \cup g)} \ {Null}), objs)
    IN  IF N = S THEN S ELSE MayRetain(N, g)

RPOK(e) ==
    LET rp == e.rp
        R0 == Reach
        g == MayGarbage(e)
        M1 == IF e.emergency THEN R0
              ELSE SCl(R0 \cup ({Ref0(r) : r \in ext.tab[1] \cap R0} \ {Null}), objs)
        \* what the collection may treat as live: the garbage it does not examine, and everything that
        \* garbage references (a nursery collection traces from remembered old objects, dead or not)
        base == SCl(R0 \cup g, objs)
        X1 == IF e.emergency THEN base ELSE MayRetain(base, {})
        candA == BagOf(rp.cand)
        readyA == BagOf(rp.ready)
        readyCl == SCl(DOMAIN readyA, objs)
        M2 == SCl(M1 \cup DOMAIN readyA, objs)
        X2 == SCl(X1 \cup DOMAIN readyA, objs)
        Must(k) == IF k = 3 THEN M2 ELSE M1
        May(k) == IF k = 3 THEN X2 ELSE X1
        nenq(r) == Cnt(ext.enq, r)
        cleared(r) == r \in DOMAIN ext.clr
        regs == BagSum(ext.cand, ext.ready)
    IN
    IF rp.pause = "InitialMark" THEN
        \* the initial pause of a concurrent collection processes no reference and no finalizer
        G("C06:initial-mark-processed",
          /\ DOMAIN ext.clr = {} /\ ext.enq = << >>
          /\ \A k \in 1..3 : TableOf(rp, k) = ext.tab[k]
          /\ candA = ext.cand /\ readyA = ext.ready)
    ELSE
    \* -- callbacks and tables mention registered reference objects only
    /\ G("C06:enqueue-unregistered", \A i \in DOMAIN ext.enq : ext.enq[i] \in AllTabs(ext))
    /\ G("C06:clear-unregistered", DOMAIN ext.clr \subseteq AllTabs(ext))
    /\ G("C06:table-unknown-entry", \A k \in 1..3 : TableOf(rp, k) \subseteq ext.tab[k])
    /\ G("C06:enqueue-buffer-not-emptied", \A i \in DOMAIN rp.pending : rp.pending[i] = 0)
    \* -- per registered reference object
    /\ \A k \in 1..3 : \A r \in ext.tab[k] :
         LET t == Ref0(r)
             inTab == r \in TableOf(rp, k)
         IN
         IF r \notin May(k) THEN
            \* dead reference object: dropped, never enqueued
            /\ G("C06:dead-reference-enqueued", nenq(r) = 0)
            /\ G("C06:dead-reference-kept", ~inTab)
         ELSE IF r \in Must(k) /\ t = Null THEN
            \* the application cleared the referent: not enqueued
            G("C06:null-referent-enqueued", nenq(r) = 0 /\ ~cleared(r))
         ELSE IF r \in Must(k) /\ t \in Must(k) THEN
            \* live reference, live referent (soft: retained unless emergency): kept
            /\ G("C06:live-referent-cleared", ~cleared(r) /\ nenq(r) = 0)
            /\ G("C06:live-reference-dropped", inTab)
         ELSE IF r \in Must(k) /\ t \notin May(k) THEN
            \* live reference, referent otherwise unreachable: cleared, enqueued exactly once
            /\ G("C06:dead-referent-not-cleared", cleared(r) /\ ~inTab)
            /\ G("C06:cleared-more-than-once", B(ext.clrn, r) = 1)
            /\ G("C06:not-enqueued-exactly-once", nenq(r) = 1)
         ELSE
            \* liveness of the reference or of the referent is not determined by the model
            /\ G("C06:enqueued-more-than-once", nenq(r) <= 1)
            /\ G("C06:enqueued-not-cleared", nenq(r) = 1 => cleared(r) /\ t # Null /\ ~inTab)
            /\ G("C06:cleared-but-kept", cleared(r) => ~inTab)
            /\ G("C06:live-reference-lost", r \in Must(k) /\ t # Null /\ ~cleared(r) => inTab)
    \* -- the referent slot of every live reference object, read from memory by the walker, is what
    \*    the model says: null when cleared, the same referent (at its new address) otherwise
    /\ G("C06:referent-slot", \A i \in DOMAIN e.nodes :
            LET n == e.nodes[i] IN
            ("k" \in DOMAIN n /\ n.k = 1 /\ n.id \in DOMAIN ext.ref) =>
               LET t == ext.ref[n.id] IN
               IF t = Null THEN n.w = 0
               ELSE IF t \in NodeIds(e) THEN IdOfIdx(e, n.w) = t
               ELSE n.w = -1 /\ n.wid = t)
    \* -- finalizers: registrations are neither lost nor invented
    /\ G("C06:finalizer-registrations", \A o \in DOMAIN regs \cup DOMAIN candA \cup DOMAIN readyA :
            B(candA, o) + B(readyA, o) = B(regs, o))
    \* -- an object that is ready stays ready until it is popped
    /\ G("C06:ready-requeued", \A o \in DOMAIN ext.ready : B(readyA, o) >= ext.ready[o])
    \* -- every registration of an object found unreachable becomes ready
    /\ G("C06:unreachable-not-ready", \A o \in DOMAIN ext.cand : o \notin X1 => B(candA, o) = 0)
    \* -- reachable objects are never made ready
    /\ G("C06:reachable-made-ready", \A o \in DOMAIN readyA : o \in M1 => readyA[o] <= B(ext.ready, o))
    \* -- ready objects are retained with everything they reference (walk from MMTk's ready list)
    /\ G("C06:ready-dangling", \A i \in DOMAIN rp.rnodes : "bad" \notin DOMAIN rp.rnodes[i])
    /\ G("C06:ready-closure", {rp.rnodes[i].id : i \in DOMAIN rp.rnodes} = readyCl)
    /\ G("C06:ready-contents", \A i \in DOMAIN rp.rnodes :
            LET n == rp.rnodes[i]
                o == objs[n.id]
            IN  /\ n.sz = o.sz /\ n.h = o.h /\ n.k = o.k
                /\ Len(n.f) = Len(StrongFields(o))
                /\ \A j \in DOMAIN n.f : n.f[j] = StrongFields(o)[j])

\* the model after the report: tables and lists as MMTk holds them (already checked to lie within what
\* the property allows), callbacks consumed
AfterGC(e) ==
    LET rp == e.rp
        r0 == Reach
        st1 == [ext.st EXCEPT
                 !.gcs = @ + 1,
                 !.nursery = @ + (IF e.nursery THEN 1 ELSE 0),
                 !.emergency = @ + (IF e.emergency THEN 1 ELSE 0),
                 !.kept = @ + Cardinality({r \in AllTabs(ext) \cap r0 : Ref0(r) # Null /\ r \notin DOMAIN ext.clr}),
                 !.cleared = @ + Len(ext.enq),
                 !.deadrefs = @ + Cardinality(AllTabs(ext) \ r0),
                 !.readied = @ + Cardinality({o \in RangeOf(rp.ready) : B(ext.ready, o) = 0}),
                 !.readyAcross = @ + Cardinality(DOMAIN ext.ready)]
    IN  [ext EXCEPT
           !.tab = [k \in 1..3 |-> TableOf(rp, k) \cap DOMAIN ext.ref],
           !.cand = BagOf(rp.cand), !.ready = BagOf(rp.ready),
           !.clr = << >>, !.clrn = EmptyBag, !.enq = << >>, !.young = {}, !.st = st1]

Prune(x, F) == [x EXCEPT !.ref = [r \in DOMAIN x.ref \cap DOMAIN F |-> x.ref[r]]]

\* clean-up between programs: after a full collection with no roots MMTk holds nothing
CleanupOK ==
    LET rp == ext.lastrp IN
    G("C06:cleanup-not-empty",
      (DOMAIN rp # {} /\ rp.pause = "Full" /\ ~rp.nursery) =>
          rp.soft = << >> /\ rp.weak = << >> /\ rp.phantom = << >> /\ rp.cand = << >> /\ rp.ready = << >>)

\* vo_bit builds: MMTK::enumerate_objects also reports the objects MMTk itself keeps alive (the closure
\* of the ready list, retained soft referents); HeapTrace's C07 guards compare the enumeration with the
\* root-reachable set and do not apply to these programs. The per-node VO-bit report stays.
NoEnum(e) == [k \in DOMAIN e \ {"enum", "enumBad", "deadProbes"} |-> e[k]]

MyEvents == {"SetReferent", "AddCandidate", "GetReferent", "AddFinalizer", "PopFinalized",
             "GetAllFinalizers", "GetFinalizersFor", "ClearReferent", "EnqueueRefs"}

\* an event of this module that leaves HeapTrace's variables alone
Mine(ok, x) == IF ok THEN Skip /\ ext' = x ELSE FailStep /\ UNCHANGED ext

RStep(e) ==
    CASE e.ev = "Boot" -> Step(e) /\ UNCHANGED ext
      [] e.ev = "Reset" -> Step(e) /\ ext' = [ExtInit EXCEPT !.st = ext.st]
      [] e.ev = "Crash" /\ ~failed -> Fail("crash") /\ FailStep /\ UNCHANGED ext
      [] failed -> Step(e) /\ UNCHANGED ext
      [] e.ev = "RefCleanup" -> Skip /\ ext' = [ext EXCEPT !.quiet = TRUE, !.lastrp = << >>]
      [] e.ev = "RefCleanupEnd" ->
            IF CleanupOK THEN Skip /\ ext' = [ExtInit EXCEPT !.st = StBump(ext, "cleanups", 1).st]
            ELSE FailStep /\ ext' = [ExtInit EXCEPT !.st = ext.st]
      [] ext.quiet ->
            IF e.ev \in MyEvents THEN Skip /\ UNCHANGED ext
            ELSE /\ Step(IF e.ev = "GCEnd" THEN NoEnum(e) ELSE e)
                 /\ ext' = IF e.ev = "GCEnd" THEN [ext EXCEPT !.lastrp = e.rp @@ [nursery |-> e.nursery]]
                           ELSE ext
      [] e.ev = "SetReferent" -> Mine(SetReferentOK(e), [ext EXCEPT !.ref[e.ref] = e.tgt])
      [] e.ev = "AddCandidate" -> Mine(AddCandidateOK(e), [ext EXCEPT !.tab[e.kind + 1] = @ \cup {e.ref}])
      [] e.ev = "GetReferent" ->
            IF GetReferentOK(e) THEN DoSetRoot(e) /\ UNCHANGED ext
            ELSE FailStep /\ UNCHANGED ext
      [] e.ev = "AddFinalizer" -> Mine(AddFinalizerOK(e), [ext EXCEPT !.cand = BagAdd(@, e.id, 1)])
      [] e.ev = "PopFinalized" ->
            IF PopOK(e)
            THEN /\ IF e.id # Null /\ e.slot >= 0 THEN DoSetRoot(e) ELSE Skip
                 /\ ext' = IF e.id = Null THEN StBump(ext, "popnone", 1)
                           ELSE StBump([ext EXCEPT !.ready = BagAdd(@, e.id, -1)], "popped", 1)
            ELSE FailStep /\ UNCHANGED ext
      [] e.ev = "GetAllFinalizers" ->
            Mine(GetAllOK(e), [ext EXCEPT !.cand = EmptyBag, !.ready = EmptyBag])
      [] e.ev = "GetFinalizersFor" ->
            Mine(GetForOK(e), [ext EXCEPT !.cand = BagAdd(@, e.id, 0 - B(ext.cand, e.id)),
                                          !.ready = BagAdd(@, e.id, 0 - B(ext.ready, e.id))])
      [] e.ev = "ClearReferent" ->
            \* a callback for an object the model does not know (garbage of an earlier program) is
            \* not judged; for a known reference object the slot becomes null
            IF e.ref \in DOMAIN ext.ref
            THEN Skip /\ ext' = [ext EXCEPT
                                   !.clr = IF e.ref \in DOMAIN @ THEN @ ELSE (e.ref :> ext.ref[e.ref]) @@ @,
                                   !.clrn = BagAdd(@, e.ref, 1),
                                   !.ref[e.ref] = Null]
            ELSE Skip /\ UNCHANGED ext
      [] e.ev = "EnqueueRefs" -> Skip /\ ext' = [ext EXCEPT !.enq = @ \o e.refs]
      [] e.ev = "GCEnd" ->
            IF RPOK(e)
            THEN /\ Step(NoEnum(e))
                 /\ ext' = IF failed' THEN ext ELSE Prune(AfterGC(e), objs')
            ELSE FailStep /\ UNCHANGED ext
      [] e.ev = "Alloc" ->
            /\ Step(e)
            /\ ext' = IF failed' THEN ext
                      ELSE [ext EXCEPT !.young = IF e.sem = 0 THEN @ \cup {e.id} ELSE @,
                                       !.ref = IF e.k = 1 THEN (e.id :> Null) @@ @ ELSE @]
      \* every pause starts with StopEnter (mutators are parked from there to the report): the only
      \* place where `keep` has to be up to date
      [] e.ev = "StopEnter" -> Step(e) /\ ext' = WithKeep(ext, objs)
      [] OTHER -> Step(e) /\ UNCHANGED ext

RInit ==
    /\ l = 1
    /\ cfg = [plan |-> "?", variant |-> 0, moves |-> TRUE]
    /\ objs = << >> /\ roots = << >> /\ ivl = << >> /\ imm = << >>
    /\ pinned = {} /\ bound = {} /\ failed = FALSE
    /\ aux = [exh |-> FALSE, grid |-> FALSE, lastUsed |-> -1, oom |-> 0]
    /\ stats = [programs |-> 0, allocs |-> 0, writes |-> 0, gcs |-> 0, moved |-> 0, survivors |-> 0]
    /\ ext = ExtInit

RNext == /\ l <= Len(Rec)
         /\ l' = l + 1
         /\ RStep(Rec[l])

RefTraceSpec == RInit /\ [][RNext]_vars

RefStatsPrinted == l = Len(Rec) + 1 =>
    PrintT("HEAP_STATS " \o ToString(stats)) /\ PrintT("REF_STATS " \o ToString(ext.st))
=====================================================================================
