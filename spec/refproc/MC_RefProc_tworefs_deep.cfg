SPECIFICATION Spec
CONSTANTS
  Plain = {1}
  RefObj = {2, 3}
  MaxReg = 1
  MaxGC = 2
  Moving = TRUE
  Requeue = FALSE
  Mutant = "none"
INVARIANTS KeepsLiveReferent ClearsDeadReferent OnlyClearedEnqueued DeadRefsDropped NoStaleEntry
           Finalization ReadyRetained OncePerRegistration ReachableAlive
CHECK_DEADLOCK FALSE
