---------------------------------- MODULE RefProc ----------------------------------
(* Design-level model behind C06: soft / weak / phantom references and finalizers.                  *)
(*                                                                                                   *)
(* Objects are identities. Plain objects have one strong field; reference objects (RefObj) have a    *)
(* referent slot that the collector does not trace. A collection is the sequence of phases in the    *)
(* order in which GCWorkScheduler opens the buckets (scheduler.rs schedule_common_work, the same     *)
(* packets in MarkCompact / Compressor / ConcurrentImmix final pause):                               *)
(*   Closure -> SoftRefClosure (retain unless emergency, then scan) -> WeakRefClosure (scan)         *)
(*   -> FinalRefClosure (FinalizableProcessor::scan, closure from the ready objects, rescan of the   *)
(*      soft and weak tables) -> PhantomRefClosure (scan) -> forwarding (moving collections)         *)
(*   -> Release (RefEnqueue, reclaim).                                                               *)
(* Each phase is one action and does what the code does (reference_processor.rs scan / retain /      *)
(* process_reference / forward / enqueue, finalizable_processor.rs scan / get_ready_object / ...).   *)
(* The property is stated declaratively, from a ghost snapshot taken when the collection starts,     *)
(* and checked when it ends (pc = "done") - the same formulas Trace_RefProc.tla evaluates on         *)
(* recorded collections of the real MMTk.                                                            *)
(*                                                                                                   *)
(* Locations: ver[o] is the "address" of o; a moving collection flips it for every object it moves.  *)
(* A slot that records (o, v) with v # ver[o] is stale. Strong fields and roots are identity based   *)
(* here (their forwarding is C01's subject).                                                         *)
(*                                                                                                   *)
(* Nursery collections: objects that survived a collection are `old`; a nursery collection treats    *)
(* every old object as live (is_live() of a mature object) and traces from the roots and from all    *)
(* old objects (conservative remembered set).                                                        *)
(*                                                                                                   *)
(* Deliberate deviations: retain_soft_refs is modelled as one atomic step over the references that   *)
(* are live when it starts (the code iterates a HashSet and marks referents as it goes; a reference  *)
(* object that is itself the referent of another soft reference may or may not be seen live - the    *)
(* trace specification allows both, here the atomic reading is taken). Candidates are a bag          *)
(* (registrations per object), their order is not modelled.                                          *)
EXTENDS Naturals, FiniteSets, TLC

CONSTANTS Plain,      \* plain objects (one strong field each)
          RefObj,     \* reference objects (referent slot only)
          MaxReg,     \* bound on finalizer registrations per object
          MaxGC,      \* bound on the number of collections per behaviour
          Moving,     \* TRUE: collections move every object they may move
          Requeue,    \* TRUE: FinalizableProcessor::scan re-examines the ready list as the pinned code
                      \* does (candidates.append(ready_for_finalize)); FALSE: ready objects stay ready
          Mutant      \* "none" or the name of a broken variant (see the actions)

Obj == Plain \cup RefObj
Null == 0
Strength == {"soft", "weak", "phantom"}
ASSUME Null \notin Obj

VARIABLES
    alive,     \* objects whose memory has not been reclaimed
    old,       \* objects that survived a collection (mature)
    fld,       \* Plain -> Obj \cup {Null}: the strong field
    roots,     \* set of rooted objects
    ver,       \* Obj -> 0..1: current location
    strength,  \* RefObj -> Strength (fixed at Init)
    referent,  \* RefObj -> [o: Obj \cup {Null}, v: 0..1]: the referent slot
    table,     \* Strength -> SUBSET RefObj: ReferenceProcessor::references
    tver,      \* RefObj -> 0..1: location recorded by the table entry
    pend,      \* Strength -> SUBSET RefObj: ReferenceProcessor::enqueued_references
    cand,      \* Obj -> 0..MaxReg: finalizer candidates (registrations)
    ready,     \* Obj -> 0..MaxReg: ready_for_finalize
    fver,      \* Obj -> 0..1: location recorded by the finalizer entries of the object
    gc,        \* collection in progress: [pc, em, nur, mov, marked, handed] and the ghost snapshot
    hist       \* ghosts: [reg, popped: Obj -> Nat, gcs: collections so far]
vars == <<alive, old, fld, roots, ver, strength, referent, table, tver, pend, cand, ready, fver, gc, hist>>

RECURSIVE Cl(_)
Cl(S) == LET N == S \cup ({fld[o] : o \in S \cap Plain} \ {Null}) IN IF N = S THEN S ELSE Cl(N)
Acc == Cl(roots)                                   \* what the mutator can reach
Idle == gc.pc = "idle"
NoRef == [o |-> Null, v |-> 0]
Zero == [o \in Obj |-> 0]
Support(b) == {o \in Obj : b[o] > 0}

Init ==
    /\ alive = Obj /\ old = {} /\ roots = Obj
    /\ fld = [o \in Plain |-> Null]
    /\ ver = [o \in Obj |-> 0]
    /\ strength \in [RefObj -> Strength]
    /\ referent = [r \in RefObj |-> NoRef]
    /\ table = [k \in Strength |-> {}] /\ tver = [r \in RefObj |-> 0]
    /\ pend = [k \in Strength |-> {}]
    /\ cand = Zero /\ ready = Zero /\ fver = Zero
    /\ gc = [pc |-> "idle"]
    /\ hist = [reg |-> Zero, popped |-> Zero, gcs |-> 0]

\* ---- mutator ---------------------------------------------------------------------------------
UNCH_GC == UNCHANGED <<alive, old, ver, strength, tver, pend, gc>>

Write(o, t) == /\ Idle /\ o \in Acc \cap Plain /\ t \in Acc \cup {Null}
               /\ fld' = [fld EXCEPT ![o] = t]
               /\ UNCHANGED <<roots, referent, table, cand, ready, fver, hist>> /\ UNCH_GC
DropRoot(o) == /\ Idle /\ o \in roots /\ roots' = roots \ {o}
               /\ UNCHANGED <<fld, referent, table, cand, ready, fver, hist>> /\ UNCH_GC
LoadRoot(o) == /\ Idle /\ o \in Acc \ roots /\ roots' = roots \cup {o}
               /\ UNCHANGED <<fld, referent, table, cand, ready, fver, hist>> /\ UNCH_GC
\* store a referent and register the reference object (add_*_candidate right after the store)
SetReferent(r, t) ==
    /\ Idle /\ r \in Acc \cap RefObj /\ t \in (Acc \cup {Null}) \ {r}
    /\ referent' = [referent EXCEPT ![r] = IF t = Null THEN NoRef ELSE [o |-> t, v |-> ver[t]]]
    /\ table' = [table EXCEPT ![strength[r]] = @ \cup {r}]
    /\ tver' = [tver EXCEPT ![r] = ver[r]]
    /\ UNCHANGED <<alive, old, ver, strength, pend, gc, fld, roots, cand, ready, fver, hist>>
\* Reference.get(): never on a phantom reference
GetReferent(r) ==
    /\ Idle /\ r \in Acc \cap RefObj /\ strength[r] # "phantom" /\ referent[r].o # Null
    /\ roots' = roots \cup {referent[r].o}
    /\ UNCHANGED <<fld, referent, table, cand, ready, fver, hist>> /\ UNCH_GC
AddFinalizer(o) ==
    /\ Idle /\ o \in Acc /\ hist.reg[o] < MaxReg
    /\ cand' = [cand EXCEPT ![o] = @ + 1]
    /\ fver' = [fver EXCEPT ![o] = ver[o]]
    /\ hist' = [hist EXCEPT !.reg[o] = @ + 1]
    /\ UNCHANGED <<fld, roots, referent, table, ready>> /\ UNCH_GC
\* get_finalized_object: one of the ready objects, or none
Pop(o) ==
    /\ Idle /\ ready[o] > 0
    /\ ready' = [ready EXCEPT ![o] = @ - 1]
    /\ roots' = roots \cup {o}
    /\ hist' = [hist EXCEPT !.popped[o] = @ + 1]
    /\ UNCHANGED <<fld, referent, table, cand, fver>> /\ UNCH_GC
\* get_all_finalizers / get_finalizers_for(o): the registrations leave MMTk (counted as returned)
GetFor(o) ==
    /\ Idle /\ o \in Acc /\ cand[o] + ready[o] > 0
    /\ hist' = [hist EXCEPT !.popped[o] = @ + cand[o] + ready[o]]
    /\ cand' = [cand EXCEPT ![o] = 0] /\ ready' = [ready EXCEPT ![o] = 0]
    /\ UNCHANGED <<fld, roots, referent, table, fver>> /\ UNCH_GC

\* ---- the collection -----------------------------------------------------------------------------
UNCH_MUT == UNCHANGED <<fld, roots, strength, hist>>

GCStart(em, nur) ==
    /\ Idle /\ hist.gcs < MaxGC
    /\ hist' = [hist EXCEPT !.gcs = @ + 1]
    /\ LET m0 == IF nur THEN old \cup Cl(roots \cup old) ELSE Cl(roots) IN
       gc' = [pc |-> "soft", em |-> em, nur |-> nur, mov |-> Moving, marked |-> m0 \cap alive,
              handed |-> <<>>,
              \* ghost snapshot for the postconditions
              L0 |-> m0, ref0 |-> referent, tab0 |-> table, cand0 |-> cand, ready0 |-> ready]
    /\ UNCHANGED <<alive, old, ver, referent, table, tver, pend, cand, ready, fver, fld, roots, strength>>

\* ReferenceProcessor::scan of one table against the marked set `m` (process_reference)
Kept(k, m)    == {r \in table[k] : r \in m /\ referent[r].o # Null /\ referent[r].o \in m}
Cleared(k, m) == {r \in table[k] : r \in m /\ referent[r].o # Null /\ referent[r].o \notin m}
DeadRefs(k, m) == {r \in table[k] : r \notin m}
ScanInto(k, m) ==
    /\ table' = [table EXCEPT ![k] = Kept(k, m)]
    /\ pend' = [pend EXCEPT ![k] = @ \cup (IF Mutant = "clear_not_enqueued" THEN {} ELSE Cleared(k, m))
                                      \cup (IF Mutant = "dead_ref_enqueued" THEN DeadRefs(k, m) ELSE {})]
    /\ referent' = [r \in RefObj |->
                      IF r \in Cleared(k, m) THEN NoRef
                      ELSE IF r \in DeadRefs(k, m) /\ Mutant # "dead_ref_not_cleared" THEN NoRef
                      ELSE referent[r]]

SoftPhase ==
    /\ gc.pc = "soft"
    /\ LET retain == ~gc.em /\ Mutant # "soft_not_retained"
           m == IF retain
                THEN Cl(gc.marked \cup ({referent[r].o : r \in table["soft"] \cap gc.marked} \ {Null}))
                ELSE gc.marked
       IN /\ ScanInto("soft", m)
          /\ gc' = [gc EXCEPT !.pc = IF Mutant = "phantom_before_final" THEN "weak0" ELSE "weak",
                              !.marked = m]
    /\ UNCHANGED <<alive, old, ver, tver, cand, ready, fver>> /\ UNCH_MUT

WeakPhase ==
    /\ gc.pc \in {"weak", "weak0"}
    /\ ScanInto("weak", gc.marked)
    /\ gc' = [gc EXCEPT !.pc = IF gc.pc = "weak0" THEN "phantom0" ELSE "final"]
    /\ UNCHANGED <<alive, old, ver, tver, cand, ready, fver>> /\ UNCH_MUT

\* FinalizableProcessor::scan: every examined registration whose object is not live moves to the
\* ready list; afterwards the ready objects are traced (kept alive with what they reference).
FinalPhase ==
    /\ gc.pc = "final"
    /\ LET m == gc.marked
           work == IF Requeue THEN [o \in Obj |-> cand[o] + ready[o]] ELSE cand
           dead == [o \in Obj |-> IF o \in m THEN 0 ELSE work[o]]
           rdy == IF Mutant = "ready_lost" THEN dead
                  ELSE IF Requeue THEN dead ELSE [o \in Obj |-> ready[o] + dead[o]]
       IN /\ cand' = [o \in Obj |-> work[o] - dead[o]]
          /\ ready' = rdy
          /\ gc' = [gc EXCEPT !.pc = IF Mutant = "phantom_before_final" THEN "forward" ELSE "phantom",
                              !.marked = IF Mutant = "final_not_kept_alive" THEN m
                                         ELSE Cl(m \cup Support(rdy))]
    \* the rescan of the soft and weak tables (RescanReferences) finds every remaining entry live
    /\ UNCHANGED <<alive, old, ver, referent, table, tver, pend, fver>> /\ UNCH_MUT

PhantomPhase ==
    /\ gc.pc \in {"phantom", "phantom0"}
    /\ ScanInto("phantom", gc.marked)
    /\ gc' = [gc EXCEPT !.pc = IF gc.pc = "phantom0" THEN "final" ELSE "forward"]
    /\ UNCHANGED <<alive, old, ver, tver, cand, ready, fver>> /\ UNCH_MUT

\* Moving collection: every marked object that may move (all of them; only the young ones in a
\* nursery collection) gets a new location; table entries, referent slots, finalizer entries are
\* rewritten (set_referent / forward / forward_candidate / forward_finalizable).
ForwardPhase ==
    /\ gc.pc = "forward"
    /\ LET moved == IF ~gc.mov THEN {} ELSE IF gc.nur THEN gc.marked \ old ELSE gc.marked
           nv == [o \in Obj |-> IF o \in moved THEN 1 - ver[o] ELSE ver[o]]
           inTab == UNION {table[k] \cup pend[k] : k \in Strength}
       IN /\ ver' = nv
          /\ tver' = [r \in RefObj |-> IF r \in inTab THEN nv[r] ELSE tver[r]]
          /\ referent' = [r \in RefObj |->
                            IF r \in inTab /\ referent[r].o # Null /\ Mutant # "referent_not_forwarded"
                            THEN [o |-> referent[r].o, v |-> nv[referent[r].o]] ELSE referent[r]]
          /\ fver' = [o \in Obj |-> IF cand[o] + ready[o] > 0 /\ Mutant # "finalizable_not_forwarded"
                                    THEN nv[o] ELSE fver[o]]
    /\ gc' = [gc EXCEPT !.pc = "release"]
    /\ UNCHANGED <<alive, old, table, pend, cand, ready>> /\ UNCH_MUT

\* Release: RefEnqueue hands the cleared references to the VM, memory of unmarked objects is reclaimed
ReleasePhase ==
    /\ gc.pc = "release"
    /\ gc' = [gc EXCEPT !.pc = "done",
                        !.handed = [k \in Strength |-> pend[k]]]
    /\ pend' = IF Mutant = "enqueue_twice" THEN pend ELSE [k \in Strength |-> {}]
    /\ alive' = alive \cap gc.marked
    /\ old' = alive \cap gc.marked
    /\ UNCHANGED <<ver, referent, table, tver, cand, ready, fver>> /\ UNCH_MUT

GCFinish ==
    /\ gc.pc = "done" /\ gc' = [pc |-> "idle"]
    /\ UNCHANGED <<alive, old, ver, referent, table, tver, pend, cand, ready, fver>> /\ UNCH_MUT

Next ==
    \/ \E o \in Obj : \/ DropRoot(o) \/ LoadRoot(o) \/ AddFinalizer(o) \/ Pop(o) \/ GetFor(o)
                      \/ \E t \in Obj \cup {Null} : Write(o, t)
    \/ \E r \in RefObj : GetReferent(r) \/ \E t \in Obj \cup {Null} : SetReferent(r, t)
    \/ \E em, nur \in BOOLEAN : GCStart(em, nur)
    \/ SoftPhase \/ WeakPhase \/ FinalPhase \/ PhantomPhase \/ ForwardPhase \/ ReleasePhase \/ GCFinish

Spec == Init /\ [][Next]_vars

\* ---- the property (C06), stated on the ghost snapshot -----------------------------------------------
\* What counts as live for the reference tables of each strength, derived from the state at the start
\* of the collection only (L0: strongly reachable, plus every old object in a nursery collection).
RECURSIVE Cl0(_)
Cl0(S) == Cl(S)                                                   \* fields do not change during a GC
SoftRetained == IF gc.em THEN {} ELSE {gc.ref0[r].o : r \in gc.tab0["soft"] \cap gc.L0} \ {Null}
L1 == Cl0(gc.L0 \cup SoftRetained)                                \* live for soft and weak references
Dead0 == {o \in Obj : gc.cand0[o] > 0 /\ o \notin L1}             \* finalizable objects found unreachable
L2 == Cl0(L1 \cup Dead0 \cup Support(gc.ready0))                  \* live for phantom references
LiveFor(k) == IF k = "phantom" THEN L2 ELSE L1
Done == gc.pc = "done"
HandedAll == UNION {gc.handed[k] : k \in Strength}

\* a live reference with a live referent keeps it, at the referent's current location
KeepsLiveReferent ==
    Done => \A k \in Strength : \A r \in gc.tab0[k] :
        LET t == gc.ref0[r].o IN
        (r \in LiveFor(k) /\ t # Null /\ t \in LiveFor(k)) =>
            /\ referent[r] = [o |-> t, v |-> ver[t]] /\ t \in alive
            /\ r \in table[k] /\ tver[r] = ver[r] /\ r \notin HandedAll
\* a live reference whose referent is otherwise unreachable is cleared and handed over exactly once
ClearsDeadReferent ==
    Done => \A k \in Strength : \A r \in gc.tab0[k] :
        LET t == gc.ref0[r].o IN
        (r \in LiveFor(k) /\ t # Null /\ t \notin LiveFor(k)) =>
            /\ referent[r].o = Null /\ r \notin table[k]
            /\ r \in gc.handed[k] /\ \A k2 \in Strength \ {k} : r \notin gc.handed[k2]
\* nothing else is handed over, nothing is handed over in two collections
OnlyClearedEnqueued ==
    Done => \A k \in Strength : \A r \in gc.handed[k] :
        r \in gc.tab0[k] /\ r \in LiveFor(k) /\ gc.ref0[r].o # Null /\ gc.ref0[r].o \notin LiveFor(k)
\* dead reference objects (and references with a null referent) leave the tables
DeadRefsDropped ==
    Done => \A k \in Strength : \A r \in gc.tab0[k] :
        (r \notin LiveFor(k) \/ gc.ref0[r].o = Null) => r \notin table[k] /\ r \notin HandedAll
\* no table entry and no referent slot of a surviving reference is dangling or stale
NoStaleEntry ==
    Idle \/ Done => /\ \A k \in Strength : \A r \in table[k] : r \in alive /\ tver[r] = ver[r]
                    /\ \A r \in RefObj \cap alive : referent[r].o # Null =>
                          referent[r].o \in alive /\ referent[r].v = ver[referent[r].o]
\* finalizable objects found unreachable become ready (one entry per registration); ready objects
\* stay ready until popped; reachable ones stay candidates
Finalization ==
    Done => \A o \in Obj :
        /\ o \notin L1 => ready[o] = gc.ready0[o] + gc.cand0[o] /\ cand[o] = 0
        /\ o \in L1 => ready[o] = gc.ready0[o] /\ cand[o] = gc.cand0[o]
\* ready objects and everything they reference are retained, at their current locations
ReadyRetained ==
    Idle \/ Done => /\ Cl(Support(ready)) \subseteq alive
                    /\ \A o \in Obj : cand[o] + ready[o] > 0 => o \in alive /\ fver[o] = ver[o]
\* an object is returned at most once per registration
OncePerRegistration == \A o \in Obj : hist.popped[o] + cand[o] + ready[o] = hist.reg[o]
\* the mutator never sees reclaimed memory
ReachableAlive == Idle \/ Done => Acc \subseteq alive
=====================================================================================
