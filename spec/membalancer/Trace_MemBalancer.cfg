SPECIFICATION TraceSpec
CONSTANTS
  MaxPages = 0
  Mutant = "none"
POSTCONDITION Accepted
CHECK_DEADLOCK FALSE
