SPECIFICATION Spec
CONSTANTS
  MaxPages = 3
  Mutant = "no_clamp"
INVARIANTS
  InBounds
  Constant
PROPERTIES
  ConstantStep
CHECK_DEADLOCK FALSE
