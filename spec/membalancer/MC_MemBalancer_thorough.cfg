SPECIFICATION Spec
CONSTANTS
  MaxPages = 8
  Mutant = "none"
INVARIANTS
  InBounds
  Constant
PROPERTIES
  ConstantStep
CHECK_DEADLOCK FALSE
