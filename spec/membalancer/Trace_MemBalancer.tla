------------------------------ MODULE Trace_MemBalancer ------------------------------
(* Validates histories recorded from the real MemBalancerTrigger / FixedHeapSizeTrigger (driver     *)
(* d_policy membalancer; hooks mmtk::verif::gc_trigger_hooks) against the property of MemBalancer.   *)
(* Page counts are 64-bit: they travel as 4 limbs of 16 bits, most significant first, and are       *)
(* compared lexicographically here (TLC integers are 32-bit).                                       *)
(* Rows (every row reports "cur" = get_current_heap_size_in_pages() after the call):                *)
(*   NewDyn(min,max) | NewFixed(bytes)           start of a history                                 *)
(*   Pending | GCStart | GCRelease | GCEnd | NurseryGCEnd | Compute | Query                         *)
(*   Crash                                       the call panicked - matches nothing                *)
(* Judged: dyn: min <= cur <= max after every event; fixed: cur = configured size after every       *)
(* event. (Which value inside the bounds, and which events change it, is not judged: the formula    *)
(* is abstracted, see MemBalancer.tla.) After a rejected row the rest of that history is skipped.   *)
EXTENDS MemBalancer, Sequences, Json, IOUtils, TLC

Rec == ndJsonDeserialize(IOEnv.TRACE)
VARIABLES l, failed, tmin, tmax     \* tmin/tmax: limb sequences of the current history's bounds

RECURSIVE LeqFrom(_, _, _)
LeqFrom(a, b, i) == IF i > Len(a) THEN TRUE
                    ELSE IF a[i] < b[i] THEN TRUE
                    ELSE IF a[i] > b[i] THEN FALSE
                    ELSE LeqFrom(a, b, i + 1)
Leq(a, b) == Len(a) = Len(b) /\ LeqFrom(a, b, 1)
IsLimbs(a) == Len(a) = 4 /\ \A i \in 1..4 : a[i] \in 0..65535

Events == {"Pending", "GCStart", "GCRelease", "GCEnd", "NurseryGCEnd", "Compute", "Query"}

\* the property on one reported value
DynOK(lo, hi, c) == IsLimbs(c) /\ Leq(lo, c) /\ Leq(c, hi)

TInit == l = 1 /\ failed = FALSE /\ tmin = <<>> /\ tmax = <<>>
         /\ kind = "none" /\ min = 0 /\ max = 0 /\ cur = 0 /\ pending = 0 /\ phase = "mutator"

Reject(n) == PrintT("ROW_REJECTED l=" \o ToString(n))

TNext ==
    /\ l <= Len(Rec)
    /\ l' = l + 1
    /\ UNCHANGED <<min, max, cur, pending, phase>>
    /\ LET r == Rec[l] IN
       IF r.ev = "NewDyn" THEN
            /\ kind' = "dyn" /\ tmin' = r.min /\ tmax' = r.max
            /\ IF IsLimbs(r.min) /\ IsLimbs(r.max) /\ Leq(r.min, r.max) /\ DynOK(r.min, r.max, r.cur)
               THEN failed' = FALSE
               ELSE Reject(l) /\ failed' = TRUE
       ELSE IF r.ev = "NewFixed" THEN
            \* the reference value is what the trigger reports right after construction
            /\ kind' = "fixed" /\ tmin' = r.cur /\ tmax' = r.cur
            /\ IF IsLimbs(r.cur)
               THEN failed' = FALSE
               ELSE Reject(l) /\ failed' = TRUE
       ELSE /\ UNCHANGED <<kind, tmin, tmax>>
            /\ IF failed THEN UNCHANGED failed
               ELSE IF /\ r.ev \in Events
                       /\ kind # "none"
                       /\ IF kind = "dyn" THEN DynOK(tmin, tmax, r.cur) ELSE r.cur = tmin
                    THEN UNCHANGED failed
                    ELSE Reject(l) /\ failed' = TRUE
TraceSpec == TInit /\ [][TNext]_<<l, failed, tmin, tmax, vars>>

Accepted ==
    LET d == TLCGet("stats").diameter
    IN  IF d = Len(Rec) + 1 THEN TRUE
        ELSE /\ PrintT("TRACE_REJECTED matched=" \o ToString(d - 1) \o " of=" \o ToString(Len(Rec)))
             /\ FALSE
=====================================================================================
