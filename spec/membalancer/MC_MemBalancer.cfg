SPECIFICATION Spec
CONSTANTS
  MaxPages = 5
  Mutant = "none"
INVARIANTS
  InBounds
  Constant
PROPERTIES
  ConstantStep
CHECK_DEADLOCK FALSE
