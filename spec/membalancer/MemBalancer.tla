--------------------------------- MODULE MemBalancer ---------------------------------
(* C38. Heap-size policies of src/util/heap/gc_trigger.rs.                                          *)
(*   DynamicHeapSize(min,max) -> MemBalancerTrigger: the current heap size starts inside           *)
(*   [min,max]; the end of a (non-nursery) GC recomputes it as Clamp(optimal, min, max), where      *)
(*   optimal = live + sqrt(...) + extra_reserve + pending comes out of a floating-point formula     *)
(*   that this specification does NOT model: `optimal` is an arbitrary natural number (the formula  *)
(*   may yield 0, may saturate, may wrap). Pending-allocation notifications accumulate and are      *)
(*   cleared by the end of every GC; GC start/release and the end of a nursery GC (generational    *)
(*   plans) only update statistics.                                                                 *)
(*   FixedHeapSize(n) -> FixedHeapSizeTrigger: the heap size is n pages for ever.                   *)
(* Property: InBounds (dynamic) and Constant (fixed) after any history of events.                   *)
(* Only these two are judged on recorded traces (Trace_MemBalancer): which value inside the bounds  *)
(* is chosen, and when, is the heuristic's business.                                                *)
EXTENDS Naturals

CONSTANTS MaxPages,   \* bound of the model's page counts
          Mutant      \* "none" or the name of a deliberately broken mechanism (vacuity control)

VARIABLES kind,      \* "none" | "dyn" | "fixed"
          min, max,  \* bounds (dyn) ; min = max = configured size (fixed)
          cur,       \* current heap size in pages
          pending,   \* accumulated pending pages (dyn)
          phase      \* "mutator" | "gc" | "released"   (position inside the GC bracket)
vars == <<kind, min, max, cur, pending, phase>>

Clamp(x, lo, hi) == IF x < lo THEN lo ELSE IF x > hi THEN hi ELSE x

Init == kind = "none" /\ min = 0 /\ max = 0 /\ cur = 0 /\ pending = 0 /\ phase = "mutator"

\* GCTrigger::new for DynamicHeapSize(mn, mx); the option validator guarantees mn <= mx
NewDyn == /\ kind = "none"
          /\ \E mn \in 0..MaxPages, mx \in 0..MaxPages :
                /\ mn <= mx
                /\ min' = mn /\ max' = mx /\ cur' = mn
          /\ kind' = "dyn" /\ UNCHANGED <<pending, phase>>
NewFixed == /\ kind = "none"
            /\ \E n \in 0..MaxPages : min' = n /\ max' = n /\ cur' = n
            /\ kind' = "fixed" /\ UNCHANGED <<pending, phase>>

\* on_pending_allocation(p)
Pending == /\ kind # "none"
           /\ \E p \in 0..MaxPages :
                pending' = IF kind = "dyn" THEN Clamp(pending + p, 0, 2 * MaxPages) ELSE pending
           /\ UNCHANGED <<kind, min, max, cur, phase>>
\* on_gc_start / on_gc_release: statistics only
GCStart == /\ kind # "none" /\ phase = "mutator" /\ phase' = "gc"
           /\ UNCHANGED <<kind, min, max, cur, pending>>
GCRelease == /\ kind # "none" /\ phase = "gc" /\ phase' = "released"
             /\ UNCHANGED <<kind, min, max, cur, pending>>
\* on_gc_end of a GC that recomputes the limit: any `optimal` may come out of the formula
GCEnd == /\ kind # "none" /\ phase = "released" /\ phase' = "mutator"
         /\ \E optimal \in 0..(3 * MaxPages) :
               cur' = IF kind = "fixed" THEN (IF Mutant = "fixed_follows_optimal" THEN optimal ELSE cur)
                      ELSE IF Mutant = "no_clamp" THEN optimal
                      ELSE IF Mutant = "clamp_upper_only" THEN (IF optimal > max THEN max ELSE optimal)
                      ELSE Clamp(optimal, min, max)
         /\ pending' = 0
         /\ UNCHANGED <<kind, min, max>>
\* on_gc_end of a nursery GC (generational plans): no recomputation, pending is cleared
NurseryGCEnd == /\ kind # "none" /\ phase = "released" /\ phase' = "mutator"
                /\ pending' = 0
                /\ UNCHANGED <<kind, min, max, cur>>

Next == NewDyn \/ NewFixed \/ Pending \/ GCStart \/ GCRelease \/ GCEnd \/ NurseryGCEnd
Spec == Init /\ [][Next]_vars

\* ---- the property ------------------------------------------------------------------------------
InBounds == kind = "dyn" => (min <= cur /\ cur <= max)
Constant == kind = "fixed" => cur = min
ConstantStep == [][kind = "fixed" => cur' = cur]_vars
=====================================================================================
