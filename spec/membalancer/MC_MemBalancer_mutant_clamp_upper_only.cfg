SPECIFICATION Spec
CONSTANTS
  MaxPages = 3
  Mutant = "clamp_upper_only"
INVARIANTS
  InBounds
  Constant
PROPERTIES
  ConstantStep
CHECK_DEADLOCK FALSE
