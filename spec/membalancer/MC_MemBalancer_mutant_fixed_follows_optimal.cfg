SPECIFICATION Spec
CONSTANTS
  MaxPages = 3
  Mutant = "fixed_follows_optimal"
INVARIANTS
  InBounds
  Constant
PROPERTIES
  ConstantStep
CHECK_DEADLOCK FALSE
