\* Vacuity control: release does not update line_unavail_state (ConcurrentImmix hands out live lines).
SPECIFICATION Spec
CONSTANTS
  MAX = 3
  Blocks = {b1, b2}
  NL = 3
  MaxObjs = 2
  Kinds = {"alloc", "major", "conc"}
  Mutant = "noUnavailUpdate"
INVARIANTS
  TypeOK
  NeverHandOutLive
  LiveBlockAllocated
  LiveLinesMarked
  HolesAreDead
  UnavailFollowsCur
  SweepLeavesState
SYMMETRY BlockSymmetry
CHECK_DEADLOCK FALSE
