\* Vacuity control: hole search with || instead of &&, ConcurrentImmix.
SPECIFICATION Spec
CONSTANTS
  MAX = 3
  Blocks = {b1, b2}
  NL = 3
  MaxObjs = 2
  Kinds = {"alloc", "major", "conc"}
  Mutant = "holeOr"
INVARIANTS
  TypeOK
  NeverHandOutLive
  LiveBlockAllocated
  LiveLinesMarked
  HolesAreDead
  UnavailFollowsCur
  SweepLeavesState
SYMMETRY BlockSymmetry
CHECK_DEADLOCK FALSE
