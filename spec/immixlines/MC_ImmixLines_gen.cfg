\* GenImmix mature space: objects arrive only by promotion in nursery collections (no prepare/
\* release of the space), full-heap collections with defragmentation.
SPECIFICATION Spec
CONSTANTS
  MAX = 3
  Blocks = {b1, b2}
  NL = 3
  MaxObjs = 3
  Kinds = {"major", "promote", "copy"}
  Mutant = "none"
INVARIANTS
  TypeOK
  NeverHandOutLive
  LiveBlockAllocated
  LiveLinesMarked
  HolesAreDead
  UnavailFollowsCur
  SweepLeavesState
SYMMETRY BlockSymmetry
CHECK_DEADLOCK FALSE
