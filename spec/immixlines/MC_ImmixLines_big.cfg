\* Thorough: 4 lines per block, 2 objects; Immix and StickyImmix without the skipped collections.
SPECIFICATION Spec
CONSTANTS
  MAX = 3
  Blocks = {b1, b2}
  NL = 4
  MaxObjs = 2
  Kinds = {"alloc", "major", "nursery", "copy"}
  Mutant = "none"
INVARIANTS
  TypeOK
  NeverHandOutLive
  LiveBlockAllocated
  LiveLinesMarked
  HolesAreDead
  UnavailFollowsCur
  SweepLeavesState
SYMMETRY BlockSymmetry
CHECK_DEADLOCK FALSE
