\* Stop-the-world plans (Immix, StickyImmix): mutator allocation, full-heap and nursery
\* collections with and without copying, collections that skip the space. MAX = 3: the line mark
\* state wraps every third full-heap collection.
SPECIFICATION Spec
CONSTANTS
  MAX = 3
  Blocks = {b1, b2}
  NL = 3
  MaxObjs = 2
  Kinds = {"alloc", "major", "nursery", "copy", "skip"}
  Mutant = "none"
INVARIANTS
  TypeOK
  NeverHandOutLive
  LiveBlockAllocated
  LiveLinesMarked
  HolesAreDead
  UnavailFollowsCur
  SweepLeavesState
SYMMETRY BlockSymmetry
CHECK_DEADLOCK FALSE
