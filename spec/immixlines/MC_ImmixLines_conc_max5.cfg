\* Thorough: MAX = 5; ConcurrentImmix.
SPECIFICATION Spec
CONSTANTS
  MAX = 5
  Blocks = {b1, b2}
  NL = 3
  MaxObjs = 2
  Kinds = {"alloc", "major", "conc"}
  Mutant = "none"
INVARIANTS
  TypeOK
  NeverHandOutLive
  LiveBlockAllocated
  LiveLinesMarked
  HolesAreDead
  UnavailFollowsCur
  SweepLeavesState
SYMMETRY BlockSymmetry
CHECK_DEADLOCK FALSE
