\* Vacuity control: release does not update line_unavail_state. Only the safety invariant is listed:
\* ConcurrentImmix then hands out lines of objects that are reachable but not yet re-marked.
SPECIFICATION Spec
CONSTANTS
  MAX = 3
  Blocks = {b1, b2}
  NL = 3
  MaxObjs = 2
  Kinds = {"alloc", "major", "conc"}
  Mutant = "noUnavailUpdate"
INVARIANTS
  NeverHandOutLive
SYMMETRY BlockSymmetry
CHECK_DEADLOCK FALSE
