\* ConcurrentImmix: full STW collections and InitialMark .. concurrent marking .. FinalMark cycles
\* with mutator allocation (eager line marking) while marking runs.
SPECIFICATION Spec
CONSTANTS
  MAX = 3
  Blocks = {b1, b2}
  NL = 3
  MaxObjs = 2
  Kinds = {"alloc", "major", "conc"}
  Mutant = "none"
INVARIANTS
  TypeOK
  NeverHandOutLive
  LiveBlockAllocated
  LiveLinesMarked
  HolesAreDead
  UnavailFollowsCur
  SweepLeavesState
SYMMETRY BlockSymmetry
CHECK_DEADLOCK FALSE
