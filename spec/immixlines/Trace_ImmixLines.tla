--------------------------- MODULE Trace_ImmixLines ---------------------------
(* Validates the reports of `gcdrive --mode immixlines` against ImmixLines (property C34).         *)
(*                                                                                                 *)
(* Rows (all other events of the ShadowVM are consumed without constraint):                        *)
(*  IxInit {plan, reset, max, lineBytes, lines, spaces:[{n,cur,un}]}                               *)
(*  BS     {dir:"b2s", b, k, n, back} / {dir:"s2b", k, n, b, k2, n2, reus}                         *)
(*         the real From<u8> for BlockState / From<BlockState> for u8, every byte, every state     *)
(*  IxGC   {epoch, at:"end"|"mid", plan, nursery, conc, spaces:[{n,cur,un,..}],                    *)
(*          blocks:[{sp, a, st, stb, df, pool, m:[..], hs:[..], he:[..], objs:[[off,size,id]..]}]} *)
(*         taken inside resume_mutators ("end": the collection has finished, no mutator has run)   *)
(*         or at the first process_weak_refs ("mid": closure done, release not yet). One block     *)
(*         entry per Immix block holding an object reachable from the roots: state byte, line mark *)
(*         bytes, pool membership, and the answer (0-based start/end line, -1 = None) of the real  *)
(*         get_next_available_lines from every line of the block; objs = block offset and size of  *)
(*         the reachable objects. The live lines are computed HERE from objs.                      *)
(*  Crash  a panic of the code under test.                                                         *)
(*                                                                                                 *)
(* Every IxGC row is one step of the per-space (cur, unavail) state machine of ImmixLines          *)
(* (StepOK / StepMidOK for the kind of pause derived from plan, space, nursery flag and the        *)
(* concurrent-marking flag), and every block entry must satisfy the observation predicates of      *)
(* ImmixLines for that kind. Row mode: a rejected row prints ROW_REJECTED l=<line> tag=<guard>;    *)
(* the observed values are adopted afterwards so that one defect is reported once per row.         *)
EXTENDS ImmixLines, Json, IOUtils

Rec == ndJsonDeserialize(IOEnv.TRACE)

VARIABLES l,       \* next row
          k,       \* the IxInit record (constants of the build)
          sp,      \* space name -> [cur, un, conc] as of the previous "end" report
          prevb,   \* block entries of the previous "end" report (frame condition)
          stats
tvars == <<l, k, sp, prevb, stats>>

Fail(tag) == PrintT("ROW_REJECTED l=" \o ToString(l) \o " tag=" \o tag)

-----------------------------------------------------------------------------
MainSpaces == {"immix", "immix_mature"}
Generational == {"GenCopy", "GenImmix", "StickyImmix"}

(* Which pause a space has just been through (see ImmixLines, "What an observer may claim").       *)
KindOf(plan, space, nursery, concNow, concPrev) ==
    IF plan = "ConcurrentImmix"
    THEN (IF concNow THEN "initial" ELSE IF concPrev THEN "final" ELSE "major")
    ELSE IF ~nursery THEN "major"
    ELSE IF space \in MainSpaces /\ plan = "StickyImmix" THEN "nursery"
    ELSE IF space \in MainSpaces /\ plan = "GenImmix" THEN "promote"
    ELSE "skip"

SpaceRec(r, n) == LET i == CHOOSE i \in 1..Len(r.spaces) : r.spaces[i].n = n IN r.spaces[i]
SpaceNames(r) == {r.spaces[i].n : i \in 1..Len(r.spaces)}

-----------------------------------------------------------------------------
(* Block entries.                                                                                  *)
ObjLinesOf(o, n) == ((o[1] \div k.lineBytes + 1)..((o[1] + o[2] - 1) \div k.lineBytes + 1)) \cap (1..n)
LiveOf(b) == UNION {ObjLinesOf(b.objs[i], Len(b.m)) : i \in 1..Len(b.objs)}
AnswerFn(b) == [i \in 1..Len(b.m) |-> <<b.hs[i] + 1, b.he[i] + 1>>]
Key(b) == <<b.sp, b.a>>

(* "end" report of one block for a pause of `kind`; c, u: the space's states as reported.          *)
(* During concurrent marking (kind "initial") the marker may already be running: line marks of     *)
(* blocks outside the pool can change between the two reads of the accessor, so the functional     *)
(* comparison of the hole search is made only where marks can only change from unavail to cur.     *)
BlockTagEnd(b, kind, c, u) ==
    LET n == Len(b.m)
        live == LiveOf(b)
        A == AnswerFn(b)
        st == StateOfByte(b.st)
        olds == {j \in 1..Len(prevb) : Key(prevb[j]) = Key(b)}
    IN  IF n # k.lines \/ Len(b.hs) # n \/ Len(b.he) # n THEN "shape"
        ELSE IF b.stb # b.st \/ ByteOfState(st) # b.st THEN "state-roundtrip"
        ELSE IF b.st = 0 THEN "live-in-unallocated-block"
        ELSE IF (kind # "initial" \/ b.pool) /\ ~HoleAnswersInductive(A, b.m, c, u) THEN "holesearch"
        ELSE IF ~BlockLiveMarked(kind, c, u, b.m, b.pool, live) THEN "live-unmarked"
        ELSE IF ~BlockHolesDead(kind, b.pool, {A[i] : i \in 1..n}, live) THEN "hole-live"
        ELSE IF kind \in ReleaseKinds /\ ~SweepPost(b.m, c, st, b.pool) THEN "sweep-state"
        ELSE IF kind \in ReleaseKinds /\ ~StaleCleared(b.m, c) THEN "stale"
        ELSE IF \E j \in olds : \E i \in 1..n : b.m[i] \notin {c, 0, prevb[j].m[i]} THEN "frame"
        ELSE "ok"

(* "mid" report: the transitive closure from the roots is complete, so every reachable object of   *)
(* a traced space has been scanned and carries cur on all its lines; the copy allocators are using *)
(* the hole search right now with cur # unavail (full-heap collections).                           *)
BlockTagMid(b, kind, c, u) ==
    LET n == Len(b.m)
        live == LiveOf(b)
        A == AnswerFn(b)
        traced == kind \in {"major", "nursery", "final", "promote"}
    IN  IF n # k.lines \/ Len(b.hs) # n \/ Len(b.he) # n THEN "shape"
        ELSE IF b.st = 0 THEN "live-in-unallocated-block"
        ELSE IF ~HoleAnswersInductive(A, b.m, c, u) THEN "holesearch"
        ELSE IF (traced \/ b.pool) /\ \E i \in live : b.m[i] \notin (IF traced THEN {c} ELSE {c, u}) THEN "live-unmarked"
        ELSE IF (traced \/ b.pool) /\ LinesOfAnswers({A[i] : i \in 1..n}) \cap live # {} THEN "hole-live"
        ELSE "ok"

-----------------------------------------------------------------------------
Bump(key) == [stats EXCEPT ![key] = @ + 1]

DoInit(r) ==
    LET ok == /\ r.max = MAX /\ r.reset = Reset /\ ~r.blockOnly
              /\ \A i \in 1..Len(r.spaces) : r.spaces[i].cur = Reset /\ r.spaces[i].un = Reset
    IN  /\ IF ok THEN TRUE ELSE Fail("init")
        /\ k' = r
        /\ sp' = [n \in SpaceNames(r) |-> [cur |-> SpaceRec(r, n).cur, un |-> SpaceRec(r, n).un, conc |-> FALSE]]
        /\ prevb' = << >>
        /\ UNCHANGED stats

KindCode(s) == CASE s.k = "Unallocated" -> 0 [] s.k = "Unmarked" -> 1 [] s.k = "Marked" -> 2 [] s.k = "Reusable" -> 3
StateOfCode(c, n) == IF c = 0 THEN Unallocated ELSE IF c = 1 THEN Unmarked ELSE IF c = 2 THEN Marked ELSE Reusable(n)

DoBS(r) ==
    LET ok == IF r.dir = "b2s"
              THEN LET s == StateOfByte(r.b)
                   IN  /\ r.k = KindCode(s)
                       /\ s.k = "Reusable" => r.n = s.n
                       /\ r.back = r.b
              ELSE LET s == StateOfCode(r.k, r.n)
                   IN  /\ r.b = ByteOfState(s)
                       /\ r.reus = (s.k = "Reusable")
                       /\ ValidState(s, k.lines) => StateOfCode(r.k2, r.n2) = s
    IN  /\ IF ok THEN TRUE ELSE Fail("state-roundtrip")
        /\ stats' = Bump("bsrows")
        /\ UNCHANGED <<k, sp, prevb>>

DoGC(r) ==
    LET names == SpaceNames(r)
        mid == r.at = "mid"
        kind(n) == IF mid
                   THEN (IF r.plan = "ConcurrentImmix"
                         THEN (IF sp[n].conc THEN "final" ELSE "major")
                         ELSE KindOf(r.plan, n, r.nursery, FALSE, FALSE))
                   ELSE KindOf(r.plan, n, r.nursery, r.conc, sp[n].conc)
        stepBad == {n \in names :
                      LET s == SpaceRec(r, n)
                      IN  IF mid THEN ~StepMidOK(kind(n), sp[n].cur, sp[n].un, s.cur, s.un)
                          ELSE ~StepOK(kind(n), sp[n].cur, sp[n].un, s.cur, s.un)}
        btag(i) == LET b == r.blocks[i]
                       s == SpaceRec(r, b.sp)
                   IN  IF mid THEN BlockTagMid(b, kind(b.sp), s.cur, s.un)
                       ELSE BlockTagEnd(b, kind(b.sp), s.cur, s.un)
        tags == [i \in 1..Len(r.blocks) |-> btag(i)]
        bad == {i \in 1..Len(r.blocks) : tags[i] # "ok"}
        tag == IF names # DOMAIN sp THEN "spaces"
               ELSE IF stepBad # {} THEN "step"
               ELSE IF r.bad > 0 THEN "unreadable-object"
               ELSE IF bad # {} THEN tags[Min(bad)]
               ELSE "ok"
        mainKind == IF \E n \in names : n \in MainSpaces
                    THEN kind(CHOOSE n \in names : n \in MainSpaces) ELSE kind(CHOOSE n \in names : TRUE)
        anyS == SpaceRec(r, CHOOSE n \in names : TRUE)
    IN  /\ IF tag = "ok" THEN TRUE ELSE Fail(tag)
        /\ IF mid
           THEN UNCHANGED <<sp, prevb>>
           ELSE /\ sp' = [n \in names |-> [cur |-> SpaceRec(r, n).cur, un |-> SpaceRec(r, n).un, conc |-> r.conc]]
                /\ prevb' = r.blocks
        /\ stats' = [stats EXCEPT !.reports = @ + 1,
                                  ![IF mid THEN "mid" ELSE mainKind] = @ + 1,
                                  !.blocks = @ + Len(r.blocks),
                                  !.objs = @ + r.nobj,
                                  !.neq = @ + (IF anyS.cur # anyS.un THEN 1 ELSE 0),
                                  !.wraps = @ + (IF ~mid /\ names = DOMAIN sp /\ anyS.cur < sp[anyS.n].cur THEN 1 ELSE 0),
                                  !.poolblocks = @ + Cardinality({i \in 1..Len(r.blocks) : r.blocks[i].pool})]
        /\ UNCHANGED k

TInit ==
    /\ Init
    /\ l = 1
    /\ k = [lineBytes |-> 256, lines |-> 128]
    /\ sp = << >>
    /\ prevb = << >>
    /\ stats = [reports |-> 0, major |-> 0, nursery |-> 0, promote |-> 0, skip |-> 0, initial |-> 0,
                final |-> 0, mid |-> 0, blocks |-> 0, objs |-> 0, neq |-> 0, wraps |-> 0,
                poolblocks |-> 0, bsrows |-> 0]

TNext ==
    /\ l <= Len(Rec)
    /\ LET r == Rec[l]
       IN  CASE r.ev = "IxInit" -> DoInit(r)
             [] r.ev = "BS"     -> DoBS(r)
             [] r.ev = "IxGC"   -> DoGC(r)
             [] r.ev = "Crash"  -> Fail("crash") /\ UNCHANGED <<k, sp, prevb, stats>>
             [] OTHER           -> UNCHANGED <<k, sp, prevb, stats>>
    /\ l' = l + 1
    /\ UNCHANGED vars

TraceSpec == TInit /\ [][TNext]_<<tvars, vars>>

Accepted ==
    LET d == TLCGet("stats").diameter
    IN  IF d = Len(Rec) + 1 THEN TRUE
        ELSE /\ PrintT("TRACE_REJECTED matched=" \o ToString(d - 1) \o " of=" \o ToString(Len(Rec)))
             /\ FALSE
StatsPrinted == l = Len(Rec) + 1 => PrintT("IX_STATS " \o ToString(stats))
=============================================================================
