\* Thorough: MAX = 5, 3 objects; stop-the-world plans.
SPECIFICATION Spec
CONSTANTS
  MAX = 5
  Blocks = {b1, b2}
  NL = 3
  MaxObjs = 3
  Kinds = {"alloc", "major", "nursery", "copy", "skip"}
  Mutant = "none"
INVARIANTS
  TypeOK
  NeverHandOutLive
  LiveBlockAllocated
  LiveLinesMarked
  HolesAreDead
  UnavailFollowsCur
  SweepLeavesState
SYMMETRY BlockSymmetry
CHECK_DEADLOCK FALSE
