------------------------------ MODULE ImmixLines ------------------------------
(* Immix line marking, line mark state wrap-around, hole search and block states (property C34).  *)
(*                                                                                                 *)
(* Code: src/policy/immix/{immixspace.rs, line.rs, block.rs}, src/util/alloc/immix_allocator.rs.   *)
(*                                                                                                 *)
(*   mark[b][l]   line mark byte of line l of block b        (Line::MARK_TABLE)                    *)
(*   cur          ImmixSpace::line_mark_state                                                      *)
(*   unavail      ImmixSpace::line_unavail_state                                                   *)
(*   bst[b]       block state (Block::MARK_TABLE byte, decoded)                                    *)
(*   pool         ImmixSpace::reusable_blocks                                                      *)
(*   objs         the REACHABLE objects: block, first and last line spanned, object mark bit       *)
(*                                                                                                 *)
(* One action per step of the real protocol:                                                       *)
(*   MajorPrepare / InitialMark   ImmixSpace::prepare(major_gc = true) + PrepareBlockState         *)
(*   NurseryBegin / PromoteBegin  prepare(false) (StickyImmix nursery) / no prepare (GenImmix)     *)
(*   TraceMark(o)                 attempt_mark + mark_lines (post_scan_object, Line::mark_lines_for_object) *)
(*   TraceCopy(o) / Promote       trace_object_with_opportunistic_copy / nursery promotion: copy   *)
(*                                allocator = get_clean_block | get_reusable_block + hole search   *)
(*   Release                      ImmixSpace::release(major) + Block::sweep of every block         *)
(*   AcquireClean, PopReusable, NextHole, AllocObj   ImmixAllocator slow paths of a mutator        *)
(*   Drop(o)                      the mutator loses the last reference to o                        *)
(*                                                                                                 *)
(* Deliberate deviations: objects are line ranges (byte layout inside a line is not modelled; two  *)
(* objects may share a boundary line); unreachable objects are forgotten at once (marking floating *)
(* garbage only ADDS marks, and every property below is monotone in the set of marked lines);      *)
(* the sweep of all blocks is one step (mutators are stopped, sweeps of distinct blocks commute);   *)
(* the GC copy allocator is modelled without its cursor (a copied object's lines are marked at     *)
(* once, so no later search returns them); defrag-source selection is "any other block".           *)
EXTENDS Naturals, Sequences, FiniteSets, TLC

CONSTANTS MAX,       \* Line::MAX_MARK_STATE (127 in the code)
          Blocks,    \* model checking: the set of blocks (model values, symmetric)
          NL,        \* model checking: lines per block
          MaxObjs,   \* model checking: bound on simultaneously reachable objects
          Kinds,     \* model checking: which collection kinds the plan performs
          Mutant     \* "none" or the name of a seeded fault (vacuity control)

Lines  == 1..NL
NoBlock == "noblock"
None   == <<0, 0>>
Min(S) == CHOOSE x \in S : \A y \in S : x <= y

-----------------------------------------------------------------------------
(* Line mark state: prepare does fetch_add(1) and stores RESET_MARK_STATE (1) when the result      *)
(* exceeds MAX_MARK_STATE.                                                                         *)
Reset == 1
Next(c) == IF c + 1 > MAX THEN (IF Mutant = "wrapReset" THEN 0 ELSE Reset) ELSE c + 1

-----------------------------------------------------------------------------
(* Block state <-> byte (impl From<u8> for BlockState, impl From<BlockState> for u8).              *)
Unallocated == [k |-> "Unallocated", n |-> 0]
Unmarked    == [k |-> "Unmarked", n |-> 0]
Marked      == [k |-> "Marked", n |-> 0]
Reusable(n) == [k |-> "Reusable", n |-> n]

StateOfByte(b) == IF b = 0 THEN Unallocated
                  ELSE IF b = 255 THEN Unmarked
                  ELSE IF b = 254 THEN Marked
                  ELSE Reusable(b)
ByteOfState(s) == CASE s.k = "Unallocated" -> 0
                    [] s.k = "Unmarked" -> 255
                    [] s.k = "Marked" -> 254
                    [] s.k = "Reusable" -> s.n
(* States the sweep can produce for a block of `lines` lines: 1 <= unavailable_lines < lines.      *)
ValidState(s, lines) == s.k # "Reusable" \/ (1 <= s.n /\ s.n < lines)
BlockStateRoundTrip == \A b \in 0..255 : ByteOfState(StateOfByte(b)) = b
StateRoundTrip(lines) ==
    \A s \in {Unallocated, Unmarked, Marked} \cup {Reusable(n) : n \in 1..(lines - 1)} :
        StateOfByte(ByteOfState(s)) = s

-----------------------------------------------------------------------------
(* Hole search (ImmixSpace::get_next_available_lines). m: the line mark bytes of one block         *)
(* (1-based), c = line_mark_state, u = line_unavail_state, i = search start.                       *)
Avail(m, c, u, i) == IF Mutant = "holeOr" THEN m[i] # u \/ m[i] # c
                     ELSE m[i] # u /\ m[i] # c
(* The next maximal run of available lines at or after line i: <<start, end>> (end exclusive),     *)
(* None if every line from i on is unavailable.                                                    *)
HoleSearch(m, c, u, i) ==
    LET n == Len(m)
        starts == {j \in i..n : Avail(m, c, u, j)}
    IN  IF starts = {} THEN None
        ELSE LET s == Min(starts)
                 ends == {j \in (s + 1)..n : ~Avail(m, c, u, j)}
             IN  <<s, IF ends = {} THEN n + 1 ELSE Min(ends)>>
AllAnswers(m, c, u) == {HoleSearch(m, c, u, i) : i \in 1..Len(m)}

(* The same function characterised by backward induction over the search start (each answer is    *)
(* determined by the next one, so the characterisation has exactly one solution; module           *)
(* MC_ImmixLines checks for all small mark vectors that HoleSearch is that solution). Used by the  *)
(* trace specification, where it costs O(lines) instead of O(lines^2) per block.                   *)
HoleAnswersInductive(A, m, c, u) ==
    LET n == Len(m)
    IN  \A i \in 1..n :
          IF ~Avail(m, c, u, i)
          THEN A[i] = (IF i = n THEN None ELSE A[i + 1])
          ELSE A[i] = <<i, IF i < n /\ Avail(m, c, u, i + 1) THEN A[i + 1][2] ELSE i + 1>>

LinesOfAnswers(answers) == UNION {a[1]..(a[2] - 1) : a \in answers \ {None}}

-----------------------------------------------------------------------------
(* What an observer may claim right after a collection pause of a given kind, per block.          *)
(*   "major"    full-heap STW collection: prepare(true) .. release(true)                           *)
(*   "nursery"  StickyImmix nursery collection: prepare(false) .. release(false) (sweep, no bump)  *)
(*   "final"    ConcurrentImmix FinalMark pause: release(true) only                                *)
(*   "promote"  GenImmix nursery collection seen by the mature space: no prepare/release; objects  *)
(*              arrive only through the copy allocator and are line-marked when scanned            *)
(*   "initial"  ConcurrentImmix InitialMark pause: prepare(true) only                              *)
(*   "skip"     a collection that does not touch this space (non-moving space in nursery GCs)      *)
(* After a release every reachable object was traced in this (or, for old objects in a sticky      *)
(* nursery collection, an earlier) trace, so all its lines carry cur. After "initial"/"skip"       *)
(* objects allocated since the last sweep are unmarked, but they live in blocks that were taken    *)
(* out of the reusable pool; hole search is only ever applied to blocks popped from the pool, and  *)
(* every reachable object in a pooled block was reachable at the sweep that pooled it, so its      *)
(* lines carry the mark state of that collection, which is cur or unavail.                         *)
ReleaseKinds == {"major", "nursery", "final"}
AllKinds == ReleaseKinds \cup {"promote", "initial", "skip"}
Claims(kind, inPool) == kind \in ReleaseKinds \cup {"promote"} \/ inPool
MarkSetFor(kind, c, u) == IF kind \in ReleaseKinds \cup {"promote"} THEN {c} ELSE {c, u}

BlockLiveMarked(kind, c, u, m, inPool, live) ==
    Claims(kind, inPool) => \A l \in live : m[l] \in MarkSetFor(kind, c, u)
BlockHolesDead(kind, inPool, answers, live) ==
    Claims(kind, inPool) => LinesOfAnswers(answers) \cap live = {}

(* (cur, unavail) before and after a pause of the given kind.                                      *)
StepOK(kind, c, u, c2, u2) ==
    CASE kind = "major"   -> c2 = Next(c) /\ u2 = c2
      [] kind = "initial" -> c2 = Next(c) /\ u2 = u
      [] kind = "final"   -> c2 = c /\ u2 = c
      [] OTHER            -> c2 = c /\ u2 = u
(* ... and in the middle of a pause (after the closure, before release).                           *)
StepMidOK(kind, c, u, c2, u2) ==
    IF kind = "major" THEN c2 = Next(c) /\ u2 = u ELSE c2 = c /\ u2 = u

(* Block::sweep: the state left for a block that was not released, and the stale-mark clearing     *)
(* ("at least twice in every 128 GCs").                                                            *)
MarkedCount(m, c) == Cardinality({l \in 1..Len(m) : m[l] = c})
SweptState(m, c) == IF MarkedCount(m, c) = Len(m) THEN Unmarked ELSE Reusable(MarkedCount(m, c))
SweepPost(m, c, st, inPool) ==
    /\ MarkedCount(m, c) > 0
    /\ st = SweptState(m, c)
    /\ inPool <=> st.k = "Reusable"
StaleCleared(m, c) == c > MAX - 2 => \A l \in 1..Len(m) : m[l] \in {0, c}

-----------------------------------------------------------------------------
VARIABLES cur, unavail, mark, bst, pool, objs,
          phase,      \* "mut" | "gc" (a stop-the-world pause) | "conc" (concurrent marking)
          gckind,     \* kind of the pause in progress
          tlab,       \* the mutator's ImmixAllocator: block, hole-search cursor, bump region [lo, hi)
          gcb,        \* block owned by the GC copy allocator (NoBlock: none)
          obs,        \* kind of the pause that has just completed ("none" once anything else happened)
          handedLive  \* history: a line of a reachable object was handed out for allocation
vars == <<cur, unavail, mark, bst, pool, objs, phase, gckind, tlab, gcb, obs, handedLive>>

NoTlab == [b |-> NoBlock, cursor |-> 0, lo |-> 0, hi |-> 0]
ObjLines(o) == o.lo..o.hi
LiveLinesOf(b) == UNION {ObjLines(o) : o \in {x \in objs : x.b = b}}
SetMarks(m, S, v) == [l \in 1..Len(m) |-> IF l \in S THEN v ELSE m[l]]
AllLines(v) == [l \in Lines |-> v]

TypeOK ==
    /\ cur \in 1..MAX /\ unavail \in 1..MAX
    /\ mark \in [Blocks -> [Lines -> 0..MAX]]
    /\ \A b \in Blocks : bst[b] \in {Unallocated, Unmarked, Marked} \cup {Reusable(n) : n \in 1..(NL - 1)}
    /\ pool \subseteq Blocks
    /\ \A o \in objs : o.b \in Blocks /\ o.lo \in Lines /\ o.hi \in Lines /\ o.lo <= o.hi /\ o.om \in BOOLEAN
    /\ phase \in {"mut", "gc", "conc"}
    /\ obs \in AllKinds \cup {"none"}

Init ==
    /\ cur = Reset /\ unavail = Reset
    /\ mark = [b \in Blocks |-> AllLines(0)]
    /\ bst = [b \in Blocks |-> Unallocated]
    /\ pool = {} /\ objs = {}
    /\ phase = "mut" /\ gckind = "none"
    /\ tlab = NoTlab /\ gcb = NoBlock /\ obs = "none" /\ handedLive = FALSE

-----------------------------------------------------------------------------
(* Mutator allocation (ImmixAllocator with copy = false). During concurrent marking newly acquired *)
(* lines are eagerly marked (Line::eager_mark_lines) and objects are born marked.                  *)
Mutating == phase \in {"mut", "conc"}

AcquireClean(b) ==     \* acquire_clean_block: get_clean_block + bzero of the line marks
    /\ Mutating /\ "alloc" \in Kinds
    /\ bst[b] = Unallocated
    /\ mark' = [mark EXCEPT ![b] = AllLines(IF phase = "conc" THEN cur ELSE 0)]
    /\ bst' = [bst EXCEPT ![b] = Unmarked]
    /\ tlab' = [b |-> b, cursor |-> 0, lo |-> 1, hi |-> NL + 1]
    /\ handedLive' = (handedLive \/ LiveLinesOf(b) # {})
    /\ obs' = "none"
    /\ UNCHANGED <<cur, unavail, pool, objs, phase, gckind, gcb>>

PopReusable(b) ==      \* acquire_recyclable_block: get_reusable_block pops, Block::init(copy)
    /\ Mutating /\ "alloc" \in Kinds
    /\ tlab.cursor = 0 /\ b \in pool
    /\ pool' = pool \ {b}
    /\ bst' = [bst EXCEPT ![b] = Unmarked]
    /\ tlab' = [b |-> b, cursor |-> 1, lo |-> 0, hi |-> 0]
    /\ obs' = "none"
    /\ UNCHANGED <<cur, unavail, mark, objs, phase, gckind, gcb, handedLive>>

NextHole ==            \* acquire_recyclable_lines: hole search from the cursor
    /\ Mutating /\ tlab.cursor >= 1
    /\ LET b == tlab.b
           h == HoleSearch(mark[b], cur, unavail, tlab.cursor)
       IN  IF h = None
           THEN /\ tlab' = NoTlab
                /\ UNCHANGED <<mark, handedLive>>
           ELSE /\ tlab' = [b |-> b, cursor |-> IF h[2] = NL + 1 THEN 0 ELSE h[2], lo |-> h[1], hi |-> h[2]]
                /\ mark' = IF phase = "conc"
                           THEN [mark EXCEPT ![b] = SetMarks(mark[b], h[1]..(h[2] - 1), cur)]
                           ELSE mark
                /\ handedLive' = (handedLive \/ (h[1]..(h[2] - 1)) \cap LiveLinesOf(b) # {})
    /\ obs' = "none"
    /\ UNCHANGED <<cur, unavail, bst, pool, objs, phase, gckind, gcb>>

AllocObj ==            \* bump allocation in the current region; the next object may share the last line
    /\ Mutating /\ tlab.lo >= 1 /\ tlab.lo < tlab.hi
    /\ Cardinality(objs) < MaxObjs
    /\ \E hi \in tlab.lo..(tlab.hi - 1), share \in BOOLEAN :
         /\ objs' = objs \cup {[b |-> tlab.b, lo |-> tlab.lo, hi |-> hi, om |-> (phase = "conc")]}
         /\ tlab' = [tlab EXCEPT !.lo = IF share THEN hi ELSE hi + 1]
    /\ obs' = "none"
    /\ UNCHANGED <<cur, unavail, mark, bst, pool, phase, gckind, gcb, handedLive>>

Drop(o) ==
    /\ Mutating
    /\ objs' = objs \ {o}
    /\ obs' = "none"
    /\ UNCHANGED <<cur, unavail, mark, bst, pool, phase, gckind, tlab, gcb, handedLive>>

-----------------------------------------------------------------------------
(* Collections.                                                                                    *)
PrepareBlocks == [b \in Blocks |-> IF bst[b] = Unallocated THEN Unallocated ELSE Unmarked]
Unmark(S) == {[o EXCEPT !.om = FALSE] : o \in S}

MajorPrepare ==        \* ImmixSpace::prepare(true): bump the line mark state, reset block and object marks
    /\ phase = "mut" /\ "major" \in Kinds
    /\ cur' = Next(cur)
    /\ bst' = PrepareBlocks
    /\ objs' = Unmark(objs)
    /\ phase' = "gc" /\ gckind' = "major"
    /\ tlab' = NoTlab /\ gcb' = NoBlock /\ obs' = "none"
    /\ UNCHANGED <<unavail, mark, pool, handedLive>>

InitialMark ==         \* ConcurrentImmix InitialMark pause: prepare(true) only, then mutators resume
    /\ phase = "mut" /\ "conc" \in Kinds
    /\ cur' = Next(cur)
    /\ bst' = PrepareBlocks
    /\ objs' = Unmark(objs)
    /\ phase' = "conc" /\ gckind' = "conc"
    /\ tlab' = NoTlab /\ gcb' = NoBlock /\ obs' = "initial"
    /\ UNCHANGED <<unavail, mark, pool, handedLive>>

NurseryBegin ==        \* StickyImmix nursery collection: prepare(false) changes nothing here
    /\ phase = "mut" /\ "nursery" \in Kinds
    /\ phase' = "gc" /\ gckind' = "nursery"
    /\ tlab' = NoTlab /\ gcb' = NoBlock /\ obs' = "none"
    /\ UNCHANGED <<cur, unavail, mark, bst, pool, objs, handedLive>>

PromoteBegin ==        \* GenImmix nursery collection as seen by the mature space
    /\ phase = "mut" /\ "promote" \in Kinds
    /\ phase' = "gc" /\ gckind' = "promote"
    /\ gcb' = NoBlock /\ obs' = "none"
    /\ UNCHANGED <<cur, unavail, mark, bst, pool, objs, tlab, handedLive>>

SkipGC ==              \* a collection that does not prepare, trace or release this space
    /\ phase = "mut" /\ "skip" \in Kinds
    /\ obs' = "skip"
    /\ UNCHANGED <<cur, unavail, mark, bst, pool, objs, phase, gckind, tlab, gcb, handedLive>>

(* Line::mark_lines_for_object: every line from the line of the first byte to the line of the     *)
(* last byte (end rounded up).                                                                     *)
LinesToMark(lo, hi) == IF Mutant = "endLine" THEN lo..(hi - 1) ELSE lo..hi

TraceMark(o) ==        \* trace_object_without_moving + post_scan_object
    /\ phase \in {"gc", "conc"} /\ gckind \in {"major", "nursery", "conc"}
    /\ o \in objs /\ ~o.om
    /\ objs' = (objs \ {o}) \cup {[o EXCEPT !.om = TRUE]}
    /\ mark' = [mark EXCEPT ![o.b] = SetMarks(mark[o.b], LinesToMark(o.lo, o.hi), cur)]
    /\ UNCHANGED <<cur, unavail, bst, pool, phase, gckind, tlab, gcb, obs, handedLive>>

(* Destination of a GC copy: a clean block, a block popped from the reusable pool, or the block    *)
(* the copy allocator already owns; in the latter two cases a hole returned by the hole search.    *)
CopyInto(src, b2, lo, hi, copyFlag) ==
    /\ b2 # src
    /\ lo <= hi
    /\ \/ /\ bst[b2] = Unallocated                        \* get_clean_block
          /\ mark' = [mark EXCEPT ![b2] = SetMarks(AllLines(0), LinesToMark(lo, hi), cur)]
          /\ bst' = [bst EXCEPT ![b2] = IF copyFlag THEN Marked ELSE Unmarked]
          /\ pool' = pool
          /\ handedLive' = (handedLive \/ LiveLinesOf(b2) # {})
       \/ /\ b2 \in pool \/ b2 = gcb                      \* get_reusable_block / current block
          /\ \E i \in Lines :
               LET h == HoleSearch(mark[b2], cur, unavail, i)
               IN  /\ h # None /\ h[1] <= lo /\ hi < h[2]
                   /\ handedLive' = (handedLive \/ (h[1]..(h[2] - 1)) \cap LiveLinesOf(b2) # {})
          /\ mark' = [mark EXCEPT ![b2] = SetMarks(mark[b2], LinesToMark(lo, hi), cur)]
          /\ bst' = [bst EXCEPT ![b2] = IF b2 \in pool THEN (IF copyFlag THEN Marked ELSE Unmarked) ELSE bst[b2]]
          /\ pool' = pool \ {b2}
    /\ gcb' = b2

TraceCopy(o) ==        \* trace_object_with_opportunistic_copy (defrag, or StickyImmix copying nursery)
    /\ phase = "gc" /\ gckind \in {"major", "nursery"} /\ "copy" \in Kinds
    /\ o \in objs /\ ~o.om
    /\ \E b2 \in Blocks, lo \in Lines :
         LET hi == lo + (o.hi - o.lo)
         IN  /\ hi \in Lines
             /\ CopyInto(o.b, b2, lo, hi, TRUE)
             /\ objs' = (objs \ {o}) \cup {[b |-> b2, lo |-> lo, hi |-> hi, om |-> TRUE]}
    /\ UNCHANGED <<cur, unavail, phase, gckind, tlab, obs>>

Promote ==             \* a nursery survivor is copied into the mature space (copy = false allocator)
    /\ phase = "gc" /\ gckind = "promote"
    /\ Cardinality(objs) < MaxObjs
    /\ \E b2 \in Blocks, lo \in Lines, hi \in Lines :
         /\ CopyInto(NoBlock, b2, lo, hi, FALSE)
         /\ objs' = objs \cup {[b |-> b2, lo |-> lo, hi |-> hi, om |-> TRUE]}
    /\ UNCHANGED <<cur, unavail, phase, gckind, tlab, obs>>

PromoteEnd ==
    /\ phase = "gc" /\ gckind = "promote"
    /\ phase' = "mut" /\ gckind' = "none" /\ gcb' = NoBlock /\ obs' = "promote"
    /\ UNCHANGED <<cur, unavail, mark, bst, pool, objs, tlab, handedLive>>

(* ImmixSpace::release + Block::sweep of every allocated block. Enabled once the trace is          *)
(* complete (every reachable object is marked).                                                    *)
Release ==
    /\ \/ phase = "gc" /\ gckind \in {"major", "nursery"}
       \/ phase = "conc"
    /\ \A o \in objs : o.om
    /\ LET major == gckind \in {"major", "conc"}
           cnt(b) == MarkedCount(mark[b], cur)
           clear == cur > MAX - 2 /\ Mutant # "noStaleClear"
           swept(b) == IF bst[b] = Unallocated \/ cnt(b) = 0 THEN Unallocated ELSE SweptState(mark[b], cur)
       IN  /\ unavail' = IF major /\ Mutant # "noUnavailUpdate" THEN cur ELSE unavail
           /\ mark' = [b \in Blocks |-> IF bst[b] = Unallocated THEN mark[b]
                                        ELSE [l \in Lines |-> IF mark[b][l] # cur /\ clear THEN 0 ELSE mark[b][l]]]
           /\ bst' = [b \in Blocks |-> swept(b)]
           /\ pool' = {b \in Blocks : swept(b).k = "Reusable"}
           /\ obs' = IF gckind = "conc" THEN "final" ELSE gckind
    /\ phase' = "mut" /\ gckind' = "none" /\ tlab' = NoTlab /\ gcb' = NoBlock
    /\ UNCHANGED <<cur, objs, handedLive>>

DropAny == \E o \in objs : Drop(o)
TraceMarkAny == \E o \in objs : TraceMark(o)
TraceCopyAny == \E o \in objs : TraceCopy(o)

NextStep ==
    \/ \E b \in Blocks : AcquireClean(b) \/ PopReusable(b)
    \/ NextHole \/ AllocObj
    \/ DropAny \/ TraceMarkAny \/ TraceCopyAny
    \/ MajorPrepare \/ InitialMark \/ NurseryBegin \/ PromoteBegin \/ SkipGC
    \/ Promote \/ PromoteEnd \/ Release
Spec == Init /\ [][NextStep]_vars

-----------------------------------------------------------------------------
(* Properties.                                                                                     *)

(* The allocator never receives a line that holds a reachable object.                              *)
NeverHandOutLive == ~handedLive

(* A reachable object never sits in a block that was given back to the page resource.              *)
LiveBlockAllocated == \A o \in objs : bst[o.b] # Unallocated

(* Right after a pause, seen block by block as the harness reports it.                             *)
LiveLinesMarked ==
    obs # "none" =>
      \A b \in Blocks : BlockLiveMarked(obs, cur, unavail, mark[b], b \in pool, LiveLinesOf(b))
HolesAreDead ==
    obs # "none" =>
      \A b \in Blocks : bst[b] # Unallocated =>
          BlockHolesDead(obs, b \in pool, AllAnswers(mark[b], cur, unavail), LiveLinesOf(b))
UnavailFollowsCur == obs \in ReleaseKinds \cup {"promote", "skip"} => unavail = cur
SweepLeavesState ==
    obs \in ReleaseKinds =>
      \A b \in Blocks : bst[b] # Unallocated =>
          SweepPost(mark[b], cur, bst[b], b \in pool) /\ StaleCleared(mark[b], cur)
=============================================================================
