\* Vacuity control: hole search with || instead of && hands out lines marked in the last collection.
SPECIFICATION Spec
CONSTANTS
  MAX = 3
  Blocks = {b1, b2}
  NL = 3
  MaxObjs = 2
  Kinds = {"alloc", "major", "nursery", "copy", "skip"}
  Mutant = "holeOr"
INVARIANTS
  TypeOK
  NeverHandOutLive
  LiveBlockAllocated
  LiveLinesMarked
  HolesAreDead
  UnavailFollowsCur
  SweepLeavesState
SYMMETRY BlockSymmetry
CHECK_DEADLOCK FALSE
