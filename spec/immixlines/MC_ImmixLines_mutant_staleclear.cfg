\* Vacuity control: the sweep never clears stale line marks.
SPECIFICATION Spec
CONSTANTS
  MAX = 3
  Blocks = {b1, b2}
  NL = 3
  MaxObjs = 2
  Kinds = {"alloc", "major", "nursery", "copy", "skip"}
  Mutant = "noStaleClear"
INVARIANTS
  TypeOK
  NeverHandOutLive
  LiveBlockAllocated
  LiveLinesMarked
  HolesAreDead
  UnavailFollowsCur
  SweepLeavesState
SYMMETRY BlockSymmetry
CHECK_DEADLOCK FALSE
