\* Vacuity control: the line mark state wraps to 0 instead of 1.
SPECIFICATION Spec
CONSTANTS
  MAX = 3
  Blocks = {b1, b2}
  NL = 3
  MaxObjs = 2
  Kinds = {"alloc", "major", "nursery", "copy", "skip"}
  Mutant = "wrapReset"
INVARIANTS
  TypeOK
  NeverHandOutLive
  LiveBlockAllocated
  LiveLinesMarked
  HolesAreDead
  UnavailFollowsCur
  SweepLeavesState
SYMMETRY BlockSymmetry
CHECK_DEADLOCK FALSE
