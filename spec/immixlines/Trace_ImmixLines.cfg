SPECIFICATION TraceSpec
CONSTANTS
  MAX = 127
  Blocks = {b1}
  NL = 1
  MaxObjs = 0
  Kinds = {}
  Mutant = "none"
POSTCONDITION Accepted
INVARIANT StatsPrinted
CHECK_DEADLOCK FALSE
