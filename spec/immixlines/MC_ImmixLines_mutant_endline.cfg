\* Vacuity control: the last line of an object is not marked.
SPECIFICATION Spec
CONSTANTS
  MAX = 3
  Blocks = {b1, b2}
  NL = 3
  MaxObjs = 2
  Kinds = {"alloc", "major", "nursery", "copy", "skip"}
  Mutant = "endLine"
INVARIANTS
  TypeOK
  NeverHandOutLive
  LiveBlockAllocated
  LiveLinesMarked
  HolesAreDead
  UnavailFollowsCur
  SweepLeavesState
SYMMETRY BlockSymmetry
CHECK_DEADLOCK FALSE
