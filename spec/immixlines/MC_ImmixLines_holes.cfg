\* Constant-level checks only (module MC_ImmixLines ASSUMEs) on longer mark vectors: hole search is
\* the maximal-run function and satisfies its inductive characterisation; block state round trips.
SPECIFICATION Spec
CONSTANTS
  MAX = 3
  Blocks = {b1}
  NL = 5
  MaxObjs = 2
  Kinds = {}
  Mutant = "none"
INVARIANTS
  TypeOK
  NeverHandOutLive
  LiveBlockAllocated
  LiveLinesMarked
  HolesAreDead
  UnavailFollowsCur
  SweepLeavesState
SYMMETRY BlockSymmetry
CHECK_DEADLOCK FALSE
