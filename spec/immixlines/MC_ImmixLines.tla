---------------------------- MODULE MC_ImmixLines ----------------------------
(* Model-checking wrapper: constant-level facts checked once at start-up.                          *)
EXTENDS ImmixLines

BlockSymmetry == Permutations(Blocks)

(* Every byte decodes to a state that encodes back to the same byte; every state the sweep can     *)
(* produce (both block sizes of the code base) survives encode/decode.                             *)
ASSUME BlockStateRoundTrip
ASSUME StateRoundTrip(128) /\ StateRoundTrip(32)

(* HoleSearch satisfies its backward-inductive characterisation for every mark vector and every    *)
(* pair of mark states of the model's size (the characterisation has a unique solution).           *)
ASSUME \A m \in [1..NL -> 0..MAX], c \in 0..MAX, u \in 0..MAX :
          HoleAnswersInductive([i \in 1..NL |-> HoleSearch(m, c, u, i)], m, c, u)

(* A returned hole is a maximal run of available lines at or after the search start.               *)
ASSUME \A m \in [1..NL -> 0..MAX], c \in 0..MAX, u \in 0..MAX, i \in 1..NL :
          LET h == HoleSearch(m, c, u, i)
          IN  IF h = None THEN \A j \in i..NL : ~Avail(m, c, u, j)
              ELSE /\ i <= h[1] /\ h[1] < h[2] /\ h[2] <= NL + 1
                   /\ \A j \in i..(h[1] - 1) : ~Avail(m, c, u, j)
                   /\ \A j \in h[1]..(h[2] - 1) : Avail(m, c, u, j)
                   /\ h[2] = NL + 1 \/ ~Avail(m, c, u, h[2])
=============================================================================
