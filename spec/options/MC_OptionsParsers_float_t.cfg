\* thorough tier: length 5
SPECIFICATION Spec
CONSTANTS
  WordMax <- SmallWord
  KiloBase <- Kilo
  Alphabet = {48, 49, 53, 46, 44, 95, 101, 45, 43}
  MaxLen = 5

INVARIANTS
  UnsignedAgainstNative
  OrderAgainstNative
  MulAgainstNative
  Monotone
  SizeConsistent
  TriggerConsistent
  CpuListConsistent
  FloatConsistent
  NurseryConsistent
  PerfConsistent
CHECK_DEADLOCK FALSE
