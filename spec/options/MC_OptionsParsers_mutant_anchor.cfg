\* MUTANT: size regex without end anchor -- must be rejected
SPECIFICATION Spec
CONSTANTS
  WordMax <- SmallWord
  KiloBase <- Kilo
  Alphabet = {48, 49, 57, 107, 116, 44, 45, 58, 120}
  MaxLen = 4
  MatchSize <- MatchSizeNoAnchor
INVARIANTS
  TriggerConsistent
CHECK_DEADLOCK FALSE
