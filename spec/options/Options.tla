----------------------------------- MODULE Options -----------------------------------
(* C39. MMTk options (src/util/options.rs): the option table, the documented grammars of the   *)
(* option values, and the contract of Options::set_from_string / set_bulk_from_string /         *)
(* read_env_var_settings.                                                                       *)
(*                                                                                              *)
(* Strings are sequences of Unicode scalar values ("codes"). Machine-word quantities (usize,    *)
(* u64, Address) are canonical decimal digit sequences (no leading zeros, zero = <<0>>), because *)
(* TLC integers have 32 bits; comparison and multiplication are defined on digit sequences and  *)
(* overflow is decided against WordMax explicitly.                                              *)
(*                                                                                              *)
(* Sources of the grammar (documented contract):                                                *)
(*  - "It will be parsed by FromStr::from_str" (Options::set_from_string). For usize, u16, i32, *)
(*    bool and f64 that is the grammar documented by the Rust standard library:                 *)
(*      unsigned ::= '+'? digit+              (value must fit the type, otherwise an error)     *)
(*      signed   ::= ('+'|'-')? digit+                                                          *)
(*      bool     ::= "true" | "false"                                                           *)
(*      f64      ::= sign? ( "inf" | "infinity" | "nan" | number )   (case-insensitive)         *)
(*      number   ::= ( digit+ | digit+ '.' digit* | digit* '.' digit+ ) ( 'e' sign? digit+ )?   *)
(*  - enum options: the variant names (strum EnumString, case-sensitive).                       *)
(*  - GCTriggerSelector: "FixedHeapSize:" size | "DynamicHeapSize:" size "," size | "Delegated" *)
(*    with size ::= digit+ [kKmMgGtT]? (binary multiples; "return an error" on overflow);       *)
(*    validation: fixed size > 0, min <= max.                                                   *)
(*  - NurserySize: "Bounded:" (usize|"_") "," (usize|"_") | "ProportionalBounded:" (f64|"_")    *)
(*    "," (f64|"_") | "Fixed:" usize ; "_" = documented default; validation min <= max,         *)
(*    0 < min <= max <= 1.                                                                      *)
(*  - AffinityKind (parse_cpulist): "" = OsDefault; [("RoundRobin"|"AllInSet") ":"] item        *)
(*    ("," item)* ; item ::= u16 | u16 "-" u16 with start < end ("Starting core id in range     *)
(*    should be less than the end"); de-duplicated and sorted. validate(): "true if the         *)
(*    affinity is either OsDefault or the cores in the list do not exceed the maximum number of *)
(*    cores allocated to the program".                                                          *)
(*  - PerfEventOptions: events separated by ';' (empty events ignored), event ::= name "," i32  *)
(*    "," i32. Validators of the perf options are cfg!(feature="perf_counter") = FALSE here.    *)
(* Deliberate reading choices are marked READING.                                               *)
EXTENDS Integers, Sequences, FiniteSets, SequencesExt, TLC

CONSTANTS WordMax,      \* largest usize (= largest u64 on the 64-bit target), canonical digit sequence
          KiloBase      \* 1024

\* ------------------------------------------------------------------------------------------
\* characters
Chars == << " ", "!", "\"", "#", "$", "%", "&", "'", "(", ")", "*", "+", ",", "-", ".", "/",
            "0", "1", "2", "3", "4", "5", "6", "7", "8", "9", ":", ";", "<", "=", ">", "?",
            "@", "A", "B", "C", "D", "E", "F", "G", "H", "I", "J", "K", "L", "M", "N", "O",
            "P", "Q", "R", "S", "T", "U", "V", "W", "X", "Y", "Z", "[", "\\", "]", "^", "_",
            "`", "a", "b", "c", "d", "e", "f", "g", "h", "i", "j", "k", "l", "m", "n", "o",
            "p", "q", "r", "s", "t", "u", "v", "w", "x", "y", "z", "{", "|", "}", "~" >>
\* Printable ASCII maps to itself; everything else to "?" (no keyword or option name contains
\* "?", so a string with a foreign character never equals a keyword).
Chr(c) == IF c >= 32 /\ c <= 126 THEN Chars[c - 31] ELSE "?"
RECURSIVE StrFrom(_, _)
StrFrom(s, i) == IF i > Len(s) THEN "" ELSE Chr(s[i]) \o StrFrom(s, i + 1)
Str(s) == StrFrom(s, 1)

cPlus == 43   cMinus == 45   cComma == 44   cColon == 58   cSemi == 59   cDot == 46
cEq == 61     cUnder == 95   cLowE == 101   cUpE == 69

IsDigit(c) == c >= 48 /\ c <= 57
AllDigits(s) == \A i \in 1..Len(s) : IsDigit(s[i])
LowerC(c) == IF c >= 65 /\ c <= 90 THEN c + 32 ELSE c
Lower(s) == [i \in 1..Len(s) |-> LowerC(s[i])]
Drop(s, n) == SubSeq(s, n + 1, Len(s))
Take(s, n) == SubSeq(s, 1, n)

\* pieces of s separated by sep: "a,b" -> <<a,b>>, "" -> << <<>> >>, "a," -> <<a, <<>> >>
RECURSIVE SplitFrom(_, _, _, _)
SplitFrom(s, seps, i, cur) ==
    IF i > Len(s) THEN << cur >>
    ELSE IF s[i] \in seps THEN << cur >> \o SplitFrom(s, seps, i + 1, << >>)
         ELSE SplitFrom(s, seps, i + 1, Append(cur, s[i]))
Split(s, sep) == SplitFrom(s, {sep}, 1, << >>)
SplitAny(s, seps) == SplitFrom(s, seps, 1, << >>)
NonEmpty(x) == x # << >>
RECURSIVE IndexFrom(_, _, _)
IndexFrom(s, c, i) == IF i > Len(s) THEN 0 ELSE IF s[i] = c THEN i ELSE IndexFrom(s, c, i + 1)
IndexOf(s, c) == IndexFrom(s, c, 1)        \* first position of c in s, 0 if absent
HasChar(s, c) == IndexOf(s, c) # 0

\* ------------------------------------------------------------------------------------------
\* naturals as canonical digit sequences
RECURSIVE StripZ(_)
StripZ(d) == IF Len(d) > 1 /\ d[1] = 0 THEN StripZ(Tail(d)) ELSE d
DVal(s) == StripZ([i \in 1..Len(s) |-> s[i] - 48])        \* s: non-empty string of digits
RECURSIVE LexLeq(_, _, _)
LexLeq(a, b, i) == IF i > Len(a) THEN TRUE
                   ELSE IF a[i] < b[i] THEN TRUE
                   ELSE IF a[i] > b[i] THEN FALSE
                   ELSE LexLeq(a, b, i + 1)
Leq(a, b) == Len(a) < Len(b) \/ (Len(a) = Len(b) /\ LexLeq(a, b, 1))
Lt(a, b) == Leq(a, b) /\ a # b
Zero == << 0 >>
RECURSIVE NatDigits(_)
NatDigits(n) == IF n < 10 THEN << n >> ELSE Append(NatDigits(n \div 10), n % 10)
\* d * k for a small k (k * 9 + carry stays far below 2^31)
RECURSIVE MulLS(_, _, _, _)
MulLS(d, k, i, carry) ==
    IF i = 0 THEN (IF carry = 0 THEN << >> ELSE NatDigits(carry))
    ELSE LET x == d[i] * k + carry IN Append(MulLS(d, k, i - 1, x \div 10), x % 10)
MulSmall(d, k) == StripZ(MulLS(d, k, Len(d), 0))
RECURSIVE ToInt(_)                                          \* only for values known to be small
ToInt(d) == IF d = << >> THEN 0 ELSE ToInt(Take(d, Len(d) - 1)) * 10 + d[Len(d)]

Fail == [ok |-> FALSE, v |-> << >>]
Ok(v) == [ok |-> TRUE, v |-> v]

\* Rust: <unsigned>::from_str  ('+'? digit+, value <= max)
ParseUnsigned(s, max) ==
    LET body == IF Len(s) > 0 /\ s[1] = cPlus THEN Tail(s) ELSE s
    IN  IF body = << >> \/ ~AllDigits(body) THEN Fail
        ELSE LET v == DVal(body) IN IF Leq(v, max) THEN Ok(v) ELSE Fail
ParseUsize(s) == ParseUnsigned(s, WordMax)
U16Max == << 6, 5, 5, 3, 5 >>
I32Max == << 2, 1, 4, 7, 4, 8, 3, 6, 4, 7 >>
I32MinMag == << 2, 1, 4, 7, 4, 8, 3, 6, 4, 8 >>
\* Rust: i32::from_str; value encoded as <<neg, d1, d2, ..>> (magnitude digits), -0 = 0
ParseI32(s) ==
    LET sgn == Len(s) > 0 /\ s[1] \in {cPlus, cMinus}
        neg == Len(s) > 0 /\ s[1] = cMinus
        body == IF sgn THEN Tail(s) ELSE s
    IN  IF body = << >> \/ ~AllDigits(body) THEN Fail
        ELSE LET v == DVal(body)
             IN  IF Leq(v, IF neg THEN I32MinMag ELSE I32Max)
                 THEN Ok(<< IF neg /\ v # Zero THEN 1 ELSE 0 >> \o v) ELSE Fail

\* ------------------------------------------------------------------------------------------
\* sizes: digit+ [kKmMgGtT]?   ("parse_size": K/M/G/T are powers of 1024; overflow is an error)
SuffixPow(c) == CASE c \in {107, 75} -> 1 [] c \in {109, 77} -> 2 [] c \in {103, 71} -> 3
                  [] c \in {116, 84} -> 4 [] OTHER -> 0
MatchSize(w) == /\ Len(w) >= 1
                /\ \A i \in 1..(Len(w) - 1) : IsDigit(w[i])
                /\ IsDigit(w[1])
                /\ (IsDigit(w[Len(w)]) \/ SuffixPow(w[Len(w)]) > 0)
\* num * KiloBase^n, or overflow as soon as an intermediate product exceeds WordMax (products
\* only grow, so the final product exceeds WordMax iff some intermediate one does)
RECURSIVE SizeMul(_, _)
SizeMul(num, n) ==
    IF n = 0 THEN Ok(num)
    ELSE LET p == MulSmall(num, KiloBase)
         IN  IF Leq(p, WordMax) THEN SizeMul(p, n - 1) ELSE Fail
SizeValue(w) ==      \* w matches MatchSize
    IF IsDigit(w[Len(w)]) THEN ParseUnsigned(w, WordMax)
    ELSE LET num == ParseUnsigned(Take(w, Len(w) - 1), WordMax)
         IN  IF num.ok THEN SizeMul(num.v, SuffixPow(w[Len(w)])) ELSE Fail

HasPrefix(s, p, n) == Len(s) >= n /\ Str(Take(s, n)) = p       \* n = length of the keyword p
\* value: <<kind, A, B>>
\* rd is the "reading" record, see Documented below.
ParseTrigger(s, rd) ==
    IF HasPrefix(s, "FixedHeapSize:", 14) /\ MatchSize(Drop(s, 14))
    THEN LET r == SizeValue(Drop(s, 14))
         IN  IF r.ok THEN Ok(<< "FixedHeapSize", r.v, << >> >>) ELSE Fail
    ELSE IF HasPrefix(s, "DynamicHeapSize:", 16)
    THEN LET parts == Split(Drop(s, 16), cComma)
         IN  IF Len(parts) = 2 /\ MatchSize(parts[1]) /\ MatchSize(parts[2])
             THEN LET a == SizeValue(parts[1])   b == SizeValue(parts[2])
                  IN  IF a.ok /\ b.ok THEN Ok(<< "DynamicHeapSize", a.v, b.v >>) ELSE Fail
             ELSE Fail
    \* READING: the third alternative is the word "Delegated" (like the other two, anchored).
    \* rd.delegPrefix = TRUE is the lenient reading "anything that starts with Delegated".
    ELSE IF Len(s) = 9 /\ Str(s) = "Delegated" THEN Ok(<< "Delegated", << >>, << >> >>)
    ELSE IF rd.delegPrefix /\ HasPrefix(s, "Delegated", 9) THEN Ok(<< "Delegated", << >>, << >> >>)
    ELSE Fail
ValidTrigger(v) == CASE v[1] = "FixedHeapSize" -> v[2] # Zero
                     [] v[1] = "DynamicHeapSize" -> Leq(v[2], v[3])
                     [] OTHER -> TRUE

\* ------------------------------------------------------------------------------------------
\* f64 literals. Value encoding <<cls, neg, exp, d1, .., dn>>: cls 0 = finite with value
\* (-1)^neg * d1.d2..dn * 10^exp, digits without leading/trailing zeros (zero: exp 0, digits 0);
\* cls 1 = infinite; cls 2 = NaN (<<2,0,0,0>>). `exact` says that the literal has at most 15
\* significant digits and a decimal exponent within -300..300: on that class decimal -> f64 is
\* injective and order preserving and the shortest round-trip representation of the f64 is the
\* literal's own normal form, so value and order are decided exactly. Outside of it the
\* specification does not constrain value or validity (DESIGN.md section 10, C39).
RECURSIVE StripTrail(_)
StripTrail(d) == IF Len(d) > 1 /\ d[Len(d)] = 0 THEN StripTrail(Take(d, Len(d) - 1)) ELSE d
FFail == [ok |-> FALSE, exact |-> TRUE, v |-> << >>]
ParseNumber(neg, body) ==
    LET lb == Lower(body)
        ei == IndexOf(lb, cLowE)
        mant == IF ei = 0 THEN body ELSE Take(body, ei - 1)
        expo == IF ei = 0 THEN << >> ELSE Drop(body, ei)
        esgn == Len(expo) > 0 /\ expo[1] \in {cPlus, cMinus}
        eneg == Len(expo) > 0 /\ expo[1] = cMinus
        edig == IF esgn THEN Tail(expo) ELSE expo
        di == IndexOf(mant, cDot)
        ip == IF di = 0 THEN mant ELSE Take(mant, di - 1)
        fp == IF di = 0 THEN << >> ELSE Drop(mant, di)
    IN  IF \/ ~AllDigits(ip) \/ ~AllDigits(fp) \/ (ip = << >> /\ fp = << >>)
           \/ (ei # 0 /\ (edig = << >> \/ ~AllDigits(edig)))
        THEN FFail
        ELSE LET all == [i \in 1..(Len(ip) + Len(fp)) |-> (ip \o fp)[i] - 48]
                 lead == StripZ(all)                      \* without leading zeros
                 sig == StripTrail(lead)                   \* significant digits
                 ev == IF ei = 0 THEN Zero ELSE DVal(edig)
                 ebig == Len(ev) > 6
             IN  IF lead = Zero
                 THEN [ok |-> TRUE, exact |-> TRUE, v |-> << 0, IF neg THEN 1 ELSE 0, 0, 0 >>]
                 ELSE IF ebig THEN [ok |-> TRUE, exact |-> FALSE, v |-> << 0, IF neg THEN 1 ELSE 0, 0, 0 >>]
                 ELSE LET e == IF eneg THEN 0 - ToInt(ev) ELSE ToInt(ev)
                          x == (Len(lead) - 1) + e - Len(fp)
                      IN  [ok |-> TRUE,
                           exact |-> Len(sig) <= 15 /\ x >= -300 /\ x <= 300,
                           v |-> << 0, IF neg THEN 1 ELSE 0, x >> \o sig]
ParseF64(w) ==
    LET sgn == Len(w) > 0 /\ w[1] \in {cPlus, cMinus}
        neg == Len(w) > 0 /\ w[1] = cMinus
        body == IF sgn THEN Tail(w) ELSE w
        word == IF Len(body) \in {3, 8} THEN Str(Lower(body)) ELSE ""
    IN  IF word \in {"inf", "infinity"}
        THEN [ok |-> TRUE, exact |-> TRUE, v |-> << 1, IF neg THEN 1 ELSE 0, 0, 0 >>]
        ELSE IF word = "nan" THEN [ok |-> TRUE, exact |-> TRUE, v |-> << 2, 0, 0, 0 >>]
        ELSE ParseNumber(neg, body)
FDigits(v) == SubSeq(v, 4, Len(v))
FIsZero(v) == v[1] = 0 /\ FDigits(v) = Zero
FPositive(v) == (v[1] = 1 /\ v[2] = 0) \/ (v[1] = 0 /\ v[2] = 0 /\ ~FIsZero(v))
\* a <= b for positive finite values in normal form
RECURSIVE DigLeq(_, _, _)
DigLeq(a, b, i) ==   \* lexicographic, shorter sequence padded with zeros
    IF i > Len(a) THEN TRUE
    ELSE IF i > Len(b) THEN FALSE         \* a has a further non-zero digit (no trailing zeros)
    ELSE IF a[i] < b[i] THEN TRUE ELSE IF a[i] > b[i] THEN FALSE ELSE DigLeq(a, b, i + 1)
FPosLeq(a, b) == a[3] < b[3] \/ (a[3] = b[3] /\ DigLeq(FDigits(a), FDigits(b), 1))
FOne == << 0, 0, 0, 1 >>
FQuarter == << 0, 0, -1, 2, 5 >>

\* ------------------------------------------------------------------------------------------
\* NurserySize. value <<kind, A, B>>
DefaultMinNursery == << 2, 0, 9, 7, 1, 5, 2 >>                       \* 2 << 20
DefaultMaxNursery == << 1, 0, 9, 9, 5, 1, 1, 6, 2, 7, 7, 7, 6 >>     \* (1 << 20) << 20
IsUnderscore(w) == w = << cUnder >>
\* result record [ok, exact, v]
ParseNursery(s) ==
    LET parts == Split(s, cColon)
    IN  IF Len(parts) # 2 THEN FFail
        ELSE LET variant == Str(parts[1])
                 vals == Split(parts[2], cComma)
             IN  IF variant = "Bounded" /\ Len(parts[1]) = 7
                 THEN IF Len(vals) # 2 THEN FFail
                      ELSE LET a == IF IsUnderscore(vals[1]) THEN Ok(DefaultMinNursery) ELSE ParseUsize(vals[1])
                               b == IF IsUnderscore(vals[2]) THEN Ok(DefaultMaxNursery) ELSE ParseUsize(vals[2])
                           IN  IF a.ok /\ b.ok THEN [ok |-> TRUE, exact |-> TRUE, v |-> << "Bounded", a.v, b.v >>]
                               ELSE FFail
                 ELSE IF variant = "ProportionalBounded" /\ Len(parts[1]) = 19
                 THEN IF Len(vals) # 2 THEN FFail
                      ELSE LET a == IF IsUnderscore(vals[1]) THEN [ok |-> TRUE, exact |-> TRUE, v |-> FQuarter] ELSE ParseF64(vals[1])
                               b == IF IsUnderscore(vals[2]) THEN [ok |-> TRUE, exact |-> TRUE, v |-> FOne] ELSE ParseF64(vals[2])
                           IN  IF a.ok /\ b.ok
                               THEN [ok |-> TRUE, exact |-> a.exact /\ b.exact, v |-> << "ProportionalBounded", a.v, b.v >>]
                               ELSE FFail
                 ELSE IF variant = "Fixed" /\ Len(parts[1]) = 5
                 THEN IF Len(vals) # 1 THEN FFail
                      ELSE LET a == ParseUsize(vals[1])
                           IN  IF a.ok THEN [ok |-> TRUE, exact |-> TRUE, v |-> << "Fixed", a.v, << >> >>] ELSE FFail
                 ELSE FFail
\* Validity of a parsed nursery value: "yes", "no" or "unknown" (inexact f64 literal whose
\* validity is not decided by sign/class alone).
NurseryValidity(r) ==
    LET v == r.v
    IN  IF v[1] = "Bounded" THEN (IF Leq(v[2], v[3]) THEN "yes" ELSE "no")
        ELSE IF v[1] = "Fixed" THEN "yes"
        ELSE LET a == v[2]  b == v[3]
             IN  IF a[1] # 0 \/ b[1] # 0 THEN "no"            \* any inf/nan fails 0 < min <= max <= 1
                 ELSE IF a[2] = 1 \/ b[2] = 1 THEN "no"       \* a negative (or -0) bound fails 0 < min <= max
                 ELSE IF ~r.exact THEN "unknown"
                 ELSE IF FIsZero(a) THEN "no"
                 ELSE IF FIsZero(b) THEN "no"
                 ELSE IF FPosLeq(a, b) /\ FPosLeq(b, FOne) THEN "yes" ELSE "no"

\* ------------------------------------------------------------------------------------------
\* AffinityKind. value <<kind, cores>> (cores strictly increasing)
RangeOK(a, b) == a < b           \* "Starting core id in range should be less than the end"
\* one item of the list: [ok, set]
ItemCores(item) ==
    IF ~HasChar(item, cMinus)
    THEN LET r == ParseUnsigned(item, U16Max)
         IN  IF r.ok THEN [ok |-> TRUE, set |-> {ToInt(r.v)}] ELSE [ok |-> FALSE, set |-> {}]
    ELSE LET p == Split(item, cMinus)
         IN  IF Len(p) # 2 THEN [ok |-> FALSE, set |-> {}]
             ELSE LET a == ParseUnsigned(p[1], U16Max)   b == ParseUnsigned(p[2], U16Max)
                  IN  IF a.ok /\ b.ok /\ RangeOK(ToInt(a.v), ToInt(b.v))
                      THEN [ok |-> TRUE, set |-> ToInt(a.v)..ToInt(b.v)]
                      ELSE [ok |-> FALSE, set |-> {}]
\* sorted, de-duplicated sequence of a set of small naturals
SetToSeqSorted(S) == SetToSortSeq(S, LAMBDA x, y : x < y)
ParseAffinity(s) ==
    IF s = << >> THEN Ok(<< "OsDefault", << >> >>)
    ELSE LET ci == IndexOf(s, cColon)
             kind == IF ci = 0 THEN "RoundRobin" ELSE Str(Take(s, ci - 1))
             list == IF ci = 0 THEN s ELSE Drop(s, ci)
         IN  IF ci # 0 /\ ~((kind = "RoundRobin" /\ ci = 11) \/ (kind = "AllInSet" /\ ci = 9)) THEN Fail
             ELSE LET items == Split(list, cComma)
                      rs == [i \in 1..Len(items) |-> ItemCores(items[i])]
                  IN  IF \E i \in 1..Len(items) : ~rs[i].ok THEN Fail
                      ELSE Ok(<< kind, SetToSeqSorted(UNION {rs[i].set : i \in 1..Len(items)}) >>)
\* READING: validate() documents "OsDefault or the cores in the list do not exceed the maximum
\* number of cores" -- for every list, whichever kind. rd.allInSetUnchecked = TRUE is the lenient
\* reading "only RoundRobin lists are checked".
ValidAffinity(v, ncpu, rd) == \/ v[1] = "OsDefault"
                              \/ (rd.allInSetUnchecked /\ v[1] = "AllInSet")
                              \/ \A i \in 1..Len(v[2]) : v[2][i] < ncpu

\* ------------------------------------------------------------------------------------------
\* PerfEventOptions. value: sequence of <<namecodes, pid, cpu>>
ParsePerf(s) ==
    LET evs == SelectSeq(Split(s, cSemi), NonEmpty)
        one(e) == LET p == Split(e, cComma)
                  IN  IF Len(p) # 3 THEN Fail
                      ELSE LET pid == ParseI32(p[2])  cpu == ParseI32(p[3])
                           IN  IF pid.ok /\ cpu.ok THEN Ok(<< p[1], pid.v, cpu.v >>) ELSE Fail
        rs == [i \in 1..Len(evs) |-> one(evs[i])]
    IN  IF \E i \in 1..Len(evs) : ~rs[i].ok THEN Fail
        ELSE Ok([i \in 1..Len(evs) |-> rs[i].v])

\* ------------------------------------------------------------------------------------------
\* plain types
PlanNames == {"NoGC", "SemiSpace", "GenCopy", "GenImmix", "MarkSweep", "PageProtect", "Immix",
              "MarkCompact", "Compressor", "StickyImmix", "ConcurrentImmix"}
ZeroingNames == {"Temporal", "Nontemporal", "Concurrent", "Adaptive"}
ParseEnum(s, names) == IF ~(\E i \in 1..Len(s) : s[i] = 63) /\ Str(s) \in names THEN Ok(Str(s)) ELSE Fail
ParseBool(s) == IF Len(s) = 4 /\ Str(s) = "true" THEN Ok(TRUE)
                ELSE IF Len(s) = 5 /\ Str(s) = "false" THEN Ok(FALSE) ELSE Fail

\* The documented reading, and the lenient variants used only to *classify* rejected rows.
Documented == [delegPrefix |-> FALSE, allInSetUnchecked |-> FALSE]

\* Parse by type tag: [ok, exact, v]
WithExact(r) == [ok |-> r.ok, exact |-> TRUE, v |-> r.v]
ParseT(t, s, rd) ==
    CASE t = "usize" -> WithExact(ParseUsize(s))
      [] t = "addr" -> WithExact(ParseUsize(s))
      [] t = "bool" -> WithExact(ParseBool(s))
      [] t = "plan" -> WithExact(ParseEnum(s, PlanNames))
      [] t = "zeroing" -> WithExact(ParseEnum(s, ZeroingNames))
      [] t = "nursery" -> ParseNursery(s)
      [] t = "gctrigger" -> WithExact(ParseTrigger(s, rd))
      [] t = "affinity" -> WithExact(ParseAffinity(s))
      [] t = "perf" -> WithExact(ParsePerf(s))

\* ------------------------------------------------------------------------------------------
\* the option table (declaration order of the options! macro invocation)
Table == <<
    [n |-> "plan", t |-> "plan"],
    [n |-> "threads", t |-> "usize"],
    [n |-> "use_short_stack_scans", t |-> "bool"],
    [n |-> "use_return_barrier", t |-> "bool"],
    [n |-> "eager_complete_sweep", t |-> "bool"],
    [n |-> "ignore_system_gc", t |-> "bool"],
    [n |-> "nursery", t |-> "nursery"],
    [n |-> "full_heap_system_gc", t |-> "bool"],
    [n |-> "no_finalizer", t |-> "bool"],
    [n |-> "no_reference_types", t |-> "bool"],
    [n |-> "nursery_zeroing", t |-> "zeroing"],
    [n |-> "stress_factor", t |-> "usize"],
    [n |-> "analysis_factor", t |-> "usize"],
    [n |-> "precise_stress", t |-> "bool"],
    [n |-> "vm_space_start", t |-> "addr"],
    [n |-> "vm_space_size", t |-> "usize"],
    [n |-> "side_metadata_base_address", t |-> "addr"],
    [n |-> "work_perf_events", t |-> "perf"],
    [n |-> "phase_perf_events", t |-> "perf"],
    [n |-> "perf_exclude_kernel", t |-> "bool"],
    [n |-> "thread_affinity", t |-> "affinity"],
    [n |-> "gc_trigger", t |-> "gctrigger"],
    [n |-> "transparent_hugepages", t |-> "bool"],
    [n |-> "count_live_bytes_in_gc", t |-> "bool"],
    [n |-> "immix_always_defrag", t |-> "bool"],
    [n |-> "immix_defrag_every_block", t |-> "bool"],
    [n |-> "immix_defrag_headroom_percent", t |-> "usize"],
    [n |-> "concurrent_immix_disable_concurrent_marking", t |-> "bool"] >>
NOpts == Len(Table)
\* index of the option called `name` (a string), 0 if there is none
OptIndex(name) == IF \E i \in 1..NOpts : Table[i].n = name
                  THEN CHOOSE i \in 1..NOpts : Table[i].n = name ELSE 0
\* The name as given (codes). A name containing a character outside printable ASCII, or a "?",
\* is not an option name.
NameIndex(nc) == IF \E i \in 1..Len(nc) : (nc[i] < 32 \/ nc[i] > 126 \/ nc[i] = 63) THEN 0
                 ELSE OptIndex(Str(nc))

\* The validators. "yes" / "no" / "unknown". Features perf_counter/work_packet_stats are off and
\* the target is Linux (transparent_hugepages accepts both values).
Fifty == << 5, 0 >>
Validity(i, r, ncpu, rd) ==
    LET n == Table[i].n   v == r.v
        yn(bo) == IF bo THEN "yes" ELSE "no"
    IN  CASE n = "threads" -> yn(v # Zero)
          [] n = "vm_space_size" -> yn(v # Zero)
          [] n = "immix_defrag_headroom_percent" -> yn(Leq(v, Fifty))
          [] n = "nursery" -> NurseryValidity(r)
          [] n = "gc_trigger" -> yn(ValidTrigger(v))
          [] n = "thread_affinity" -> yn(ValidAffinity(v, ncpu, rd))
          [] n \in {"work_perf_events", "phase_perf_events", "perf_exclude_kernel"} -> "no"
          [] OTHER -> "yes"

\* ------------------------------------------------------------------------------------------
\* set_from_string(name, value) on the option vector `opts` (sequence of values in Table order).
\* Result: ret \in {"true","false","either"}; opts = the state after the call when ret is
\* "true"/"false"; for "either" (undecided f64 literal) see SetAllowed.
SetFromString(opts, nc, vc, ncpu, rd) ==
    LET i == NameIndex(nc)
    IN  IF i = 0 THEN [ret |-> "false", i |-> 0, opts |-> opts]
        ELSE LET r == ParseT(Table[i].t, vc, rd)
             IN  IF ~r.ok THEN [ret |-> "false", i |-> i, opts |-> opts]
                 ELSE LET val == Validity(i, r, ncpu, rd)
                      IN  IF val = "no" THEN [ret |-> "false", i |-> i, opts |-> opts]
                          ELSE IF val = "yes" /\ r.exact
                          THEN [ret |-> "true", i |-> i, opts |-> [opts EXCEPT ![i] = r.v]]
                          ELSE [ret |-> "either", i |-> i, opts |-> opts]
\* Is (ret, after) an allowed outcome of set_from_string on `before`?  All-or-nothing in every
\* case: false => nothing changed; true => exactly option i changed, to the parsed value.
SetAllowed(before, nc, vc, ncpu, ret, after, rd) ==
    LET r == SetFromString(before, nc, vc, ncpu, rd)
    IN  CASE r.ret = "true" -> ret = TRUE /\ after = r.opts
          [] r.ret = "false" -> ret = FALSE /\ after = before
          [] OTHER -> IF ret THEN /\ \A j \in 1..NOpts : j # r.i => after[j] = before[j]
                                  /\ after[r.i][1] = "ProportionalBounded"
                      ELSE after = before

\* ------------------------------------------------------------------------------------------
\* set_bulk_from_string: "key value pairs separated by white spaces or commas"; each pair is set
\* in order via set_from_string; the first failure ends the call (earlier pairs stay applied):
\* "Panics if the options argument contains any unrecognized keys. Returns false if any option
\* given cannot be set due to parsing errors or validation errors". A pair that is not of the
\* form key=value returns false. READING: pairs are handled strictly left to right, so a failing
\* pair hides an unknown key to its right (the property: "behaves like applying its pairs in
\* order").
BulkSeps == {32, 9, 10, 12, 13, cComma}
BulkTokens(sc) == SelectSeq(SplitAny(sc, BulkSeps), NonEmpty)
RECURSIVE BulkFrom(_, _, _, _, _)
BulkFrom(opts, toks, k, ncpu, rd) ==
    IF k > Len(toks) THEN [ret |-> "true", opts |-> opts]
    ELSE LET kv == Split(toks[k], cEq)
         IN  IF Len(kv) # 2 THEN [ret |-> "false", opts |-> opts]
             ELSE IF NameIndex(kv[1]) = 0 THEN [ret |-> "panic", opts |-> opts]
             ELSE LET r == SetFromString(opts, kv[1], kv[2], ncpu, rd)
                  IN  CASE r.ret = "true" -> BulkFrom(r.opts, toks, k + 1, ncpu, rd)
                        [] r.ret = "false" -> [ret |-> "false", opts |-> opts]
                        [] OTHER -> [ret |-> "either", opts |-> opts]
Bulk(opts, sc, ncpu, rd) == BulkFrom(opts, BulkTokens(sc), 1, ncpu, rd)
BulkAllowed(before, sc, ncpu, ret, after, rd) ==
    LET r == Bulk(before, sc, ncpu, rd)
    IN  r.ret = "either" \/ (ret = r.ret /\ after = r.opts)

\* ------------------------------------------------------------------------------------------
\* read_env_var_settings: every variable MMTK_<X> sets option lowercase(<X>) to its value if that
\* is a valid value; unknown names and invalid values change nothing. (The harness only uses
\* variables whose lower-cased names are pairwise different, so the order does not matter.)
RECURSIVE EnvFrom(_, _, _, _, _)
EnvFrom(opts, pairs, k, ncpu, rd) ==
    IF k > Len(pairs) THEN [ret |-> "done", opts |-> opts]
    ELSE LET key == pairs[k][1]
         IN  IF ~HasPrefix(key, "MMTK_", 5) THEN EnvFrom(opts, pairs, k + 1, ncpu, rd)
             ELSE LET r == SetFromString(opts, Lower(Drop(key, 5)), pairs[k][2], ncpu, rd)
                  IN  IF r.ret = "either" THEN [ret |-> "either", opts |-> opts]
                      ELSE EnvFrom(r.opts, pairs, k + 1, ncpu, rd)
EnvAllowed(before, pairs, ncpu, ret, after, rd) ==
    LET r == EnvFrom(before, pairs, 1, ncpu, rd)
    IN  r.ret = "either" \/ (ret = r.ret /\ after = r.opts)
========================================================================================
