------------------------------ MODULE Trace_Options ------------------------------
(* Validates rows recorded by harness/d_options from the real mmtk::util::options code against *)
(* Options.tla. Every row is self-contained (row mode): it carries the input as character codes, *)
(* the result and the dump of all 28 option values before (b) and after (a) the call.           *)
(*   Set     : Options::set_from_string(n, v)            -> ret (BOOLEAN)                        *)
(*   Bulk    : Options::set_bulk_from_string(s)          -> ret "true" | "false" | "panic"      *)
(*   EnvRead : Options::read_env_var_settings() with the listed variables set -> "done"         *)
(*   Parse   : <type>::from_str(v)                       -> ok, val                              *)
(* A panic of the code under test is logged in the row (field "panic"); only the documented      *)
(* panic of set_bulk_from_string on an unknown key is allowed by the specification.              *)
EXTENDS Options, Json, IOUtils

Rec == ndJsonDeserialize(IOEnv.TRACE)
VARIABLE l

WordMax64 == << 1, 8, 4, 4, 6, 7, 4, 4, 0, 7, 3, 7, 0, 9, 5, 5, 1, 6, 1, 5 >>      \* 2^64 - 1
Kilo == 1024

Has(r, f) == f \in DOMAIN r
RowOKrd(r, rd) ==
    CASE r.ev = "Set" -> ~Has(r, "panic") /\ SetAllowed(r.b, r.nc, r.vc, r.ncpu, r.ret, r.a, rd)
      [] r.ev = "Bulk" -> BulkAllowed(r.b, r.sc, r.ncpu, r.ret, r.a, rd)
      [] r.ev = "EnvRead" -> EnvAllowed(r.b, r.pairs, r.ncpu, r.ret, r.a, rd)
      [] r.ev = "Parse" -> /\ ~Has(r, "panic")
                           /\ LET p == ParseT(r.t, r.vc, rd)
                              IN  /\ r.ok = p.ok
                                  /\ (p.ok /\ p.exact) => r.val = p.v
      [] OTHER -> FALSE
RowOK(r) == RowOKrd(r, Documented)

\* Classification of a rejected row (only used to give the finding a precise key): would the row
\* be allowed under a more lenient reading of one documented point?
Class(r) ==
    IF RowOKrd(r, [delegPrefix |-> TRUE, allInSetUnchecked |-> FALSE]) THEN "delegated-prefix"
    ELSE IF RowOKrd(r, [delegPrefix |-> FALSE, allInSetUnchecked |-> TRUE]) THEN "allinset-unchecked"
    ELSE IF RowOKrd(r, [delegPrefix |-> TRUE, allInSetUnchecked |-> TRUE]) THEN "delegated-prefix+allinset-unchecked"
    ELSE "other"

TInit == l = 1
TNext == /\ l <= Len(Rec)
         /\ IF RowOK(Rec[l]) THEN TRUE
            ELSE /\ PrintT("ROW_CLASS id=" \o ToString(Rec[l].id) \o " class=" \o Class(Rec[l]))
                 /\ PrintT("ROW_REJECTED l=" \o ToString(l))
         /\ l' = l + 1
TraceSpec == TInit /\ [][TNext]_l

Accepted ==
    LET d == TLCGet("stats").diameter
    IN  IF d = Len(Rec) + 1 THEN TRUE
        ELSE /\ PrintT("TRACE_REJECTED matched=" \o ToString(d - 1) \o " of=" \o ToString(Len(Rec)))
             /\ FALSE
=====================================================================================
