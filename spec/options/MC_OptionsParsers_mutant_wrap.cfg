\* MUTANT: checked_mul replaced by wrapping multiplication -- must be rejected
SPECIFICATION Spec
CONSTANTS
  WordMax <- SmallWord
  KiloBase <- Kilo
  Alphabet = {48, 49, 57, 107, 116, 44, 45, 58, 120}
  MaxLen = 4
  SizeMul <- SizeMulWrapping
INVARIANTS
  SizeConsistent
CHECK_DEADLOCK FALSE
