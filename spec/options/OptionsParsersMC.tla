------------------------------ MODULE OptionsParsersMC ------------------------------
(* Internal consistency of the parser operators of Options.tla, checked by TLC on ALL strings   *)
(* over Alphabet up to MaxLen (state = the string w; Extend appends one symbol).                *)
(*  - digit-sequence arithmetic (parse, compare, multiply) against TLC's native integers, with   *)
(*    a small machine word (WordMax = 65535) so that the overflow boundary lies inside the       *)
(*    explored strings ("64k" overflows, "63k" does not);                                        *)
(*  - every grammar is written twice (split-based in Options.tla, position/regex-style here) and *)
(*    both must agree; the cpu list is additionally computed the way the code does it (push,     *)
(*    sort, dedup item by item) and must equal the set-based definition;                         *)
(*  - Parse(Show(v)) = v round trips for sizes, triggers, nursery sizes, floats, cpu lists.      *)
(* The 64-bit boundary cases are checked separately against the hand-derived table.ndjson.       *)
EXTENDS Options, OptionsConsts

CONSTANTS Alphabet, MaxLen
VARIABLE w

Init == w = << >>
Extend == /\ Len(w) < MaxLen
          /\ \E c \in Alphabet : w' = Append(w, c)
Next == Extend
Spec == Init /\ [][Next]_w

SmallWord == << 6, 5, 5, 3, 5 >>          \* WordMax <- SmallWord in the MC configs
Kilo == 1024
WordMaxInt == ToInt(WordMax)

\* the keyword tables of OptionsConsts are what they claim to be
ASSUME /\ Str(K_Fixed) = K_Fixed_str /\ Str(K_Dynamic) = K_Dynamic_str
       /\ Str(K_Delegated) = K_Delegated_str /\ Str(K_NFixed) = K_NFixed_str
       /\ Str(K_NBounded) = K_NBounded_str /\ Str(K_NProp) = K_NProp_str
       /\ Str(K_AllInSet) = K_AllInSet_str /\ Str(K_RoundRobin) = K_RoundRobin_str

\* ---------------------------------------------------------------- native helpers (w is short)
RECURSIVE IntOf(_)
IntOf(s) == IF s = << >> THEN 0 ELSE IntOf(Take(s, Len(s) - 1)) * 10 + (s[Len(s)] - 48)
ShowDigits(d) == [i \in 1..Len(d) |-> d[i] + 48]
RECURSIVE ShowNat(_)
ShowNat(n) == ShowDigits(NatDigits(n))

\* ---------------------------------------------------------------- unsigned integers
UnsignedAgainstNative ==
    LET r == ParseUsize(w)
        body == IF Len(w) > 0 /\ w[1] = cPlus THEN Tail(w) ELSE w
        wellFormed == body # << >> /\ AllDigits(body)
    IN  /\ r.ok <=> (wellFormed /\ IntOf(body) <= WordMaxInt)
        /\ r.ok => ToInt(r.v) = IntOf(body)
        /\ r.ok => ParseUsize(ShowDigits(r.v)) = r                 \* Parse(Show(v)) = v
        /\ r.ok => (r.v = Zero \/ r.v[1] # 0)                       \* canonical form
Probe == {0, 1, 9, 10, 11, 19, 99, 100, 101, 999, 1000, 65535, 65536, 99999, 100000}
OrderAgainstNative ==
    (w # << >> /\ AllDigits(w)) =>
        \A x \in Probe : /\ Leq(DVal(w), NatDigits(x)) <=> IntOf(w) <= x
                         /\ Lt(DVal(w), NatDigits(x)) <=> IntOf(w) < x
                         /\ Leq(NatDigits(x), DVal(w)) <=> x <= IntOf(w)
MulAgainstNative ==
    (w # << >> /\ AllDigits(w)) =>
        \A k \in {0, 1, 2, 7, 10, 1000, 1024} : ToInt(MulSmall(DVal(w), k)) = IntOf(w) * k
Monotone ==       \* appending a digit never decreases the value; a leading zero never changes it
    (w # << >> /\ AllDigits(w)) =>
        /\ \A c \in {48, 49, 57} : Leq(DVal(w), DVal(Append(w, c)))
        /\ DVal(<< 48 >> \o w) = DVal(w)

\* ---------------------------------------------------------------- sizes
SizeSuffixes == {107, 75, 109, 77, 103, 71, 116, 84}
RegexSize(x) ==         \* \d+[kKmMgGtT]?  read position by position
    \E k \in 1..Len(x) : /\ \A i \in 1..k : IsDigit(x[i])
                         /\ \/ k = Len(x)
                            \/ (k = Len(x) - 1 /\ x[Len(x)] \in SizeSuffixes)
\* num * 1024^n with native integers, stopping as soon as the word is exceeded
RECURSIVE NativeMul(_, _)
NativeMul(num, n) == IF num > WordMaxInt THEN -1
                     ELSE IF n = 0 THEN num ELSE NativeMul(num * 1024, n - 1)
\* independent long division of a digit sequence by a small number: <<quotient, remainder>>
RECURSIVE DivFrom(_, _, _, _)
DivFrom(d, k, i, rem) == IF i > Len(d) THEN << << >>, rem >>
                         ELSE LET x == rem * 10 + d[i]
                                  rest == DivFrom(d, k, i + 1, x % k)
                              IN  << << x \div k >> \o rest[1], rest[2] >>
DivSmall(d, k) == LET r == DivFrom(d, k, 1, 0) IN << StripZ(r[1]), r[2] >>
RECURSIVE DivPow(_, _)
DivPow(d, n) == IF n = 0 THEN << d, 0 >>
                ELSE LET q == DivSmall(d, 1024)
                     IN  IF q[2] # 0 THEN << d, 1 >> ELSE DivPow(q[1], n - 1)
SizeConsistent ==
    /\ MatchSize(w) <=> RegexSize(w)
    /\ MatchSize(w) =>
         LET r == SizeValue(w)
             hasSuffix == ~IsDigit(w[Len(w)])
             numStr == IF hasSuffix THEN Take(w, Len(w) - 1) ELSE w
             n == IF hasSuffix THEN SuffixPow(w[Len(w)]) ELSE 0
             native == NativeMul(IntOf(numStr), n)
         IN  /\ r.ok <=> native >= 0                                   \* overflow boundary
             /\ r.ok => ToInt(r.v) = native
             /\ r.ok => DivPow(r.v, n) = << DVal(numStr), 0 >>         \* exact multiple, no wrap
             /\ r.ok => Leq(r.v, WordMax)

\* ---------------------------------------------------------------- GC trigger
ShowTrigger(v) ==
    CASE v[1] = "FixedHeapSize" -> K_Fixed \o ShowDigits(v[2])
      [] v[1] = "DynamicHeapSize" -> K_Dynamic \o ShowDigits(v[2]) \o << cComma >> \o ShowDigits(v[3])
      [] OTHER -> K_Delegated
TriggerConsistent ==
    LET f == ParseTrigger(K_Fixed \o w, Documented)
        d == ParseTrigger(K_Dynamic \o w, Documented)
        g == ParseTrigger(K_Delegated \o w, Documented)
        bare == ParseTrigger(w, Documented)
    IN  /\ f.ok <=> (RegexSize(w) /\ SizeValue(w).ok)
        /\ f.ok => f.v = << "FixedHeapSize", SizeValue(w).v, << >> >>
        /\ d.ok <=> \E c \in 1..Len(w) :
                        /\ w[c] = cComma
                        /\ RegexSize(Take(w, c - 1)) /\ RegexSize(Drop(w, c))
                        /\ SizeValue(Take(w, c - 1)).ok /\ SizeValue(Drop(w, c)).ok
        /\ d.ok => LET c == IndexOf(w, cComma)
                   IN  d.v = << "DynamicHeapSize", SizeValue(Take(w, c - 1)).v, SizeValue(Drop(w, c)).v >>
        /\ g.ok <=> w = << >>
        /\ ~bare.ok                           \* no string over the alphabet spells a keyword
        /\ f.ok => ParseTrigger(ShowTrigger(f.v), Documented) = f
        /\ d.ok => ParseTrigger(ShowTrigger(d.v), Documented) = d
        /\ f.ok => (ValidTrigger(f.v) <=> ToInt(f.v[2]) > 0)
        /\ d.ok => (ValidTrigger(d.v) <=> ToInt(d.v[2]) <= ToInt(d.v[3]))
        \* the lenient reading differs exactly on Delegated + non-empty suffix
        /\ ParseTrigger(K_Delegated \o w, [Documented EXCEPT !.delegPrefix = TRUE]).ok

\* ---------------------------------------------------------------- cpu lists, the way the code does it
RECURSIVE InsertSorted(_, _)
InsertSorted(seq, c) == IF seq = << >> THEN << c >>
                        ELSE IF c > seq[Len(seq)] THEN Append(seq, c)      \* common case, cheap
                        ELSE IF c < Head(seq) THEN << c >> \o seq
                        ELSE IF c = Head(seq) THEN seq
                        ELSE << Head(seq) >> \o InsertSorted(Tail(seq), c)
RECURSIVE PushRange(_, _, _)
PushRange(seq, a, b) == IF a > b THEN seq ELSE PushRange(InsertSorted(seq, a), a + 1, b)
RECURSIVE CpuFold(_, _, _)
CpuFold(items, k, acc) ==
    IF k > Len(items) THEN Ok(acc)
    ELSE LET it == items[k]
         IN  IF IndexOf(it, cMinus) = 0
             THEN LET r == ParseUnsigned(it, U16Max)
                  IN  IF it # << >> /\ r.ok THEN CpuFold(items, k + 1, InsertSorted(acc, ToInt(r.v))) ELSE Fail
             ELSE LET p == Split(it, cMinus)
                  IN  IF Len(p) # 2 THEN Fail
                      ELSE LET a == ParseUnsigned(p[1], U16Max)  b == ParseUnsigned(p[2], U16Max)
                           IN  IF ~a.ok \/ ~b.ok THEN Fail
                               ELSE IF ToInt(a.v) >= ToInt(b.v) THEN Fail
                               ELSE CpuFold(items, k + 1, PushRange(acc, ToInt(a.v), ToInt(b.v)))
CodeCpuList(s, kind) == LET r == CpuFold(Split(s, cComma), 1, << >>)
                        IN  IF r.ok THEN Ok(<< kind, r.v >>) ELSE Fail
RECURSIVE ShowCores(_)
ShowCores(cs) == IF cs = << >> THEN << >>
                 ELSE IF Len(cs) = 1 THEN ShowNat(cs[1])
                 ELSE ShowNat(cs[1]) \o << cComma >> \o ShowCores(Tail(cs))
CpuListConsistent ==
    LET plain == ParseAffinity(w)
        ais == ParseAffinity(K_AllInSet \o w)
        rr == ParseAffinity(K_RoundRobin \o w)
        hasColon == IndexOf(w, cColon) # 0
    IN  /\ w = << >> => plain = Ok(<< "OsDefault", << >> >>)
        /\ (w # << >> /\ ~hasColon) => plain = CodeCpuList(w, "RoundRobin")
        /\ (w # << >> /\ hasColon) => ~plain.ok           \* no kind keyword over the alphabet
        /\ ais = CodeCpuList(w, "AllInSet")
        /\ rr = CodeCpuList(w, "RoundRobin")
        /\ plain.ok => \A i \in 1..(Len(plain.v[2]) - 1) : plain.v[2][i] < plain.v[2][i + 1]
        /\ (plain.ok /\ w # << >>) => ParseAffinity(ShowCores(plain.v[2])) = plain
        /\ plain.ok => (ValidAffinity(plain.v, 16, Documented) <=> \A i \in 1..Len(plain.v[2]) : plain.v[2][i] <= 15)
        /\ ais.ok => (ValidAffinity(ais.v, 16, Documented) <=> \A i \in 1..Len(ais.v[2]) : ais.v[2][i] <= 15)

\* ---------------------------------------------------------------- floats and nursery sizes
ShowInt(x) == IF x < 0 THEN << cMinus >> \o ShowNat(0 - x) ELSE ShowNat(x)
ShowF64(v) ==       \* scientific notation d1.d2..dn e x
    CASE v[1] = 1 -> (IF v[2] = 1 THEN << cMinus >> ELSE << >>) \o << 105, 110, 102 >>
      [] v[1] = 2 -> << 110, 97, 110 >>
      [] OTHER -> (IF v[2] = 1 THEN << cMinus >> ELSE << >>)
                  \o << FDigits(v)[1] + 48, cDot >> \o ShowDigits(Tail(FDigits(v)))
                  \o << cLowE >> \o ShowInt(v[3])
\* position-style reading of the float grammar
IsSign(c) == c \in {cPlus, cMinus}
FloatRegex(x) ==
    LET b == IF Len(x) > 0 /\ IsSign(x[1]) THEN Tail(x) ELSE x
        lw == Str(Lower(b))
        num(m) == \E k \in 0..Len(m) :      \* k digits, optional '.', rest digits, at least one digit
                     /\ \A i \in 1..k : IsDigit(m[i])
                     /\ \/ (k = Len(m) /\ k >= 1)
                        \/ (k < Len(m) /\ m[k + 1] = cDot /\ Len(m) >= 2
                            /\ \A i \in (k + 2)..Len(m) : IsDigit(m[i]))
        expo(e) == LET d == IF Len(e) > 0 /\ IsSign(e[1]) THEN Tail(e) ELSE e
                   IN  d # << >> /\ AllDigits(d)
    IN  \/ (Len(b) \in {3, 8} /\ lw \in {"inf", "infinity", "nan"})
        \/ num(b)
        \/ \E p \in 1..Len(b) : b[p] \in {cLowE, cUpE} /\ num(Take(b, p - 1)) /\ expo(Drop(b, p))
\* digits of an integer-like float: significant digits followed by exp+1-n zeros
Expand(v) == FDigits(v) \o [i \in 1..(v[3] + 1 - Len(FDigits(v))) |-> 0]
FloatConsistent ==
    LET r == ParseF64(w)
    IN  /\ r.ok <=> FloatRegex(w)
        /\ (r.ok /\ r.exact) => ParseF64(ShowF64(r.v)).v = r.v
        /\ (r.ok /\ r.exact /\ r.v[1] = 0) =>
              /\ (FDigits(r.v) = Zero \/ (r.v[4] # 0 /\ r.v[Len(r.v)] # 0))     \* normal form
              /\ (FIsZero(r.v) => r.v[3] = 0)
        /\ (w # << >> /\ AllDigits(w)) =>          \* integer literals agree with the integer parser
              (r.ok /\ r.exact /\ IF DVal(w) = Zero THEN FIsZero(r.v) ELSE Expand(r.v) = DVal(w))
        \* order: on integer literals FPosLeq(., 1) is <= 1
        /\ (w # << >> /\ AllDigits(w) /\ DVal(w) # Zero) => (FPosLeq(r.v, FOne) <=> IntOf(w) <= 1)
ShowNursery(v) ==
    CASE v[1] = "Fixed" -> K_NFixed \o ShowDigits(v[2])
      [] v[1] = "Bounded" -> K_NBounded \o ShowDigits(v[2]) \o << cComma >> \o ShowDigits(v[3])
      [] OTHER -> K_NProp \o ShowF64(v[2]) \o << cComma >> \o ShowF64(v[3])
NurseryConsistent ==
    LET fx == ParseNursery(K_NFixed \o w)
        bd == ParseNursery(K_NBounded \o w)
        pr == ParseNursery(K_NProp \o w)
        item(x, dflt) == IF x = << cUnder >> THEN Ok(dflt) ELSE ParseUsize(x)
        fitem(x) == x = << cUnder >> \/ FloatRegex(x)
    IN  /\ fx.ok <=> ParseUsize(w).ok
        /\ fx.ok => fx.v = << "Fixed", ParseUsize(w).v, << >> >>
        /\ bd.ok <=> \E c \in 1..Len(w) : /\ w[c] = cComma
                                          /\ item(Take(w, c - 1), DefaultMinNursery).ok
                                          /\ item(Drop(w, c), DefaultMaxNursery).ok
        /\ bd.ok => LET c == IndexOf(w, cComma)
                    IN  bd.v = << "Bounded", item(Take(w, c - 1), DefaultMinNursery).v,
                                  item(Drop(w, c), DefaultMaxNursery).v >>
        /\ pr.ok <=> \E c \in 1..Len(w) : w[c] = cComma /\ fitem(Take(w, c - 1)) /\ fitem(Drop(w, c))
        /\ ~ParseNursery(w).ok
        /\ fx.ok => ParseNursery(ShowNursery(fx.v)) = fx
        \* (the documented defaults exceed the small MC word, hence the guard)
        /\ (bd.ok /\ Leq(bd.v[2], WordMax) /\ Leq(bd.v[3], WordMax)) => ParseNursery(ShowNursery(bd.v)).v = bd.v
        /\ (pr.ok /\ pr.exact) => ParseNursery(ShowNursery(pr.v)).v = pr.v
        /\ bd.ok => (NurseryValidity(bd) = "yes" <=> Leq(bd.v[2], bd.v[3]))
        \* a valid proportional nursery has 0 < min <= max <= 1: both bounds positive, finite
        /\ (pr.ok /\ NurseryValidity(pr) = "yes") =>
              /\ pr.v[2][1] = 0 /\ pr.v[3][1] = 0 /\ pr.v[2][2] = 0 /\ pr.v[3][2] = 0
              /\ ~FIsZero(pr.v[2]) /\ FPosLeq(pr.v[2], pr.v[3]) /\ FPosLeq(pr.v[3], FOne)

\* ---------------------------------------------------------------- perf events, bool, i32
PerfConsistent ==
    LET r == ParsePerf(w)
        i == ParseI32(w)
        body == IF Len(w) > 0 /\ IsSign(w[1]) THEN Tail(w) ELSE w
    IN  /\ i.ok <=> (body # << >> /\ AllDigits(body))          \* short strings never leave i32
        /\ i.ok => (ToInt(Tail(i.v)) = IntOf(body) /\ (i.v[1] = 1 <=> (w[1] = cMinus /\ IntOf(body) # 0)))
        /\ r.ok <=> \A e \in {x \in {Split(w, cSemi)[j] : j \in 1..Len(Split(w, cSemi))} : x # << >>} :
                        LET p == Split(e, cComma)
                        IN  Len(p) = 3 /\ ParseI32(p[2]).ok /\ ParseI32(p[3]).ok
        /\ r.ok => Len(r.v) = Cardinality({j \in 1..Len(Split(w, cSemi)) : Split(w, cSemi)[j] # << >>})

\* ---------------------------------------------------------------- mutants (vacuity control)
\* checked_mul replaced by wrapping multiplication modulo 2^16 (= WordMax + 1 in the MC configs)
RECURSIVE ModDigits(_, _, _)
ModDigits(d, m, acc) == IF d = << >> THEN acc ELSE ModDigits(Tail(d), m, (acc * 10 + Head(d)) % m)
RECURSIVE SizeMulWrapping(_, _)
SizeMulWrapping(num, n) ==
    IF n = 0 THEN Ok(num)
    ELSE SizeMulWrapping(NatDigits(ModDigits(MulSmall(num, KiloBase), WordMaxInt + 1, 0)), n - 1)
RangeOKLoose(a, b) == a <= b                 \* "a-a" accepted
\* regex without the end anchor: trailing garbage accepted
MatchSizeNoAnchor(x) == \E k \in 1..Len(x) : RegexSize(Take(x, k))
=====================================================================================
