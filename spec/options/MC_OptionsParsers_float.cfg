\* all strings over 0 1 5 . , _ e - + up to length 4 (quick tier)
SPECIFICATION Spec
CONSTANTS
  WordMax <- SmallWord
  KiloBase <- Kilo
  Alphabet = {48, 49, 53, 46, 44, 95, 101, 45, 43}
  MaxLen = 4

INVARIANTS
  UnsignedAgainstNative
  OrderAgainstNative
  MulAgainstNative
  Monotone
  SizeConsistent
  TriggerConsistent
  CpuListConsistent
  FloatConsistent
  NurseryConsistent
  PerfConsistent
CHECK_DEADLOCK FALSE
