-------------------------------- MODULE OptionsSetMC --------------------------------
(* The option table as a state machine: an Options value (all 28 options) changed by            *)
(* set_from_string / set_bulk_from_string calls with names and values from a small corpus        *)
(* (OptionsConsts.tla). TLC explores every reachable option vector and checks                    *)
(*   AllValid       every option holds its default or a value that passes its validator;         *)
(*   AllOrNothing   a failing set changes nothing, a successful one changes exactly its option;   *)
(*   BulkIsPrefix   a bulk call leaves exactly the effect of its longest successful prefix of     *)
(*                  pairs and reports true / false / panic(unknown key) accordingly.               *)
(* Mutants: a setter that assigns before validating (MC_OptionsSet_mutant_novalidate) and a bulk  *)
(* setter that keeps going after a failure (MC_OptionsSet_mutant_bulkgoeson) must be rejected.     *)
EXTENDS Options, OptionsConsts

CONSTANTS SetNameIdx, SetValueIdx, BulkIdx     \* which corpus entries of OptionsConsts.tla are used
VARIABLES opts, last
vars == << opts, last >>

Word64 == << 1, 8, 4, 4, 6, 7, 4, 4, 0, 7, 3, 7, 0, 9, 5, 5, 1, 6, 1, 5 >>
Kilo == 1024
NCpu == 4
ASSUME \A i \in 1..Len(MCSetNames) : Str(MCSetNames[i]) = MCSetNames_str[i]
ASSUME \A i \in 1..Len(MCSetValues) : Str(MCSetValues[i]) = MCSetValues_str[i]

Defaults == <<
    "GenImmix", << 1, 6 >>, FALSE, FALSE, FALSE, FALSE,
    << "ProportionalBounded", FQuarter, FOne >>, FALSE, FALSE, FALSE, "Temporal",
    Word64, Word64, TRUE, Zero, << 2, 3, 0, 6, 8, 6, 7, 2, 0 >>, Zero, << >>, << >>, FALSE,
    << "OsDefault", << >> >>, << "FixedHeapSize", << 4, 2, 9, 4, 9, 6, 7, 2, 9, 6 >>, << >> >>,
    FALSE, FALSE, FALSE, FALSE, << 2 >>, FALSE >>
ASSUME Len(Defaults) = NOpts
ASSUME /\ SetNameIdx \subseteq 1..Len(MCSetNames) /\ SetValueIdx \subseteq 1..Len(MCSetValues)
       /\ BulkIdx \subseteq 1..Len(MCBulks)

Init == opts = Defaults /\ last = [kind |-> "init"]
DoSet == \E n \in SetNameIdx, v \in SetValueIdx :
            LET r == SetFromString(opts, MCSetNames[n], MCSetValues[v], NCpu, Documented)
            IN  /\ r.ret \in {"true", "false"}           \* the corpus has no undecided float
                /\ opts' = r.opts
                /\ last' = [kind |-> "set", nc |-> MCSetNames[n], ret |-> r.ret = "true"]
DoBulk == \E b \in BulkIdx :
            LET r == Bulk(opts, MCBulks[b], NCpu, Documented)
            IN  /\ opts' = r.opts
                /\ last' = [kind |-> "bulk", sc |-> MCBulks[b], ret |-> r.ret]
Next == DoSet \/ DoBulk
Spec == Init /\ [][Next]_vars

AllValid ==
    \A i \in 1..NOpts :
        \/ opts[i] = Defaults[i]
        \/ Validity(i, [ok |-> TRUE, exact |-> TRUE, v |-> opts[i]], NCpu, Documented) = "yes"

AllOrNothingStep ==
    last'.kind = "set" =>
        /\ ~last'.ret => opts' = opts
        /\ last'.ret => /\ NameIndex(last'.nc) # 0
                        /\ \A j \in 1..NOpts : j # NameIndex(last'.nc) => opts'[j] = opts[j]
AllOrNothing == [][AllOrNothingStep]_vars

\* declarative reading of the bulk contract: k = number of leading pairs that succeed
RECURSIVE AfterPairs(_, _, _)
AfterPairs(o, toks, k) ==      \* effect of the first k pairs, each applied with set_from_string
    IF k = 0 THEN o
    ELSE LET prev == AfterPairs(o, toks, k - 1)
             kv == Split(toks[k], cEq)
         IN  SetFromString(prev, kv[1], kv[2], NCpu, Documented).opts
PairOK(o, tok) == LET kv == Split(tok, cEq)
                  IN  Len(kv) = 2 /\ SetFromString(o, kv[1], kv[2], NCpu, Documented).ret = "true"
PairUnknownKey(tok) == LET kv == Split(tok, cEq) IN Len(kv) = 2 /\ NameIndex(kv[1]) = 0
BulkIsPrefixStep ==
    last'.kind = "bulk" =>
        LET toks == BulkTokens(last'.sc)
        IN  \E k \in 0..Len(toks) :
              /\ \A j \in 1..k : PairOK(AfterPairs(opts, toks, j - 1), toks[j])
              /\ k < Len(toks) => ~PairOK(AfterPairs(opts, toks, k), toks[k + 1])
              /\ opts' = AfterPairs(opts, toks, k)
              /\ last'.ret = IF k = Len(toks) THEN "true"
                             ELSE IF PairUnknownKey(toks[k + 1]) THEN "panic" ELSE "false"
BulkIsPrefix == [][BulkIsPrefixStep]_vars

\* ---------------------------------------------------------------- mutants
\* parse, assign, then validate: an invalid value is left behind although false is returned
SetNoValidate(o, nc, vc, ncpu, rd) ==
    LET i == NameIndex(nc)
    IN  IF i = 0 THEN [ret |-> "false", i |-> 0, opts |-> o]
        ELSE LET r == ParseT(Table[i].t, vc, rd)
             IN  IF ~r.ok THEN [ret |-> "false", i |-> i, opts |-> o]
                 ELSE [ret |-> IF Validity(i, r, ncpu, rd) = "yes" THEN "true" ELSE "false",
                       i |-> i, opts |-> [o EXCEPT ![i] = r.v]]
\* bulk setter that does not stop at the first failure
RECURSIVE BulkGoesOn(_, _, _, _, _)
BulkGoesOn(o, toks, k, ncpu, rd) ==
    IF k > Len(toks) THEN [ret |-> "true", opts |-> o]
    ELSE LET kv == Split(toks[k], cEq)
         IN  IF Len(kv) # 2 THEN [ret |-> "false", opts |-> o]
             ELSE IF NameIndex(kv[1]) = 0 THEN [ret |-> "panic", opts |-> o]
             ELSE LET r == SetFromString(o, kv[1], kv[2], ncpu, rd)
                      rest == BulkGoesOn(r.opts, toks, k + 1, ncpu, rd)
                  IN  IF r.ret = "true" THEN rest ELSE [ret |-> "false", opts |-> rest.opts]
=====================================================================================
