SPECIFICATION TraceSpec
CONSTANTS
  WordMax <- WordMax64
  KiloBase <- Kilo
POSTCONDITION Accepted
CHECK_DEADLOCK FALSE
