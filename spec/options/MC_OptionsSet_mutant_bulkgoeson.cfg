\* MUTANT: bulk setter continues after a failure -- must be rejected
SPECIFICATION Spec
CONSTANTS
  WordMax <- Word64
  KiloBase <- Kilo
  SetNameIdx = {1, 4, 5, 9}
  SetValueIdx = {1, 2, 10, 11, 14, 16, 18}
  BulkIdx = {2, 3, 5, 8}
  BulkFrom <- BulkGoesOn
INVARIANTS
  AllValid
PROPERTIES
  AllOrNothing
  BulkIsPrefix
CHECK_DEADLOCK FALSE
