\* thorough tier: length 5
SPECIFICATION Spec
CONSTANTS
  WordMax <- SmallWord
  KiloBase <- Kilo
  Alphabet = {48, 49, 57, 44, 59, 45, 43, 120}
  MaxLen = 5

INVARIANTS
  UnsignedAgainstNative
  OrderAgainstNative
  MulAgainstNative
  Monotone
  SizeConsistent
  TriggerConsistent
  CpuListConsistent
  FloatConsistent
  NurseryConsistent
  PerfConsistent
CHECK_DEADLOCK FALSE
