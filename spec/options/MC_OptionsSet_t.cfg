\* option table state machine over the whole corpus of OptionsConsts.tla (thorough tier)
SPECIFICATION Spec
CONSTANTS
  WordMax <- Word64
  KiloBase <- Kilo
  SetNameIdx = {1, 2, 3, 4, 5, 6, 7, 8, 9}
  SetValueIdx = {1, 2, 3, 4, 5, 6, 7, 8, 9, 10, 11, 12, 13, 14, 15, 16, 17, 18}
  BulkIdx = {1, 2, 3, 4, 5, 6, 7, 8, 9, 10, 11, 12}

INVARIANTS
  AllValid
PROPERTIES
  AllOrNothing
  BulkIsPrefix
CHECK_DEADLOCK FALSE
