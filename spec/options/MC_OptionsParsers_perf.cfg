\* all strings over 0 1 9 , ; - + x up to length 4 (quick tier)
SPECIFICATION Spec
CONSTANTS
  WordMax <- SmallWord
  KiloBase <- Kilo
  Alphabet = {48, 49, 57, 44, 59, 45, 43, 120}
  MaxLen = 4

INVARIANTS
  UnsignedAgainstNative
  OrderAgainstNative
  MulAgainstNative
  Monotone
  SizeConsistent
  TriggerConsistent
  CpuListConsistent
  FloatConsistent
  NurseryConsistent
  PerfConsistent
CHECK_DEADLOCK FALSE
