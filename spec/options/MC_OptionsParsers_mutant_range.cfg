\* MUTANT: cpu range a-b accepted for a = b -- must be rejected
SPECIFICATION Spec
CONSTANTS
  WordMax <- SmallWord
  KiloBase <- Kilo
  Alphabet = {48, 49, 57, 107, 116, 44, 45, 58, 120}
  MaxLen = 4
  RangeOK <- RangeOKLoose
INVARIANTS
  CpuListConsistent
CHECK_DEADLOCK FALSE
