\* concurrent variant + a mutator adding (SATB flush) to the open Concurrent bucket.  Checked
\* with the WEAKER NoStuckButMutatorAdds (see README finding F1); passes.
SPECIFICATION Spec
CONSTANTS
  N = 2
  NStages = 5
  Mutators = {1}
  MaxReq = 2
  MaxFork = 0
  ExitKinds = {}
  SpurBudget = 1
  SpawnBudget = 2
  MaxDepth = 1
  LocalCap = 1
  BatchMax = 0
  SchedAdds = {3, 5}
  SentinelStage = 4
  RootAdds = 1
  UseDesig = FALSE
  SpawnStages = {2, 5}
  GenHows = {"work", "nonotify"}
  MutAddStages = {2}
  MutAddBudget = 1
  InitDisabled = {}
  SchedToggle = {4}
  AtomicScan = TRUE
  FreePrograms = FALSE
  Mutant = "none"
INVARIANTS
  TypeOK NoPanic ParkedCountOK CondvarOK NoStuckButMutatorAdds LastParkedUnique FlagProtocol
  StageOrderOK OpenPrefix AllClosedAtGCEnd PacketConservation PacketExactlyOnce RunOnlyOpen
  SentinelAfterClosure
  STWOnlyWhenStopped BlockedUntilEnd WorldStoppedOnlyInGC
  SurrenderOK ExitClean GoalPriority ExitOnlyOnExitGoal ParkedZeroWhenAllExited
CHECK_DEADLOCK FALSE
