\* FINDING F1 (expected to be REJECTED with NoStuck): same as MC_Scheduler_conc_mutadd but with
\* the full NoStuck of C14.  The counterexample is a behaviour of the REAL protocol.
SPECIFICATION Spec
CONSTANTS
  N = 2
  NStages = 5
  Mutators = {1}
  MaxReq = 2
  MaxFork = 0
  ExitKinds = {}
  SpurBudget = 1
  SpawnBudget = 2
  MaxDepth = 1
  LocalCap = 1
  BatchMax = 0
  SchedAdds = {3, 5}
  SentinelStage = 4
  RootAdds = 1
  UseDesig = FALSE
  SpawnStages = {2, 5}
  GenHows = {"work", "nonotify"}
  MutAddStages = {2}
  MutAddBudget = 1
  InitDisabled = {}
  SchedToggle = {4}
  AtomicScan = TRUE
  FreePrograms = FALSE
  Mutant = "none"
INVARIANTS
  TypeOK NoPanic ParkedCountOK CondvarOK NoStuck LastParkedUnique FlagProtocol
  StageOrderOK OpenPrefix AllClosedAtGCEnd PacketConservation PacketExactlyOnce RunOnlyOpen
  SentinelAfterClosure
  STWOnlyWhenStopped BlockedUntilEnd WorldStoppedOnlyInGC
  SurrenderOK ExitClean GoalPriority ExitOnlyOnExitGoal ParkedZeroWhenAllExited
CHECK_DEADLOCK FALSE
