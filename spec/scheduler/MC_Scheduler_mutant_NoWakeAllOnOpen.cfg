\* MUTANT NoWakeAllOnOpen (liveness): the last parked worker finds more work but does not wake
\* the others (worker_monitor.rs:159-161).  Safety holds; TLC must REJECT `Served`.
SPECIFICATION LiveSpec
CONSTANTS
  N = 2
  NStages = 4
  Mutators = {1}
  MaxReq = 2
  MaxFork = 0
  ExitKinds = {}
  SpurBudget = 1
  SpawnBudget = 1
  MaxDepth = 1
  LocalCap = 1
  BatchMax = 0
  SchedAdds = {3}
  SentinelStage = 4
  RootAdds = 1
  UseDesig = TRUE
  SpawnStages = {4}
  GenHows = {"work"}
  MutAddStages = {}
  MutAddBudget = 0
  InitDisabled = {}
  SchedToggle = {}
  AtomicScan = TRUE
  FreePrograms = FALSE
  Mutant = "NoWakeAllOnOpen"
INVARIANTS
  TypeOK NoPanic ParkedCountOK CondvarOK NoStuck LastParkedUnique FlagProtocol
  StageOrderOK OpenPrefix AllClosedAtGCEnd PacketConservation PacketExactlyOnce RunOnlyOpen
  SentinelAfterClosure
  STWOnlyWhenStopped BlockedUntilEnd WorldStoppedOnlyInGC
  SurrenderOK ExitClean GoalPriority ExitOnlyOnExitGoal ParkedZeroWhenAllExited
PROPERTIES
  Served
CHECK_DEADLOCK FALSE
