\* Trace validation: N and NStages come from the SchedInit event of the trace; FreePrograms mode.
SPECIFICATION TraceSpec
CONSTANTS
  N <- TrN
  NStages <- TrNStages
  Mutators = {1}
  MaxReq = 0
  MaxFork = 0
  ExitKinds = {}
  SpurBudget = 1000000000
  SpawnBudget = 0
  MaxDepth = 0
  LocalCap = 16
  BatchMax = 0
  SchedAdds = {}
  SentinelStage = 0
  RootAdds = 0
  UseDesig = FALSE
  SpawnStages = {}
  GenHows = {}
  MutAddStages = {}
  MutAddBudget = 0
  InitDisabled = {}
  SchedToggle = {}
  AtomicScan = FALSE
  FreePrograms = TRUE
  Mutant = "none"
POSTCONDITION Accepted
INVARIANT StatsPrinted
CHECK_DEADLOCK FALSE
