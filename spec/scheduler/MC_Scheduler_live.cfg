\* liveness (C14) on a smaller instance: N = 2, 2 GC requests, 1 spurious wake-up; weak
\* fairness of every thread's own steps (LiveSpec).  Safety invariants are checked as well.
SPECIFICATION LiveSpec
CONSTANTS
  N = 2
  NStages = 4
  Mutators = {1}
  MaxReq = 2
  MaxFork = 0
  ExitKinds = {}
  SpurBudget = 1
  SpawnBudget = 1
  MaxDepth = 1
  LocalCap = 1
  BatchMax = 0
  SchedAdds = {3}
  SentinelStage = 4
  RootAdds = 1
  UseDesig = TRUE
  SpawnStages = {4}
  GenHows = {"work"}
  MutAddStages = {}
  MutAddBudget = 0
  InitDisabled = {}
  SchedToggle = {}
  AtomicScan = TRUE
  FreePrograms = FALSE
  Mutant = "none"
INVARIANTS
  TypeOK NoPanic ParkedCountOK CondvarOK NoStuck LastParkedUnique FlagProtocol
  StageOrderOK OpenPrefix AllClosedAtGCEnd PacketConservation PacketExactlyOnce RunOnlyOpen
  SentinelAfterClosure
  STWOnlyWhenStopped BlockedUntilEnd WorldStoppedOnlyInGC
  SurrenderOK ExitClean GoalPriority ExitOnlyOnExitGoal ParkedZeroWhenAllExited
PROPERTIES
  Served Settles
CHECK_DEADLOCK FALSE
