\* liveness of the fork round trip (C16): N = 2, 1 prepare_to_fork, 2 GC requests.
SPECIFICATION LiveSpec
CONSTANTS
  N = 2
  NStages = 4
  Mutators = {1}
  MaxReq = 2
  MaxFork = 1
  ExitKinds = {"Fork"}
  SpurBudget = 1
  SpawnBudget = 1
  MaxDepth = 1
  LocalCap = 1
  BatchMax = 0
  SchedAdds = {3}
  SentinelStage = 0
  RootAdds = 1
  UseDesig = FALSE
  SpawnStages = {4}
  GenHows = {"work"}
  MutAddStages = {}
  MutAddBudget = 0
  InitDisabled = {}
  SchedToggle = {}
  AtomicScan = TRUE
  FreePrograms = FALSE
  Mutant = "none"
INVARIANTS
  TypeOK NoPanic ParkedCountOK CondvarOK NoStuck LastParkedUnique FlagProtocol
  StageOrderOK OpenPrefix AllClosedAtGCEnd PacketConservation PacketExactlyOnce RunOnlyOpen
  SentinelAfterClosure
  STWOnlyWhenStopped BlockedUntilEnd WorldStoppedOnlyInGC
  SurrenderOK ExitClean GoalPriority ExitOnlyOnExitGoal ParkedZeroWhenAllExited
PROPERTIES
  Served Settles ForkServed ForkRoundTrip
CHECK_DEADLOCK FALSE
