\* concurrent variant: packets are added to the Concurrent bucket during the pause
\* (add_no_notify / worker.add_work), the GC end enables+opens it (WakeAll), the next pause
\* runs with it enabled; ScheduleCollection toggles stage 4 (set_enabled).  No mutator adds.
SPECIFICATION Spec
CONSTANTS
  N = 2
  NStages = 5
  Mutators = {1}
  MaxReq = 2
  MaxFork = 0
  ExitKinds = {}
  SpurBudget = 1
  SpawnBudget = 2
  MaxDepth = 1
  LocalCap = 1
  BatchMax = 0
  SchedAdds = {3, 5}
  SentinelStage = 4
  RootAdds = 1
  UseDesig = FALSE
  SpawnStages = {2, 5}
  GenHows = {"work", "nonotify"}
  MutAddStages = {}
  MutAddBudget = 0
  InitDisabled = {}
  SchedToggle = {4}
  AtomicScan = TRUE
  FreePrograms = FALSE
  Mutant = "none"
INVARIANTS
  TypeOK NoPanic ParkedCountOK CondvarOK NoStuck LastParkedUnique FlagProtocol
  StageOrderOK OpenPrefix AllClosedAtGCEnd PacketConservation PacketExactlyOnce RunOnlyOpen
  SentinelAfterClosure
  STWOnlyWhenStopped BlockedUntilEnd WorldStoppedOnlyInGC
  SurrenderOK ExitClean GoalPriority ExitOnlyOnExitGoal ParkedZeroWhenAllExited
CHECK_DEADLOCK FALSE
