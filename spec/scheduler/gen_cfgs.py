#!/usr/bin/env python3
"""Generates the TLC configurations of Scheduler.tla (run in this directory).

One base instance per purpose (small/thorough/fork/live/conc) plus mutants that override
`Mutant` (and, where a mutant needs it, a few other constants).  The generated *.cfg files are
committed; re-run this script after changing a base instance.
"""
import os

SAFETY = """  TypeOK NoPanic ParkedCountOK CondvarOK {nostuck} LastParkedUnique FlagProtocol
  StageOrderOK OpenPrefix AllClosedAtGCEnd PacketConservation PacketExactlyOnce RunOnlyOpen
  SentinelAfterClosure
  STWOnlyWhenStopped BlockedUntilEnd WorldStoppedOnlyInGC
  SurrenderOK ExitClean GoalPriority ExitOnlyOnExitGoal ParkedZeroWhenAllExited"""

ORDER = ["N", "NStages", "Mutators", "MaxReq", "MaxFork", "ExitKinds", "SpurBudget", "SpawnBudget",
         "MaxDepth", "LocalCap", "BatchMax", "SchedAdds", "SentinelStage", "RootAdds", "UseDesig",
         "SpawnStages", "GenHows", "MutAddStages", "MutAddBudget", "InitDisabled", "SchedToggle",
         "AtomicScan", "FreePrograms", "Mutant"]

SMALL = dict(N=2, NStages=5, Mutators="{1}", MaxReq=2, MaxFork=0, ExitKinds="{}", SpurBudget=1,
             SpawnBudget=2, MaxDepth=1, LocalCap=1, BatchMax=0, SchedAdds="{3, 5}", SentinelStage=4,
             RootAdds=1, UseDesig="TRUE", SpawnStages="{4, 5}", GenHows='{"work", "add"}',
             MutAddStages="{4}", MutAddBudget=1, InitDisabled="{}", SchedToggle="{}",
             AtomicScan="TRUE", FreePrograms="FALSE", Mutant='"none"')
THOROUGH = dict(SMALL, N=3, BatchMax=1)
FORK = dict(SMALL, NStages=4, MaxReq=1, MaxFork=2, ExitKinds='{"Fork", "Shutdown"}', SpawnBudget=1,
            SchedAdds="{3}", SentinelStage=0, UseDesig="FALSE", SpawnStages="{4}", GenHows='{"work"}',
            MutAddStages="{}", MutAddBudget=0)
LIVE = dict(SMALL, NStages=4, SpawnBudget=1, SchedAdds="{3}", SentinelStage=4, SpawnStages="{4}",
            GenHows='{"work"}', MutAddStages="{}", MutAddBudget=0)
FORKLIVE = dict(FORK, MaxFork=1, ExitKinds='{"Fork"}', MaxReq=2, SpurBudget=1)
CONC = dict(SMALL, SchedAdds="{3, 5}", SentinelStage=4, SchedToggle="{4}", UseDesig="FALSE",
            SpawnStages="{2, 5}", GenHows='{"work", "nonotify"}', MutAddStages="{}", MutAddBudget=0)
CONCMUT = dict(CONC, MutAddStages="{2}", MutAddBudget=1)


def write(name, header, consts, spec="Spec", invariants=True, nostuck="NoStuck", props=(),
          view=False):
    lines = ["\\* " + l for l in header.strip().split("\n")]
    lines.append("SPECIFICATION " + spec)
    lines.append("CONSTANTS")
    for k in ORDER:
        lines.append("  %s = %s" % (k, consts[k]))
    if invariants:
        lines.append("INVARIANTS")
        lines.append(SAFETY.format(nostuck=nostuck))
    if props:
        lines.append("PROPERTIES")
        lines.append("  " + " ".join(props))
    if view:
        lines.append("VIEW NoHistView")
    lines.append("CHECK_DEADLOCK FALSE")
    with open(name, "w") as f:
        f.write("\n".join(lines) + "\n")


write("MC_Scheduler_small.cfg",
      "quick: N = 2 workers, 2 GC requests, stages U, C, Prepare, Closure(sentinel), Release;\n"
      "Prepare packet with designated work, generic spawn via worker.add_work / bucket.add,\n"
      "one mutator adding a modbuf-like packet to the closed Closure stage, 1 spurious wake-up.",
      SMALL)
write("MC_Scheduler.cfg",
      "thorough: as MC_Scheduler_small but N = 3 workers and batch stealing (BatchMax = 1).\n"
      "History variables are kept out of the fingerprint (VIEW NoHistView).",
      THOROUGH, view=True)
write("MC_Scheduler_fork.cfg",
      "fork/exit (C16): N = 2, up to 2 prepare_to_fork/shutdown calls racing with 1 GC request,\n"
      "respawn after fork, GC after respawn.",
      FORK)
write("MC_Scheduler_live.cfg",
      "liveness (C14) on a smaller instance: N = 2, 2 GC requests, 1 spurious wake-up; weak\n"
      "fairness of every thread's own steps (LiveSpec).  Safety invariants are checked as well.",
      LIVE, spec="LiveSpec", props=("Served", "Settles"))
write("MC_Scheduler_fork_live.cfg",
      "liveness of the fork round trip (C16): N = 2, 1 prepare_to_fork, 2 GC requests.",
      FORKLIVE, spec="LiveSpec", props=("Served", "Settles", "ForkServed", "ForkRoundTrip"))
write("MC_Scheduler_conc.cfg",
      "concurrent variant: packets are added to the Concurrent bucket during the pause\n"
      "(add_no_notify / worker.add_work), the GC end enables+opens it (WakeAll), the next pause\n"
      "runs with it enabled; ScheduleCollection toggles stage 4 (set_enabled).  No mutator adds.",
      CONC)
write("MC_Scheduler_conc_mutadd.cfg",
      "concurrent variant + a mutator adding (SATB flush) to the open Concurrent bucket.  Checked\n"
      "with the WEAKER NoStuckButMutatorAdds (see README finding F1); passes.",
      CONCMUT, nostuck="NoStuckButMutatorAdds")
write("MC_Scheduler_conc_finding.cfg",
      "FINDING F1 (expected to be REJECTED with NoStuck): same as MC_Scheduler_conc_mutadd but with\n"
      "the full NoStuck of C14.  The counterexample is a behaviour of the REAL protocol.",
      CONCMUT)

# ---- mutants that TLC must reject --------------------------------------------------------
MUT = [
    ("NoNotifyMakeRequest", SMALL, {}, "make_request does not notify (worker_monitor.rs:103-105)", "NoStuck"),
    ("LastWaits", SMALL, {}, "last parked worker waits although a goal is pending (scheduler.rs:506-509)", "NoStuck"),
    ("DecSkipped", SMALL, {}, "parked counter not decremented on wake-up (worker_monitor.rs:225)", "ParkedCountOK"),
    ("FlagNeverCleared", LIVE, {}, "request_flag never cleared (gc_trigger.rs:98 / scheduler.rs:656)", "FlagProtocol"),
    ("SentinelKept", LIVE, {}, "maybe_schedule_sentinel does not take() the sentinel (work_bucket.rs:281-284)", "PacketConservation"),
    ("NoDesignatedCheck", LIVE, {}, "find_more_work does not look at designated work (scheduler.rs:537-540)", "StageOrderOK"),
    ("OpenAllAtOnce", SMALL, {}, "open condition always true and no break in update_buckets (scheduler.rs:301-316)", "StageOrderOK"),
    ("DisabledBlocks", SMALL, {"InitDisabled": "{4}"}, "a disabled bucket counts as not drained (scheduler.rs:246, work_bucket.rs:173)", "NoPanic"),
    ("SentinelEager", LIVE, {}, "set_sentinel schedules the packet at once instead of waiting for the drained bucket (work_bucket.rs:255)", "SentinelAfterClosure"),
    ("OpenBeforeStop", SMALL, {}, "notify_mutators_paused runs before stop_all_mutators has returned (gc_work.rs:221-235)", "STWOnlyWhenStopped"),
    ("NoGoalClearOnExit", FORK, {}, "on_all_workers_exited does not clear the goal (worker_monitor.rs:247)", "NoPanic"),
    ("NoNotifyAllOnExit", FORK, {}, "exit goals answered without WakeAll (scheduler.rs:528-531)", "NoStuck"),
]
for m, base, over, what, viol in MUT:
    c = dict(base, **over)
    c["Mutant"] = '"%s"' % m
    write("MC_Scheduler_mutant_%s.cfg" % m,
          "MUTANT %s: %s.\nTLC must REJECT this configuration (expected: %s)." % (m, what, viol), c)
c = dict(LIVE, Mutant='"NoWakeAllOnOpen"')
write("MC_Scheduler_mutant_NoWakeAllOnOpen.cfg",
      "MUTANT NoWakeAllOnOpen (liveness): the last parked worker finds more work but does not wake\n"
      "the others (worker_monitor.rs:159-161).  Safety holds; TLC must REJECT `Served`.",
      c, spec="LiveSpec", props=("Served",))

# ---- mutations that are NOT observable (documented equivalences, expected to PASS) ----------
for m, what in [("OpenAny", "open condition uses `any` instead of `all` (scheduler.rs:244-246)"),
                ("AddNoNotify", "WorkBucket::add / bulk_add do not notify (work_bucket.rs:135-151)")]:
    c = dict(SMALL, Mutant='"%s"' % m)
    write("MC_Scheduler_equiv_%s.cfg" % m,
          "EQUIVALENT MUTANT %s: %s.\nNot observable by C14-C16 in this protocol (README explains why); expected to PASS." % (m, what), c)
# ---- FreePrograms sanity (the mode the trace specification uses); run with -simulate -----------
c = dict(SMALL, NStages=4, FreePrograms="TRUE", SchedAdds="{3}", SentinelStage=0, SpawnStages="{}",
         MutAddStages="{4}")
lines = ["\\* FreePrograms sanity: only the structural invariants hold for arbitrary packet programs.",
         "\\* Run: tlc -simulate num=300 -depth 80 -config MC_Scheduler_free_sanity.cfg Scheduler.tla",
         "SPECIFICATION Spec", "CONSTANTS"] + ["  %s = %s" % (k, c[k]) for k in ORDER] + [
         "INVARIANTS", "  TypeOK ParkedCountOK CondvarOK PacketConservation SurrenderOK",
         "CHECK_DEADLOCK FALSE"]
open("MC_Scheduler_free_sanity.cfg", "w").write("\n".join(lines) + "\n")
print("ok")
