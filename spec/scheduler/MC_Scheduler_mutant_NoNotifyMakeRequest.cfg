\* MUTANT NoNotifyMakeRequest: make_request does not notify (worker_monitor.rs:103-105).
\* TLC must REJECT this configuration (expected: NoStuck).
SPECIFICATION Spec
CONSTANTS
  N = 2
  NStages = 5
  Mutators = {1}
  MaxReq = 2
  MaxFork = 0
  ExitKinds = {}
  SpurBudget = 1
  SpawnBudget = 2
  MaxDepth = 1
  LocalCap = 1
  BatchMax = 0
  SchedAdds = {3, 5}
  SentinelStage = 4
  RootAdds = 1
  UseDesig = TRUE
  SpawnStages = {4, 5}
  GenHows = {"work", "add"}
  MutAddStages = {4}
  MutAddBudget = 1
  InitDisabled = {}
  SchedToggle = {}
  AtomicScan = TRUE
  FreePrograms = FALSE
  Mutant = "NoNotifyMakeRequest"
INVARIANTS
  TypeOK NoPanic ParkedCountOK CondvarOK NoStuck LastParkedUnique FlagProtocol
  StageOrderOK OpenPrefix AllClosedAtGCEnd PacketConservation PacketExactlyOnce RunOnlyOpen
  SentinelAfterClosure
  STWOnlyWhenStopped BlockedUntilEnd WorldStoppedOnlyInGC
  SurrenderOK ExitClean GoalPriority ExitOnlyOnExitGoal ParkedZeroWhenAllExited
CHECK_DEADLOCK FALSE
