\* FreePrograms sanity: only the structural invariants hold for arbitrary packet programs.
\* Run: tlc -simulate num=300 -depth 80 -config MC_Scheduler_free_sanity.cfg Scheduler.tla
SPECIFICATION Spec
CONSTANTS
  N = 2
  NStages = 4
  Mutators = {1}
  MaxReq = 2
  MaxFork = 0
  ExitKinds = {}
  SpurBudget = 1
  SpawnBudget = 2
  MaxDepth = 1
  LocalCap = 1
  BatchMax = 0
  SchedAdds = {3}
  SentinelStage = 0
  RootAdds = 1
  UseDesig = TRUE
  SpawnStages = {}
  GenHows = {"work", "add"}
  MutAddStages = {4}
  MutAddBudget = 1
  InitDisabled = {}
  SchedToggle = {}
  AtomicScan = TRUE
  FreePrograms = TRUE
  Mutant = "none"
INVARIANTS
  TypeOK ParkedCountOK CondvarOK PacketConservation SurrenderOK
CHECK_DEADLOCK FALSE
