\* MUTANT FlagNeverCleared: request_flag never cleared (gc_trigger.rs:98 / scheduler.rs:656).
\* TLC must REJECT this configuration (expected: FlagProtocol).
SPECIFICATION Spec
CONSTANTS
  N = 2
  NStages = 4
  Mutators = {1}
  MaxReq = 2
  MaxFork = 0
  ExitKinds = {}
  SpurBudget = 1
  SpawnBudget = 1
  MaxDepth = 1
  LocalCap = 1
  BatchMax = 0
  SchedAdds = {3}
  SentinelStage = 4
  RootAdds = 1
  UseDesig = TRUE
  SpawnStages = {4}
  GenHows = {"work"}
  MutAddStages = {}
  MutAddBudget = 0
  InitDisabled = {}
  SchedToggle = {}
  AtomicScan = TRUE
  FreePrograms = FALSE
  Mutant = "FlagNeverCleared"
INVARIANTS
  TypeOK NoPanic ParkedCountOK CondvarOK NoStuck LastParkedUnique FlagProtocol
  StageOrderOK OpenPrefix AllClosedAtGCEnd PacketConservation PacketExactlyOnce RunOnlyOpen
  SentinelAfterClosure
  STWOnlyWhenStopped BlockedUntilEnd WorldStoppedOnlyInGC
  SurrenderOK ExitClean GoalPriority ExitOnlyOnExitGoal ParkedZeroWhenAllExited
CHECK_DEADLOCK FALSE
