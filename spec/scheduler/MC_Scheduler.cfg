\* thorough: as MC_Scheduler_small but N = 3 workers and batch stealing (BatchMax = 1).
\* History variables are kept out of the fingerprint (VIEW NoHistView).
SPECIFICATION Spec
CONSTANTS
  N = 3
  NStages = 5
  Mutators = {1}
  MaxReq = 2
  MaxFork = 0
  ExitKinds = {}
  SpurBudget = 1
  SpawnBudget = 2
  MaxDepth = 1
  LocalCap = 1
  BatchMax = 1
  SchedAdds = {3, 5}
  SentinelStage = 4
  RootAdds = 1
  UseDesig = TRUE
  SpawnStages = {4, 5}
  GenHows = {"work", "add"}
  MutAddStages = {4}
  MutAddBudget = 1
  InitDisabled = {}
  SchedToggle = {}
  AtomicScan = TRUE
  FreePrograms = FALSE
  Mutant = "none"
INVARIANTS
  TypeOK NoPanic ParkedCountOK CondvarOK NoStuck LastParkedUnique FlagProtocol
  StageOrderOK OpenPrefix AllClosedAtGCEnd PacketConservation PacketExactlyOnce RunOnlyOpen
  SentinelAfterClosure
  STWOnlyWhenStopped BlockedUntilEnd WorldStoppedOnlyInGC
  SurrenderOK ExitClean GoalPriority ExitOnlyOnExitGoal ParkedZeroWhenAllExited
VIEW NoHistView
CHECK_DEADLOCK FALSE
