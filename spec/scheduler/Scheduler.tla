------------------------------ MODULE Scheduler ------------------------------
(***************************************************************************)
(* Design-level specification of mmtk-core's GC work-packet scheduler      *)
(* (properties C14, C15, C16 and the scheduler part of C11/C13).           *)
(*                                                                         *)
(* Structured like the implementation: ONE ACTION PER CRITICAL SECTION OR  *)
(* ATOMIC OPERATION.  File:line references are to /repo/src of the pinned  *)
(* snapshot (mmtk-core 0.32.0, 8edd344).                                   *)
(*                                                                         *)
(*   scheduler/worker_monitor.rs  WorkerMonitor (sync mutex + condvar),    *)
(*                                park_and_wait:127, make_request:100      *)
(*   scheduler/worker_goals.rs    WorkerGoals (current, requests)          *)
(*   scheduler/scheduler.rs       on_last_parked:443, respond_to_requests: *)
(*                                499, find_more_work_for_workers:536,     *)
(*                                schedule_sentinels:269, update_buckets:  *)
(*                                286, on_gc_finished:561,                 *)
(*                                notify_mutators_paused:655,              *)
(*                                schedule_concurrent_packets:670          *)
(*   scheduler/work_bucket.rs     WorkBucket (open, enabled, queue,        *)
(*                                prioritized_queue, sentinel), stages:308 *)
(*   scheduler/worker.rs          GCWorker::poll:198, add_work:172,        *)
(*                                run:221, WorkerGroup (creation state)    *)
(*   scheduler/gc_work.rs         ScheduleCollection:8, Prepare:50,        *)
(*                                StopMutators:217                         *)
(*   util/heap/gc_trigger.rs      request:82 (request_flag), clear:98      *)
(*   mmtk.rs                      prepare_to_fork:313, after_fork:331,     *)
(*                                shutdown:269                             *)
(*                                                                         *)
(* DELIBERATE ABSTRACTIONS (each is repeated next to the action it         *)
(* concerns):                                                              *)
(*  A1 Every section executed under WorkerMonitor::sync is one atomic      *)
(*     step (the mutex itself is not a variable).  Condvar::wait releases  *)
(*     the mutex atomically (worker_monitor.rs:221), so "inc parked + start*)
(*     waiting" is one step and "re-acquire + dec parked + exit test"      *)
(*     (225-239) is one step.  The on_last_parked callback runs under the  *)
(*     mutex with every other worker blocked in wait() or on the mutex, so *)
(*     the whole callback incl. the subsequent dec (WakeSelf/WakeAll) is   *)
(*     one step.  Consequence: `sync.try_lock().unwrap()` in               *)
(*     on_all_workers_exited (worker_monitor.rs:246) cannot fail here; see *)
(*     README "not modelled".                                              *)
(*  A2 Queues are bags: order inside a bucket / deque is not modelled      *)
(*     (DESIGN section 7: never asserted).  Packet identity is (kind,      *)
(*     stage, depth); "exactly once" is conservation of the multiset       *)
(*     (PacketConservation) plus "nothing left at GC end" (endOK).         *)
(*  A3 A packet's behaviour is a list of atomic micro-operations (todo).   *)
(*     ScheduleCollection, StopMutators and Prepare have fixed programs    *)
(*     taken from gc_work.rs / scheduler.rs:150; generic packets choose    *)
(*     children non-deterministically (bounded by MaxDepth, SpawnBudget).  *)
(*  A4 The poll scan (worker.rs:198, scheduler.rs:368-398,428-433) reads   *)
(*     designated queue, local deque, every bucket and every stealer one   *)
(*     after the other.  PollEmpty linearises it to one instant when       *)
(*     AtomicScan = TRUE; with AtomicScan = FALSE only the worker's own    *)
(*     queues must be empty (for trace validation, where the instant of    *)
(*     the event need not be an instant at which all sources were empty).  *)
(*     Steal::Retry is stuttering.  Take* may pick any available source    *)
(*     (the priority order of the scan is not asserted).                   *)
(*  A5 steal_batch_and_pop (work_bucket.rs:24) moves an arbitrary batch of *)
(*     at most BatchMax further packets to the local deque.                *)
(*  A6 Mutators are at a safepoint exactly when mpc = idle/blocked;        *)
(*     GCTrigger::request (swap; make_request) and WorkBucket::add (push;  *)
(*     notify) are not interruptible by stop_all_mutators (binding         *)
(*     contract; the assertion scheduler.rs:455 relies on the same).       *)
(*  A7 Goals: Gc, Shutdown, StopForFork in priority order                  *)
(*     (worker_goals.rs:31).  One VM control thread issues                 *)
(*     prepare_to_fork/shutdown and after_fork; after_fork is called only  *)
(*     after all worker threads were joined (mmtk.rs:309-312).             *)
(*  A8 Assertions of the real code (debug_assert!/assert!/panic!/unwrap)   *)
(*     that concern the protocol are modelled by the variable `panic`:     *)
(*     the action that would trip one sets panic to its name and the       *)
(*     system halts; NoPanic is an invariant.                              *)
(*  A9 Sequential consistency (DESIGN section 8).                          *)
(* A10 FreePrograms = TRUE replaces A3 for trace validation: packets are    *)
(*     not restricted to the fixed/generic programs, see FreeChoices.      *)
(***************************************************************************)
EXTENDS Naturals, Sequences, FiniteSets, Bags, TLC

CONSTANTS
  N,             \* number of GC workers (WorkerParker.worker_count)
  NStages,       \* stages 1..NStages: 1 = Unconstrained, 2 = Concurrent, 3 = FIRST_STW_STAGE
                 \* (Prepare), 4..NStages = sequentially opened STW stages (.. Release, Final)
  Mutators,      \* set of mutator ids
  MaxReq,        \* bound: successful request_flag swaps (= GC requests reaching make_request)
  MaxFork,       \* bound: prepare_to_fork / shutdown calls
  ExitKinds,     \* subset of {"Fork","Shutdown"} the VM thread may request
  SpurBudget,    \* bound: spurious wake-ups (finite for liveness, see DESIGN C14)
  SpawnBudget,   \* bound: children spawned by generic packets per GC
  MaxDepth,      \* depth of generic spawn trees
  LocalCap,      \* GCWorker::LOCALLY_CACHED_WORK_PACKETS (16 in the code, worker.rs:154)
  BatchMax,      \* see A5
  SchedAdds,     \* stages into which ScheduleCollection adds one packet (schedule_common_work)
  SentinelStage, \* stage whose sentinel ScheduleCollection sets (VMRefClosure), 0 = none
  RootAdds,      \* number of ScanMutatorRoots packets added by StopMutators (gc_work.rs:229)
  UseDesig,      \* TRUE: the packet in FIRST_STW is `Prepare` (bulk_add + designated work)
  SpawnStages,   \* stages generic packets may add children to
  GenHows,       \* subset of {"work","add","bulk","nonotify"}: worker.add_work / bucket.add /
                 \* bucket.bulk_add / bucket.add_no_notify
  MutAddStages,  \* stages mutators add packets to (generational modbuf: a closed STW stage;
                 \* SATB: Concurrent while it is enabled and open)
  MutAddBudget,  \* bound: packets added by mutators
  InitDisabled,  \* STW stages disabled by the plan at construction (concurrent/immix/global.rs:338)
  SchedToggle,   \* stages ScheduleCollection disables in odd and re-enables in even GCs
                 \* (set_ref_closure_buckets_enabled, concurrent/immix/global.rs:359)
  AtomicScan,    \* see A4
  FreePrograms,  \* FALSE for model checking.  TRUE (for trace validation): every packet may
                 \* perform any micro-operation sequence (FreeChoices), no depth/budget bound
  Mutant         \* "none", or the name of one real mechanism that is switched off

Workers  == 1..N
Stage    == 1..NStages
U        == 1                      \* WorkBucketStage::Unconstrained (always open)
C        == 2                      \* WorkBucketStage::Concurrent
FirstSTW == 3                      \* WorkBucketStage::FIRST_STW_STAGE = Prepare
STW      == 3..NStages             \* is_stw()
SeqStages == 4..NStages            \* is_sequentially_opened()
ExitGoals == {"Shutdown", "Fork"}
Mutants  == {"none", "NoNotifyMakeRequest", "AddNoNotify", "LastWaits", "DecSkipped",
             "OpenAny", "FlagNeverCleared", "NoWakeAllOnOpen", "NoGoalClearOnExit",
             "SentinelKept", "NoDesignatedCheck", "DisabledBlocks", "OpenAllAtOnce",
             "NoNotifyAllOnExit", "SentinelEager", "OpenBeforeStop"}

ASSUME /\ N \in Nat \ {0} /\ NStages >= 4 /\ Mutant \in Mutants
       /\ SchedAdds \subseteq STW /\ SentinelStage \in {0} \cup SeqStages
       /\ InitDisabled \subseteq SeqStages /\ SchedToggle \subseteq SeqStages
       /\ SpawnStages \subseteq Stage /\ MutAddStages \subseteq Stage \ {U}
       /\ ExitKinds \subseteq ExitGoals
       /\ UseDesig => FirstSTW \in SchedAdds

VARIABLES
  \* ---- per worker (GCWorker / GCWorkerShared) ----
  pc,         \* "poll" | "tolock" | "wait" | "run" | "exiting" | "lastexit" | "exited"
  cur,        \* packet being executed (NoPkt if none)
  todo,       \* remaining micro-operations of the running packet (A3)
  loc,        \* local_work_buffer   (bag of packets)
  des,        \* designated_work     (bag of packets)
  \* ---- WorkerMonitor (worker_monitor.rs:31-54) ----
  parked,     \* WorkerParker.parked_workers
  waiters,    \* workers blocked in Condvar::wait, not yet chosen by a notify
  signalled,  \* workers chosen by notify_one/notify_all, mutex not yet re-acquired
  goal,       \* WorkerGoals.current: "None" | "Gc" | "Shutdown" | "Fork"
  requests,   \* WorkerGoals.requests as a set
  \* ---- work buckets (work_bucket.rs:79-107) ----
  open, enabled, q, pq, sentinel,
  \* ---- mutator side ----
  flag,       \* GCTrigger.request_flag
  world,      \* "running" | "stopped" (between stop_all_mutators and resume_mutators)
  mpc,        \* <<"idle",0>> | <<"req2",0>> (flag swapped, make_request pending)
              \* | <<"blocked",0>> (block_for_gc) | <<"add2", b>> (pushed to b, notify pending)
  \* ---- WorkerGroup / VM control thread ----
  creation,   \* WorkerCreationState: "Spawned" | "Surrendered"
  surr,       \* workers whose GCWorker struct is in Surrendered.workers
  vmpc,       \* <<"idle","">> | <<"req", g>> | <<"join", g>>
  \* ---- bounds ----
  spur, budget, mutAdds, reqCount, forkCount, finished,
  \* ---- assertions of the real code (A8) ----
  panic,
  \* ---- history (hidden by VIEW in the large configs) ----
  nAdded, nStarted, nEnded,   \* packets added / started / ended since the last GC end
  sentOK,                     \* every sentinel packet started with everything before it drained
  cbOK, openOK, endOK, prioOK

wvars  == <<pc, cur, todo>>
lvars  == <<loc, des>>
qvars  == <<q, pq, sentinel>>
bvars  == <<open, enabled>>
cvars  == <<waiters, signalled>>
gvars  == <<goal, requests>>
mvars  == <<flag, world, mpc>>
fvars  == <<creation, surr, vmpc>>
bounds == <<spur, budget, mutAdds, reqCount, forkCount, finished>>
cnt    == <<nAdded, nStarted, nEnded, sentOK>>
flags  == <<cbOK, openOK, endOK, prioOK>>
vars   == <<wvars, lvars, qvars, bvars, parked, cvars, gvars, mvars, fvars, bounds, panic,
            cnt, flags>>
\* VIEW for the large configurations: everything but the history variables.
NoHistView == <<wvars, lvars, qvars, bvars, parked, cvars, gvars, mvars, fvars, bounds, panic>>

-----------------------------------------------------------------------------
(* Packets and micro-operations                                            *)

Pkt(k, b, d) == [k |-> k, b |-> b, d |-> d]
NoPkt    == Pkt("none", 0, 0)
SchedPkt == Pkt("Sched", U, 0)          \* ScheduleCollection (gc_work.rs:8)
StopPkt  == Pkt("Stop", U, 0)           \* StopMutators (gc_work.rs:189)
PrepPkt  == Pkt("Prep", FirstSTW, 0)    \* Prepare (gc_work.rs:38)
DesPkt   == Pkt("Des", 0, 0)            \* PrepareCollector/ReleaseCollector (designated)
Kinds    == {"Sched", "Stop", "Prep", "Des", "Gen", "Sent"}
PktSet   == {Pkt(k, b, d) : k \in Kinds, b \in 0..NStages, d \in 0..MaxDepth}
One(p)   == SetToBag({p})

Op(t, b, c, x) == [t |-> t, b |-> b, c |-> c, x |-> x]
OpKinds == {"push", "n1", "nall", "nraw", "chk", "desig", "sent", "enable", "stop", "clear",
            "openfirst"}
\* push      queue.push / prioritized_queue.push (x = prioritized)   work_bucket.rs:31,189-232
\* n1        WorkBucket::notify_one_worker                           work_bucket.rs:135
\* nall      WorkBucket::notify_all_workers                          work_bucket.rs:144
\* nraw      WorkerMonitor::notify_work_available(true)              scheduler.rs:667
\* chk       GCWorker::add_work (reads is_open, local len)           worker.rs:172
\* desig     designated_work.push of worker b                        gc_work.rs:70,148
\* sent      WorkBucket::set_sentinel                                work_bucket.rs:255
\* enable    WorkBucket::set_enabled(x)                              work_bucket.rs:123
\* stop      Collection::stop_all_mutators returns                   gc_work.rs:221
\* clear     GCTrigger::clear_request                                gc_trigger.rs:98
\* openfirst first_stw_bucket.open()                                 scheduler.rs:666

BAdd(b, c)    == << Op("push", b, c, FALSE), Op("n1", b, NoPkt, FALSE) >>    \* WorkBucket::add
BBulk(b, c)   == << Op("push", b, c, FALSE), Op("nall", b, NoPkt, FALSE) >>  \* bulk_add
BQuiet(b, c)  == << Op("push", b, c, FALSE) >>                               \* add_no_notify

RECURSIVE SeqOfSet(_)
SeqOfSet(S) == IF S = {} THEN <<>>
               ELSE LET m == CHOOSE x \in S : \A y \in S : x <= y
                    IN  <<m>> \o SeqOfSet(S \ {m})
RECURSIVE Flat(_)
Flat(ss) == IF ss = <<>> THEN <<>> ELSE Head(ss) \o Flat(Tail(ss))

\* ScheduleCollection::do_work -> plan.schedule_collection -> schedule_common_work
\* (scheduler.rs:150-241): optional set_enabled calls, StopMutators into Unconstrained,
\* one packet into each stage of SchedAdds, the VMRefClosure sentinel.
SchedTodo ==
  LET v    == (finished % 2) = 1
      tg   == SeqOfSet(SchedToggle)
      en   == {b \in Stage : enabled[b]}
      enAfter == IF v THEN en \cup SchedToggle ELSE en \ SchedToggle
      adds == SeqOfSet(SchedAdds \cap enAfter)
      first(b) == IF b = FirstSTW /\ UseDesig THEN PrepPkt ELSE Pkt("Gen", b, MaxDepth)
  IN  [i \in 1..Len(tg) |-> Op("enable", tg[i], NoPkt, v)]
      \o BAdd(U, StopPkt)
      \o Flat([i \in 1..Len(adds) |-> BAdd(adds[i], first(adds[i]))])
      \o (IF SentinelStage \in enAfter
          THEN << Op("sent", SentinelStage, Pkt("Sent", SentinelStage, MaxDepth), FALSE) >>
          ELSE <<>>)

\* StopMutators::do_work (gc_work.rs:218-240) followed by notify_mutators_paused
\* (scheduler.rs:655-668): clear_request, open FIRST_STW, notify_all - three separate steps
\* without any lock - and the ScanVMSpecificRoots add into the now open bucket.
StopTodo ==
  IF Mutant = "OpenBeforeStop"          \* notify_mutators_paused before stop_all_mutators returned
  THEN Flat([i \in 1..RootAdds |-> BAdd(FirstSTW, Pkt("Gen", FirstSTW, MaxDepth))])
       \o << Op("clear", 0, NoPkt, FALSE), Op("openfirst", 0, NoPkt, FALSE), Op("nraw", 0, NoPkt, FALSE),
             Op("stop", 0, NoPkt, FALSE) >>
       \o BAdd(FirstSTW, Pkt("Gen", FirstSTW, 0))
  ELSE
  << Op("stop", 0, NoPkt, FALSE) >>
  \o Flat([i \in 1..RootAdds |-> BAdd(FirstSTW, Pkt("Gen", FirstSTW, MaxDepth))])
  \o << Op("clear", 0, NoPkt, FALSE), Op("openfirst", 0, NoPkt, FALSE), Op("nraw", 0, NoPkt, FALSE) >>
  \o BAdd(FirstSTW, Pkt("Gen", FirstSTW, 0))

\* Prepare::do_work (gc_work.rs:51-73): bulk_add of PrepareMutator packets, then one
\* designated PrepareCollector per worker (no notification at all).
PrepTodo ==
  BBulk(FirstSTW, Pkt("Gen", FirstSTW, 0))
  \o [i \in 1..N |-> Op("desig", i, DesPkt, FALSE)]

Prog(p) == IF FreePrograms THEN <<>> ELSE
           CASE p.k = "Sched" -> SchedTodo
             [] p.k = "Stop"  -> StopTodo
             [] p.k = "Prep"  -> PrepTodo
             [] OTHER         -> <<>>

\* Generic packets ("Gen", and the sentinel packet "Sent" = VMProcessWeakRefs, weakref.rs:30-47)
\* spawn children non-deterministically while depth and budget allow (A3).
CanSpawn(w) == IF FreePrograms THEN pc[w] = "run"
               ELSE cur[w].k \in {"Gen", "Sent"} /\ cur[w].d > 0 /\ budget > 0
\* FreePrograms: what any real packet may do next.  Program-order obligations stay inside the
\* sequences: a push through WorkBucket::add is followed by its notify step, clear_request
\* by open(FIRST_STW) and notify_all (notify_mutators_paused).
FreeChoices ==
  LET ch(b) == Pkt("Gen", b, 0)
      X(t) == Op(t, 0, NoPkt, FALSE)
  IN  {<< Op("chk", b, ch(b), FALSE) >> : b \in Stage}
      \cup {BAdd(b, ch(b)) : b \in Stage} \cup {BBulk(b, ch(b)) : b \in Stage}
      \cup {BQuiet(b, ch(b)) : b \in Stage}
      \cup {<< Op("push", b, ch(b), TRUE), Op("n1", b, NoPkt, FALSE) >> : b \in Stage}
      \cup {<< Op("n1", b, NoPkt, FALSE) >> : b \in Stage}
      \cup {<< Op("nall", b, NoPkt, FALSE) >> : b \in Stage}
      \cup {<< Op("desig", v, DesPkt, FALSE) >> : v \in Workers}
      \cup {<< Op("sent", b, Pkt("Sent", b, 0), FALSE) >> : b \in Stage}
      \cup {<< Op("enable", b, NoPkt, x) >> : b \in Stage, x \in BOOLEAN}
      \cup {<< X("stop") >>, << X("clear"), X("openfirst"), X("nraw") >>}
GenChoices(w) ==
  IF FreePrograms THEN FreeChoices ELSE
  LET p == cur[w]
      tg == {b \in SpawnStages : enabled[b] \/ b = C}
      ch(b) == Pkt("Gen", b, p.d - 1)
  IN  {<< Op("chk", b, ch(b), FALSE) >> : b \in IF "work" \in GenHows THEN tg ELSE {}}
      \cup {BAdd(b, ch(b))   : b \in IF "add" \in GenHows THEN tg ELSE {}}
      \cup {BBulk(b, ch(b))  : b \in IF "bulk" \in GenHows THEN tg ELSE {}}
      \cup {BQuiet(b, ch(b)) : b \in IF "nonotify" \in GenHows THEN tg ELSE {}}
      \cup (IF p.k = "Sent"
            THEN {<< Op("sent", p.b, Pkt("Sent", p.b, p.d - 1), FALSE) >>}   \* re-arm, weakref.rs:45
            ELSE {})
\* The op sequences the running packet of w may continue with.
Seqs(w) == IF todo[w] # <<>> THEN {todo[w]}
           ELSE IF CanSpawn(w) THEN GenChoices(w) ELSE {}

-----------------------------------------------------------------------------
(* State functions                                                         *)

QEmpty(b)   == q[b] = EmptyBag /\ pq[b] = EmptyBag              \* WorkBucket::is_empty:163
Pollable(b) == enabled[b] /\ open[b] /\ ~QEmpty(b)              \* WorkBucket::poll:236
Runnable    == \/ \E w \in Workers : des[w] # EmptyBag \/ loc[w] # EmptyBag
               \/ \E b \in Stage : Pollable(b)
HasDesig    == \E v \in Workers : des[v] # EmptyBag             \* has_designated_work:439
OthersWaiting(w) == \A v \in Workers \ {w} : pc[v] = "wait"
NextGoal(reqs) ==                                               \* poll_next_goal:54 (priority)
  IF "Gc" \in reqs THEN "Gc" ELSE IF "Shutdown" \in reqs THEN "Shutdown"
  ELSE IF "Fork" \in reqs THEN "Fork" ELSE "None"
RECURSIVE SumCard(_, _)
SumCard(f, D) == IF D = {} THEN 0
                 ELSE LET x == CHOOSE y \in D : TRUE
                      IN  BagCardinality(f[x]) + SumCard(f, D \ {x})
InFlight ==   \* packets that exist and are not being executed
  SumCard(q, Stage) + SumCard(pq, Stage) + SumCard(loc, Workers) + SumCard(des, Workers)
  + Cardinality({b \in Stage : sentinel[b] # NoPkt})
Running == Cardinality({w \in Workers : pc[w] = "run"})

\* are_buckets_drained(cur_stages) (scheduler.rs:243) for stage i, evaluated with the open
\* flags `op` (buckets opened earlier in the same update_buckets loop count as open).
\* cur_stages = FIRST_STW and every earlier sequentially-opened stage (scheduler.rs:54-71).
CanOpenWith(i, op) ==
  LET drained(c) == IF Mutant = "DisabledBlocks" THEN enabled[c] /\ op[c] /\ QEmpty(c)
                    ELSE ~enabled[c] \/ (op[c] /\ QEmpty(c))   \* is_drained:172
  IN  IF Mutant = "OpenAllAtOnce" THEN TRUE
      ELSE IF Mutant = "OpenAny" THEN \E c \in FirstSTW..(i - 1) : drained(c)
      ELSE \A c \in FirstSTW..(i - 1) : drained(c)

\* update_buckets (scheduler.rs:286-320): walk the stages in order, open every closed enabled
\* sequential stage whose condition holds; stop at the first newly opened stage that has
\* packets, or whose sentinel gets scheduled.  Result: the new open flags, the stage that
\* produced work (0 = none) and how.
RECURSIVE UpdateFrom(_, _)
UpdateFrom(i, op) ==
  IF i > NStages THEN [open |-> op, hit |-> 0, how |-> "none"]
  ELSE IF i \in SeqStages /\ enabled[i] /\ ~op[i] /\ CanOpenWith(i, op)
       THEN LET op2 == [op EXCEPT ![i] = TRUE] IN
            IF ~QEmpty(i)
            THEN IF Mutant = "OpenAllAtOnce"     \* no `break` (:306-310): keep opening
                 THEN [open |-> UpdateFrom(i + 1, op2).open, hit |-> i, how |-> "packets"]
                 ELSE [open |-> op2, hit |-> i, how |-> "packets"]
            ELSE IF sentinel[i] # NoPkt THEN [open |-> op2, hit |-> i, how |-> "sentinel"]
            ELSE UpdateFrom(i + 1, op2)
       ELSE UpdateFrom(i + 1, op)   \* always-open, disabled, no open condition, already open
Upd == UpdateFrom(1, open)
SentStages == {b \in Stage : open[b] /\ sentinel[b] # NoPkt}    \* schedule_sentinels:269
\* find_more_work_for_workers (scheduler.rs:536-556)
GcMore == IF HasDesig /\ Mutant # "NoDesignatedCheck" THEN "designated"
          ELSE IF SentStages # {} THEN "sentinel"
          ELSE IF Upd.hit # 0 THEN "opened" ELSE "none"

\* C15: what must hold when a sequential stage s is opened (op = flags after the loop).
OpenGuard(w, s, op) ==
  /\ parked + 1 = N /\ OthersWaiting(w)
  /\ \A c \in FirstSTW..(s - 1) : enabled[c] => (op[c] /\ QEmpty(c) /\ sentinel[c] = NoPkt)
  /\ \A v \in Workers : loc[v] = EmptyBag /\ des[v] = EmptyBag

Alive == panic = "none"
Halt(msg) == /\ panic' = msg
             /\ UNCHANGED <<wvars, lvars, qvars, bvars, parked, cvars, gvars, mvars, fvars,
                            bounds, cnt, flags>>

\* Condvar::notify_one: wakes any one waiter (v), or is lost if there is none (v = 0).
NotifyOneTo(v) == IF waiters = {} THEN v = 0 /\ UNCHANGED cvars
                  ELSE /\ v \in waiters
                       /\ waiters' = waiters \ {v} /\ signalled' = signalled \cup {v}
NotifyAll == waiters' = {} /\ signalled' = signalled \cup waiters

-----------------------------------------------------------------------------
Init ==
  /\ pc = [w \in Workers |-> "poll"] /\ cur = [w \in Workers |-> NoPkt]
  /\ todo = [w \in Workers |-> <<>>]
  /\ loc = [w \in Workers |-> EmptyBag] /\ des = [w \in Workers |-> EmptyBag]
  /\ parked = 0 /\ waiters = {} /\ signalled = {}
  /\ goal = "None" /\ requests = {}
  /\ open = [b \in Stage |-> b \in {U, C}]          \* is_open_by_default (work_bucket.rs:387)
  /\ enabled = [b \in Stage |-> b # C /\ b \notin InitDisabled]   \* is_enabled_by_default:395
  /\ q = [b \in Stage |-> EmptyBag] /\ pq = [b \in Stage |-> EmptyBag]
  /\ sentinel = [b \in Stage |-> NoPkt]
  /\ flag = FALSE /\ world = "running" /\ mpc = [m \in Mutators |-> <<"idle", 0>>]
  /\ creation = "Spawned" /\ surr = {} /\ vmpc = <<"idle", "">>
  /\ spur = SpurBudget /\ budget = 0 /\ mutAdds = 0 /\ reqCount = 0 /\ forkCount = 0
  /\ finished = 0 /\ panic = "none"
  /\ nAdded = 0 /\ nStarted = 0 /\ nEnded = 0 /\ sentOK = TRUE
  /\ cbOK = TRUE /\ openOK = TRUE /\ endOK = TRUE /\ prioOK = TRUE

-----------------------------------------------------------------------------
(* Worker: polling (worker.rs:198-208, scheduler.rs:368-426)               *)

StartPacket(w, p) ==      \* GCWorker::run:242-257, do_work_with_stat (work.rs:34)
  /\ pc' = [pc EXCEPT ![w] = "run"] /\ cur' = [cur EXCEPT ![w] = p]
  /\ todo' = [todo EXCEPT ![w] = Prog(p)]
  /\ nStarted' = nStarted + 1 /\ UNCHANGED <<nAdded, nEnded>>
  \* C13: a sentinel packet (VMProcessWeakRefs) starts only after the closure before it is
  \* complete: no packet of its stage or an earlier STW stage is queued, local or running
  /\ sentOK' = (sentOK /\ (p.k = "Sent" =>
                  /\ \A b \in FirstSTW..p.b : q[b] (+) pq[b] \sqsubseteq One(p)
                  /\ \A v \in Workers : loc[v] = EmptyBag /\ des[v] = EmptyBag
                                        /\ (pc[v] = "run" => cur[v].b \notin FirstSTW..p.b)))

TakeDesignated(w, p) ==   \* designated_work.pop (worker.rs:199, scheduler.rs:371)
  /\ Alive /\ pc[w] = "poll" /\ BagIn(p, des[w])
  /\ des' = [des EXCEPT ![w] = @ (-) One(p)]
  /\ StartPacket(w, p)
  /\ UNCHANGED <<loc, qvars, bvars, parked, cvars, gvars, mvars, fvars, bounds, panic, flags>>

TakeLocal(w, p) ==        \* local_work_buffer.pop (worker.rs:203)
  /\ Alive /\ pc[w] = "poll" /\ BagIn(p, loc[w])
  /\ loc' = [loc EXCEPT ![w] = @ (-) One(p)]
  /\ StartPacket(w, p)
  /\ UNCHANGED <<des, qvars, bvars, parked, cvars, gvars, mvars, fvars, bounds, panic, flags>>

\* WorkBucket::poll (work_bucket.rs:235-246): steal_batch_and_pop from the prioritized queue
\* or the normal queue of an enabled, open, non-empty bucket; `batch` goes to the local deque.
TakeBucket(w, b, p, prio, batch) ==
  /\ Alive /\ pc[w] = "poll" /\ Pollable(b)
  /\ LET src == IF prio THEN pq[b] ELSE q[b] IN
     /\ BagIn(p, src)
     /\ batch \sqsubseteq (src (-) One(p)) /\ BagCardinality(batch) <= BatchMax
     /\ IF prio THEN pq' = [pq EXCEPT ![b] = (@ (-) One(p)) (-) batch] /\ q' = q
                ELSE q' = [q EXCEPT ![b] = (@ (-) One(p)) (-) batch] /\ pq' = pq
  /\ loc' = [loc EXCEPT ![w] = @ (+) batch]
  /\ StartPacket(w, p)
  /\ UNCHANGED <<des, sentinel, bvars, parked, cvars, gvars, mvars, fvars, bounds, panic, flags>>

Steal(w, v, p) ==         \* worker_shared.stealer.steal() (scheduler.rs:383-391)
  /\ Alive /\ pc[w] = "poll" /\ v # w /\ BagIn(p, loc[v])
  /\ loc' = [loc EXCEPT ![v] = @ (-) One(p)]
  /\ StartPacket(w, p)
  /\ UNCHANGED <<des, qvars, bvars, parked, cvars, gvars, mvars, fvars, bounds, panic, flags>>

\* poll_slow found nothing (scheduler.rs:428-433).  NO LOCK IS HELD: the step to ParkWait /
\* LastParked* is separate - this is the window in which notifications can be lost.
NothingFor(w) ==
  /\ des[w] = EmptyBag /\ loc[w] = EmptyBag
  /\ AtomicScan => /\ \A b \in Stage : ~Pollable(b)
                   /\ \A v \in Workers \ {w} : loc[v] = EmptyBag
PollEmpty(w) ==
  /\ Alive /\ pc[w] = "poll" /\ NothingFor(w)
  /\ pc' = [pc EXCEPT ![w] = "tolock"]
  /\ UNCHANGED <<cur, todo, lvars, qvars, bvars, parked, cvars, gvars, mvars, fvars, bounds,
                 panic, cnt, flags>>

-----------------------------------------------------------------------------
(* Worker: park_and_wait (worker_monitor.rs:127-242), all under `sync` (A1) *)

AllParkedAfterInc == parked + 1 = N        \* inc_parked_workers:68 returns new == worker_count

\* Not the last one: inc, then Condvar::wait (atomically releases the mutex).
ParkWait(w) ==
  /\ Alive /\ pc[w] = "tolock" /\ ~AllParkedAfterInc
  /\ IF parked >= N THEN Halt("inc_parked_overflow")          \* debug_assert :70
     ELSE /\ parked' = parked + 1
          /\ pc' = [pc EXCEPT ![w] = "wait"] /\ waiters' = waiters \cup {w}
          /\ UNCHANGED <<cur, todo, lvars, qvars, bvars, signalled, gvars, mvars, fvars, bounds,
                         panic, cnt, flags>>

\* respond_to_requests (scheduler.rs:499-533), called with goals.current = None, followed by
\* the rest of park_and_wait for the chosen result.  `reqs`: the pending requests.
\*   none            -> ParkSelf : the last parked worker waits too
\*   Gc              -> add ScheduleCollection WITHOUT notify (:143-147), WakeSelf: dec, return
\*   Shutdown / Fork -> WakeAll: notify_all, dec, current goal is an exit goal -> Err(exit)
Respond(w, g) ==
  /\ g = (IF Mutant = "LastWaits" THEN "None" ELSE NextGoal(requests))
  /\ goal' = g /\ requests' = requests \ {g}
  /\ prioOK' = (prioOK /\ (g \in ExitGoals => "Gc" \notin requests)
                       /\ (g = "Fork" => "Shutdown" \notin requests))
  /\ CASE g = "None" ->
            /\ parked' = parked + 1 /\ pc' = [pc EXCEPT ![w] = "wait"]
            /\ waiters' = waiters \cup {w} /\ UNCHANGED <<signalled, q, budget>>
       [] g = "Gc" ->
            /\ q' = [q EXCEPT ![U] = @ (+) One(SchedPkt)]
            /\ budget' = SpawnBudget
            /\ pc' = [pc EXCEPT ![w] = "poll"] /\ UNCHANGED <<parked, cvars>>
       [] g \in ExitGoals ->
            /\ IF Mutant = "NoNotifyAllOnExit" THEN UNCHANGED cvars ELSE NotifyAll
            /\ pc' = [pc EXCEPT ![w] = "exiting"]
            /\ UNCHANGED <<parked, q, budget>>

\* Last parked worker, no current goal (scheduler.rs:444-447).
LastParkedIdle(w, g) ==
  /\ Alive /\ pc[w] = "tolock" /\ AllParkedAfterInc /\ goal = "None"
  /\ Respond(w, g)
  /\ nAdded' = nAdded + (IF g = "Gc" THEN 1 ELSE 0)
  /\ cbOK' = (cbOK /\ OthersWaiting(w))
  /\ UNCHANGED <<cur, todo, lvars, pq, sentinel, bvars, mvars, fvars, spur, mutAdds, reqCount,
                 forkCount, finished, panic, nStarted, nEnded, sentOK, openOK, endOK>>

\* Assertions at the head of the Gc branch of on_last_parked (scheduler.rs:455-464) and the
\* panic of the exit branch (:489).
LastParkedAssert ==
  IF goal \in ExitGoals THEN "parked_again_when_asked_to_exit"
  ELSE IF "Gc" \in requests THEN "gc_requested_during_gc"
  ELSE IF \E b \in Stage : Pollable(b) THEN "open_bucket_not_empty"
  ELSE "none"
LastParkedPanic(w) ==
  /\ Alive /\ pc[w] = "tolock" /\ AllParkedAfterInc /\ goal # "None"
  /\ LastParkedAssert # "none" /\ Halt(LastParkedAssert)

\* Last parked worker during a GC, more work found (scheduler.rs:467-470): WakeAll.
\*   why = "designated": some worker has designated work
\*         "sentinel"  : schedule_sentinels moved >= 1 sentinel into its (open) bucket
\*         "opened"    : update_buckets opened stages; the last one has packets or a sentinel
LastParkedFindMore(w, why) ==
  /\ Alive /\ pc[w] = "tolock" /\ AllParkedAfterInc /\ goal = "Gc"
  /\ LastParkedAssert = "none" /\ why = GcMore /\ why # "none"
  /\ CASE why = "designated" -> UNCHANGED <<q, sentinel, open, openOK, nAdded>>
       [] why = "sentinel" ->
            /\ q' = [b \in Stage |-> IF b \in SentStages THEN q[b] (+) One(sentinel[b]) ELSE q[b]]
            /\ sentinel' = [b \in Stage |-> IF b \in SentStages /\ Mutant # "SentinelKept"
                                            THEN NoPkt ELSE sentinel[b]]
            /\ UNCHANGED <<open, openOK, nAdded>>
       [] why = "opened" ->
            /\ open' = Upd.open
            /\ IF Upd.how = "sentinel"           \* maybe_schedule_sentinel:276
               THEN /\ q' = [q EXCEPT ![Upd.hit] = @ (+) One(sentinel[Upd.hit])]
                    /\ sentinel' = [sentinel EXCEPT ![Upd.hit] = NoPkt]
               ELSE UNCHANGED <<q, sentinel>>
            /\ openOK' = (openOK /\ \A s \in Stage : (Upd.open[s] /\ ~open[s])
                                                      => OpenGuard(w, s, Upd.open))
            /\ UNCHANGED nAdded
  /\ IF Mutant = "NoWakeAllOnOpen" THEN UNCHANGED cvars ELSE NotifyAll   \* WakeAll :159
  /\ pc' = [pc EXCEPT ![w] = "poll"]                   \* dec_parked_workers :225, Ok(())
  /\ cbOK' = (cbOK /\ OthersWaiting(w))
  /\ UNCHANGED <<cur, todo, lvars, pq, enabled, parked, gvars, mvars, fvars, bounds, panic,
                 nStarted, nEnded, sentOK, endOK, prioOK>>

\* Last parked worker during a GC, nothing more: on_gc_finished (scheduler.rs:561-637):
\* close all STW buckets, schedule_concurrent_packets (:670), resume_mutators; then
\* on_current_goal_completed; then WakeAll if concurrent work was scheduled, else
\* respond_to_requests again (:478-486).  conc/g identify the outcome.
LastParkedFinish(w, conc, g) ==
  /\ Alive /\ pc[w] = "tolock" /\ AllParkedAfterInc /\ goal = "Gc"
  /\ LastParkedAssert = "none" /\ GcMore = "none"
  /\ conc = ~QEmpty(C)
  /\ IF \E b \in STW : ~QEmpty(b) \/ HasDesig
     THEN Halt("stw_bucket_not_empty_at_gc_end")        \* debug_asserts :563-564, close():178
     ELSE
       /\ open' = [b \in Stage |-> IF b \in STW THEN FALSE ELSE IF b = C THEN conc ELSE open[b]]
       /\ enabled' = [enabled EXCEPT ![C] = conc]
       /\ world' = "running"                            \* resume_mutators :634
       /\ mpc' = [m \in Mutators |-> IF mpc[m][1] = "blocked" THEN <<"idle", 0>> ELSE mpc[m]]
       /\ finished' = finished + 1
       /\ openOK' = (openOK /\ \A s \in Stage : (Upd.open[s] /\ ~open[s])
                                                 => OpenGuard(w, s, Upd.open))
       /\ endOK' = (endOK /\ \A b \in STW : QEmpty(b) /\ sentinel[b] = NoPkt
                          /\ \A v \in Workers : loc[v] = EmptyBag /\ des[v] = EmptyBag
                                                /\ pc[v] # "run"
                          /\ nStarted = nEnded /\ nAdded = nEnded + InFlight)
       /\ cbOK' = (cbOK /\ OthersWaiting(w))
       /\ nStarted' = 0 /\ nEnded' = 0 /\ UNCHANGED sentOK
       /\ IF conc
          THEN /\ g = "None" /\ goal' = "None" /\ NotifyAll      \* WakeAll :481
               /\ pc' = [pc EXCEPT ![w] = "poll"] /\ nAdded' = InFlight
               /\ UNCHANGED <<requests, parked, q, budget, prioOK>>
          ELSE /\ Respond(w, g)
               /\ nAdded' = InFlight + (IF g = "Gc" THEN 1 ELSE 0)
       /\ UNCHANGED <<cur, todo, lvars, pq, sentinel, flag, fvars, spur, mutAdds, reqCount,
                      forkCount, panic>>

\* Return from Condvar::wait (notified or spuriously), re-acquire `sync`, dec_parked_workers,
\* exit test (worker_monitor.rs:221-241).
Wake(w, kind) ==
  /\ Alive /\ pc[w] = "wait"
  /\ \/ kind = "notified" /\ w \in signalled
        /\ signalled' = signalled \ {w} /\ UNCHANGED <<waiters, spur>>
     \/ kind = "spurious" /\ w \in waiters /\ spur > 0
        /\ waiters' = waiters \ {w} /\ spur' = spur - 1 /\ UNCHANGED signalled
  /\ parked' = IF Mutant = "DecSkipped" THEN parked ELSE parked - 1
  /\ pc' = [pc EXCEPT ![w] = IF goal \in ExitGoals THEN "exiting" ELSE "poll"]
  /\ UNCHANGED <<cur, todo, lvars, qvars, bvars, gvars, mvars, fvars, budget, mutAdds, reqCount,
                 forkCount, finished, panic, cnt, flags>>

-----------------------------------------------------------------------------
(* Worker: executing a packet, one micro-operation per step (A3)           *)

Consume(w, s, extra) ==
  /\ todo' = [todo EXCEPT ![w] = extra \o Tail(s)]
  /\ budget' = IF todo[w] = <<>> /\ ~FreePrograms THEN budget - 1 ELSE budget
Running1(w) == Alive /\ pc[w] = "run"
RunFrame == UNCHANGED <<pc, cur, parked, gvars, fvars, spur, mutAdds, reqCount, forkCount,
                        finished, panic, nStarted, nEnded, sentOK, flags>>

\* queue.push / prioritized_queue.push
RunPush(w, b, c, prio) ==
  /\ Running1(w)
  /\ \E s \in Seqs(w) : Head(s) = Op("push", b, c, prio) /\ Consume(w, s, <<>>)
  /\ IF prio THEN pq' = [pq EXCEPT ![b] = @ (+) One(c)] /\ q' = q
             ELSE q' = [q EXCEPT ![b] = @ (+) One(c)] /\ pq' = pq
  /\ nAdded' = nAdded + 1
  /\ RunFrame /\ UNCHANGED <<lvars, sentinel, bvars, cvars, mvars>>

\* notify_one_worker: only if the bucket is open and enabled; wakes waiter v or is lost
RunNotifyOne(w, b, v) ==
  /\ Running1(w)
  /\ \E s \in Seqs(w) : Head(s) = Op("n1", b, NoPkt, FALSE) /\ Consume(w, s, <<>>)
  /\ IF open[b] /\ enabled[b] /\ Mutant # "AddNoNotify" THEN NotifyOneTo(v)
     ELSE v = 0 /\ UNCHANGED cvars
  /\ RunFrame /\ UNCHANGED <<lvars, qvars, bvars, mvars, nAdded>>

\* notify_all_workers: only if the bucket is open and enabled
RunNotifyAll(w, b) ==
  /\ Running1(w)
  /\ \E s \in Seqs(w) : Head(s) = Op("nall", b, NoPkt, FALSE) /\ Consume(w, s, <<>>)
  /\ IF open[b] /\ enabled[b] /\ Mutant # "AddNoNotify" THEN NotifyAll ELSE UNCHANGED cvars
  /\ RunFrame /\ UNCHANGED <<lvars, qvars, bvars, mvars, nAdded>>

\* unconditional notify_all in notify_mutators_paused (scheduler.rs:667)
RunNotifyAllRaw(w) ==
  /\ Running1(w)
  /\ \E s \in Seqs(w) : Head(s) = Op("nraw", 0, NoPkt, FALSE) /\ Consume(w, s, <<>>)
  /\ NotifyAll
  /\ RunFrame /\ UNCHANGED <<lvars, qvars, bvars, mvars, nAdded>>

\* GCWorker::add_work (worker.rs:172-180): reads is_open and the local length.
\*   dest = "local": bucket open and local deque below the cap -> local push, NO notify.
\*          (read + push are one step: a bucket cannot close while this worker runs.)
\*   dest = "queue": falls through to WorkBucket::add = push, then notify_one_worker; those
\*          are later steps because FIRST_STW may be opened in between.
RunAddWork(w, b, c, dest) ==
  /\ Running1(w)
  /\ dest = IF open[b] /\ BagCardinality(loc[w]) < LocalCap THEN "local" ELSE "queue"
  /\ \E s \in Seqs(w) :
       /\ Head(s) = Op("chk", b, c, FALSE)
       /\ Consume(w, s, IF dest = "local" THEN <<>> ELSE BAdd(b, c))
  /\ IF dest = "local"
     THEN loc' = [loc EXCEPT ![w] = @ (+) One(c)] /\ nAdded' = nAdded + 1
     ELSE UNCHANGED <<loc, nAdded>>
  /\ RunFrame /\ UNCHANGED <<des, qvars, bvars, cvars, mvars>>

\* designated_work.push for worker v (gc_work.rs:69-72,147-150); nobody is notified
RunDesignated(w, v) ==
  /\ Running1(w)
  /\ \E s \in Seqs(w) : Head(s) = Op("desig", v, DesPkt, FALSE) /\ Consume(w, s, <<>>)
  /\ des' = [des EXCEPT ![v] = @ (+) One(DesPkt)] /\ nAdded' = nAdded + 1
  /\ RunFrame /\ UNCHANGED <<loc, qvars, bvars, cvars, mvars>>

\* WorkBucket::set_sentinel (work_bucket.rs:255)
RunSetSentinel(w, b, c) ==
  /\ Running1(w)
  /\ \E s \in Seqs(w) : Head(s) = Op("sent", b, c, FALSE) /\ Consume(w, s, <<>>)
  /\ IF Mutant = "SentinelEager" /\ open[b]
     THEN q' = [q EXCEPT ![b] = @ (+) One(c)] /\ nAdded' = nAdded + 1 /\ UNCHANGED sentinel
     ELSE /\ sentinel' = [sentinel EXCEPT ![b] = c] /\ UNCHANGED q
          /\ nAdded' = IF sentinel[b] = NoPkt THEN nAdded + 1 ELSE nAdded   \* an old one is dropped
  /\ RunFrame /\ UNCHANGED <<lvars, pq, bvars, cvars, mvars>>

\* WorkBucket::set_enabled
RunSetEnabled(w, b, v) ==
  /\ Running1(w)
  /\ \E s \in Seqs(w) : Head(s) = Op("enable", b, NoPkt, v) /\ Consume(w, s, <<>>)
  /\ enabled' = [enabled EXCEPT ![b] = v]
  /\ RunFrame /\ UNCHANGED <<lvars, qvars, open, cvars, mvars, nAdded>>

\* stop_all_mutators has returned: every mutator is at a safepoint (A6)
RunStopWorld(w) ==
  /\ Running1(w)
  /\ \A m \in Mutators : mpc[m][1] \in {"idle", "blocked"}
  /\ vmpc[1] \in {"idle", "join"}
  /\ \E s \in Seqs(w) : Head(s) = Op("stop", 0, NoPkt, FALSE) /\ Consume(w, s, <<>>)
  /\ world' = "stopped"
  /\ RunFrame /\ UNCHANGED <<lvars, qvars, bvars, cvars, flag, mpc, nAdded>>

\* GCTrigger::clear_request (gc_trigger.rs:98)
RunClearFlag(w) ==
  /\ Running1(w)
  /\ \E s \in Seqs(w) : Head(s) = Op("clear", 0, NoPkt, FALSE) /\ Consume(w, s, <<>>)
  /\ flag' = IF Mutant = "FlagNeverCleared" THEN flag ELSE FALSE
  /\ RunFrame /\ UNCHANGED <<lvars, qvars, bvars, cvars, world, mpc, nAdded>>

\* first_stw_bucket.open() (scheduler.rs:657-666): the only open without all workers parked
RunOpenFirst(w) ==
  /\ Running1(w)
  /\ \E s \in Seqs(w) : Head(s) = Op("openfirst", 0, NoPkt, FALSE)
  /\ IF open[FirstSTW] THEN Halt("first_stw_already_open")        \* debug_assert :658
     ELSE /\ \E s \in Seqs(w) : Consume(w, s, <<>>)
          /\ open' = [open EXCEPT ![FirstSTW] = TRUE]
          /\ RunFrame /\ UNCHANGED <<lvars, qvars, enabled, cvars, mvars, nAdded>>

\* do_work returns (work.rs:46-53); the worker polls again
RunEnd(w) ==
  /\ Running1(w) /\ todo[w] = <<>>
  /\ pc' = [pc EXCEPT ![w] = "poll"] /\ cur' = [cur EXCEPT ![w] = NoPkt]
  /\ nEnded' = nEnded + 1
  /\ UNCHANGED <<todo, lvars, qvars, bvars, parked, cvars, gvars, mvars, fvars, bounds, panic,
                 nAdded, nStarted, sentOK, flags>>

-----------------------------------------------------------------------------
(* Worker exit (worker.rs:242-266,417; scheduler.rs:112; worker_monitor.rs:245) *)

\* WorkerGroup::surrender_gc_worker under the `state` mutex
Surrender(w) ==
  /\ Alive /\ pc[w] = "exiting"
  /\ IF creation # "Surrendered" THEN Halt("surrender_without_buffer")      \* worker.rs:419
     ELSE /\ surr' = surr \cup {w}
          /\ pc' = [pc EXCEPT ![w] = IF Cardinality(surr \cup {w}) = N THEN "lastexit"
                                     ELSE "exited"]
          /\ UNCHANGED <<cur, todo, lvars, qvars, bvars, parked, cvars, gvars, mvars, creation,
                         vmpc, bounds, panic, cnt, flags>>

\* on_all_workers_exited: goals.on_current_goal_completed() (try_lock assumed free, A1)
AllExited(w) ==
  /\ Alive /\ pc[w] = "lastexit"
  /\ goal' = IF Mutant = "NoGoalClearOnExit" THEN goal ELSE "None"
  /\ pc' = [pc EXCEPT ![w] = "exited"]
  /\ UNCHANGED <<cur, todo, lvars, qvars, bvars, parked, cvars, requests, mvars, fvars, bounds,
                 panic, cnt, flags>>

-----------------------------------------------------------------------------
(* Mutators                                                                *)

\* GCTrigger::request (gc_trigger.rs:82-94): request_flag.swap(true) returned false.
\* (A call that finds the flag set returns at once and is not a step.)
MutRequest(m) ==
  /\ Alive /\ mpc[m][1] = "idle" /\ world = "running" /\ ~flag /\ reqCount < MaxReq
  /\ flag' = TRUE /\ mpc' = [mpc EXCEPT ![m] = <<"req2", 0>>] /\ reqCount' = reqCount + 1
  /\ UNCHANGED <<wvars, lvars, qvars, bvars, parked, cvars, gvars, world, fvars, spur, budget,
                 mutAdds, forkCount, finished, panic, cnt, flags>>

\* WorkerMonitor::make_request(Gc) under `sync` (worker_monitor.rs:100-106), then the mutator
\* goes on to Collection::block_for_gc.
MutMakeRequest(m, v) ==
  /\ Alive /\ mpc[m][1] = "req2"
  /\ requests' = requests \cup {"Gc"}
  /\ IF "Gc" \notin requests /\ Mutant # "NoNotifyMakeRequest" THEN NotifyOneTo(v)
     ELSE v = 0 /\ UNCHANGED cvars
  /\ mpc' = [mpc EXCEPT ![m] = <<"blocked", 0>>]
  /\ UNCHANGED <<wvars, lvars, qvars, bvars, parked, goal, flag, world, fvars, bounds, panic,
                 cnt, flags>>

\* A mutator adds a packet with WorkBucket::add: generational modbuf flush into a closed STW
\* stage (plan/generational/barrier.rs:47), SATB flush into Concurrent while concurrent work
\* is in progress (plan/concurrent/barrier.rs:69-80).  Push now, notify in the next step.
MutAddPush(m, b) ==
  /\ Alive /\ mpc[m][1] = "idle" /\ world = "running" /\ mutAdds < MutAddBudget
  /\ b \in MutAddStages /\ (b = C => enabled[C] /\ open[C])
  /\ q' = [q EXCEPT ![b] = @ (+) One(Pkt("Gen", b, 0))] /\ nAdded' = nAdded + 1
  /\ mpc' = [mpc EXCEPT ![m] = <<"add2", b>>] /\ mutAdds' = mutAdds + 1
  /\ UNCHANGED <<wvars, lvars, pq, sentinel, bvars, parked, cvars, gvars, flag, world, fvars,
                 spur, budget, reqCount, forkCount, finished, panic, nStarted, nEnded, sentOK,
                 flags>>

MutAddNotify(m, v) ==
  /\ Alive /\ mpc[m][1] = "add2"
  /\ LET b == mpc[m][2] IN
     IF open[b] /\ enabled[b] /\ Mutant # "AddNoNotify" THEN NotifyOneTo(v)
     ELSE v = 0 /\ UNCHANGED cvars
  /\ mpc' = [mpc EXCEPT ![m] = <<"idle", 0>>]
  /\ UNCHANGED <<wvars, lvars, qvars, bvars, parked, gvars, flag, world, fvars, bounds, panic,
                 cnt, flags>>

-----------------------------------------------------------------------------
(* VM control thread: prepare_to_fork / shutdown / after_fork (mmtk.rs:269-338) *)

\* WorkerGroup::prepare_surrender_buffer (worker.rs:406) under the `state` mutex
VMPrepare(g) ==
  /\ Alive /\ vmpc = <<"idle", "">> /\ world = "running" /\ forkCount < MaxFork /\ g \in ExitKinds
  /\ IF creation # "Spawned" THEN Halt("prepare_surrender_not_spawned")     \* assert :408
     ELSE /\ creation' = "Surrendered" /\ vmpc' = <<"req", g>> /\ forkCount' = forkCount + 1
          /\ UNCHANGED <<wvars, lvars, qvars, bvars, parked, cvars, gvars, mvars, surr, spur,
                         budget, mutAdds, reqCount, finished, panic, cnt, flags>>

\* make_request(StopForFork | Shutdown) (scheduler.rs:100,108)
VMRequest(v) ==
  /\ Alive /\ vmpc[1] = "req" /\ world = "running"
  /\ LET g == vmpc[2] IN
     /\ requests' = requests \cup {g}
     /\ IF g \notin requests /\ Mutant # "NoNotifyMakeRequest" THEN NotifyOneTo(v)
        ELSE v = 0 /\ UNCHANGED cvars
     /\ vmpc' = <<"join", g>>
  /\ UNCHANGED <<wvars, lvars, qvars, bvars, parked, goal, mvars, creation, surr, bounds, panic,
                 cnt, flags>>

\* after_fork -> WorkerGroup::respawn (worker.rs:343) once every worker thread was joined (A7)
VMRespawn ==
  /\ Alive /\ vmpc = <<"join", "Fork">> /\ \A w \in Workers : pc[w] = "exited"
  /\ IF creation # "Surrendered" THEN Halt("respawn_not_surrendered")       \* worker.rs:346
     ELSE /\ creation' = "Spawned" /\ surr' = {} /\ vmpc' = <<"idle", "">>
          /\ pc' = [w \in Workers |-> "poll"]
          /\ UNCHANGED <<cur, todo, lvars, qvars, bvars, parked, cvars, gvars, mvars, bounds,
                         panic, cnt, flags>>

-----------------------------------------------------------------------------
(* Next: every disjunct is a named action with explicit parameters         *)

Heads(w) == {Head(s) : s \in Seqs(w)}
HeadsOf(w, t) == {o \in Heads(w) : o.t = t}
Batches(src, p) == {s \in SubBag(src (-) One(p)) : BagCardinality(s) <= BatchMax}
GoalOrNone == {"None", "Gc", "Shutdown", "Fork"}
V0 == Workers \cup {0}
Src(b, prio) == IF prio THEN pq[b] ELSE q[b]

\* The flat list (TLC reports coverage per named action; a trace specification calls the
\* same actions with the arguments taken from the logged event).
Next ==
  \/ \E w \in Workers : \E p \in BagToSet(des[w]) : TakeDesignated(w, p)
  \/ \E w \in Workers : \E p \in BagToSet(loc[w]) : TakeLocal(w, p)
  \/ \E w \in Workers, b \in Stage, prio \in BOOLEAN :
       \E p \in BagToSet(Src(b, prio)) : \E batch \in Batches(Src(b, prio), p) :
         TakeBucket(w, b, p, prio, batch)
  \/ \E w \in Workers, v \in Workers : \E p \in BagToSet(loc[v]) : Steal(w, v, p)
  \/ \E w \in Workers : PollEmpty(w)
  \/ \E w \in Workers : ParkWait(w)
  \/ \E w \in Workers, g \in GoalOrNone : LastParkedIdle(w, g)
  \/ \E w \in Workers, why \in {"designated", "sentinel", "opened"} : LastParkedFindMore(w, why)
  \/ \E w \in Workers, conc \in BOOLEAN, g \in GoalOrNone : LastParkedFinish(w, conc, g)
  \/ \E w \in Workers : LastParkedPanic(w)
  \/ \E w \in Workers, kind \in {"notified", "spurious"} : Wake(w, kind)
  \/ \E w \in Workers : \E o \in HeadsOf(w, "push")   : RunPush(w, o.b, o.c, o.x)
  \/ \E w \in Workers : \E o \in HeadsOf(w, "n1")     : \E v \in V0 : RunNotifyOne(w, o.b, v)
  \/ \E w \in Workers : \E o \in HeadsOf(w, "nall")   : RunNotifyAll(w, o.b)
  \/ \E w \in Workers : RunNotifyAllRaw(w)
  \/ \E w \in Workers : \E o \in HeadsOf(w, "chk")    :
       \E dest \in {"local", "queue"} : RunAddWork(w, o.b, o.c, dest)
  \/ \E w \in Workers : \E o \in HeadsOf(w, "desig")  : RunDesignated(w, o.b)
  \/ \E w \in Workers : \E o \in HeadsOf(w, "sent")   : RunSetSentinel(w, o.b, o.c)
  \/ \E w \in Workers : \E o \in HeadsOf(w, "enable") : RunSetEnabled(w, o.b, o.x)
  \/ \E w \in Workers : RunStopWorld(w)
  \/ \E w \in Workers : RunClearFlag(w)
  \/ \E w \in Workers : RunOpenFirst(w)
  \/ \E w \in Workers : RunEnd(w)
  \/ \E w \in Workers : Surrender(w)
  \/ \E w \in Workers : AllExited(w)
  \/ \E m \in Mutators : MutRequest(m)
  \/ \E m \in Mutators, v \in V0 : MutMakeRequest(m, v)
  \/ \E m \in Mutators, b \in MutAddStages : MutAddPush(m, b)
  \/ \E m \in Mutators, v \in V0 : MutAddNotify(m, v)
  \/ \E g \in ExitKinds : VMPrepare(g)
  \/ \E v \in V0 : VMRequest(v)
  \/ VMRespawn

\* The same actions grouped by thread, for the fairness conditions.
\* Everything a worker does on its own, i.e. all but the spurious wake-up:
WorkerAct(w) ==
  \/ \E p \in BagToSet(des[w]) : TakeDesignated(w, p)
  \/ \E p \in BagToSet(loc[w]) : TakeLocal(w, p)
  \/ \E b \in Stage, prio \in BOOLEAN :
       \E p \in BagToSet(Src(b, prio)) : \E batch \in Batches(Src(b, prio), p) :
         TakeBucket(w, b, p, prio, batch)
  \/ \E v \in Workers : \E p \in BagToSet(loc[v]) : Steal(w, v, p)
  \/ PollEmpty(w) \/ ParkWait(w)
  \/ \E g \in GoalOrNone : LastParkedIdle(w, g)
  \/ \E why \in {"designated", "sentinel", "opened"} : LastParkedFindMore(w, why)
  \/ \E conc \in BOOLEAN, g \in GoalOrNone : LastParkedFinish(w, conc, g)
  \/ LastParkedPanic(w)
  \/ Wake(w, "notified")
  \/ \E o \in HeadsOf(w, "push")   : RunPush(w, o.b, o.c, o.x)
  \/ \E o \in HeadsOf(w, "n1")     : \E v \in V0 : RunNotifyOne(w, o.b, v)
  \/ \E o \in HeadsOf(w, "nall")   : RunNotifyAll(w, o.b)
  \/ RunNotifyAllRaw(w)
  \/ \E o \in HeadsOf(w, "chk")    : \E dest \in {"local", "queue"} : RunAddWork(w, o.b, o.c, dest)
  \/ \E o \in HeadsOf(w, "desig")  : RunDesignated(w, o.b)
  \/ \E o \in HeadsOf(w, "sent")   : RunSetSentinel(w, o.b, o.c)
  \/ \E o \in HeadsOf(w, "enable") : RunSetEnabled(w, o.b, o.x)
  \/ RunStopWorld(w) \/ RunClearFlag(w) \/ RunOpenFirst(w) \/ RunEnd(w)
  \/ Surrender(w) \/ AllExited(w)
MutatorAct2(m) == \E v \in V0 : MutMakeRequest(m, v) \/ MutAddNotify(m, v)
VMAct2 == (\E v \in V0 : VMRequest(v)) \/ VMRespawn

Spec == Init /\ [][Next]_vars

\* Weak fairness of every thread's own steps; spurious wake-ups, new requests, mutator adds
\* and prepare_to_fork calls are not fair (they need not happen).
Fairness ==
  /\ \A w \in Workers : WF_vars(WorkerAct(w))
  /\ \A m \in Mutators : WF_vars(MutatorAct2(m))
  /\ WF_vars(VMAct2)
LiveSpec == Spec /\ Fairness

-----------------------------------------------------------------------------
(* Properties                                                              *)

PcSet == {"poll", "tolock", "wait", "run", "exiting", "lastexit", "exited"}
TypeOK ==
  /\ pc \in [Workers -> PcSet] /\ cur \in [Workers -> PktSet \cup {NoPkt}]
  /\ \A w \in Workers : /\ IsABag(loc[w]) /\ IsABag(des[w])
                        /\ \A i \in 1..Len(todo[w]) : todo[w][i].t \in OpKinds
  /\ parked \in 0..(N + 1) /\ waiters \subseteq Workers /\ signalled \subseteq Workers
  /\ goal \in GoalOrNone /\ requests \subseteq {"Gc", "Shutdown", "Fork"}
  /\ open \in [Stage -> BOOLEAN] /\ enabled \in [Stage -> BOOLEAN]
  /\ \A b \in Stage : IsABag(q[b]) /\ IsABag(pq[b]) /\ sentinel[b] \in PktSet \cup {NoPkt}
  /\ flag \in BOOLEAN /\ world \in {"running", "stopped"}
  /\ creation \in {"Spawned", "Surrendered"} /\ surr \subseteq Workers
  /\ spur \in 0..SpurBudget /\ budget \in 0..SpawnBudget /\ finished \in Nat

NoPanic == panic = "none"                                               \* A8

\* ---- C14 ----
\* parked_workers counts exactly the workers between inc (:138) and dec (:225)
ParkedCountOK == parked = Cardinality({w \in Workers : pc[w] = "wait"})
\* every waiting worker is either still blocked on the condvar or has been notified
CondvarOK == /\ waiters \cap signalled = {}
             /\ waiters \cup signalled \subseteq {w \in Workers : pc[w] = "wait"}
             /\ (Mutant = "none" => waiters \cup signalled = {w \in Workers : pc[w] = "wait"})
\* No worker stays parked while a runnable packet or a pending goal exists when all are
\* parked: a state in which every (live) worker waits, nobody has been notified and no
\* thread has a notification in its program order still to deliver must have nothing to do.
NotifyPending == \E m \in Mutators : mpc[m][1] = "add2"
Quiet == /\ \A w \in Workers : pc[w] \in {"wait", "exited"}
         /\ \E w \in Workers : pc[w] = "wait"
         /\ signalled = {} /\ ~NotifyPending
NoStuck == Quiet => (goal = "None" /\ requests = {} /\ ~Runnable)
\* weaker variant used by the concurrent-phase configuration (see README, finding F1): the
\* only thing that may be left is a packet a MUTATOR added to the open Concurrent bucket
NoStuckButMutatorAdds ==
  Quiet => /\ goal = "None" /\ requests = {}
           /\ \A w \in Workers : des[w] = EmptyBag /\ loc[w] = EmptyBag
           /\ \A b \in Stage \ {C} : ~Pollable(b)
\* request_flag is set only while a request is on its way or being served; otherwise the
\* next GCTrigger::request would be swallowed (gc_trigger.rs:83-87)
FlagProtocol == flag => \/ \E m \in Mutators : mpc[m][1] = "req2"
                        \/ "Gc" \in requests \/ goal = "Gc"
\* the on_last_parked callback only ever runs with every other worker waiting
LastParkedUnique == cbOK

\* ---- C15 ----
\* a sequential stage was only ever opened under OpenGuard (all parked, all earlier enabled
\* stages open and empty, no local/designated work pending)
StageOrderOK == openOK
\* open STW stages form a prefix of the enabled stages
OpenPrefix == \A s \in SeqStages : open[s] =>
                \A c \in FirstSTW..(s - 1) : enabled[c] => open[c]
\* at the end of a GC all STW buckets are closed (and were empty: endOK), and stay so
AllClosedAtGCEnd == goal # "Gc" => \A b \in STW : ~open[b]
\* every packet added is executed exactly once: nothing is lost or duplicated ...
PacketConservation == nAdded = nEnded + InFlight + Running /\ nStarted = nEnded + Running
\* ... and at the end of the GC nothing that was added during it is left over
PacketExactlyOnce == endOK
\* a packet only runs while its bucket is open (designated packets have no bucket)
RunOnlyOpen == \A w \in Workers : pc[w] = "run" /\ cur[w].b # 0 => open[cur[w].b]

\* ---- C13 (scheduler part) ----
SentinelAfterClosure == sentOK

\* ---- C11 (scheduler part) ----
\* STW packets run only between stop_all_mutators and resume_mutators
STWOnlyWhenStopped == \A w \in Workers : pc[w] = "run" /\ cur[w].b \in STW => world = "stopped"
\* resume happens with the goal cleared in the same step; mutators that requested are blocked
BlockedUntilEnd == \A m \in Mutators : mpc[m][1] = "blocked" => (flag \/ goal = "Gc" \/ "Gc" \in requests)
WorldStoppedOnlyInGC == world = "stopped" => goal = "Gc"

\* ---- C16 ----
SurrenderOK == /\ surr = {w \in Workers : pc[w] \in {"exited", "lastexit"}}
               /\ (creation = "Spawned" => surr = {})
ExitClean == \A w \in Workers : pc[w] \in {"exiting", "lastexit", "exited"}
                                  => loc[w] = EmptyBag /\ des[w] = EmptyBag /\ cur[w] = NoPkt
GoalPriority == prioOK
ExitOnlyOnExitGoal == \A w \in Workers : pc[w] \in {"exiting", "lastexit"} => goal \in ExitGoals
ParkedZeroWhenAllExited == (\A w \in Workers : pc[w] = "exited") => parked = 0 /\ waiters = {} /\ signalled = {}

\* ---- liveness (under LiveSpec) ----
Served   == \A k \in 1..MaxReq : (reqCount >= k) ~> (finished >= k)
AllWait  == \A w \in Workers : pc[w] = "wait"
AllGone  == \A w \in Workers : pc[w] = "exited"
\* once requests stop, the system settles with no goal and everybody parked (or, after a
\* final shutdown / an un-respawned fork, everybody exited)
Settles  == <>[](goal = "None" /\ requests = {} /\ (AllWait \/ AllGone))
\* every prepare_to_fork / shutdown leads to all workers having exited and surrendered ...
ForkServed == (vmpc[1] \in {"req", "join"}) ~> AllGone
\* ... and every fork to a respawn (after which Served covers the following GCs)
ForkRoundTrip == [](vmpc = <<"join", "Fork">> => <>(vmpc[1] = "idle"))

\* ---- vacuity witnesses: each must be VIOLATED (used as a throw-away INVARIANT) ----
WitnessSecondGC   == finished < 2
WitnessConcPhase  == ~(enabled[C] /\ goal = "None")
WitnessRearm      == \A b \in Stage : sentinel[b] # NoPkt => sentinel[b].d = MaxDepth
WitnessLostNotify == ~(\E w \in Workers : pc[w] = "tolock" /\ Runnable /\ waiters = {})
WitnessGcAfterRespawn == ~(forkCount > 0 /\ creation = "Spawned" /\ goal = "Gc")
=============================================================================
