\* quick: N = 2 workers, 2 GC requests, stages U, C, Prepare, Closure(sentinel), Release;
\* Prepare packet with designated work, generic spawn via worker.add_work / bucket.add,
\* one mutator adding a modbuf-like packet to the closed Closure stage, 1 spurious wake-up.
SPECIFICATION Spec
CONSTANTS
  N = 2
  NStages = 5
  Mutators = {1}
  MaxReq = 2
  MaxFork = 0
  ExitKinds = {}
  SpurBudget = 1
  SpawnBudget = 2
  MaxDepth = 1
  LocalCap = 1
  BatchMax = 0
  SchedAdds = {3, 5}
  SentinelStage = 4
  RootAdds = 1
  UseDesig = TRUE
  SpawnStages = {4, 5}
  GenHows = {"work", "add"}
  MutAddStages = {4}
  MutAddBudget = 1
  InitDisabled = {}
  SchedToggle = {}
  AtomicScan = TRUE
  FreePrograms = FALSE
  Mutant = "none"
INVARIANTS
  TypeOK NoPanic ParkedCountOK CondvarOK NoStuck LastParkedUnique FlagProtocol
  StageOrderOK OpenPrefix AllClosedAtGCEnd PacketConservation PacketExactlyOnce RunOnlyOpen
  SentinelAfterClosure
  STWOnlyWhenStopped BlockedUntilEnd WorldStoppedOnlyInGC
  SurrenderOK ExitClean GoalPriority ExitOnlyOnExitGoal ParkedZeroWhenAllExited
CHECK_DEADLOCK FALSE
