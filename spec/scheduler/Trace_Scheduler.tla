--------------------------- MODULE Trace_Scheduler ---------------------------
(***************************************************************************)
(* Validates a trace recorded from the REAL scheduler (hooks in            *)
(* /repo/src/scheduler/*.rs, util/heap/gc_trigger.rs, cfg(mmtk_verif);     *)
(* binding events from harness/shadowvm) against Scheduler.tla.            *)
(*                                                                         *)
(* How the binding works (and why it can never reject a correct run):      *)
(*                                                                         *)
(* 1. Everything protected by WorkerMonitor::sync is emitted while the     *)
(*    mutex is held, so the trace order of Park / LastParkedEnter /        *)
(*    LastParked / Unpark / MakeRequest / AllExited events IS the order of *)
(*    the critical sections.  These events are replayed through the        *)
(*    ACTIONS OF Scheduler.tla THEMSELVES (ParkWait, LastParkedIdle,       *)
(*    LastParkedFindMore, LastParkedFinish, Wake, Surrender, AllExited):   *)
(*    the logged results (parked count, chosen goal, ParkSelf/WakeSelf/    *)
(*    WakeAll, exit flag) must equal what the specification computes.      *)
(* 2. Lock-free bucket state cannot be tracked exactly from add-only hooks *)
(*    (steal_batch_and_pop moves unlogged batches; readers race with       *)
(*    writers).  Instead the last parked worker logs a SNAPSHOT            *)
(*    (LastParkedEnter: open / enabled / non-empty / sentinel stages,      *)
(*    workers with designated work, goal, requests) while every other      *)
(*    worker is blocked.  The snapshot is loaded into the specification's  *)
(*    q/sentinel variables (one representative packet per non-empty        *)
(*    stage), the specification's own open/enabled/goal/requests/des must  *)
(*    EQUAL the logged ones (state conformance at every all-parked point), *)
(*    and the callback's outcome is the one find_more_work / update_       *)
(*    buckets / respond_to_requests of the SPEC computes on that state;    *)
(*    the BucketOpen/Close/Enable sub-events of the callback must produce  *)
(*    exactly the specification's next open/enabled flags.                 *)
(* 3. Per-thread program order is exact (a thread emits its own events in  *)
(*    order).  Across threads an ENABLING event (push, open, notify) is    *)
(*    emitted before the operation and a DISABLING one (packet start,      *)
(*    close) after it, so an effect never precedes its cause in the trace. *)
(*    Packets are matched by (type, stage) multisets: every PacketStart    *)
(*    needs an earlier unmatched push of that type whose bucket is open    *)
(*    (C15), and at resume_mutators nothing may be left (C15/C11).         *)
(* 4. Notifications: which waiter wakes, and whether a wake-up is spurious *)
(*    is never asserted.  What is checked is the notifier's program order: *)
(*    make_request(newly) / a push into an open enabled bucket through     *)
(*    WorkBucket::add must be followed by that thread's Notify.            *)
(*                                                                         *)
(* Rejections are tagged (`ROW_REJECTED l=<n> tag=C14:...`) so that each   *)
(* check reports only its own property; after a rejection the replay       *)
(* resynchronises from the next LastParkedEnter snapshot (every stage      *)
(* transition and every GC end has one) and continues leniently until the  *)
(* end of that collection.                                                 *)
(***************************************************************************)
EXTENDS Scheduler, Integers, Json, IOUtils

Rec == ndJsonDeserialize(IOEnv.TRACE)

InitIdx == CHOOSE i \in 1..Len(Rec) : Rec[i].ev = "SchedInit"
TrN       == Rec[InitIdx].workers
TrNStages == Rec[InitIdx].nstages

VARIABLES l, tr
tvars == <<vars, l, tr>>

ToSet(s) == {s[i] : i \in DOMAIN s}
Flags(s) == [b \in Stage |-> b \in ToSet(s)]
NoSnap == [ev |-> "none"]
ForwardingPlans == {"MarkCompact", "Compressor"}
\* plans whose pauses do not all scan mutators / run the weak-reference sentinel
ConcPlans == {"ConcurrentImmix"}
\* WorkBucketStage::SecondRoots (mark-compact-style plans scan the roots a second time there)
SecondRoots == NStages - 6
VMRefStage == NStages - 8          \* WorkBucketStage::VMRefClosure
ScanPhase == IF open[SecondRoots] THEN 2 ELSE 1

Fail(tag) == PrintT("ROW_REJECTED l=" \o ToString(l) \o " tag=" \o tag)
G(tag, cond) == IF cond THEN TRUE ELSE Fail(tag) /\ FALSE

Get(f, k, d) == IF k \in DOMAIN f THEN f[k] ELSE d
Put(f, k, v) == [x \in DOMAIN f \cup {k} |-> IF x = k THEN v ELSE f[x]]
Bump(k) == [tr.stats EXCEPT ![k] = @ + 1]

\* ---- frames over the variables of Scheduler.tla -------------------------------------------
Others1 == <<cur, todo, lvars, qvars, bvars, parked, cvars, gvars, mvars, fvars, bounds, panic,
             cnt, flags>>
SetPc(np) == pc' = np /\ UNCHANGED Others1
Same == UNCHANGED vars

FailStep == Same /\ tr' = [tr EXCEPT !.failed = TRUE, !.stats = Bump("rejected")]
Skip == Same /\ tr' = tr

IsWorker(e) == e.th >= 0 /\ e.th < N
InCallback(e) == tr.cbw # 0 /\ e.th + 1 = tr.cbw /\ tr.snap.ev # "none"

\* ---- notifier program order (4.) ------------------------------------------------------------
\* while a last-parked callback is in progress the real flags are the shadow ones
EffOpen(b) == IF tr.snap.ev # "none" THEN tr.cbOpen[b] ELSE open[b]
EffEn(b)   == IF tr.snap.ev # "none" THEN tr.cbEn[b] ELSE enabled[b]
NotifyExpected(b) == b # FirstSTW /\ EffOpen(b) /\ EffEn(b)
OweOK(e) ==
  LET o == Get(tr.owe, e.th, "none") IN
  \/ o = "none"
  \/ e.ev = "Notify"
  \/ e.ev = "BucketPush" /\ e.site \in {"bulk_add", "bulk_end"}
  \/ e.ev = "Crash"

\* ---- packets (3.) ---------------------------------------------------------------------------
\* key = <<type, stage, origin>>, origin: "q" bucket queue, "l" local deque, "d" designated
PKey(t, s, o) == <<t, s, o>>
Cands(t) == {k \in BagToSet(tr.pend) : k[1] = t}
Startable(k) == \/ k[3] = "d"
                \/ k[3] = "l" /\ EffOpen(k[2])
                \/ k[3] = "q" /\ EffOpen(k[2]) /\ EffEn(k[2])
MinStage(S) == CHOOSE k \in S : \A k2 \in S : k[2] <= k2[2]

------------------------------------------------------------------------------
(* Handlers.  Each is IF <guards> THEN <effects> ELSE FailStep.            *)

DoBoot(e) == Same /\ tr' = [tr EXCEPT !.plan = e.plan]

DoPollEmpty(e) ==
  LET w == e.w + 1 IN
  IF G("C14:pollempty-while-not-polling", pc[w] = "poll")
  THEN SetPc([pc EXCEPT ![w] = "tolock"]) /\ tr' = tr
  ELSE FailStep

DoPark(e) ==
  LET w == e.w + 1 IN
  IF /\ G("C14:park-without-empty-poll", pc[w] = "tolock")
     /\ G("C14:parked-count", e.parked = parked + 1 /\ parked < N)
     /\ G("C14:last-parked-flag", e.all = (parked + 1 = N))
  THEN IF e.all
       THEN Same /\ tr' = [tr EXCEPT !.cbw = w]
       ELSE ParkWait(w) /\ tr' = [tr EXCEPT !.stats = Bump("parks")]
  ELSE FailStep

\* Load the snapshot; the specification's own state must agree with it.
SnapQ(e) == [b \in Stage |-> IF b \in ToSet(e.nonempty) THEN One(Pkt("Gen", b, 0)) ELSE EmptyBag]
SnapSent(e) == [b \in Stage |-> IF b \in ToSet(e.sent) THEN Pkt("Sent", b, 0) ELSE NoPkt]
DoSnapshot(e) ==
  LET w == e.w + 1 IN
  IF /\ G("C14:snapshot-without-park", tr.cbw = w /\ pc[w] = "tolock")
     /\ G("C14:last-parked-while-others-run", OthersWaiting(w))
     /\ G(IF goal \in ExitGoals \/ e.goal \in ExitGoals THEN "C16:goal-diverges"
          ELSE "C14:goal-diverges", goal = e.goal)
     /\ G("C14:requests-diverge", requests = ToSet(e.req))
     /\ G("C15:bucket-open-flags-diverge", open = Flags(e.open))
     /\ G("C15:bucket-enabled-flags-diverge", enabled = Flags(e.enabled))
     /\ G("C15:designated-work-diverges", tr.lenient \/
          {v \in Workers : des[v] # EmptyBag} = {x + 1 : x \in ToSet(e.desig)})
  THEN /\ q' = SnapQ(e) /\ pq' = [b \in Stage |-> EmptyBag] /\ sentinel' = SnapSent(e)
       \* after a resynchronisation the designated queues are re-read at every snapshot
       /\ des' = IF tr.lenient
                 THEN [v \in Workers |-> IF (v - 1) \in ToSet(e.desig) THEN One(DesPkt) ELSE EmptyBag]
                 ELSE des
       /\ UNCHANGED <<wvars, loc, bvars, parked, cvars, gvars, mvars, fvars, bounds, panic,
                      cnt, flags>>
       /\ tr' = [tr EXCEPT !.snap = e, !.cbOpen = open, !.cbEn = enabled, !.cbResumes = 0]
  ELSE FailStep

\* Re-synchronise from a snapshot after a rejection.
DoResync(e) ==
  LET w == e.w + 1
      stoppedNow == e.goal = "Gc" /\ FirstSTW \in ToSet(e.open)
  IN
  /\ pc' = [v \in Workers |-> IF v = w THEN "tolock" ELSE "wait"]
  /\ cur' = [v \in Workers |-> NoPkt] /\ todo' = [v \in Workers |-> <<>>]
  /\ loc' = [v \in Workers |-> EmptyBag]
  /\ des' = [v \in Workers |-> IF (v - 1) \in ToSet(e.desig) THEN One(DesPkt) ELSE EmptyBag]
  /\ parked' = N - 1 /\ waiters' = Workers \ {w} /\ signalled' = {}
  /\ goal' = e.goal /\ requests' = ToSet(e.req)
  /\ open' = Flags(e.open) /\ enabled' = Flags(e.enabled)
  /\ q' = SnapQ(e) /\ pq' = [b \in Stage |-> EmptyBag] /\ sentinel' = SnapSent(e)
  /\ flag' = (("Gc" \in ToSet(e.req)) \/ (e.goal = "Gc" /\ ~stoppedNow))
  /\ world' = IF stoppedNow THEN "stopped" ELSE "running"
  /\ creation' = "Spawned" /\ surr' = {}
  /\ UNCHANGED <<mpc, vmpc, bounds, panic, cnt, flags>>
  /\ tr' = [tr EXCEPT !.failed = FALSE, !.lenient = TRUE, !.snap = e, !.cbw = w,
                      !.cbOpen = Flags(e.open), !.cbEn = Flags(e.enabled), !.cbResumes = 0,
                      !.pend = EmptyBag, !.owe = << >>, !.skipU = {},
                      !.stopped = stoppedNow, !.stopping = FALSE,
                      !.stats = Bump("resyncs")]

ResultOf(g) == IF g = "None" THEN "ParkSelf" ELSE IF g = "Gc" THEN "WakeSelf" ELSE "WakeAll"

\* The callback returned: replay it with the actions of Scheduler.tla.
DoLastParked(e) ==
  LET w == e.w + 1
      s == tr.snap
      done(x) == [x EXCEPT !.snap = NoSnap, !.cbw = 0,
                           !.skipU = IF e.result = "ParkSelf" THEN @ ELSE @ \cup {w}]
  IN
  IF ~G("C14:last-parked-without-snapshot", tr.cbw = w /\ s.ev # "none") THEN FailStep
  ELSE IF s.goal = "None" THEN
    LET g == NextGoal(requests) IN
    IF /\ G(IF g \in ExitGoals \/ e.goal \in ExitGoals THEN "C16:goal-priority"
            ELSE "C14:goal-chosen", e.goal = g)
       /\ G(IF g \in ExitGoals THEN "C16:exit-goal-result" ELSE "C14:last-parked-result",
            e.result = ResultOf(g))
       /\ G("C14:requests-after-respond", ToSet(e.req) = requests \ {g})
       /\ G("C15:flags-changed-by-idle-callback", tr.cbOpen = open /\ tr.cbEn = enabled)
       \* NoStuck (C14): everybody is about to wait, so nothing may be runnable - unless a thread
       \* still owes the notification for a packet it has just pushed
       /\ G("C14:parked-with-runnable-packet",
            g = "None" => \/ \A b \in Stage : ~Pollable(b)
                          \/ \E t \in DOMAIN tr.owe : tr.owe[t] # "none")
    THEN /\ LastParkedIdle(w, g)
         /\ tr' = done([tr EXCEPT !.stats = Bump(IF g = "Gc" THEN "gc_starts" ELSE "idle_callbacks")])
    ELSE FailStep
  ELSE IF s.goal = "Gc" THEN
    IF ~G("C14:assertion-" \o LastParkedAssert, LastParkedAssert = "none") THEN FailStep
    ELSE IF GcMore # "none" THEN
      LET expOpen == IF GcMore = "opened" THEN Upd.open ELSE open
          \* C13: the VMProcessWeakRefs sentinel was scheduled on the drained VMRefClosure stage
          arm == IF GcMore = "sentinel" /\ VMRefStage \in SentStages THEN 1
                 ELSE IF GcMore = "opened" /\ Upd.how = "sentinel" /\ Upd.hit = VMRefStage THEN 1
                 ELSE 0
      IN
      IF /\ G("C15:found-more-work-result", e.result = "WakeAll" /\ e.goal = "Gc")
         /\ G("C15:opened-stages", tr.cbOpen = expOpen)
         /\ G("C15:enabled-changed-by-callback", tr.cbEn = enabled)
      THEN /\ LastParkedFindMore(w, GcMore)
           /\ tr' = done([tr EXCEPT !.armed = @ + arm, !.stats = Bump("found_more_" \o GcMore)])
      ELSE FailStep
    ELSE
      LET conc == ~QEmpty(C)
          g2 == IF conc THEN "None" ELSE NextGoal(requests)
          expOpen == [b \in Stage |-> IF b \in STW THEN FALSE ELSE IF b = C THEN conc ELSE open[b]]
          expEn == [enabled EXCEPT ![C] = conc]
      IN
      IF /\ G("C15:stw-bucket-not-empty-at-gc-end", \A b \in STW : QEmpty(b))
         /\ G("C15:designated-work-at-gc-end", ~HasDesig)
         /\ G("C11:resume-count", tr.cbResumes = 1)
         /\ G("C15:stw-buckets-not-closed-at-gc-end", tr.cbOpen = expOpen /\ tr.cbEn = expEn)
         /\ G(IF g2 \in ExitGoals \/ e.goal \in ExitGoals THEN "C16:goal-priority"
              ELSE "C14:goal-after-gc", e.goal = g2)
         /\ G("C14:gc-end-result", e.result = IF conc THEN "WakeAll" ELSE ResultOf(g2))
      THEN /\ LastParkedFinish(w, conc, g2)
           /\ tr' = done([tr EXCEPT !.stats = Bump("gc_ends")])
      ELSE FailStep
  ELSE IF G("C16:parked-again-when-asked-to-exit", FALSE) THEN Skip ELSE FailStep

DoUnpark(e) ==
  LET w == e.w + 1 IN
  IF w \in tr.skipU
  THEN IF /\ G("C14:parked-count", e.parked = parked)
          /\ G("C16:exit-flag", e.exit = (pc[w] = "exiting"))
       THEN Same /\ tr' = [tr EXCEPT !.skipU = @ \ {w}]
       ELSE FailStep
  ELSE IF /\ G("C14:unpark-while-not-waiting", pc[w] = "wait")
          /\ G("C14:parked-count", e.parked = parked - 1)
          /\ G("C16:exit-flag", e.exit = (goal \in ExitGoals))
          /\ G("C16:exit-with-designated-work", e.exit => des[w] = EmptyBag)
       THEN Wake(w, IF w \in signalled THEN "notified" ELSE "spurious")
            /\ tr' = [tr EXCEPT !.stats = Bump("wakes")]
       ELSE FailStep

DoMakeRequest(e) ==
  IF /\ G("C14:newly-requested-flag", e.newly = (e.goal \notin requests))
     /\ G("C14:gc-request-without-flag", e.goal = "Gc" => flag)
  THEN /\ requests' = requests \cup {e.goal}
       /\ UNCHANGED <<wvars, lvars, qvars, bvars, parked, cvars, goal, mvars, fvars, bounds,
                      panic, cnt, flags>>
       /\ tr' = [tr EXCEPT !.owe = IF e.newly THEN Put(@, e.th, "one") ELSE @,
                           !.stats = Bump("requests")]
  ELSE FailStep

DoNotify(e) == Same /\ tr' = [tr EXCEPT !.owe = Put(@, e.th, "none")]

DoRequestFlag(e) ==
  IF e.op = "swap"
  THEN IF G("C14:flag-swapped-while-set", ~flag)
       THEN /\ flag' = TRUE
            /\ UNCHANGED <<wvars, lvars, qvars, bvars, parked, cvars, gvars, world, mpc, fvars,
                           bounds, panic, cnt, flags>>
            /\ tr' = tr
       ELSE FailStep
  ELSE IF G("C14:flag-cleared-before-mutators-stopped", tr.stopped)
       THEN /\ flag' = (IF "now" \in DOMAIN e THEN e.now ELSE FALSE)
            /\ UNCHANGED <<wvars, lvars, qvars, bvars, parked, cvars, gvars, world, mpc, fvars,
                           bounds, panic, cnt, flags>>
            /\ tr' = tr
       ELSE FailStep

\* ---- buckets ------------------------------------------------------------------------------
DoBucketPush(e) ==
  IF e.site = "bulk_end"
  THEN Same /\ tr' = [tr EXCEPT !.owe = IF NotifyExpected(e.stage) /\ ~InCallback(e)
                                        THEN Put(@, e.th, "all") ELSE @]
  ELSE Same /\ tr' = [tr EXCEPT
         !.pend = @ (+) One(PKey(e.type, e.stage, "q")),
         !.owe = IF e.site \in {"add", "add_boxed", "add_prioritized"} /\ NotifyExpected(e.stage)
                 THEN Put(@, e.th, "one") ELSE @,
         !.stats = Bump("pushes")]

DoLocalPush(e) ==
  IF G("C15:local-push-for-closed-bucket", EffOpen(e.stage))
  THEN Same /\ tr' = [tr EXCEPT !.pend = @ (+) One(PKey(e.type, e.stage, "l")), !.stats = Bump("pushes")]
  ELSE FailStep

DoDesignatedPush(e) ==
  /\ des' = [des EXCEPT ![e.target + 1] = @ (+) One(DesPkt)]
  /\ UNCHANGED <<wvars, loc, qvars, bvars, parked, cvars, gvars, mvars, fvars, bounds, panic, cnt,
                 flags>>
  /\ tr' = [tr EXCEPT !.pend = @ (+) One(PKey(e.type, 0, "d")), !.stats = Bump("pushes")]

DoPacketStart(e) ==
  LET w == e.w + 1
      cs == Cands(e.type)
      ok == {k \in cs : Startable(k)}
  IN
  IF ~G("C15:packet-start-while-not-polling", pc[w] = "poll") THEN FailStep
  ELSE IF cs = {} THEN
    IF tr.lenient \/ G("C15:packet-started-but-never-added", FALSE)
    THEN SetPc([pc EXCEPT ![w] = "run"]) /\ tr' = tr
    ELSE FailStep
  ELSE IF ~G("C15:packet-started-from-closed-bucket", ok # {} \/ tr.lenient) THEN FailStep
  ELSE
    LET k == IF ok # {} THEN MinStage(ok) ELSE MinStage(cs) IN
    IF /\ G("C11:stw-packet-while-mutators-run", k[2] \in STW => tr.stopped \/ tr.lenient)
       /\ G("C15:designated-packet-not-pushed", k[3] = "d" => BagIn(DesPkt, des[w]) \/ tr.lenient)
    THEN /\ pc' = [pc EXCEPT ![w] = "run"]
         /\ des' = IF k[3] = "d" /\ BagIn(DesPkt, des[w]) THEN [des EXCEPT ![w] = @ (-) One(DesPkt)]
                   ELSE des
         /\ UNCHANGED <<cur, todo, loc, qvars, bvars, parked, cvars, gvars, mvars, fvars, bounds,
                        panic, cnt, flags>>
         /\ tr' = [tr EXCEPT !.pend = @ (-) One(k), !.stats = Bump("packets")]
    ELSE FailStep

DoPacketEnd(e) ==
  LET w == e.w + 1 IN
  IF G("C15:packet-end-without-start", pc[w] = "run")
  THEN SetPc([pc EXCEPT ![w] = "poll"]) /\ tr' = tr
  ELSE FailStep

DoBucketOpen(e) ==
  IF InCallback(e) THEN Same /\ tr' = [tr EXCEPT !.cbOpen[e.stage] = TRUE]
  ELSE IF /\ G("C15:bucket-opened-outside-last-parked-callback", e.stage = FirstSTW)
          /\ G("C11:first-stw-bucket-opened-before-mutators-stopped", tr.stopped)
          /\ G("C15:first-stw-bucket-opened-twice", ~open[FirstSTW])
       THEN /\ open' = [open EXCEPT ![FirstSTW] = TRUE]
            /\ UNCHANGED <<wvars, lvars, qvars, enabled, parked, cvars, gvars, mvars, fvars,
                           bounds, panic, cnt, flags>>
            /\ tr' = tr
       ELSE FailStep

DoBucketClose(e) ==
  IF InCallback(e) THEN Same /\ tr' = [tr EXCEPT !.cbOpen[e.stage] = FALSE]
  ELSE IF G("C15:bucket-closed-outside-last-parked-callback", FALSE) THEN Skip ELSE FailStep

DoBucketEnable(e) ==
  IF InCallback(e) THEN Same /\ tr' = [tr EXCEPT !.cbEn[e.stage] = e.value]
  ELSE /\ enabled' = [enabled EXCEPT ![e.stage] = e.value]
       /\ UNCHANGED <<wvars, lvars, qvars, open, parked, cvars, gvars, mvars, fvars, bounds,
                      panic, cnt, flags>>
       /\ tr' = tr

\* ---- C11: the stop-the-world bracket ----------------------------------------------------------
DoStopEnter(e) ==
  IF /\ G("C11:stop-outside-gc", goal = "Gc")
     /\ G("C11:stop-twice", ~tr.stopped /\ ~tr.stopping)
  THEN Same /\ tr' = [tr EXCEPT !.stopping = TRUE]
  ELSE FailStep

DoStopExit(e) ==
  IF G("C11:stop-exit-without-enter", tr.stopping)
  THEN /\ world' = "stopped"
       /\ UNCHANGED <<wvars, lvars, qvars, bvars, parked, cvars, gvars, flag, mpc, fvars, bounds,
                      panic, cnt, flags>>
       /\ tr' = [tr EXCEPT !.stopping = FALSE, !.stopped = TRUE, !.nmut = e.nmut,
                           !.scanned = {}, !.vmroots = {}, !.rounds = 0, !.more = FALSE,
                           !.armed = 0, !.fwd = 0, !.stats = Bump("pauses")]
  ELSE FailStep

DoScanMutator(e) ==
  IF /\ G("C11:mutator-scanned-while-running", tr.stopped)
     /\ G("C11:mutator-scanned-twice", <<e.m, ScanPhase>> \notin tr.scanned)
     /\ G("C11:second-root-scan-in-non-forwarding-plan",
          ScanPhase = 2 => tr.plan \in ForwardingPlans)
     /\ G("C11:roots-scanned-before-first-stw-stage-open", open[FirstSTW])
  THEN Same /\ tr' = [tr EXCEPT !.scanned = @ \cup {<<e.m, ScanPhase>>}]
  ELSE FailStep

DoScanVMRoots(e) ==
  IF /\ G("C11:vm-roots-scanned-while-running", tr.stopped)
     /\ G("C11:vm-roots-scanned-twice", ScanPhase \notin tr.vmroots)
  THEN Same /\ tr' = [tr EXCEPT !.vmroots = @ \cup {ScanPhase}]
  ELSE FailStep

DoFirstScanObject(e) ==
  IF G("C11:object-scanned-before-mutators-stopped", tr.stopped \/ tr.plan \in ConcPlans)
  THEN Skip ELSE FailStep

WeakEndOK ==
  /\ G("C13:process-weak-refs-asked-for-another-round-but-gc-ended", ~tr.more)
  /\ G("C13:process-weak-refs-never-called", tr.rounds >= 1 \/ tr.plan \in ConcPlans)
  /\ G("C13:forward-weak-refs-count",
       tr.fwd = IF tr.plan \in ForwardingPlans THEN 1 ELSE 0)

DoResume(e) ==
  IF /\ G("C11:resume-outside-gc-end", InCallback(e) /\ tr.snap.goal = "Gc")
     /\ G("C11:resume-without-stop", tr.stopped)
     /\ G("C11:resume-twice", tr.cbResumes = 0)
     /\ G("C14:request-flag-not-cleared-during-gc", ~flag \/ tr.lenient)
     /\ (tr.lenient \/
         /\ G("C11:mutator-scan-count",
              LET n1 == Cardinality({x \in tr.scanned : x[2] = 1})
                  n2 == Cardinality({x \in tr.scanned : x[2] = 2})
              IN  /\ n1 = tr.nmut \/ (tr.plan \in ConcPlans /\ n1 = 0)
                  /\ n2 = IF tr.plan \in ForwardingPlans THEN tr.nmut ELSE 0)
         /\ G("C15:packet-not-executed-by-gc-end", QEmpty(C) => tr.pend = EmptyBag)
         /\ WeakEndOK)
  THEN Same /\ tr' = [tr EXCEPT !.stopped = FALSE, !.cbResumes = 1, !.resumes = @ + 1,
                                !.lenient = FALSE]
  ELSE FailStep

DoBlockEnter(e) == Same /\ tr' = [tr EXCEPT !.blockAt = Put(@, e.m, tr.resumes)]
DoBlockExit(e) ==
  IF G("C11:requester-unblocked-before-gc-end", tr.resumes > Get(tr.blockAt, e.m, -1) \/ tr.lenient)
  THEN Same /\ tr' = tr ELSE FailStep

\* C13, "objects it traced survive with updated addresses": after a collection every entry of the
\* VM's weak table whose key survived refers, through its key and value references, to the objects
\* it was created with, and where a root still refers to the key object the table holds the same
\* (current) address as that root.
DoWeakTable(e) ==
  IF tr.failed THEN Skip
  ELSE IF G("C13:weak-table-entry-not-updated",
            \A i \in DOMAIN e.rows :
               LET r == e.rows[i] IN
               /\ r.kid = r.ekid /\ r.vid = r.evid
               /\ (r.root # <<0, 0>> => r.root = r.k))
       THEN Skip ELSE FailStep

\* ---- C13: VM weak-reference rounds -------------------------------------------------------------
DoWeakEnter(e) ==
  IF tr.lenient THEN Skip
  ELSE IF /\ G("C13:process-weak-refs-outside-pause", tr.stopped)
          /\ G("C13:process-weak-refs-without-drained-closure", tr.armed > 0)
          /\ G("C13:round-number", e.round = tr.rounds)
          /\ G("C13:extra-round-after-false", tr.rounds = 0 \/ tr.more)
          /\ G("C13:process-weak-refs-after-forwarding", tr.fwd = 0)
       THEN Same /\ tr' = [tr EXCEPT !.armed = @ - 1, !.more = FALSE]
       ELSE FailStep
DoWeakExit(e) == Same /\ tr' = [tr EXCEPT !.rounds = @ + 1, !.more = e.more,
                                         !.stats = Bump("weak_rounds")]
DoForwardWeak(e) ==
  IF tr.lenient THEN Skip
  ELSE IF /\ G("C13:forward-weak-refs-in-non-forwarding-plan", tr.plan \in ForwardingPlans)
          /\ G("C13:forward-weak-refs-outside-pause", tr.stopped)
          /\ G("C13:forward-weak-refs-twice", tr.fwd = 0)
          /\ G("C13:forward-weak-refs-before-closure-complete", tr.rounds >= 1 /\ ~tr.more)
       THEN Same /\ tr' = [tr EXCEPT !.fwd = 1]
       ELSE FailStep

\* ---- C16: exit / fork ----------------------------------------------------------------------------
DoPrepareSurrender(e) ==
  IF G("C16:prepare-surrender-while-not-spawned", creation = "Spawned")
  THEN /\ creation' = "Surrendered"
       /\ UNCHANGED <<wvars, lvars, qvars, bvars, parked, cvars, gvars, mvars, surr, vmpc, bounds,
                      panic, cnt, flags>>
       /\ tr' = tr
  ELSE FailStep

DoSurrender(e) ==
  LET w == e.w + 1 IN
  IF /\ G("C16:surrender-of-a-worker-not-asked-to-exit", pc[w] = "exiting")
     /\ G("C16:surrender-without-buffer", creation = "Surrendered")
     /\ G("C16:surrendered-twice", w \notin surr)
     /\ G("C16:surrender-count", e.count = Cardinality(surr) + 1)
     /\ G("C16:exit-with-pending-work", des[w] = EmptyBag /\ cur[w] = NoPkt)
  THEN Surrender(w) /\ tr' = [tr EXCEPT !.stats = Bump("surrenders")]
  ELSE FailStep

DoAllExited(e) ==
  LET w == e.th + 1 IN
  IF /\ G("C16:all-exited-by-non-last-worker", IsWorker(e) /\ pc[w] = "lastexit")
     /\ G("C16:all-exited-without-exit-goal", goal \in ExitGoals)
  THEN AllExited(w) /\ tr' = tr
  ELSE FailStep

DoRespawn(e) ==
  IF /\ G("C16:respawn-before-all-workers-exited", \A w \in Workers : pc[w] = "exited")
     /\ G("C16:respawn-lost-a-worker", e.n = N /\ surr = Workers)
     /\ G("C16:respawn-with-goal-pending", goal = "None")
     /\ G("C16:parked-count-after-exit", parked = 0)
  THEN /\ pc' = [w \in Workers |-> "poll"] /\ creation' = "Spawned" /\ surr' = {}
       /\ waiters' = {} /\ signalled' = {}
       /\ UNCHANGED <<cur, todo, lvars, qvars, bvars, parked, gvars, mvars, vmpc, bounds, panic,
                      cnt, flags>>
       /\ tr' = [tr EXCEPT !.stats = Bump("respawns")]
  ELSE FailStep

DoCrash(e) ==
  /\ Fail(IF "exitHang" \in DOMAIN e THEN "C16:workers-did-not-exit"
          ELSE IF "hang" \in DOMAIN e THEN "C14:hang" ELSE "crash")
  /\ FailStep

------------------------------------------------------------------------------
Step(e) ==
  IF tr.failed THEN
    (IF e.ev = "LastParkedEnter" THEN DoResync(e)
     ELSE IF e.ev = "Crash" THEN DoCrash(e) ELSE Skip)
  ELSE IF ~G("C14:missing-notify-after-" \o Get(tr.owe, e.th, "none"), OweOK(e)) THEN FailStep
  ELSE
  CASE e.ev = "Boot"            -> DoBoot(e)
    [] e.ev = "PollEmpty"       -> DoPollEmpty(e)
    [] e.ev = "Park"            -> DoPark(e)
    [] e.ev = "LastParkedEnter" -> DoSnapshot(e)
    [] e.ev = "LastParked"      -> DoLastParked(e)
    [] e.ev = "Unpark"          -> DoUnpark(e)
    [] e.ev = "MakeRequest"     -> DoMakeRequest(e)
    [] e.ev = "Notify"          -> DoNotify(e)
    [] e.ev = "RequestFlag"     -> DoRequestFlag(e)
    [] e.ev = "BucketPush"      -> DoBucketPush(e)
    [] e.ev = "LocalPush"       -> DoLocalPush(e)
    [] e.ev = "DesignatedPush"  -> DoDesignatedPush(e)
    [] e.ev = "PacketStart"     -> DoPacketStart(e)
    [] e.ev = "PacketEnd"       -> DoPacketEnd(e)
    [] e.ev = "BucketOpen"      -> DoBucketOpen(e)
    [] e.ev = "BucketClose"     -> DoBucketClose(e)
    [] e.ev = "BucketEnable"    -> DoBucketEnable(e)
    [] e.ev = "StopEnter"       -> DoStopEnter(e)
    [] e.ev = "StopExit"        -> DoStopExit(e)
    [] e.ev = "ScanMutator"     -> DoScanMutator(e)
    [] e.ev = "ScanVMRoots"     -> DoScanVMRoots(e)
    [] e.ev = "FirstScanObject" -> DoFirstScanObject(e)
    [] e.ev = "Resume"          -> DoResume(e)
    [] e.ev = "BlockEnter"      -> DoBlockEnter(e)
    [] e.ev = "BlockExit"       -> DoBlockExit(e)
    [] e.ev = "ProcessWeakRefsEnter" -> DoWeakEnter(e)
    [] e.ev = "ProcessWeakRefsExit"  -> DoWeakExit(e)
    [] e.ev = "ForwardWeakRefs" -> DoForwardWeak(e)
    [] e.ev = "WeakTable"       -> DoWeakTable(e)
    [] e.ev = "PrepareSurrender" -> DoPrepareSurrender(e)
    [] e.ev = "Surrender"       -> DoSurrender(e)
    [] e.ev = "AllExited"       -> DoAllExited(e)
    [] e.ev = "Respawn"         -> DoRespawn(e)
    [] e.ev = "Crash"           -> DoCrash(e)
    [] OTHER                    -> Skip

StatKeys == {"parks", "wakes", "requests", "gc_starts", "gc_ends", "idle_callbacks",
             "found_more_designated", "found_more_sentinel", "found_more_opened", "pushes",
             "packets", "pauses", "weak_rounds", "surrenders", "respawns", "rejected", "resyncs"}

TInit ==
  /\ Init
  /\ l = 1
  /\ tr = [snap |-> NoSnap, cbw |-> 0, cbOpen |-> [b \in Stage |-> FALSE],
           cbEn |-> [b \in Stage |-> FALSE], cbResumes |-> 0,
           pend |-> EmptyBag, owe |-> << >>, skipU |-> {},
           stopped |-> FALSE, stopping |-> FALSE, nmut |-> 0, scanned |-> {}, vmroots |-> {},
           resumes |-> 0, blockAt |-> << >>,
           rounds |-> 0, more |-> FALSE, armed |-> 0, fwd |-> 0,
           failed |-> FALSE, lenient |-> FALSE, plan |-> "?",
           stats |-> [k \in StatKeys |-> 0]]

TNext == /\ l <= Len(Rec)
         /\ l' = l + 1
         /\ Step(Rec[l])

TraceSpec == TInit /\ [][TNext]_tvars

Accepted ==
  LET d == TLCGet("stats").diameter
  IN  IF d = Len(Rec) + 1 THEN TRUE
      ELSE /\ PrintT("TRACE_REJECTED matched=" \o ToString(d - 1) \o " of=" \o ToString(Len(Rec))
                     \o " next=" \o (IF d <= Len(Rec) THEN Rec[d].ev ELSE "?"))
           /\ FALSE
StatsPrinted == l = Len(Rec) + 1 => PrintT("SCHED_STATS " \o ToString(tr.stats))
==============================================================================
