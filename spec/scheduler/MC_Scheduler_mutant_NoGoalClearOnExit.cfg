\* MUTANT NoGoalClearOnExit: on_all_workers_exited does not clear the goal (worker_monitor.rs:247).
\* TLC must REJECT this configuration (expected: NoPanic).
SPECIFICATION Spec
CONSTANTS
  N = 2
  NStages = 4
  Mutators = {1}
  MaxReq = 1
  MaxFork = 2
  ExitKinds = {"Fork", "Shutdown"}
  SpurBudget = 1
  SpawnBudget = 1
  MaxDepth = 1
  LocalCap = 1
  BatchMax = 0
  SchedAdds = {3}
  SentinelStage = 0
  RootAdds = 1
  UseDesig = FALSE
  SpawnStages = {4}
  GenHows = {"work"}
  MutAddStages = {}
  MutAddBudget = 0
  InitDisabled = {}
  SchedToggle = {}
  AtomicScan = TRUE
  FreePrograms = FALSE
  Mutant = "NoGoalClearOnExit"
INVARIANTS
  TypeOK NoPanic ParkedCountOK CondvarOK NoStuck LastParkedUnique FlagProtocol
  StageOrderOK OpenPrefix AllClosedAtGCEnd PacketConservation PacketExactlyOnce RunOnlyOpen
  SentinelAfterClosure
  STWOnlyWhenStopped BlockedUntilEnd WorldStoppedOnlyInGC
  SurrenderOK ExitClean GoalPriority ExitOnlyOnExitGoal ParkedZeroWhenAllExited
CHECK_DEADLOCK FALSE
