#!/bin/sh
# Runs TLC on every configuration of this directory (or those given as arguments) one after the
# other: at most 4 TLC workers, -Xmx6g, each run wrapped in `timeout`.  Prints one line per
# configuration: name, verdict (pass / the violated property), distinct states, generated states,
# depth, wall seconds.  Scratch goes to /verif/work/scheduler.
cd "$(dirname "$0")"
W=/verif/work/scheduler; mkdir -p $W/md
export JAVA_TOOL_OPTIONS="-Xmx6g"
[ $# -eq 0 ] && set -- MC_Scheduler_small.cfg MC_Scheduler_fork.cfg MC_Scheduler_conc.cfg \
  MC_Scheduler_conc_mutadd.cfg MC_Scheduler_conc_finding.cfg MC_Scheduler_live.cfg \
  MC_Scheduler_fork_live.cfg MC_Scheduler_mutant_*.cfg MC_Scheduler_equiv_*.cfg MC_Scheduler.cfg
for cfg in "$@"; do
  n=${cfg%.cfg}
  t0=$(date +%s)
  timeout ${TLC_TIMEOUT:-2400} tlc -workers 4 -noGenerateSpecTE ${TLC_EXTRA} -metadir $W/md/$n -config $cfg Scheduler.tla > $W/$n.out 2>&1
  rc=$?
  t1=$(date +%s)
  v=$(grep -oE "Invariant [A-Za-z]+ is violated|Temporal properties were violated|Error: .*" $W/$n.out | head -1)
  [ -z "$v" ] && grep -q "No error has been found" $W/$n.out && v=pass
  [ -z "$v" ] && v="rc=$rc"
  st=$(grep -oE "[0-9]+ states generated, [0-9]+ distinct states found" $W/$n.out | tail -1)
  dp=$(grep -oE "depth of the complete state graph search is [0-9]+" $W/$n.out | grep -oE "[0-9]+$")
  echo "$n | $v | $st | depth ${dp:-?} | $((t1-t0)) s"
  rm -rf $W/md/$n
done
