SPECIFICATION Spec
VIEW View
CONSTANTS
  UPP = 4
  MaxPages = 12
  PPBs = {1, 2, 3, 16}
  HeadsSet = {1, 2}
  Slacks = {0}
  Variant = "literal"
  OnlyAligned = FALSE
INVARIANTS
  NoCrash
  WithinLimit
  TableMapped
  WithinMax
  GrowthPossible
PROPERTIES
  SucceedsUntilMax
  RefinesReq
CHECK_DEADLOCK FALSE
