SPECIFICATION Spec
CONSTANTS
  Kind = "ia"
  Units = 6
  Grain = 2
  Heads = 2
  UncoCand = {}
  GrowSteps = {}
  InitUnco = TRUE
  UPP = 4
  PPB = 1

INVARIANTS
  InvWellFormed
  InvClient
  InvSeams
  InvFreeAllRestores
  InvFreeAllExact
  InvGrowth
PROPERTIES
  PropAllocFailsOnlyWhenNoFit
  PropNeverAcrossUnco
  PropGrowSucceedsUntilMax
  PropGrownUnitsUsable
CHECK_DEADLOCK FALSE
