SPECIFICATION TraceSpec
CONSTANTS
  Kind = "ia"
  Units = 1
  Grain = 1
  Heads = 1
  UncoCand = {}
  GrowSteps = {}
  InitUnco = FALSE
  UPP = 512
  PPB = 1
POSTCONDITION Accepted
CHECK_DEADLOCK FALSE
