SPECIFICATION Spec
VIEW View
CONSTANTS
  UPP = 4
  MaxPages = 40
  PPBs = {1, 2, 4, 5}
  HeadsSet = {1, 2}
  Slacks = {0}
  Variant = "literal"
  OnlyAligned = TRUE
INVARIANTS
  NoCrash
  WithinLimit
  TableMapped
  WithinMax
  GrowthPossible
PROPERTIES
  SucceedsUntilMax
  RefinesReq
CHECK_DEADLOCK FALSE
