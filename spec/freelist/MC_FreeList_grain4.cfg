SPECIFICATION Spec
CONSTANTS
  Kind = "ia"
  Units = 8
  Grain = 4
  Heads = 1
  UncoCand = {4}
  GrowSteps = {}
  InitUnco = FALSE
  UPP = 4
  PPB = 1

INVARIANTS
  InvWellFormed
  InvClient
  InvSeams
  InvFreeAllRestores
  InvFreeAllExact
  InvGrowth
PROPERTIES
  PropAllocFailsOnlyWhenNoFit
  PropNeverAcrossUnco
  PropGrowSucceedsUntilMax
  PropGrownUnitsUsable
CHECK_DEADLOCK FALSE
