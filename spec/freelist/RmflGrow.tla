--------------------------------- MODULE RmflGrow ---------------------------------
(* C27. Page/block arithmetic of RawMemoryFreeList growth (src/util/raw_memory_freelist.rs:          *)
(* new / grow_freelist / current_capacity / grow_list_by_blocks / raise_high_water), for every       *)
(* table size, block size and head count of a grid and every sequence of growth steps.               *)
(*                                                                                                   *)
(* The table occupies [base, limit): `heads` top sentinels, the units, one bottom sentinel, 8 bytes  *)
(* each, i.e. UPP units per page (512 in the real code; a small number in the model -- the           *)
(* arithmetic is linear in UPP, "symbolic-size instances" of DESIGN.md C27). All quantities are in   *)
(* pages (tp = limit - base, hw = high_water - base) and units (cur, maxU).                          *)
(* Map64::create_parent_freelist configures limit = base + size_in_pages(maxU, heads), i.e.          *)
(* tp = PagesFor(maxU + heads + 1); Slack allows a larger limit (`new` only asserts >=).             *)
(*                                                                                                   *)
(* Three variants of the growth step:                                                                *)
(*   "req"      the requirement of C27 itself: a growth within maxU succeeds, maps at most up to the *)
(*              limit, and afterwards the table memory of all units is mapped;                       *)
(*   "literal"  the arithmetic of the code under test, line by line (crash = a panic/assertion);     *)
(*   "repaired" the same with the two suggested repairs (clamp to limit - high_water; capacity       *)
(*              computed from the mapped bytes instead of whole blocks).                             *)
(* MC_RmflGrow.cfg checks "req" and "repaired" on the whole grid, MC_RmflGrow_literal_aligned.cfg    *)
(* shows that "literal" is correct when tp is a multiple of the block size, and                      *)
(* MC_RmflGrow_mutant_literal.cfg shows that it is not otherwise (suspected defect 2 of DESIGN 9).   *)
EXTENDS Integers, TLC

CONSTANTS UPP,          \* units per page
          MaxPages,     \* table pages 1..MaxPages
          PPBs,         \* pages per block tried
          HeadsSet,     \* head counts tried
          Slacks,       \* extra pages between the table end and the limit
          Variant,      \* "req" | "literal" | "repaired"
          OnlyAligned   \* TRUE: only instances whose limit is a whole number of blocks

VARIABLES tp, ppb, heads, maxU, cur, hw, crashed, lastOk, lastK
vars == <<tp, ppb, heads, maxU, cur, hw, crashed, lastOk, lastK>>

PagesFor(entries) == (entries + UPP - 1) \div UPP

Init ==
    /\ ppb \in PPBs
    /\ heads \in HeadsSet
    /\ \E pages \in 1..MaxPages, sl \in Slacks :
         /\ tp = pages + sl
         /\ LET ms == {m \in 1..(pages * UPP) : PagesFor(m + heads + 1) = pages}
            IN  \* the smallest and the largest unit count whose table has this many pages
                maxU \in {m \in ms : (\A x \in ms : m <= x) \/ (\A x \in ms : m >= x)}
    /\ OnlyAligned => tp % ppb = 0
    /\ cur = 0 /\ hw = 0 /\ crashed = FALSE /\ lastOk = TRUE /\ lastK = 0

\* ---- the requirement -----------------------------------------------------------------------------
\* units whose table entries fit into h mapped pages
CapOfPages(h) == h * UPP - heads - 1
ReqStep(k) ==
    IF cur + k > maxU
    THEN /\ lastOk' = FALSE /\ UNCHANGED <<cur, hw, crashed>>
    ELSE /\ lastOk' = TRUE
         /\ cur' = cur + k
         /\ \E h2 \in hw..tp : /\ CapOfPages(h2) >= cur + k
                                \* (model: the least or the largest admissible page count)
                                /\ (h2 = tp \/ h2 = hw \/ CapOfPages(h2 - 1) < cur + k)
                                /\ hw' = h2
         /\ UNCHANGED crashed

\* ---- the code under test, literally ---------------------------------------------------------------
UPB == ppb * UPP                              \* units_per_block
FirstBlock == UPB - heads - 1                 \* units_in_first_block
CapLiteral(h) == FirstBlock + ((h \div ppb) - 1) * UPB      \* current_capacity: whole blocks only
Crash == /\ crashed' = TRUE /\ UNCHANGED <<cur, hw>> /\ lastOk' = FALSE
LiteralStep(k) ==
    LET req == cur + k
        cap == CapLiteral(hw)
        blocks == IF req > cap THEN ((req - cap) + UPB - 1) \div UPB ELSE 0
        ext0 == ppb * blocks
    IN  IF req > maxU THEN /\ lastOk' = FALSE /\ UNCHANGED <<cur, hw, crashed>>
        ELSE IF blocks > 0 /\ hw = tp THEN Crash          \* "Attempt to grow FreeList beyond limit"
        ELSE LET ext == IF blocks > 0 /\ hw + ext0 > tp
                        THEN hw - tp                      \* raise_high_water: sign inverted
                        ELSE ext0
                 hw2 == hw + ext
             IN  IF ext < 0 THEN Crash                    \* usize underflow / mmap of 2^64-x bytes
                 ELSE IF req > CapLiteral(hw2) THEN Crash \* "blocks and new max are inconsistent"
                 ELSE /\ hw' = hw2 /\ cur' = req /\ lastOk' = TRUE /\ UNCHANGED crashed

\* ---- the suggested repair -------------------------------------------------------------------------
RepairedStep(k) ==
    LET req == cur + k
        cap == CapOfPages(hw)                             \* capacity from the mapped bytes
        blocks == IF req > cap THEN ((req - cap) + UPB - 1) \div UPB ELSE 0
        ext0 == ppb * blocks
    IN  IF req > maxU THEN /\ lastOk' = FALSE /\ UNCHANGED <<cur, hw, crashed>>
        ELSE IF blocks > 0 /\ hw = tp THEN Crash
        ELSE LET ext == IF blocks > 0 /\ hw + ext0 > tp THEN tp - hw ELSE ext0
                 hw2 == hw + ext
             IN  IF req > CapOfPages(hw2) THEN Crash
                 ELSE /\ hw' = hw2 /\ cur' = req /\ lastOk' = TRUE /\ UNCHANGED crashed

Grow(k) == /\ ~crashed
           /\ k <= maxU - cur + 1
           /\ CASE Variant = "req" -> ReqStep(k)
                [] Variant = "literal" -> LiteralStep(k)
                [] Variant = "repaired" -> RepairedStep(k)
           /\ lastK' = k
           /\ UNCHANGED <<tp, ppb, heads, maxU>>

\* all growth steps, including one that exceeds the maximum
Next == \E k \in 0..(MaxPages * UPP + 1) : Grow(k)
Spec == Init /\ [][Next]_vars
\* lastOk/lastK only record the last call for the action properties; no action reads them
View == <<tp, ppb, heads, maxU, cur, hw, crashed>>

\* ---- C27 ------------------------------------------------------------------------------------------
NoCrash == ~crashed
WithinLimit == hw <= tp
TableMapped == cur > 0 => cur + heads + 1 <= hw * UPP
WithinMax == cur <= maxU
\* a growth within the maximum is always possible (so repeated calls reach maxU) ...
GrowthPossible == \A k \in 0..(maxU - cur) : \E h2 \in hw..tp : CapOfPages(h2) >= cur + k
\* ... and succeeds exactly when it stays within the maximum
SucceedsUntilMax ==
    [][~crashed' => /\ lastOk' = (cur + lastK' <= maxU)
                    /\ cur' = IF lastOk' THEN cur + lastK' ELSE cur]_vars
\* every step of the implementation variants is a step allowed by the requirement
RefinesReq ==
    [][/\ cur' >= cur /\ hw' >= hw /\ hw' <= tp
       /\ (cur' > 0 /\ ~crashed') => CapOfPages(hw') >= cur']_vars
=====================================================================================
