SPECIFICATION Spec
CONSTANTS
  Kind = "ia"
  Units = 4
  Grain = 2
  Heads = 1
  UncoCand = {2, 3}
  GrowSteps = {}
  InitUnco = FALSE
  UPP = 4
  PPB = 1

INVARIANTS
  InvWellFormed
  InvClient
  InvSeams
  InvFreeAllRestores
  InvFreeAllExact
  InvGrowth
PROPERTIES
  PropAllocFailsOnlyWhenNoFit
  PropNeverAcrossUnco
  PropGrowSucceedsUntilMax
  PropGrownUnitsUsable
CHECK_DEADLOCK FALSE
