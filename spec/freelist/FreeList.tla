--------------------------------- MODULE FreeList ---------------------------------
(* C26 / C27. The generic free list of mmtk-core (`FreeList` trait in src/util/freelist.rs, with     *)
(* the implementations IntArrayFreeList -- including `from_parent` children that share the parent's  *)
(* table through their own head -- and RawMemoryFreeList, which grows).                              *)
(*                                                                                                   *)
(* Abstract state of one table (a record `s`):                                                       *)
(*   cur  : number of units currently covered (IntArrayFreeList: fixed; RawMemoryFreeList: grows)    *)
(*   hw   : pages of table memory mapped so far (RawMemoryFreeList; 0 otherwise)                     *)
(*   runs : sequence of <<start, size, owner>>, sorted by start, partitioning 0..cur-1;              *)
(*          owner 0 = allocated, owner h >= 1 = free and linked on the list of head h                *)
(*          (head h is the sentinel -h of the real table; the parent list uses head 1)               *)
(*   U    : units carrying the "uncoalescable" mark (a boundary that free() never merges across)     *)
(*   G    : history variable: units at which two free runs may meet across a coalescable boundary    *)
(*          without this being a missed coalescing: the boundaries of the initial grain-sized runs,  *)
(*          the boundaries created by growth, and every unit that was ever marked uncoalescable.     *)
(*                                                                                                   *)
(* One operator per API call of the real code. Which free run `alloc` picks (first fit in list       *)
(* order) is deliberately NOT specified: any free run of the head's list that is large enough.       *)
(* Deviation stated: list order inside a head's list is not modelled (only membership).              *)
(*                                                                                                   *)
(* Preconditions of the API (generator constraints, DESIGN section 7.5):                             *)
(*   - alloc sizes are >= 1; free(u) is called on the start of an allocated run;                     *)
(*   - alloc_from_unit(n, u) is called on the start of a run;                                        *)
(*   - child lists: a call through head h never has to unlink a run from another head's list         *)
(*     (FreePre / AllocFromPre) -- the page resources guarantee it by separating the regions of      *)
(*     different heads with uncoalescable boundaries;                                                *)
(*   - grow_freelist(k): the new size is <= grain or a multiple of grain (the code's debug_assert).  *)
EXTENDS Integers, Sequences, FiniteSets, TLC

FAILURE == -1

NRuns(s) == Len(s.runs)
Starts(s) == {s.runs[i][1] : i \in 1..NRuns(s)}
IsStart(s, u) == \E i \in 1..NRuns(s) : s.runs[i][1] = u
Idx(s, u) == CHOOSE i \in 1..NRuns(s) : s.runs[i][1] = u

\* replace items i..j of seq by the sequence new
Replace(seq, i, j, new) == SubSeq(seq, 1, i - 1) \o new \o SubSeq(seq, j + 1, Len(seq))

\* ---- the runs partition the list (first part of C26: disjoint and inside the list) -------------
WellFormed(s, heads) ==
    /\ s.cur >= 0
    /\ (s.cur = 0) = (NRuns(s) = 0)
    /\ NRuns(s) > 0 => s.runs[1][1] = 0
    /\ \A i \in 1..NRuns(s) :
         /\ s.runs[i][2] >= 1
         /\ s.runs[i][3] \in 0..heads
         /\ s.runs[i][1] + s.runs[i][2] = (IF i < NRuns(s) THEN s.runs[i + 1][1] ELSE s.cur)
    /\ s.U \subseteq 0..s.cur

\* two free runs meeting at a coalescable boundary
Seams(s) == {s.runs[i][1] : i \in {j \in 2..NRuns(s) :
                 s.runs[j - 1][3] # 0 /\ s.runs[j][3] # 0 /\ s.runs[j][1] \notin s.U}}
AllFree(s) == \A i \in 1..NRuns(s) : s.runs[i][3] # 0

\* ---- initial state (FreeList::initialize_heap): grain-sized runs from unit 0, remainder last ----
InitRuns(units, g) ==
    LET n == units \div g
        rem == units % g
    IN  [j \in 1..n |-> <<(j - 1) * g, g, 1>>] \o
        (IF rem > 0 THEN << <<units - rem, rem, 1>> >> ELSE << >>)
InitState(units, g) ==
    LET rs == InitRuns(units, g)
    IN  [cur |-> units, hw |-> 0, runs |-> rs, U |-> {}, G |-> {rs[i][1] : i \in 1..Len(rs)}]
EmptyState == [cur |-> 0, hw |-> 0, runs |-> << >>, U |-> {}, G |-> {}]

\* ---- alloc(n) through head h -------------------------------------------------------------------
FitIdx(s, h, n) == {i \in 1..NRuns(s) : s.runs[i][3] = h /\ s.runs[i][2] >= n}
\* take the first n units of the free run at index i; the remainder stays free on h's list
TakeAt(s, h, n, i) ==
    LET r == s.runs[i]
    IN  [s EXCEPT !.runs = Replace(@, i, i,
            IF r[2] = n THEN << <<r[1], n, 0>> >>
            ELSE << <<r[1], n, 0>>, <<r[1] + n, r[2] - n, h>> >>)]
\* is `res` an allowed result of alloc(n) through head h in state s ?
AllocResOK(s, h, n, res) ==
    IF FitIdx(s, h, n) = {} THEN res = FAILURE
    ELSE IsStart(s, res) /\ Idx(s, res) \in FitIdx(s, h, n)
AllocSucc(s, h, n, res) == IF res = FAILURE THEN s ELSE TakeAt(s, h, n, Idx(s, res))

\* ---- alloc_from_unit(n, u) through head h ------------------------------------------------------
AllocFromPre(s, h, u) == IsStart(s, u) /\ s.runs[Idx(s, u)][3] \in {0, h}
AllocFromFits(s, n, u) == s.runs[Idx(s, u)][3] # 0 /\ s.runs[Idx(s, u)][2] >= n
AllocFromResOK(s, h, n, u, res) == res = (IF AllocFromFits(s, n, u) THEN u ELSE FAILURE)
AllocFromSucc(s, h, n, u) == IF AllocFromFits(s, n, u) THEN TakeAt(s, h, n, Idx(s, u)) ELSE s

\* ---- free(u, return_coalesced_size) through head h ---------------------------------------------
MergesLeft(s, i) == i > 1 /\ s.runs[i][1] \notin s.U /\ s.runs[i - 1][3] # 0
MergesRight(s, i) == i < NRuns(s) /\ s.runs[i + 1][1] \notin s.U /\ s.runs[i + 1][3] # 0
FreePre(s, h, u) ==
    /\ IsStart(s, u)
    /\ LET i == Idx(s, u)
       IN  /\ s.runs[i][3] = 0
           /\ MergesLeft(s, i) => s.runs[i - 1][3] = h
           /\ MergesRight(s, i) => s.runs[i + 1][3] = h
FreeLo(s, i) == IF MergesLeft(s, i) THEN i - 1 ELSE i
FreeHi(s, i) == IF MergesRight(s, i) THEN i + 1 ELSE i
MergedSize(s, i) == (s.runs[FreeHi(s, i)][1] + s.runs[FreeHi(s, i)][2]) - s.runs[FreeLo(s, i)][1]
FreeAt(s, h, i) ==
    [s EXCEPT !.runs = Replace(@, FreeLo(s, i), FreeHi(s, i),
                               << <<s.runs[FreeLo(s, i)][1], MergedSize(s, i), h>> >>)]
FreeResOK(s, u, rcs, res) ==
    res = (IF rcs THEN MergedSize(s, Idx(s, u)) ELSE s.runs[Idx(s, u)][2])
FreeSucc(s, h, u) == FreeAt(s, h, Idx(s, u))

\* ---- size(u), set_uncoalescable(u), clear_uncoalescable(u) -------------------------------------
SizeResOK(s, u, res) == IsStart(s, u) /\ res = s.runs[Idx(s, u)][2]
SetUncoSucc(s, u) == [s EXCEPT !.U = @ \cup {u}, !.G = @ \cup {u}]
ClearUncoSucc(s, u) == [s EXCEPT !.U = @ \ {u}]

\* ---- growth (RawMemoryFreeList::grow_freelist), C27 ---------------------------------------------
\* Table memory: 8 bytes per unit; `heads` top sentinels, the units, one bottom sentinel.
\* upp = units per page (512 in the real code: 4096-byte pages).
PagesFor(entries, upp) == (entries + upp - 1) \div upp
GrowPre(s, k, g) == k >= 0 /\ (s.cur + k <= g \/ (s.cur + k) % g = 0)
GrowSucceeds(s, k, max) == s.cur + k <= max
\* what C27 requires of a successful growth to `post` (hw2 = mapped pages afterwards):
\*  never beyond the limit (tp pages), the table memory of all cur+k units is mapped,
\*  the old runs are untouched and every new unit lies in a free run of head 1's list.
GrowPostOK(s, k, heads, tp, upp, post) ==
    /\ post.cur = s.cur + k
    /\ post.hw >= s.hw /\ post.hw <= tp
    /\ post.cur > 0 => (post.cur + heads + 1) <= post.hw * upp
    /\ post.U = s.U
    /\ NRuns(post) >= NRuns(s)
    /\ SubSeq(post.runs, 1, NRuns(s)) = s.runs
    /\ \A i \in (NRuns(s) + 1)..NRuns(post) : post.runs[i][3] = 1
    /\ WellFormed(post, heads)
\* the tiling the code produces: min(grain,k)-sized runs counted down from the new top; a
\* remainder, if any, is the lowest run (the code under test leaves such a remainder unlinked --
\* C27 says it must be usable, so the model links it)
GrowRuns(lo, k, g) ==
    LET gg == IF g < k THEN g ELSE k
        n == IF k = 0 THEN 0 ELSE k \div gg
        rem == IF k = 0 THEN 0 ELSE k % gg
    IN  (IF rem > 0 THEN << <<lo, rem, 1>> >> ELSE << >>) \o
        [j \in 1..n |-> <<lo + rem + (j - 1) * gg, gg, 1>>]
GrowSucc(s, k, g, hw2) ==
    LET new == GrowRuns(s.cur, k, g)
    IN  [s EXCEPT !.cur = @ + k, !.hw = hw2, !.runs = @ \o new,
                  !.G = @ \cup {new[i][1] : i \in 1..Len(new)}]

\* =================================================================================================
\* State machine for model checking: all histories over a small list.
\* =================================================================================================
CONSTANTS Kind,        \* "ia" (fixed size) or "rm" (grows from 0 to Units)
          Units, Grain, Heads,
          UncoCand,    \* units on which set/clear_uncoalescable is tried
          GrowSteps,   \* growth steps tried (rm)
          InitUnco,    \* TRUE: every initial run boundary starts uncoalescable (as the page
                       \* resources configure a shared table)
          UPP, PPB     \* units per page, pages per block (rm; small numbers in the model)
VARIABLES st,          \* the table
          cl,          \* client view: start |-> requested size of every outstanding allocation
          last         \* last call: [op, h, n, u, res]

vars == <<st, cl, last>>
TP == PagesFor(Units + Heads + 1, UPP)     \* table pages = the limit Map64 configures
NoCall == [op |-> "none", h |-> 0, n |-> 0, u |-> 0, res |-> 0]

Init == /\ st = IF Kind = "ia"
                THEN [InitState(Units, Grain) EXCEPT
                         !.U = IF InitUnco THEN Starts(InitState(Units, Grain)) ELSE {}]
                ELSE EmptyState
        /\ cl = << >>
        /\ last = NoCall

Alloc(h, n) ==
    \E res \in Starts(st) \cup {FAILURE} :
        /\ AllocResOK(st, h, n, res)
        /\ st' = AllocSucc(st, h, n, res)
        /\ cl' = IF res = FAILURE THEN cl ELSE (res :> n) @@ cl
        /\ last' = [op |-> "Alloc", h |-> h, n |-> n, u |-> 0, res |-> res]

AllocFrom(h, n, u) ==
    /\ AllocFromPre(st, h, u)
    /\ n <= st.runs[Idx(st, u)][2] + 1      \* larger requests behave like size + 1
    /\ LET ok == AllocFromFits(st, n, u)
       IN  /\ st' = AllocFromSucc(st, h, n, u)
           /\ cl' = IF ok THEN (u :> n) @@ cl ELSE cl
           /\ last' = [op |-> "AllocFrom", h |-> h, n |-> n, u |-> u,
                       res |-> IF ok THEN u ELSE FAILURE]

Free(h, u, rcs) ==
    /\ u \in DOMAIN cl
    /\ FreePre(st, h, u)
    /\ st' = FreeSucc(st, h, u)
    /\ cl' = [x \in DOMAIN cl \ {u} |-> cl[x]]
    /\ last' = [op |-> "Free", h |-> h, n |-> 0, u |-> u,
                res |-> IF rcs THEN MergedSize(st, Idx(st, u)) ELSE st.runs[Idx(st, u)][2]]

SetUnco(u) == /\ u \in 0..st.cur /\ u \notin st.U
              /\ st' = SetUncoSucc(st, u)
              /\ UNCHANGED cl /\ last' = [NoCall EXCEPT !.op = "SetUnco", !.u = u]
ClearUnco(u) == /\ u \in st.U
                /\ st' = ClearUncoSucc(st, u)
                /\ UNCHANGED cl /\ last' = [NoCall EXCEPT !.op = "ClearUnco", !.u = u]

\* the model maps exactly the pages needed (any hw2 allowed by GrowPostOK would do)
Grow(k) ==
    /\ Kind = "rm"
    /\ GrowPre(st, k, Grain)
    /\ IF GrowSucceeds(st, k, Units)
       THEN st' = GrowSucc(st, k, Grain,
                           IF st.cur + k = 0 THEN st.hw
                           ELSE PagesFor(st.cur + k + Heads + 1, UPP))
       ELSE st' = st
    /\ UNCHANGED cl
    /\ last' = [NoCall EXCEPT !.op = "Grow", !.n = k,
                              !.res = IF GrowSucceeds(st, k, Units) THEN 1 ELSE 0]

\* (constant bounds so that TLC reports coverage per action; the guards are in the actions)
Next == \/ \E h \in 1..Heads, n \in 1..Units : Alloc(h, n)
        \/ \E h \in 1..Heads, n \in 1..Units, u \in 0..(Units - 1) : AllocFrom(h, n, u)
        \/ \E h \in 1..Heads, u \in 0..(Units - 1), rcs \in BOOLEAN : Free(h, u, rcs)
        \/ \E u \in UncoCand : SetUnco(u) \/ ClearUnco(u)
        \/ \E k \in GrowSteps : Grow(k)

Spec == Init /\ [][Next]_vars

\* ---- C26 ----------------------------------------------------------------------------------------
InvWellFormed == WellFormed(st, Heads)
\* allocated runs are pairwise disjoint, inside the list, and exactly what the clients hold;
\* size(u) reports each run's length
InvClient ==
    /\ \A u \in DOMAIN cl : /\ u >= 0 /\ u + cl[u] <= st.cur
                            /\ SizeResOK(st, u, cl[u])
                            /\ st.runs[Idx(st, u)][3] = 0
    /\ \A u, v \in DOMAIN cl : u < v => u + cl[u] <= v
    /\ {st.runs[i][1] : i \in {j \in 1..NRuns(st) : st.runs[j][3] = 0}} = DOMAIN cl
\* coalescing is complete: two free runs never meet at a coalescable boundary other than a
\* boundary of the initial runs / a growth boundary / a once-uncoalescable unit
InvSeams == Seams(st) \subseteq st.G
\* freeing everything restores the initial runs (reading of DESIGN.md C26 "Interpretation note"):
\* all units free, and every remaining boundary is an initial/growth boundary or uncoalescable
InvFreeAllRestores ==
    (DOMAIN cl = {}) => /\ AllFree(st)
                        /\ Starts(st) \subseteq st.G \cup st.U \cup {0}
\* ... and equal to the initial runs when every initial boundary is uncoalescable
InvFreeAllExact ==
    (Kind = "ia" /\ InitUnco /\ UncoCand = {} /\ DOMAIN cl = {})
    => [i \in 1..NRuns(st) |-> <<st.runs[i][1], st.runs[i][2]>>] =
       [i \in 1..Len(InitRuns(Units, Grain)) |-> <<InitRuns(Units, Grain)[i][1],
                                                    InitRuns(Units, Grain)[i][2]>>]
\* alloc fails only when no free run of that length exists on the head's list
HasFit(s, h, n) == \E i \in 1..NRuns(s) : s.runs[i][3] = h /\ s.runs[i][2] >= n
PropAllocFailsOnlyWhenNoFit ==
    [][(last'.op = "Alloc" /\ last'.res = FAILURE) => ~HasFit(st, last'.h, last'.n)]_vars
\* a boundary that is uncoalescable (before and after the step) is never merged away
PropNeverAcrossUnco ==
    [][\A b \in (Starts(st) \cap st.U) \cap st'.U : b \in Starts(st')]_vars

\* ---- C27 (list level; the page/block arithmetic is RmflGrow.tla) -------------------------------
\* a growth within the maximum succeeds, memory stays within the limit, every unit is usable:
\* units below cur are either held by a client or on head 1's .. Heads' lists
InvGrowth ==
    Kind = "rm" =>
    /\ st.cur <= Units
    /\ st.hw <= TP
    /\ st.cur > 0 => st.cur + Heads + 1 <= st.hw * UPP
PropGrowSucceedsUntilMax ==
    [][(last'.op = "Grow") => (last'.res = 1) = (st.cur + last'.n <= Units)]_vars
PropGrownUnitsUsable ==
    [][(last'.op = "Grow" /\ last'.res = 1) =>
          /\ st'.cur = st.cur + last'.n
          /\ \A i \in (NRuns(st) + 1)..NRuns(st') : st'.runs[i][3] = 1
          /\ WellFormed(st', Heads)]_vars

\* ---- broken variants for the mutant configurations (must be rejected) --------------------------
\* split remainder not put back on the free list
TakeAtDropRemainder(s, h, n, i) ==
    LET r == s.runs[i]
    IN  [s EXCEPT !.runs = Replace(@, i, i,
            IF r[2] = n THEN << <<r[1], n, 0>> >>
            ELSE << <<r[1], n, 0>>, <<r[1] + n, r[2] - n, 0>> >>)]
\* free() ignores the uncoalescable mark of the freed unit
MergesLeftIgnoringUnco(s, i) == i > 1 /\ s.runs[i - 1][3] # 0
\* free() does not coalesce with its right neighbour
MergesRightNever(s, i) == FALSE
\* alloc only looks at the lowest run of the head's list
FitIdxFirstOnly(s, h, n) ==
    LET mine == {i \in 1..NRuns(s) : s.runs[i][3] = h}
    IN  IF mine = {} THEN {}
        ELSE LET f == CHOOSE i \in mine : \A j \in mine : i <= j
             IN  IF s.runs[f][2] >= n THEN {f} ELSE {}
\* growth leaves a remainder below the first grain-sized run unlinked (what the code does when
\* the old size is not a multiple of the grain)
GrowRunsLeavingRemainder(lo, k, g) ==
    LET gg == IF g < k THEN g ELSE k
        n == IF k = 0 THEN 0 ELSE k \div gg
        rem == IF k = 0 THEN 0 ELSE k % gg
    IN  [j \in 1..rem |-> <<lo + j - 1, 1, 0>>] \o
        [j \in 1..n |-> <<lo + rem + (j - 1) * gg, gg, 1>>]
=====================================================================================
