SPECIFICATION Spec
CONSTANTS
  Kind = "rm"
  Units = 5
  Grain = 2
  Heads = 1
  UncoCand = {}
  GrowSteps = {1, 3, 4}
  InitUnco = FALSE
  UPP = 4
  PPB = 1
  GrowRuns <- GrowRunsLeavingRemainder
INVARIANTS
  InvWellFormed
  InvClient
  InvSeams
  InvFreeAllRestores
  InvFreeAllExact
  InvGrowth
PROPERTIES
  PropAllocFailsOnlyWhenNoFit
  PropNeverAcrossUnco
  PropGrowSucceedsUntilMax
  PropGrownUnitsUsable
CHECK_DEADLOCK FALSE
