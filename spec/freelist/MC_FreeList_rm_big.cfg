SPECIFICATION Spec
CONSTANTS
  Kind = "rm"
  Units = 6
  Grain = 2
  Heads = 1
  UncoCand = {2}
  GrowSteps = {1, 2, 4, 6}
  InitUnco = FALSE
  UPP = 4
  PPB = 1

INVARIANTS
  InvWellFormed
  InvClient
  InvSeams
  InvFreeAllRestores
  InvFreeAllExact
  InvGrowth
PROPERTIES
  PropAllocFailsOnlyWhenNoFit
  PropNeverAcrossUnco
  PropGrowSucceedsUntilMax
  PropGrownUnitsUsable
CHECK_DEADLOCK FALSE
