------------------------------ MODULE Trace_FreeList ------------------------------
(* Validates rows recorded by harness/d_freelist from the real free lists against FreeList.tla.      *)
(* Row mode (BUILDING.md): every line is consumed; a line the specification does not allow prints    *)
(* ROW_REJECTED l=<line>.                                                                            *)
(*                                                                                                   *)
(*   {"ev":"New","hid":..,"p":PAR,"post":PROJ}            a freshly constructed list                 *)
(*   {"ev":"Step","hid":..,"i":..,"p":PAR,["pre":PROJ,]"op":OP,"res":r[,"post":PROJ]}   one call    *)
(*   {"ev":"Crash",...}                                   the call panicked: never allowed           *)
(*                                                                                                   *)
(* A Step row with "pre" is self-contained (exploration edges): the abstract pre-state is the        *)
(* abstraction of the observed table. A Step row without "pre" continues the history of the          *)
(* preceding rows: the pre-state is the state this module computed (or observed) after the previous  *)
(* row. "post", when present, is the observed table after the call: it must be a well-formed table   *)
(* and equal to the successor the specification computes (for Grow: satisfy GrowPostOK).             *)
(* After a rejected row without "post" the history is out of sync; rows are then skipped until the   *)
(* next observed table (the rejection has been reported).                                            *)
EXTENDS FreeList, Json, IOUtils

Rec == ndJsonDeserialize(IOEnv.TRACE)
VARIABLES l,        \* next line
          ts,       \* abstract state after the previous row (record of FreeList.tla)
          sync      \* is ts meaningful?
tvars == <<l, ts, sync, st, cl, last>>

RealUPP == 512       \* 4096-byte pages, 8 bytes of table per unit

Range(f) == {f[i] : i \in DOMAIN f}

\* ---- the observed table (projection through the trait's getters) --------------------------------
ListSets(P) == [h \in 1..Len(P.lists) |-> Range(P.lists[h])]
\* the observation is a consistent table: runs partition 0..cur-1, the backward walk (size tags at
\* run ends) finds the same runs, every free run is linked on exactly one head's list exactly once
ProjOK(P, heads) ==
    LET n == Len(P.runs)
        LS == ListSets(P)
        freeStarts == {P.runs[i][1] : i \in {j \in 1..n : P.runs[j][3] = 1}}
    IN  /\ P.bad = ""
        /\ P.cur >= 0
        /\ (P.cur = 0) = (n = 0)
        /\ n > 0 => P.runs[1][1] = 0
        /\ \A i \in 1..n : /\ P.runs[i][2] >= 1
                           /\ P.runs[i][1] + P.runs[i][2] =
                                  (IF i < n THEN P.runs[i + 1][1] ELSE P.cur)
        /\ Len(P.back) = n
        /\ \A i \in 1..n : P.back[i] = P.runs[n + 1 - i][1]
        /\ Len(P.lists) <= heads
        /\ \A h \in 1..Len(P.lists) : Cardinality(LS[h]) = Len(P.lists[h])
        /\ \A h1, h2 \in 1..Len(P.lists) : h1 < h2 => LS[h1] \cap LS[h2] = {}
        /\ UNION {LS[h] : h \in 1..Len(P.lists)} = freeStarts
        /\ Range(P.unco) \subseteq 0..P.cur

Abs(P, G) ==
    LET LS == ListSets(P)
        own(u) == CHOOSE h \in 1..Len(P.lists) : u \in LS[h]
    IN  [cur |-> P.cur, hw |-> P.hw,
         runs |-> [i \in 1..Len(P.runs) |->
                     <<P.runs[i][1], P.runs[i][2],
                       IF P.runs[i][3] = 1 THEN own(P.runs[i][1]) ELSE 0>>],
         U |-> Range(P.unco), G |-> G]

SameTable(a, b) == a.cur = b.cur /\ a.runs = b.runs /\ a.U = b.U

\* ---- one call -----------------------------------------------------------------------------------
\* precondition of the call and admissibility of its result in abstract state s
CallOK(p, s, op, res) ==
    CASE op.t = "Alloc" -> op.n >= 1 /\ op.h \in 1..p.heads /\ AllocResOK(s, op.h, op.n, res)
      [] op.t = "AllocFrom" -> /\ op.n >= 1 /\ AllocFromPre(s, op.h, op.u)
                               /\ AllocFromResOK(s, op.h, op.n, op.u, res)
      [] op.t = "Free" -> FreePre(s, op.h, op.u) /\ FreeResOK(s, op.u, op.rcs = 1, res)
      [] op.t = "Size" -> SizeResOK(s, op.u, res)
      [] op.t = "SetUnco" -> op.u \in 0..s.cur
      [] op.t = "ClearUnco" -> op.u \in 0..s.cur
      [] op.t = "Grow" -> /\ p.kind = "rm"
                          /\ (GrowSucceeds(s, op.k, p.max) => GrowPre(s, op.k, p.grain))
                          /\ res = (IF GrowSucceeds(s, op.k, p.max) THEN 1 ELSE 0)
      [] op.t = "Drained" -> TRUE
      [] OTHER -> FALSE

\* the successor state when it is determined by the call and its result
Succ(p, s, op, res) ==
    CASE op.t = "Alloc" -> AllocSucc(s, op.h, op.n, res)
      [] op.t = "AllocFrom" -> AllocFromSucc(s, op.h, op.n, op.u)
      [] op.t = "Free" -> FreeSucc(s, op.h, op.u)
      [] op.t = "SetUnco" -> SetUncoSucc(s, op.u)
      [] op.t = "ClearUnco" -> ClearUncoSucc(s, op.u)
      [] OTHER -> s

IsGrowth(p, s, op) == op.t = "Grow" /\ GrowSucceeds(s, op.k, p.max)

\* G after the call (history variable; for a growth the new boundaries are those observed)
NextG(p, s, op, s1runs) ==
    CASE op.t = "SetUnco" -> s.G \cup {op.u}
      [] IsGrowth(p, s, op) ->
            s.G \cup {s1runs[i][1] : i \in {j \in 1..Len(s1runs) : s1runs[j][1] >= s.cur}}
      [] OTHER -> s.G

\* the observed table after the call is what the specification allows
PostOK(p, s, op, res, P) ==
    LET a == Abs(P, NextG(p, s, op, P.runs))
    IN  /\ ProjOK(P, p.heads)
        /\ IF IsGrowth(p, s, op)
           THEN /\ GrowPostOK(s, op.k, p.heads, p.tp, RealUPP, a)
                /\ P.mapped <= p.tp /\ P.mlo = 0
                /\ a.cur > 0 => (a.cur + p.heads + 1) <= P.mapped * RealUPP
           ELSE /\ SameTable(a, Succ(p, s, op, res))
                /\ (p.kind = "rm" => a.hw = s.hw /\ P.mapped <= p.tp)
        /\ (op.t = "Drained" => AllFree(a))
        /\ Seams(a) \subseteq a.G

NewOK(r) ==
    /\ ProjOK(r.post, r.p.heads)
    /\ LET a == Abs(r.post, {})
       IN  IF r.p.kind = "ia"
           THEN /\ SameTable(a, InitState(r.p.max, r.p.grain))
                /\ Len(r.post.lists) = r.p.heads
           ELSE SameTable(a, EmptyState) /\ a.hw = 0 /\ r.post.mapped = 0
NewState(r) == Abs(r.post, {r.post.runs[i][1] : i \in 1..Len(r.post.runs)})

HasPre(r) == "pre" \in DOMAIN r
HasPost(r) == "post" \in DOMAIN r
PreState(r) == IF HasPre(r) THEN Abs(r.pre, Range(r.pre.G)) ELSE ts
CanJudge(r) == HasPre(r) \/ sync

\* "ok", or which part of the row the specification does not allow
StepTag(r) ==
    LET s == PreState(r)
    IN  IF ~((HasPre(r) => ProjOK(r.pre, r.p.heads)) /\ WellFormed(s, r.p.heads)) THEN "pre"
        ELSE IF ~CallOK(r.p, s, r.op, r.res) THEN "result"
        ELSE IF (IsGrowth(r.p, s, r.op) \/ r.op.t = "Drained") /\ ~HasPost(r) THEN "nopost"
        ELSE IF HasPost(r) /\ ~PostOK(r.p, s, r.op, r.res, r.post) THEN "post"
        ELSE "ok"

Reject(tag) == PrintT("ROW_REJECTED l=" \o ToString(l) \o " tag=" \o tag)

TInit == l = 1 /\ ts = EmptyState /\ sync = FALSE
TNext ==
    /\ l <= Len(Rec)
    /\ LET r == Rec[l]
       IN  CASE r.ev = "New" ->
                  /\ IF NewOK(r) THEN TRUE ELSE Reject("new")
                  /\ ts' = NewState(r) /\ sync' = TRUE
             [] r.ev = "Step" ->
                  IF ~CanJudge(r)
                  THEN \* out of sync after an earlier (reported) rejection: resynchronise on an
                       \* observed table, otherwise skip
                       IF HasPost(r) /\ ProjOK(r.post, r.p.heads)
                       THEN ts' = Abs(r.post, ts.G \cup {r.post.runs[i][1] :
                                                         i \in 1..Len(r.post.runs)})
                            /\ sync' = TRUE
                       ELSE UNCHANGED <<ts, sync>>
                  ELSE IF StepTag(r) = "ok"
                       THEN /\ ts' = IF HasPost(r)
                                     THEN Abs(r.post, NextG(r.p, PreState(r), r.op, r.post.runs))
                                     ELSE Succ(r.p, PreState(r), r.op, r.res)
                            /\ sync' = TRUE
                       ELSE /\ Reject(StepTag(r))
                            /\ IF HasPost(r) /\ ProjOK(r.post, r.p.heads)
                               THEN ts' = Abs(r.post, PreState(r).G \cup
                                              {r.post.runs[i][1] : i \in 1..Len(r.post.runs)})
                                    /\ sync' = TRUE
                               ELSE ts' = ts /\ sync' = FALSE
             [] OTHER -> \* Crash (or an unknown event): the code under test panicked
                  /\ Reject("crash")
                  /\ ts' = ts /\ sync' = FALSE
    /\ l' = l + 1
    /\ UNCHANGED <<st, cl, last>>

TraceSpec == TInit /\ st = EmptyState /\ cl = << >> /\ last = NoCall /\ [][TNext]_tvars

Accepted ==
    LET d == TLCGet("stats").diameter
    IN  IF d = Len(Rec) + 1 THEN TRUE
        ELSE /\ PrintT("TRACE_REJECTED matched=" \o ToString(d - 1) \o " of=" \o ToString(Len(Rec)))
             /\ FALSE
=====================================================================================
