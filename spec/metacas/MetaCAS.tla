--------------------------------- MODULE MetaCAS ---------------------------------
(* C18. Concurrent mark / log / pin transitions on per-object metadata fields, at the granularity *)
(* of the atomic operations of the real code.                                                      *)
(*                                                                                                *)
(* A *scenario* `sc` fixes a few metadata fields (an object's mark bit, log bit, pin bit, LOS     *)
(* mark/nursery bits; side or in-header), which of them live in the same metadata byte, and which  *)
(* thread performs which transition on which field:                                               *)
(*   kind "mark"  MarkState::test_and_mark / ImmixSpace::attempt_mark (util/metadata/mark_bit.rs, *)
(*                policy/immix/immixspace.rs): load; if = target return false; CAS(old -> target); *)
(*                retry on failure                                                                *)
(*   kind "los"   LargeObjectSpace::test_and_mark (policy/largeobjectspace.rs): load; if           *)
(*                (old & mask) = target return false; CAS(old -> (old & ~3) | target); retry       *)
(*   kind "log"   ObjectBarrier::log_object (plan/barriers.rs): load; if 0 return false;           *)
(*                CAS(1 -> 0); retry                                                               *)
(*   kind "pin"   VMLocalPinningBitSpec::pin_object (util/metadata/pin_bit.rs): CAS(0 -> 1); on   *)
(*                failure load the bit: if it is still 0 (only a neighbour changed) retry, else    *)
(*                return false.  (Before the repair "fix: pin_object ..." it was ONE CAS; that     *)
(*                behaviour is kept as Mutant = "pin_single_shot".)                                *)
(*   kind "unpin" unpin_object: the same with CAS(1 -> 0)                                          *)
(*   kind "set"   a plain atomic store of the target (VMLocalMarkBitSpec::mark,                   *)
(*                VMGlobalLogBitSpec::mark_as_unlogged / clear), used as a neighbour updater      *)
(* Fields narrower than a byte (sub = TRUE) are updated as the implementation does it             *)
(* (SideMetadataSpec::compare_exchange_atomic, HeaderMetadataSpec::compare_exchange): an atomic    *)
(* load of the whole byte (ByteLoad, not visible to the caller), then ONE compare-exchange of the  *)
(* whole byte, so the operation fails when ANY field of that byte changed in between. A sub-byte   *)
(* store is an atomic fetch_update of the byte (one step).                                        *)
(*                                                                                                *)
(* Style as in Forwarding.tla: successor-set operators over a state record, shared by Next and by *)
(* the interleaving search of Trace_MetaCAS. Labels are <<op, field, a, b, ok>>; ByteLoad has the  *)
(* label TAU (it is inside compare_exchange_metadata and not recorded).                           *)
EXTENDS Naturals, Integers, FiniteSets, Sequences, TLC

CONSTANTS Scenarios,   \* set of scenario records (see ScenarioOK)
          Mutant       \* "none" | "cas_reports_success" | "cas_plain" | "no_retry" | "rmw_store"
                       \* | "pin_single_shot"

VARIABLE st

TAU == <<"tau", 0, 0, 0, 0>>
None == 0 - 1

\* A scenario: fields 1..Len(kind); threads 1..Len(fo).
\*   kind[f], sub[f] (narrower than a byte), init[f], tv[f] (target), mask[f] (kind "los": 1 or 3),
\*   byte[f] (fields with equal byte share a metadata byte), fo[t] (field of thread t)
FieldsOf(sc) == 1..Len(sc.kind)
ThreadsOf(sc) == 1..Len(sc.fo)
Mates(sc, f) == { g \in FieldsOf(sc) : sc.byte[g] = sc.byte[f] }
Looped(k) == k \in {"mark", "los", "log"}

And2(v, m) == IF m = 3 THEN v ELSE IF m = 1 THEN v % 2 ELSE 0   \* v & m for 2-bit v

FirstPc(k) == IF Looped(k) THEN "ld" ELSE IF k = "set" THEN "st" ELSE "casld"
FirstOld(k) == IF k = "pin" THEN 0 ELSE IF k = "unpin" THEN 1 ELSE None
FirstNew(k) == IF k = "pin" THEN 1 ELSE IF k = "unpin" THEN 0 ELSE None

InitState(sc) ==
    [sc |-> sc,
     mem |-> [f \in FieldsOf(sc) |-> sc.init[f]],
     pc |-> [t \in ThreadsOf(sc) |-> FirstPc(sc.kind[sc.fo[t]])],
     old |-> [t \in ThreadsOf(sc) |-> FirstOld(sc.kind[sc.fo[t]])],
     new |-> [t \in ThreadsOf(sc) |-> FirstNew(sc.kind[sc.fo[t]])],
     snap |-> [t \in ThreadsOf(sc) |-> << >>],
     won |-> [t \in ThreadsOf(sc) |-> None]]

\* the load at the top of the retry loops
LoadS(s, t) ==
    IF s.pc[t] # "ld" THEN {}
    ELSE LET f == s.sc.fo[t]
             k == s.sc.kind[f]
             v == s.mem[f]
             tv == s.sc.tv[f]
             already == IF k = "mark" THEN v = tv
                        ELSE IF k = "los" THEN And2(v, s.sc.mask[f]) = tv
                        ELSE v = 0                                   \* "log"
             o == IF k = "log" THEN 1 ELSE v
             n == IF k = "log" THEN 0 ELSE tv       \* "los": (v & ~3) | tv = tv for a 2-bit field
         IN  { <<<<"ld", f, v, 0, 0>>,
                 IF already THEN [s EXCEPT !.pc[t] = "retn", !.won[t] = 0]
                 ELSE [s EXCEPT !.pc[t] = "casld", !.old[t] = o, !.new[t] = n]>> }

\* inside compare_exchange: atomic load of the byte holding the field (all its fields)
ByteLoadS(s, t) ==
    IF s.pc[t] # "casld" THEN {}
    ELSE LET f == s.sc.fo[t]
         IN  { <<TAU, [s EXCEPT !.pc[t] = "cas",
                                !.snap[t] = [g \in Mates(s.sc, f) |-> s.mem[g]]]>> }

\* inside compare_exchange: the compare-exchange itself; the caller sees Ok / Err
CasS(s, t) ==
    IF s.pc[t] # "cas" THEN {}
    ELSE LET f == s.sc.fo[t]
             k == s.sc.kind[f]
             matches == /\ s.mem[f] = s.old[t]
                        /\ s.sc.sub[f] => \A g \in Mates(s.sc, f) \ {f} : s.mem[g] = s.snap[t][g]
             okS == [s EXCEPT !.mem[f] = s.new[t], !.pc[t] = "retn", !.won[t] = 1]
             failS == IF Looped(k)
                      THEN (IF Mutant = "cas_reports_success"
                            THEN [s EXCEPT !.pc[t] = "retn", !.won[t] = 1]
                            ELSE IF Mutant = "no_retry"
                            THEN [s EXCEPT !.pc[t] = "retn", !.won[t] = 0]
                            ELSE [s EXCEPT !.pc[t] = "ld"])
                      ELSE IF Mutant = "pin_single_shot"
                      THEN [s EXCEPT !.pc[t] = "retn", !.won[t] = 0]
                      ELSE [s EXCEPT !.pc[t] = "pinld"]
         IN  IF Mutant = "cas_plain" \/ matches
             THEN { <<<<"cas", f, s.old[t], s.new[t], 1>>, okS>> }
             ELSE { <<<<"cas", f, s.old[t], s.new[t], 0>>, failS>> }

\* pin_object / unpin_object after a failed compare-exchange: load the pin bit; retry if it still
\* has the expected value (only a neighbouring field of the byte changed), else return false
PinLoadS(s, t) ==
    IF s.pc[t] # "pinld" THEN {}
    ELSE LET f == s.sc.fo[t]
             v == s.mem[f]
         IN  { <<<<"ld", f, v, 0, 0>>,
                 IF v = s.old[t] THEN [s EXCEPT !.pc[t] = "casld"]
                 ELSE [s EXCEPT !.pc[t] = "retn", !.won[t] = 0]>> }

\* kind "set": atomic store (sub-byte: fetch_update of the byte, atomic)
StoreS(s, t) ==
    IF s.pc[t] # "st" THEN {}
    ELSE LET f == s.sc.fo[t]
             clobbered == [g \in FieldsOf(s.sc) |->
                              IF g = f THEN s.sc.tv[f]
                              ELSE IF g \in Mates(s.sc, f) THEN s.sc.init[g] ELSE s.mem[g]]
         IN  IF Mutant = "rmw_store" /\ s.sc.sub[f]
             \* broken: non-atomic read-modify-write of the byte with a stale copy of the neighbours
             THEN { <<<<"st", f, s.sc.tv[f], 0, 0>>,
                      [s EXCEPT !.mem = clobbered, !.pc[t] = "retn", !.won[t] = 0]>> }
             ELSE { <<<<"st", f, s.sc.tv[f], 0, 0>>,
                      [s EXCEPT !.mem[f] = s.sc.tv[f], !.pc[t] = "retn", !.won[t] = 0]>> }

ReturnS(s, t) ==
    IF s.pc[t] # "retn" THEN {}
    ELSE { <<<<"ret", s.sc.fo[t], s.won[t], 0, 0>>, [s EXCEPT !.pc[t] = "done"]>> }

StepS(s, t) == LoadS(s, t) \cup ByteLoadS(s, t) \cup CasS(s, t) \cup PinLoadS(s, t) \cup StoreS(s, t)
               \cup ReturnS(s, t)

Load == \E t \in ThreadsOf(st.sc) : \E p \in LoadS(st, t) : st' = p[2]
ByteLoad == \E t \in ThreadsOf(st.sc) : \E p \in ByteLoadS(st, t) : st' = p[2]
Cas == \E t \in ThreadsOf(st.sc) : \E p \in CasS(st, t) : st' = p[2]
PinLoad == \E t \in ThreadsOf(st.sc) : \E p \in PinLoadS(st, t) : st' = p[2]
Store == \E t \in ThreadsOf(st.sc) : \E p \in StoreS(st, t) : st' = p[2]
Return == \E t \in ThreadsOf(st.sc) : \E p \in ReturnS(st, t) : st' = p[2]

Init == st \in { InitState(sc) : sc \in Scenarios }
Next == Load \/ ByteLoad \/ Cas \/ PinLoad \/ Store \/ Return
Spec == Init /\ [][Next]_st
FairSpec == Spec /\ \A t \in 1..4 : WF_st(t \in ThreadsOf(st.sc) /\ \E p \in StepS(st, t) : st' = p[2])

\* ---- the property (C18) -----------------------------------------------------------------------
RacersOf(sc, f) == { t \in ThreadsOf(sc) : sc.fo[t] = f }
Transitionable(sc, f) ==
    LET k == sc.kind[f]
    IN  IF k = "mark" THEN sc.init[f] # sc.tv[f]
        ELSE IF k = "los" THEN And2(sc.init[f], sc.mask[f]) # sc.tv[f]
        ELSE IF k = "log" THEN sc.init[f] # 0
        ELSE IF k = "pin" THEN sc.init[f] = 0
        ELSE IF k = "unpin" THEN sc.init[f] = 1
        ELSE FALSE
TargetOf(sc, f) ==
    LET k == sc.kind[f]
    IN  IF k \in {"log", "unpin"} THEN 0 ELSE IF k = "pin" THEN 1 ELSE sc.tv[f]
AllDone(s) == \A t \in ThreadsOf(s.sc) : s.pc[t] = "done"

\* exactly one racer observes the transition as its own (none if there is nothing to transition)
ExactlyOnceF(s, f) ==
    Cardinality({ t \in RacersOf(s.sc, f) : s.won[t] = 1 })
        = (IF Transitionable(s.sc, f) /\ s.sc.kind[f] # "set" THEN 1 ELSE 0)
\* the final state is the transitioned state (a field nobody can transition keeps its value;
\* for "los" the untransitionable field already holds the target in the masked bits)
FinalF(s, f) ==
    IF RacersOf(s.sc, f) = {} THEN s.mem[f] = s.sc.init[f]
    ELSE IF s.sc.kind[f] = "set" \/ Transitionable(s.sc, f) THEN s.mem[f] = TargetOf(s.sc, f)
    ELSE s.mem[f] = s.sc.init[f]
\* never more than one winner, at any time
AtMostOnceP(s) == \A f \in FieldsOf(s.sc) :
                     s.sc.kind[f] # "set" =>
                        Cardinality({ t \in RacersOf(s.sc, f) : s.won[t] = 1 }) <= 1
PropertyP(s) == AllDone(s) => \A f \in FieldsOf(s.sc) : ExactlyOnceF(s, f) /\ FinalF(s, f)

AtMostOnce == AtMostOnceP(st)
Property == PropertyP(st)
Termination == <>AllDone(st)

\* ---- scenario sets for model checking --------------------------------------------------------
Sc(kind, sub, init, tv, mask, byte, fo) ==
    [kind |-> kind, sub |-> sub, init |-> init, tv |-> tv, mask |-> mask, byte |-> byte, fo |-> fo]

\* one contended field, 2..N racers, every looped kind and every initial value; width 1 / 2 / 8
Single(N) ==
    LET fos == { [t \in 1..n |-> 1] : n \in 2..N }
    IN  { Sc(<<"mark">>, <<sub>>, <<i>>, <<tv>>, <<0>>, <<1>>, fo) :
            sub \in BOOLEAN, i \in 0..1, tv \in 0..1, fo \in fos }
        \cup { Sc(<<"los">>, <<TRUE>>, <<i>>, <<tv>>, <<m>>, <<1>>, fo) :
                 i \in 0..3, tv \in 0..1, m \in {1, 3}, fo \in fos }
        \cup { Sc(<<"log">>, <<sub>>, <<i>>, <<0>>, <<0>>, <<1>>, fo) :
                 sub \in BOOLEAN, i \in 0..1, fo \in fos }
        \cup { Sc(<<k>>, <<TRUE>>, <<i>>, <<0>>, <<0>>, <<1>>, fo) :
                 k \in {"pin", "unpin"}, i \in 0..1, fo \in fos }

\* a contended looped field plus a neighbour field in the same byte that is updated concurrently
\* (by another racing group or by plain stores); N threads in total
Neighbour(N) ==
    LET fos == { fo \in [1..N -> 1..2] : \E t \in 1..N : fo[t] = 1 /\ \E u \in 1..N : fo[u] = 2 }
    IN  { Sc(<<k1, k2>>, <<TRUE, TRUE>>, <<i1, i2>>, <<1, 1>>, <<1, 1>>, <<b1, b2>>, fo) :
            k1 \in {"mark", "log", "los"}, k2 \in {"mark", "log", "set", "pin"},
            i1 \in 0..1, i2 \in 0..1, b1 \in {1}, b2 \in {1, 2}, fo \in fos }

\* pin / unpin next to a concurrently updated field of the same byte. With the original
\* single-shot compare-exchange (Mutant = "pin_single_shot") the CAS can fail although the pin bit
\* had the expected value: nobody observes the transition and the object stays unpinned
\* (finding pin_object:spurious-failure, repaired in mmtk-core).
PinNeighbourScenarios ==
    { Sc(<<k1, k2>>, <<TRUE, TRUE>>, <<i1, 0>>, <<1, 1>>, <<1, 1>>, <<1, 1>>, <<1, 2>>) :
        k1 \in {"pin", "unpin"}, i1 \in 0..1, k2 \in {"pin", "set", "mark"} }
\* all scenarios: the property must hold for every kind, also for pin / unpin next to a
\* concurrently updated field of the same byte (since the repair of pin_object / unpin_object)
GoodScenarios(N) == Single(N) \cup Neighbour(N) \cup (IF N >= 2 THEN PinNeighbourScenarios ELSE {})
MCGood2 == GoodScenarios(2)
MCGood3 == GoodScenarios(3)
MCGood4 == GoodScenarios(4)
=====================================================================================
