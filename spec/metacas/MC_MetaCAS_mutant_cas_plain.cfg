\* mutant: the CAS is a plain store -> two winners
SPECIFICATION Spec
CONSTANTS
  Scenarios <- MCGood2
  Mutant = "cas_plain"
INVARIANTS
  AtMostOnce
  Property
CHECK_DEADLOCK FALSE
