\* mutant: the sub-byte store is a non-atomic read-modify-write of the byte -> a neighbour's transition is lost
SPECIFICATION Spec
CONSTANTS
  Scenarios <- MCGood2
  Mutant = "rmw_store"
INVARIANTS
  AtMostOnce
  Property
CHECK_DEADLOCK FALSE
