SPECIFICATION TraceSpec
CONSTANTS
  Scenarios = {}
  Mutant = "none"
POSTCONDITION Accepted
CHECK_DEADLOCK FALSE
