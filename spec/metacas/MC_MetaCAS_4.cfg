\* C18 design check: all scenarios with up to 4 threads (single contended field of width 1/2/8 bits; contended field plus a concurrently updated neighbour in the same / another byte)
SPECIFICATION Spec
CONSTANTS
  Scenarios <- MCGood4
  Mutant = "none"
INVARIANTS
  AtMostOnce
  Property
CHECK_DEADLOCK FALSE
