\* mutant = the code before "fix: pin_object / unpin_object retry ...": the pin CAS is single shot and
\* fails when a neighbouring field of the same byte changes between the byte load and the byte CAS ->
\* Property must fail (nobody pinned, object unpinned)
SPECIFICATION Spec
CONSTANTS
  Scenarios <- PinNeighbourScenarios
  Mutant = "pin_single_shot"
INVARIANTS
  AtMostOnce
  Property
CHECK_DEADLOCK FALSE
