\* FINDING pin_object:spurious-failure: the single-shot pin CAS fails when a neighbouring field of the same byte changes between the byte load and the byte CAS; TLC must report a Property violation (nobody pinned, object unpinned)
SPECIFICATION Spec
CONSTANTS
  Scenarios <- PinNeighbourScenarios
  Mutant = "none"
INVARIANTS
  AtMostOnce
  Property
CHECK_DEADLOCK FALSE
