\* mutant: a failed CAS is reported as success -> two winners
SPECIFICATION Spec
CONSTANTS
  Scenarios <- MCGood2
  Mutant = "cas_reports_success"
INVARIANTS
  AtMostOnce
  Property
CHECK_DEADLOCK FALSE
