\* every transition function returns (retry loops terminate) under weak fairness
SPECIFICATION FairSpec
CONSTANTS
  Scenarios <- MCGood3
  Mutant = "none"
INVARIANTS
  AtMostOnce
  Property
PROPERTIES
  Termination
CHECK_DEADLOCK FALSE
