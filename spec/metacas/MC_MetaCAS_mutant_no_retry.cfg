\* mutant: the retry loop gives up after a failed CAS -> no winner when a neighbour field changed
SPECIFICATION Spec
CONSTANTS
  Scenarios <- MCGood2
  Mutant = "no_retry"
INVARIANTS
  AtMostOnce
  Property
CHECK_DEADLOCK FALSE
