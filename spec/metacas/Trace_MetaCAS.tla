------------------------------ MODULE Trace_MetaCAS ------------------------------
(* Validates recorded real-thread races of the mark / log / pin transition functions (racedrive   *)
(* cas) against MetaCAS. One row per round:                                                       *)
(*   {"ev":"Cas","sc":{kind,sub,init,tv,mask,byte,fo},"logs":[[step,..],..],"final":[v per field]} *)
(* `sc` is the scenario record of MetaCAS.tla (which fields, which of them share a metadata byte,  *)
(* which thread performs which transition); logs[t] is the ordered list of atomic metadata         *)
(* operations thread t performed, in label form <<op, field, a, b, ok>>, recorded by the hook      *)
(* mmtk::util::metadata::verif_steps, followed by ["ret", field, result, 0, 0].                    *)
(*                                                                                                *)
(* A row is accepted iff some interleaving of the logs (each thread in its own order, with the    *)
(* unrecorded byte load inside every compare-exchange placed anywhere before it) is a behaviour   *)
(* of MetaCAS that ends in the logged final field values, and the property (exactly one winner    *)
(* per transitionable field, final value = transitioned value) holds in its final state.          *)
EXTENDS MetaCAS, Json, IOUtils

Rec == ndJsonDeserialize(IOEnv.TRACE)
VARIABLE l

TInit(r) == [s |-> InitState(r.sc), pos |-> [t \in ThreadsOf(r.sc) |-> 1]]

\* logged step of thread t
TSuccT(r, ts, t) ==
    IF ts.pos[t] > Len(r.logs[t]) THEN {}
    ELSE LET e == r.logs[t][ts.pos[t]]
         IN  { [s |-> p[2], pos |-> [ts.pos EXCEPT ![t] = @ + 1]] :
                   p \in { q \in StepS(ts.s, t) : q[1] = e } }
\* unrecorded step of thread t (the byte load inside compare_exchange)
TauT(ts, t) == { [s |-> p[2], pos |-> ts.pos] : p \in { q \in ByteLoadS(ts.s, t) : q[1] = TAU } }

\* Reduction (complete): a logged step that writes nothing (load, failed compare-exchange, ret)
\* and is possible now is taken immediately and exclusively; see Trace_Forwarding.tla.
ReadOnly(e) == e[1] \in {"ld", "ret"} \/ (e[1] = "cas" /\ e[5] = 0)
Eager(r, ts) == { t \in ThreadsOf(r.sc) : /\ ts.pos[t] <= Len(r.logs[t])
                                          /\ ReadOnly(r.logs[t][ts.pos[t]])
                                          /\ TSuccT(r, ts, t) # {} }
TSucc(r, ts) == LET E == Eager(r, ts)
                IN  IF E # {} THEN TSuccT(r, ts, CHOOSE t \in E : \A u \in E : t <= u)
                    ELSE UNION { TSuccT(r, ts, t) \cup TauT(ts, t) : t \in ThreadsOf(r.sc) }

RECURSIVE CountCas(_, _)
CountCas(log, n) == IF n = 0 THEN 0 ELSE CountCas(log, n - 1) + (IF log[n][1] = "cas" THEN 1 ELSE 0)
RECURSIVE Steps(_, _)
Steps(r, n) == IF n = 0 THEN 0
               ELSE Steps(r, n - 1) + Len(r.logs[n]) + CountCas(r.logs[n], Len(r.logs[n]))

RECURSIVE Level(_, _, _)
Level(r, F, k) == IF k = 0 \/ F = {} THEN F
                  ELSE Level(r, UNION { TSucc(r, ts) : ts \in F }, k - 1)
Finals(r) == Level(r, {TInit(r)}, Steps(r, Len(r.logs)))

FinalMem(r, s) == \A f \in FieldsOf(r.sc) : s.mem[f] = r.final[f]

\* the failing fields are all single-shot pin/unpin CASes that failed next to an active neighbour
\* in the same byte although the bit had the expected value (finding pin_object:spurious-failure)
PinSpurious(s) ==
    \A f \in FieldsOf(s.sc) :
        (ExactlyOnceF(s, f) /\ FinalF(s, f))
        \/ (/\ s.sc.kind[f] \in {"pin", "unpin"}
            /\ Transitionable(s.sc, f)
            /\ \A t \in RacersOf(s.sc, f) : s.won[t] = 0
            /\ s.mem[f] = s.sc.init[f]
            /\ \E g \in Mates(s.sc, f) \ {f} : RacersOf(s.sc, g) # {})

WellFormed(r) == /\ Len(r.logs) = Len(r.sc.fo)
                 /\ Len(r.final) = Len(r.sc.kind)

Tag(r) == IF ~WellFormed(r) THEN "malformed"
          ELSE LET F == Finals(r)
                   G == { ts \in F : FinalMem(r, ts.s) }
               IN  IF F = {} THEN "no-interleaving"
                   ELSE IF G = {} THEN "final-memory"
                   ELSE IF \A ts \in G : PropertyP(ts.s) THEN "ok"
                   ELSE IF \A ts \in G : PinSpurious(ts.s) THEN "property:pin-spurious"
                   ELSE "property"
RowOK(r) == Tag(r) = "ok"

TInitS == l = 1 /\ st = 0
TNext == /\ l <= Len(Rec)
         /\ IF Rec[l].ev # "Cas" \/ RowOK(Rec[l]) THEN TRUE
            ELSE PrintT("ROW_REJECTED l=" \o ToString(l) \o " tag=" \o Tag(Rec[l]))
         /\ l' = l + 1
         /\ UNCHANGED st
TraceSpec == TInitS /\ [][TNext]_<<l, st>>

Accepted ==
    LET d == TLCGet("stats").diameter
    IN  IF d = Len(Rec) + 1 THEN TRUE
        ELSE /\ PrintT("TRACE_REJECTED matched=" \o ToString(d - 1) \o " of=" \o ToString(Len(Rec)))
             /\ FALSE
=====================================================================================
