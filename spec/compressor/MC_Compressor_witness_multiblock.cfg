SPECIFICATION Spec
CONSTANTS
  W = 10
  B = 4
  Mutant = "none"
INVARIANTS
  NoMultiBlockObject
CHECK_DEADLOCK FALSE
