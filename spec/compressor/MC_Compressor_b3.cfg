SPECIFICATION Spec
CONSTANTS
  W = 15
  B = 3
  Mutant = "none"
INVARIANTS
  LayoutOK
  MechanismPacks
  MechanismConsequences
CHECK_DEADLOCK FALSE
