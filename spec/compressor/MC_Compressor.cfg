SPECIFICATION Spec
CONSTANTS
  W = 13
  B = 4
  Mutant = "none"
INVARIANTS
  LayoutOK
  MechanismPacks
  MechanismConsequences
  LinearAgrees
CHECK_DEADLOCK FALSE
