------------------------------ MODULE Trace_Compressor ------------------------------
(* Validates rows recorded from the real Compressor forwarding pipeline (driver d_policy           *)
(* compressor; hooks mmtk::verif::compressor_hooks) against Compressor. One row per object layout:  *)
(*   {"ev":"CF","src":..,"cursor":c,"objs":[[start,size],..],"fwd":[..],"nmarks":k,"remark":r}     *)
(* positions are word offsets from the region start; fwd[i] is what ForwardingMetadata::forward     *)
(* returned for the start of object i after calculate_offset_vector(region, cursor).               *)
(* Judged: the layout respects the generator's preconditions (otherwise the row is a tool error,    *)
(* reported like a rejection) and fwd satisfies Packs and its consequences. A "Crash" row (a panic  *)
(* inside the pipeline) matches nothing. For layouts that fit the small model (<= ModelWords words, *)
(* evaluated with the real block size) the mechanism model must also agree with the real code.     *)
EXTENDS Compressor, Json, IOUtils, TLC

Rec == ndJsonDeserialize(IOEnv.TRACE)
VARIABLE l

ModelWords == 200

RowOK(r) ==
    /\ r.ev = "CF"
    /\ WellFormed(r.objs, r.cursor)
    /\ PacksLinear(r.objs, r.fwd)
    /\ Consequences(r.objs, r.fwd)
    /\ (Len(r.objs) > 0 /\ Last(r.objs[Len(r.objs)]) < ModelWords /\ Len(r.objs) <= 6)
          => r.fwd = ModelForward(r.objs)

TInit == l = 1
TNext == /\ l <= Len(Rec)
         /\ IF RowOK(Rec[l]) THEN TRUE ELSE PrintT("ROW_REJECTED l=" \o ToString(l))
         /\ l' = l + 1
         /\ UNCHANGED objs
TraceSpec == TInit /\ objs = << >> /\ [][TNext]_<<l, objs>>

Accepted ==
    LET d == TLCGet("stats").diameter
    IN  IF d = Len(Rec) + 1 THEN TRUE
        ELSE /\ PrintT("TRACE_REJECTED matched=" \o ToString(d - 1) \o " of=" \o ToString(Len(Rec)))
             /\ FALSE
=====================================================================================
