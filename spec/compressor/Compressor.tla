--------------------------------- MODULE Compressor ---------------------------------
(* C37. Forwarding addresses of the Compressor (src/policy/compressor/forwarding.rs).              *)
(* A region is W words (word offsets 0..W-1 relative to the region start). A layout is a sequence  *)
(* of live objects <<start, size>> (words), sorted by address, pairwise disjoint, size >= 2.       *)
(*                                                                                                 *)
(* Mechanism modelled (one operator per piece of the code):                                        *)
(*   Marks            CompressorSpace::test_and_mark sets the bit of the first word,               *)
(*                    ForwardingMetadata::mark_last_word_of_object the bit of the last word        *)
(*   Visit            Transducer::visit_mark_bit                                                   *)
(*   Encode / Decode  Transducer::encode / decode (the in-object flag lives in the LSB; addresses  *)
(*                    are word aligned, here: value = 2 * word offset + flag)                      *)
(*   OffsetVector     ForwardingMetadata::calculate_offset_vector: one entry per block of B words  *)
(*                    (B = 64 in the code: 512 bytes) holding the encoded transducer state at the  *)
(*                    block start                                                                  *)
(*   Forward          ForwardingMetadata::forward: decode the block's entry, scan the mark bits    *)
(*                    from the block start up to the address                                       *)
(* Property (Packs): the forwarding address of each live object is the region start plus the total *)
(* size of the live objects before it. Consequences: order preserving, non overlapping, never      *)
(* above the original address.                                                                     *)
EXTENDS Naturals, Sequences, FiniteSets

CONSTANTS W,        \* words in the (prefix of the) region that is modelled
          B,        \* words per offset-vector block
          Mutant    \* "none" or the name of a deliberately broken mechanism (vacuity control)

Start(o) == o[1]
Size(o) == o[2]
Last(o) == o[1] + o[2] - 1          \* last word of the object

\* A well-formed layout within `limit` words (the generator's precondition).
WellFormed(objs, limit) ==
    /\ \A i \in 1..Len(objs) : Size(objs[i]) >= 2 /\ Last(objs[i]) < limit
    /\ \A i \in 1..(Len(objs) - 1) : Last(objs[i]) < Start(objs[i + 1])

\* ---- the property, declaratively ------------------------------------------------------------
RECURSIVE LiveBefore(_, _)
LiveBefore(objs, i) == IF i <= 1 THEN 0 ELSE LiveBefore(objs, i - 1) + Size(objs[i - 1])
\* fwd[i] is the forwarding address (word offset from the region start) computed for object i
Packs(objs, fwd) ==
    /\ Len(fwd) = Len(objs)
    /\ \A i \in 1..Len(objs) : fwd[i] = LiveBefore(objs, i)
\* the same in one linear pass (used on long recorded layouts)
RECURSIVE PacksFrom(_, _, _, _)
PacksFrom(objs, fwd, i, acc) ==
    IF i > Len(objs) THEN TRUE
    ELSE fwd[i] = acc /\ PacksFrom(objs, fwd, i + 1, acc + Size(objs[i]))
PacksLinear(objs, fwd) == Len(fwd) = Len(objs) /\ PacksFrom(objs, fwd, 1, 0)
\* the consequences named by the property
Consequences(objs, fwd) ==
    /\ \A i \in 1..Len(objs) : fwd[i] <= Start(objs[i])                          \* never above
    /\ \A i \in 1..(Len(objs) - 1) : fwd[i] + Size(objs[i]) <= fwd[i + 1]        \* ordered, disjoint

\* ---- the mechanism ---------------------------------------------------------------------------
\* the set mark bits in address order: first and last word of every live object
RECURSIVE MarksFrom(_, _)
MarksFrom(objs, i) ==
    IF i > Len(objs) THEN << >> ELSE <<Start(objs[i]), Last(objs[i])>> \o MarksFrom(objs, i + 1)
Marks(objs) == MarksFrom(objs, 1)

NewTransducer == [to |-> 0, last |-> 0, inobj |-> FALSE]
Visit(t, a) ==
    IF t.inobj
    THEN [to |-> t.to + (a - t.last) + (IF Mutant = "size_without_last_word" THEN 0 ELSE 1),
          last |-> a, inobj |-> FALSE]
    ELSE [to |-> t.to, last |-> a, inobj |-> TRUE]
Encode(t, pos) ==
    IF t.inobj
    THEN 2 * (t.to + (pos - t.last)) + (IF Mutant = "encode_drops_flag" THEN 0 ELSE 1)
    ELSE 2 * t.to
Decode(v, pos) ==
    [to |-> v \div 2, last |-> pos,
     inobj |-> IF Mutant = "decode_ignores_flag" THEN FALSE ELSE v % 2 = 1]

\* scan_non_zero_values over the words lo..hi-1: the set bits in that range, in ascending order,
\* are fed to the transducer (M is the ascending sequence of all set bits, i the next index)
RECURSIVE ScanFrom(_, _, _, _, _)
ScanFrom(t, M, i, lo, hi) ==
    IF i > Len(M) \/ M[i] >= hi THEN t
    ELSE IF M[i] < lo THEN ScanFrom(t, M, i + 1, lo, hi)
    ELSE ScanFrom(Visit(t, M[i]), M, i + 1, lo, hi)
Scan(t, M, lo, hi) == ScanFrom(t, M, 1, lo, hi)

\* transducer state at the start of block b (calculate_offset_vector keeps one running state)
RECURSIVE StateAtBlock(_, _)
StateAtBlock(M, b) == IF b = 0 THEN NewTransducer ELSE Scan(StateAtBlock(M, b - 1), M, (b - 1) * B, b * B)
OffsetVector(M, b) == Encode(StateAtBlock(M, b), b * B)

Forward(M, a) ==
    LET b == a \div B
    IN  Scan(Decode(OffsetVector(M, b), b * B), M, b * B, a).to

ModelForward(objs) ==
    LET M == Marks(objs) IN [i \in 1..Len(objs) |-> Forward(M, Start(objs[i]))]

\* ---- a state machine so that TLC enumerates every layout of W words -------------------------
VARIABLE objs
End == IF Len(objs) = 0 THEN 0 ELSE Last(objs[Len(objs)]) + 1
Init == objs = << >>
Extend == /\ End + 2 <= W
          /\ \E s \in End..(W - 2) : \E n \in 2..(W - s) : objs' = Append(objs, <<s, n>>)
Next == Extend
Spec == Init /\ [][Next]_objs

LayoutOK == WellFormed(objs, W)
MechanismPacks == Packs(objs, ModelForward(objs))
MechanismConsequences == Consequences(objs, ModelForward(objs))
LinearAgrees == PacksLinear(objs, ModelForward(objs)) = Packs(objs, ModelForward(objs))
\* coverage witnesses (negated: TLC must report them violated in the dedicated config)
NoMultiBlockObject == \A i \in 1..Len(objs) : Last(objs[i]) \div B - Start(objs[i]) \div B < 2
NoObjectEndingOnBlockEnd == \A i \in 1..Len(objs) : (Last(objs[i]) + 1) % B # 0
=====================================================================================
