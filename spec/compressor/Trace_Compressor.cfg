SPECIFICATION TraceSpec
CONSTANTS
  W = 0
  B = 64
  Mutant = "none"
POSTCONDITION Accepted
CHECK_DEADLOCK FALSE
