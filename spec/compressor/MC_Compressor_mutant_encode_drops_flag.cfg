SPECIFICATION Spec
CONSTANTS
  W = 10
  B = 4
  Mutant = "encode_drops_flag"
INVARIANTS
  MechanismPacks
CHECK_DEADLOCK FALSE
