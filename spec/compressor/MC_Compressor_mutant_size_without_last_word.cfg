SPECIFICATION Spec
CONSTANTS
  W = 10
  B = 4
  Mutant = "size_without_last_word"
INVARIANTS
  MechanismPacks
CHECK_DEADLOCK FALSE
