SPECIFICATION Spec
CONSTANTS
  W = 10
  B = 4
  Mutant = "none"
INVARIANTS
  NoObjectEndingOnBlockEnd
CHECK_DEADLOCK FALSE
