SPECIFICATION Spec
CONSTANTS
  W = 10
  B = 4
  Mutant = "decode_ignores_flag"
INVARIANTS
  MechanismPacks
CHECK_DEADLOCK FALSE
