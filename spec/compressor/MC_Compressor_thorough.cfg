SPECIFICATION Spec
CONSTANTS
  W = 17
  B = 4
  Mutant = "none"
INVARIANTS
  LayoutOK
  MechanismPacks
  MechanismConsequences
CHECK_DEADLOCK FALSE
