\* Vacuity control: a "grouping" that closes a run one item early must violate the property.
SPECIFICATION Spec
CONSTANTS
  Sym = {0, 1, 2}
  MaxLen = 4
  Groups <- BrokenGroups
INVARIANTS
  ConstructiveMeetsProperty
CHECK_DEADLOCK FALSE
