SPECIFICATION TraceSpec
CONSTANTS
  Sym = {0}
  MaxLen = 0
POSTCONDITION Accepted
CHECK_DEADLOCK FALSE
