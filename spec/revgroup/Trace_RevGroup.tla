------------------------------ MODULE Trace_RevGroup ------------------------------
(* Validates rows recorded from the real `revisitable_group_by` (hook `verif_groups`) against      *)
(* RevGroup. One row per call:                                                                     *)
(*   {"ev":"RG","vals":[..],"keys":[..],"mode":m,"groups":[{"k":..,"len":..,"items":[..],"c":b}]}  *)
(* `c` tells whether the harness iterated the group (then `items` must be exactly the input slice). *)
EXTENDS RevGroup, Json, IOUtils, TLC

Rec == ndJsonDeserialize(IOEnv.TRACE)
VARIABLE l

RowOK(r) ==
    LET gs == [i \in 1..Len(r.groups) |-> [k |-> r.groups[i].k, len |-> r.groups[i].len]]
    IN  /\ Len(r.vals) = Len(r.keys)
        /\ IsRunPartition(r.keys, gs)
        /\ gs = Groups(r.keys)
        /\ \A i \in 1..Len(gs) :
             r.groups[i].c =>
               r.groups[i].items = SubSeq(r.vals, Start(gs, i), Start(gs, i) + gs[i].len - 1)

TInit == l = 1
TNext == /\ l <= Len(Rec)
         /\ IF RowOK(Rec[l]) THEN TRUE ELSE PrintT("ROW_REJECTED l=" \o ToString(l))
         /\ l' = l + 1
         /\ UNCHANGED ks
TraceSpec == TInit /\ ks = << >> /\ [][TNext]_<<l, ks>>

Accepted ==
    LET d == TLCGet("stats").diameter
    IN  IF d = Len(Rec) + 1 THEN TRUE
        ELSE /\ PrintT("TRACE_REJECTED matched=" \o ToString(d - 1) \o " of=" \o ToString(Len(Rec))
                       \o " first_unmatched=" \o ToString(Rec[d]))
             /\ FALSE
=====================================================================================
