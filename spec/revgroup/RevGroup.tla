--------------------------------- MODULE RevGroup ---------------------------------
(* C40. `revisitable_group_by` (src/util/rust_util/rev_group.rs): an input sequence with a key    *)
(* per item is partitioned into maximal runs of equal keys. Two formulations are given and TLC     *)
(* checks that they coincide: the declarative property of the listed requirement                  *)
(* (IsRunPartition) and the constructive definition (Groups).                                     *)
EXTENDS Naturals, Sequences, FiniteSets

\* A grouping is a sequence of records [k |-> key, len |-> reported length]. Group i covers the
\* input positions Start(gs,i) .. Start(gs,i)+gs[i].len-1.
RECURSIVE SumLen(_, _)
SumLen(gs, n) == IF n = 0 THEN 0 ELSE SumLen(gs, n - 1) + gs[n].len
Start(gs, i) == SumLen(gs, i - 1) + 1

\* The property of C40, stated on positions:
\*  (1) groups concatenate to the input, (2) each group is non-empty and all its items have the
\*  reported key, (3) adjacent groups have different keys.
IsRunPartition(keys, gs) ==
    /\ SumLen(gs, Len(gs)) = Len(keys)
    /\ \A i \in 1..Len(gs) :
         /\ gs[i].len >= 1
         /\ \A p \in Start(gs, i)..(Start(gs, i) + gs[i].len - 1) :
              p <= Len(keys) /\ keys[p] = gs[i].k
    /\ \A i \in 1..(Len(gs) - 1) : gs[i].k # gs[i + 1].k

\* Constructive definition: scan left to right, closing a run when the key changes.
RECURSIVE RunEnd(_, _)
RunEnd(keys, i) == IF i < Len(keys) /\ keys[i + 1] = keys[i] THEN RunEnd(keys, i + 1) ELSE i
RECURSIVE GroupsFrom(_, _)
GroupsFrom(keys, i) ==
    IF i > Len(keys) THEN << >>
    ELSE LET e == RunEnd(keys, i)
         IN  << [k |-> keys[i], len |-> e - i + 1] >> \o GroupsFrom(keys, e + 1)
Groups(keys) == GroupsFrom(keys, 1)

\* ---- a small state machine so that TLC enumerates all key sequences up to MaxLen --------------
CONSTANTS Sym, MaxLen
VARIABLE ks
Init == ks = << >>
Extend == /\ Len(ks) < MaxLen
          /\ \E s \in Sym : ks' = Append(ks, s)
Next == Extend
Spec == Init /\ [][Next]_ks

ConstructiveMeetsProperty == IsRunPartition(ks, Groups(ks))

\* Uniqueness: every grouping with the property equals Groups(ks). Candidates: all compositions of
\* Len(ks) into positive lengths with keys taken from the first item of each part.
Compositions(n) ==
    LET cuts == SUBSET (1..(n - 1))   \* cut after position c
        RECURSIVE Build(_, _, _)
        Build(c, from, p) == IF p > n THEN << >>
                             ELSE IF p = n \/ p \in c
                                  THEN << p - from + 1 >> \o Build(c, p + 1, p + 1)
                                  ELSE Build(c, from, p + 1)
    IN  IF n = 0 THEN { << >> } ELSE { Build(c, 1, 1) : c \in cuts }
RECURSIVE SumSeq(_, _)
SumSeq(s, n) == IF n = 0 THEN 0 ELSE SumSeq(s, n - 1) + s[n]
Unique ==
    \A lens \in Compositions(Len(ks)) :
        LET gs == [i \in 1..Len(lens) |-> [k |-> ks[SumSeq(lens, i - 1) + 1], len |-> lens[i]]]
        IN  IsRunPartition(ks, gs) => gs = Groups(ks)
RECURSIVE BrokenFrom(_, _)
BrokenFrom(keys, i) ==
    IF i > Len(keys) THEN << >>
    ELSE LET e == IF RunEnd(keys, i) > i THEN RunEnd(keys, i) - 1 ELSE i
         IN  << [k |-> keys[i], len |-> e - i + 1] >> \o BrokenFrom(keys, e + 1)
BrokenGroups(keys) == BrokenFrom(keys, 1)
=====================================================================================
