SPECIFICATION Spec
CONSTANTS
  Sym = {0, 1, 2}
  MaxLen = 7
INVARIANTS
  ConstructiveMeetsProperty
  Unique
CHECK_DEADLOCK FALSE
