\* Vacuity control: with the mechanism "flip_keeps_nurseries" broken the property must fail.
SPECIFICATION Spec
CONSTANTS
  Objs = {1, 2, 3}
  Mutant = "flip_keeps_nurseries"
INVARIANTS
  InvPartition
  InvPhases
  InvAccounting
  InvSweepExact
CHECK_DEADLOCK FALSE
