SPECIFICATION Spec
CONSTANTS
  Objs = {1, 2, 3, 4}
  Mutant = "none"
INVARIANTS
  TypeOK
  InvPartition
  InvPhases
  InvAccounting
  InvSweepExact
PROPERTIES
  SweptOnce
CHECK_DEADLOCK FALSE
