------------------------------ MODULE Trace_Treadmill ------------------------------
(* Validates the calls recorded from the real TreadMill (driver d_policy treadmill) against       *)
(* Treadmill. The trace file is a TREE of histories sharing their prefixes: line 1 is the root,    *)
(* every other line is one treadmill call; "kid" = line of the first child, "sib" = line of the    *)
(* next sibling (0 = none). TLC walks the tree: from the state reached at line l it steps to each  *)
(* child c of l, checks that the call of line c is enabled in the specification (LOS protocol),    *)
(* computes the specification's successor state and compares it with what the real treadmill       *)
(* reported (the four sets, the returned objects, the enumerations, the emptiness queries), and    *)
(* evaluates the C36 predicates on the new state. A line that fails prints ROW_REJECTED; its       *)
(* subtree is then walked without judging (the history is already lost).                           *)
EXTENDS Treadmill, Json, IOUtils, TLC

Rec == ndJsonDeserialize(IOEnv.TRACE)
VARIABLES l, failed

ToSet(seq) == {seq[i] : i \in 1..Len(seq)}
NoDup(seq) == Cardinality(ToSet(seq)) = Len(seq)

RECURSIVE KidsFrom(_)
KidsFrom(c) == IF c = 0 THEN {} ELSE {c} \cup KidsFrom(Rec[c].sib)
Kids(n) == KidsFrom(Rec[n].kid)

\* is the call of row r enabled in state s?
Pre(s, r) ==
    CASE r.ev = "Add" -> AddPre(s, r.o, r.n)
      [] r.ev = "Flip" -> FlipPre(s, r.full)
      [] r.ev = "Copy" -> CopyPre(s, r.o, r.n)
      [] r.ev = "CollectNursery" -> CollectNurseryPre(s)
      [] r.ev = "CollectMature" -> CollectMaturePre(s)
      [] OTHER -> FALSE                     \* Crash rows (a panic of the treadmill) match nothing
Post(s, r) ==
    CASE r.ev = "Add" -> AddPost(s, r.o, r.n)
      [] r.ev = "Flip" -> FlipPost(s, r.full)
      [] r.ev = "Copy" -> CopyPost(s, r.o, r.n)
      [] r.ev = "CollectNursery" -> CollectNurseryPost(s)
      [] r.ev = "CollectMature" -> CollectMaturePost(s)
      [] OTHER -> s
\* does what the implementation reported agree with the specification's successor state t?
Reported(s, t, r) ==
    /\ <<ToSet(r.sets[1]), ToSet(r.sets[2]), ToSet(r.sets[3]), ToSet(r.sets[4])>> = Sets(t)
    /\ \A i \in 1..4 : NoDup(r.sets[i])
    \* the sweep hands out exactly the collected set, each object once
    /\ r.ev = "CollectNursery" => (NoDup(r.ret) /\ ToSet(r.ret) = CollectNurseryRet(s))
    /\ r.ev = "CollectMature" => (NoDup(r.ret) /\ ToSet(r.ret) = CollectMatureRet(s))
    \* enumerate_objects(false) = allocation nursery + to-space, (true) = everything, each once
    /\ NoDup(r.e0) /\ ToSet(r.e0) = t.an \cup t.to
    /\ NoDup(r.e1) /\ ToSet(r.e1) = t.tracked
    /\ r.emp = <<t.from = {}, t.to = {}, t.cn = {}, t.an = {}>>

StepOK(s, r) == Pre(s, r) /\ Reported(s, Post(s, r), r) /\ Good(Post(s, r))

TInit == l = 1 /\ failed = FALSE /\ st = InitState
TNext ==
    \E c \in Kids(l) :
        /\ l' = c
        /\ IF failed THEN UNCHANGED <<st, failed>>
           ELSE IF StepOK(st, Rec[c])
                THEN st' = Post(st, Rec[c]) /\ failed' = FALSE
                ELSE /\ PrintT("ROW_REJECTED l=" \o ToString(c))
                     /\ failed' = TRUE
                     /\ UNCHANGED st
TraceSpec == TInit /\ [][TNext]_<<l, failed, st>>

\* Every line of the file must have been visited (the tree links are consistent).
Accepted ==
    LET d == TLCGet("stats").distinct
    IN  IF d = Len(Rec) THEN TRUE
        ELSE /\ PrintT("TRACE_REJECTED visited=" \o ToString(d) \o " of=" \o ToString(Len(Rec))
                       \o " (tree links of the trace file are broken)")
             /\ FALSE
=====================================================================================
