\* Vacuity control: with the mechanism "sweep_to_space" broken the property must fail.
SPECIFICATION Spec
CONSTANTS
  Objs = {1, 2, 3}
  Mutant = "sweep_to_space"
INVARIANTS
  InvPartition
  InvPhases
  InvAccounting
  InvSweepExact
CHECK_DEADLOCK FALSE
