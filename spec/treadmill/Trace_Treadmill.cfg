SPECIFICATION TraceSpec
CONSTANTS
  Objs = {}
  Mutant = "none"
POSTCONDITION Accepted
CHECK_DEADLOCK FALSE
