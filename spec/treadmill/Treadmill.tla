--------------------------------- MODULE Treadmill ---------------------------------
(* C36. The large-object treadmill (src/util/treadmill.rs) as LargeObjectSpace drives it           *)
(* (src/policy/largeobjectspace.rs). Four sets of objects:                                         *)
(*   from  from_space        old objects of unknown liveness (only during a full-heap GC)          *)
(*   to    to_space          old objects (mutator time) / objects found live (GC)                  *)
(*   cn    collect_nursery   young objects of unknown liveness (only during a GC)                  *)
(*   an    alloc_nursery     young objects (only in mutator time)                                  *)
(* One action per treadmill call. The LOS protocol is the guard of each action:                    *)
(*   Add(o,TRUE)      initialize_object_metadata, allocate_as_live = FALSE  (mutator time)         *)
(*   Add(o,FALSE)     initialize_object_metadata, allocate_as_live = TRUE   (only while a          *)
(*                    concurrent full-heap marking is in progress: ConcurrentImmix)                *)
(*   Flip(full)       prepare(full_heap)                                                           *)
(*   Copy(o,inN)      trace_object: first visit of o in this GC; inN = o's nursery bit; a nursery  *)
(*                    GC traces young objects only                                                 *)
(*   CollectNursery   release, first half:  sweep_large_pages(true)                                *)
(*   CollectMature    release(full), second half: sweep_large_pages(false)                         *)
(* The whole state is one record so that the same operators serve the model checker (Next below)   *)
(* and the trace validator (Trace_Treadmill).                                                      *)
(* Ghost fields: tracked (allocated and not yet swept), marked (visited in the current/last GC),   *)
(* snapN/snapF (collect sets right after the flip), sweptN/sweptM (what the sweeps returned).      *)
EXTENDS Naturals, FiniteSets, Sequences

CONSTANTS Objs,     \* object identities of the model
          Mutant    \* "none" or the name of a deliberately broken mechanism (vacuity control)

InitState ==
    [from |-> {}, to |-> {}, cn |-> {}, an |-> {}, gc |-> "none", marked |-> {},
     snapN |-> {}, snapF |-> {}, tracked |-> {}, sweptN |-> {}, sweptM |-> {}]

---------------------------------------------------------------------------------------
\* add_to_treadmill(o, nursery)
AddPre(s, o, nursery) ==
    /\ o \notin s.tracked
    /\ IF nursery THEN s.gc = "none" ELSE s.gc = "full"
AddPost(s, o, nursery) ==
    IF nursery THEN [s EXCEPT !.an = @ \cup {o}, !.tracked = @ \cup {o}]
               ELSE [s EXCEPT !.to = @ \cup {o}, !.tracked = @ \cup {o}]

\* flip(full)
FlipPre(s, full) == s.gc = "none"
FlipPost(s, full) ==
    LET an1 == IF Mutant = "flip_keeps_nurseries" THEN s.an ELSE s.cn
        cn1 == IF Mutant = "flip_keeps_nurseries" THEN s.cn ELSE s.an
        fr1 == IF full THEN s.to ELSE s.from
        to1 == IF full THEN s.from ELSE s.to
    IN  [s EXCEPT !.an = an1, !.cn = cn1, !.from = fr1, !.to = to1,
                  !.gc = IF full THEN "full" ELSE "nursery",
                  !.marked = {}, !.snapN = cn1, !.snapF = IF full THEN fr1 ELSE {},
                  !.sweptN = {}, !.sweptM = {}]

\* copy(o, is_in_nursery)
CopyPre(s, o, inN) ==
    /\ s.gc \in {"nursery", "full"}
    /\ IF inN THEN o \in s.cn ELSE (o \in s.from /\ s.gc = "full")
CopyPost(s, o, inN) ==
    LET wrong == Mutant = "copy_removes_from_other_set"
        fromN == IF wrong THEN ~inN ELSE inN
    IN  [s EXCEPT !.cn = IF fromN THEN @ \ {o} ELSE @,
                  !.from = IF fromN THEN @ ELSE @ \ {o},
                  !.to = @ \cup {o}, !.marked = @ \cup {o}]

\* collect_nursery() returns and empties the collection nursery
CollectNurseryPre(s) == s.gc \in {"nursery", "full"}
CollectNurseryRet(s) == s.cn
CollectNurseryPost(s) ==
    [s EXCEPT !.cn = {}, !.tracked = @ \ s.cn, !.sweptN = s.cn,
              !.gc = IF s.gc = "full" THEN "fullM" ELSE "none"]

\* collect_mature() returns and empties the from-space
CollectMaturePre(s) == s.gc = "fullM"
CollectMatureRet(s) == IF Mutant = "sweep_to_space" THEN s.to ELSE s.from
CollectMaturePost(s) ==
    LET r == CollectMatureRet(s)
    IN  IF Mutant = "sweep_to_space"
        THEN [s EXCEPT !.to = {}, !.tracked = @ \ r, !.sweptM = r, !.gc = "none"]
        ELSE [s EXCEPT !.from = {}, !.tracked = @ \ r, !.sweptM = r, !.gc = "none"]

---------------------------------------------------------------------------------------
\* The property (C36), as predicates on a state.
Sets(s) == <<s.from, s.to, s.cn, s.an>>

\* every tracked object is in exactly one set; nothing else is in any set
Partition(s) ==
    /\ \A i, j \in 1..4 : i < j => Sets(s)[i] \cap Sets(s)[j] = {}
    /\ s.from \cup s.to \cup s.cn \cup s.an = s.tracked

\* outside a GC the collect sets are empty; inside a GC the allocation nursery is
MutatorTime(s) == s.gc = "none" => (s.cn = {} /\ s.from = {})
GCTime(s) == s.gc # "none" => s.an = {}
NurseryGCKeepsMature(s) == s.gc = "nursery" => s.from = {}

\* while tracing: what is still in a collect set is exactly what has not been marked, and
\* everything marked is in the to-space
Accounting(s) ==
    /\ s.marked \subseteq s.to
    /\ s.gc \in {"nursery", "full"} => s.cn = s.snapN \ s.marked
    /\ s.gc \in {"full", "fullM"} => s.from = s.snapF \ s.marked

\* a finished GC swept exactly the unmarked objects of the collected sets, kept every marked one
SweepExact(s) ==
    /\ s.gc \in {"fullM", "none"} => s.sweptN = s.snapN \ s.marked
    /\ s.gc = "none" => s.sweptM = s.snapF \ s.marked
    /\ s.gc = "none" => s.marked \subseteq s.to
    /\ s.gc = "none" => (s.snapN \cup s.snapF) \cap s.marked \subseteq s.tracked

Good(s) == /\ Partition(s) /\ MutatorTime(s) /\ GCTime(s) /\ NurseryGCKeepsMature(s)
           /\ Accounting(s) /\ SweepExact(s)

---------------------------------------------------------------------------------------
\* State machine for the model checker: all histories consistent with the LOS protocol.
VARIABLE st

Init == st = InitState
Add == /\ st.gc \in {"none", "full"}
       /\ \E o \in Objs, n \in BOOLEAN : AddPre(st, o, n) /\ st' = AddPost(st, o, n)
Flip == /\ st.gc = "none"
        /\ \E full \in BOOLEAN : FlipPre(st, full) /\ st' = FlipPost(st, full)
Copy == /\ st.gc \in {"nursery", "full"}
        /\ \E o \in Objs, n \in BOOLEAN : CopyPre(st, o, n) /\ st' = CopyPost(st, o, n)
CollectNursery == CollectNurseryPre(st) /\ st' = CollectNurseryPost(st)
CollectMature == CollectMaturePre(st) /\ st' = CollectMaturePost(st)
Next == Add \/ Flip \/ Copy \/ CollectNursery \/ CollectMature
Spec == Init /\ [][Next]_st

TypeOK ==
    /\ st.from \subseteq Objs /\ st.to \subseteq Objs /\ st.cn \subseteq Objs /\ st.an \subseteq Objs
    /\ st.gc \in {"none", "nursery", "full", "fullM"}
    /\ st.tracked \subseteq Objs /\ st.marked \subseteq Objs
InvPartition == Partition(st)
InvPhases == MutatorTime(st) /\ GCTime(st) /\ NurseryGCKeepsMature(st)
InvAccounting == Accounting(st)
InvSweepExact == SweepExact(st)
\* a swept object leaves every set at the sweep, exactly once (it is not tracked afterwards)
SweptOnce == [][ (st'.sweptN # st.sweptN => st'.sweptN \cap st'.tracked = {})
              /\ (st'.sweptM # st.sweptM => st'.sweptM \cap st'.tracked = {}) ]_st
=====================================================================================
