\* Vacuity control: with the mechanism "copy_removes_from_other_set" broken the property must fail.
SPECIFICATION Spec
CONSTANTS
  Objs = {1, 2, 3}
  Mutant = "copy_removes_from_other_set"
INVARIANTS
  InvPartition
  InvPhases
  InvAccounting
  InvSweepExact
CHECK_DEADLOCK FALSE
