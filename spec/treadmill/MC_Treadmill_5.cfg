SPECIFICATION Spec
CONSTANTS
  Objs = {1, 2, 3, 4, 5}
  Mutant = "none"
INVARIANTS
  TypeOK
  InvPartition
  InvPhases
  InvAccounting
  InvSweepExact
PROPERTIES
  SweptOnce
CHECK_DEADLOCK FALSE
