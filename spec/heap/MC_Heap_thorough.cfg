SPECIFICATION Spec
CONSTANTS
  Ids = {1, 2, 3}
  Cells = 5
  NRoots = 2
  NonMoving = {3}
  Mutant = "none"
INVARIANTS GraphPreserved NoOverlap NonMovingStay
CHECK_DEADLOCK FALSE
