SPECIFICATION Spec
CONSTANTS
  Ids = {1, 2}
  Cells = 4
  NRoots = 2
  NonMoving = {2}
  Mutant = "move_pinned"
INVARIANTS GraphPreserved NoOverlap NonMovingStay
CHECK_DEADLOCK FALSE
