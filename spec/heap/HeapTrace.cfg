SPECIFICATION TraceSpec
POSTCONDITION Accepted
INVARIANT StatsPrinted
CHECK_DEADLOCK FALSE
