----------------------------------- MODULE Heap -----------------------------------
(* Design-level model behind C01, C02 and C04: a mutator program (allocate, write a field, set a    *)
(* root) over an abstract object graph (identities) running on a concrete memory image (addresses),  *)
(* and a relocating collector. The collector is specified by what it must establish:                 *)
(*   - it keeps exactly the objects reachable from the roots (floating garbage allowed),             *)
(*   - places them at pairwise disjoint intervals (moving any subset of the movable ones),           *)
(*   - rewrites every root and every field to the new address of the same referent.                  *)
(* The invariants are the ones HeapTrace.tla evaluates on recorded collections of the real MMTk:     *)
(* the graph walked from the concrete roots through concrete addresses is the abstract reachable     *)
(* graph (GraphPreserved), live intervals are disjoint (NoOverlap), non-moving objects stay          *)
(* (NonMovingStay). Mutant collectors/allocators (constant Mutant) must violate them.                *)
EXTENDS Naturals, Integers, Sequences, FiniteSets, TLC

CONSTANTS Ids,        \* object identities, e.g. 1..3
          Cells,      \* number of memory cells (addresses 1..Cells)
          NRoots,     \* number of root slots
          NonMoving,  \* subset of Ids allocated with a non-moving semantics
          Mutant      \* "none" | "stale_slot" | "drop_reachable" | "merge" | "alloc_overlap" | "move_pinned"

Null == 0
Addr == 1..Cells
SizeOf(id) == IF id % 2 = 0 THEN 2 ELSE 1          \* two size classes
NF == 1                                            \* one reference field per object

VARIABLES
    aobj,    \* abstract: id -> field value (id or Null), for allocated ids
    aroots,  \* abstract: root slot -> id or Null
    cobj,    \* concrete: set of records [a, id, f] (f: address or Null) currently in memory
    croots,  \* concrete: root slot -> address or Null
    home     \* id -> address at allocation (for NonMovingStay)
vars == <<aobj, aroots, cobj, croots, home>>

Ivl(a, id) == a..(a + SizeOf(id) - 1)
At(a) == CHOOSE o \in cobj : o.a = a
Placed(a) == \E o \in cobj : o.a = a

RECURSIVE AReach(_)
AReach(S) == LET N == S \cup ({aobj[o] : o \in S} \ {Null}) IN IF N = S THEN S ELSE AReach(N)
AbstractReach == AReach({aroots[i] : i \in 1..NRoots} \ {Null})

RECURSIVE CReach(_)
CReach(S) == LET N == S \cup ({At(a).f : a \in {x \in S : Placed(x)}} \ {Null})
             IN  IF N = S THEN S ELSE CReach(N)
RootAddrs == {croots[i] : i \in 1..NRoots} \ {Null}
Dangling == \E a \in RootAddrs : ~Placed(a)
ConcreteReach == CReach(RootAddrs)

Init == /\ aobj = << >> /\ aroots = [i \in 1..NRoots |-> Null]
        /\ cobj = {} /\ croots = [i \in 1..NRoots |-> Null] /\ home = << >>

Free(a, id) == /\ a + SizeOf(id) - 1 <= Cells
               /\ \A o \in cobj : Ivl(o.a, o.id) \cap Ivl(a, id) = {}

Alloc(id, a, r) ==
    /\ id \notin DOMAIN aobj
    /\ IF Mutant = "alloc_overlap" THEN a + SizeOf(id) - 1 <= Cells /\ ~Placed(a) ELSE Free(a, id)
    /\ aobj' = (id :> Null) @@ aobj
    /\ cobj' = cobj \cup {[a |-> a, id |-> id, f |-> Null]}
    /\ aroots' = [aroots EXCEPT ![r] = id]
    /\ croots' = [croots EXCEPT ![r] = a]
    /\ home' = (id :> a) @@ home

Write(r1, r2) ==
    /\ aroots[r1] # Null
    /\ aobj' = [aobj EXCEPT ![aroots[r1]] = aroots[r2]]
    /\ cobj' = (cobj \ {At(croots[r1])}) \cup {[At(croots[r1]) EXCEPT !.f = croots[r2]]}
    /\ UNCHANGED <<aroots, croots, home>>

Load(r1, r2) ==
    /\ aroots[r1] # Null
    /\ aroots' = [aroots EXCEPT ![r2] = aobj[aroots[r1]]]
    /\ croots' = [croots EXCEPT ![r2] = At(croots[r1]).f]
    /\ UNCHANGED <<aobj, cobj, home>>

Drop(r) == /\ aroots' = [aroots EXCEPT ![r] = Null] /\ croots' = [croots EXCEPT ![r] = Null]
           /\ UNCHANGED <<aobj, cobj, home>>

\* A collection: choose the survivors (all reachable objects plus any floating garbage) and an
\* injective, non-overlapping placement; non-moving objects keep their address.
Placements(S) ==
    { p \in [S -> Addr] :
        /\ \A a \in S : p[a] + SizeOf(At(a).id) - 1 <= Cells
        /\ \A a \in S : At(a).id \in NonMoving /\ Mutant # "move_pinned" => p[a] = a
        /\ \A a, b \in S : a # b =>
             IF Mutant = "merge" THEN TRUE
             ELSE Ivl(p[a], At(a).id) \cap Ivl(p[b], At(b).id) = {} }
GC ==
    /\ ~Dangling
    /\ \E keep \in SUBSET {o.a : o \in cobj} :
         /\ IF Mutant = "drop_reachable"
            THEN Cardinality(ConcreteReach \ keep) <= 1       \* may lose one reachable object
            ELSE ConcreteReach \subseteq keep
         /\ \E p \in Placements(keep) :
              LET fwd(a) == IF a = Null THEN Null ELSE IF a \in keep THEN p[a] ELSE a IN
              /\ \E stale \in (IF Mutant = "stale_slot" THEN keep \cup {Null} ELSE {Null}) :
                   cobj' = { [a |-> p[a], id |-> At(a).id,
                              f |-> IF a = stale THEN At(a).f ELSE fwd(At(a).f)] : a \in keep }
              /\ croots' = [i \in 1..NRoots |-> fwd(croots[i])]
    /\ UNCHANGED <<aobj, aroots, home>>

Next == \/ \E id \in Ids, a \in Addr, r \in 1..NRoots : Alloc(id, a, r)
        \/ \E r1, r2 \in 1..NRoots : Write(r1, r2) \/ Load(r1, r2)
        \/ \E r \in 1..NRoots : Drop(r)
        \/ GC
Spec == Init /\ [][Next]_vars

\* ---- the properties (same formulas as HeapTrace!GCEndOK, on the state) ------------------------
IdAt(a) == IF a = Null THEN Null ELSE IF Placed(a) THEN At(a).id ELSE -1
GraphPreserved ==
    /\ ~Dangling
    /\ \A a \in ConcreteReach : Placed(a)
    /\ \A i \in 1..NRoots : IdAt(croots[i]) = aroots[i]                       \* every root
    /\ {At(a).id : a \in ConcreteReach} = AbstractReach                          \* same objects
    /\ Cardinality(ConcreteReach) = Cardinality(AbstractReach)                  \* identity
    /\ \A a \in ConcreteReach : IdAt(At(a).f) = aobj[At(a).id]                 \* every field
NoOverlap == \A o1, o2 \in cobj : o1 # o2 /\ o1.a \in ConcreteReach /\ o2.a \in ConcreteReach
                                    => Ivl(o1.a, o1.id) \cap Ivl(o2.a, o2.id) = {}
NonMovingStay == \A a \in ConcreteReach : Placed(a) /\ At(a).id \in NonMoving => a = home[At(a).id]
=====================================================================================
