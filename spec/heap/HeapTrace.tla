--------------------------------- MODULE HeapTrace ---------------------------------
(* Whole-system heap model driven by recorded events (DESIGN.md section 5, group A).               *)
(* The abstract state is what the mutator program knows: objects by identity (id), their           *)
(* reference fields, sizes, payload hashes, allocation semantics, the root slots, and the          *)
(* addresses MMTk handed out. Every event recorded from a real run (gcdrive + ShadowVM) is one     *)
(* action; its guard says what the properties C01, C02, C03, C04 (and the VO-bit part of C07)      *)
(* require of that step. Guards are tagged with the property they belong to.                       *)
(*                                                                                                 *)
(* Events (fields as logged by harness/gcdrive and harness/shadowvm):                              *)
(*   Boot, Reset, Alloc, Write, Load, SetRoot, Bind, Destroy, Pin, Unpin, GCEnd (walker report)    *)
(* All other events are consumed without constraint here (they belong to other specifications).    *)
EXTENDS Naturals, Integers, Sequences, FiniteSets, TLC, Json, IOUtils

Rec == ndJsonDeserialize(IOEnv.TRACE)

VARIABLES
    l,        \* next line of the trace
    cfg,      \* the Boot record (plan, variant, moves, ...)
    objs,     \* id -> [sz, nf, k, sem, h, f, a]   (f: sequence of ids, 0 = null; a: projected ref)
    roots,    \* slot name -> id (non-null slots only)
    ivl,      \* id -> <<lo, hi>> word interval of every object whose placement is known
              \*       (reachable at the last GC, or allocated since)
    imm,      \* id -> [a, h] objects of never-collected spaces (re-read at every GC)
    pinned,   \* set of ids pinned through pin_object
    bound,    \* set of bound mutators
    failed,   \* a guard failed in the current program: skip to the next Reset
    aux,      \* [exh: the next GCEnd answers an exhaustive user request; grid: inside the C03 argument
              \*  grid; lastUsed: used pages at the end of the previous C09 cycle (-1: none); oom: OOM count]
    stats,    \* counters for evidence (not constrained)
    ext       \* extension point: a record owned by modules that EXTEND this one (Trace_RefProc,
              \* Trace_GenRemset, ...). HeapTrace only reads ext.keep (ids whose model entry must
              \* survive a collection although they are not reachable from the roots, e.g. referents
              \* of registered weak references, finalizable objects); no action of this module
              \* constrains ext' - TNext does (UNCHANGED), extensions define their own next-state.

vars == <<l, cfg, objs, roots, ivl, imm, pinned, bound, failed, aux, stats, ext>>

Null == 0

\* ---- helpers -------------------------------------------------------------------------------
RefOffW == IF cfg.variant % 2 = 1 THEN 0 ELSE 1          \* ObjectReference = start + RefOffW words
NeverCollectedSem == {1, 3, 4, 5}                         \* Immortal, Code, ReadOnly, LargeCode
NeverMovedSem == {1, 2, 3, 4, 5, 6}                       \* + Los, NonMoving
IsNoGC == cfg.plan = "NoGC"

Fail(tag) == PrintT("ROW_REJECTED l=" \o ToString(l) \o " tag=" \o tag)
G(tag, cond) == IF cond THEN TRUE ELSE Fail(tag) /\ FALSE

\* Addresses are pairs <<addr >> 32, (addr & 0xffffffff) >> 3>> (TLC integers are 32-bit): ordered
\* lexicographically; word counts are added with carry into the high part.
LoLimit == 536870912                                       \* 2^29 words = 4 GB
NullA == <<0, 0>>
AddW(p, w) == IF p[2] + w < LoLimit THEN <<p[1], p[2] + w>> ELSE <<p[1] + 1, p[2] + w - LoLimit>>
SubW(p, w) == IF p[2] >= w THEN <<p[1], p[2] - w>> ELSE <<p[1] - 1, p[2] + LoLimit - w>>
LE(p, q) == p[1] < q[1] \/ (p[1] = q[1] /\ p[2] <= q[2])
Ivl(start, bytes) == <<start, AddW(start, bytes \div 8)>>
Disjoint(x, y) == LE(x[2], y[1]) \/ LE(y[2], x[1])

RECURSIVE Closure(_, _)
Closure(S, F) ==
    LET N == S \cup UNION { { F[o].f[k] : k \in DOMAIN F[o].f } \ {Null} : o \in S }
    IN  IF N = S THEN S ELSE Closure(N, F)
Reach == Closure({ roots[s] : s \in DOMAIN roots }, objs)

Bump(key) == [stats EXCEPT ![key] = @ + 1]

\* ---- actions -------------------------------------------------------------------------------
DoBoot(e) ==
    /\ cfg' = e
    /\ UNCHANGED <<objs, roots, ivl, imm, pinned, bound, failed, aux, stats>>

DoReset(e) ==
    /\ roots' = << >>
    /\ pinned' = {}
    /\ objs' = [id \in DOMAIN imm |-> objs[id]]
    /\ ivl' = IF failed THEN [id \in DOMAIN imm |-> ivl[id]] ELSE ivl
    /\ failed' = FALSE
    /\ stats' = Bump("programs")
    /\ aux' = [aux EXCEPT !.exh = FALSE, !.grid = FALSE]
    /\ UNCHANGED <<cfg, imm, bound>>

\* C03: the space each plan maps a semantics to (names as the spaces report them). The driver logs
\* the space the SFT map resolves the returned address to (first and last word) and, through an
\* independent path, the space bound to the allocator the mutator uses for the semantics.
DefaultSpace(plan) ==
    CASE plan = "NoGC" -> {"nogc_space"}
      [] plan = "SemiSpace" -> {"copyspace0", "copyspace1"}
      [] plan \in {"GenCopy", "GenImmix"} -> {"nursery"}
      [] plan = "MarkSweep" -> {"ms", "MallocSpace"}
      [] plan = "PageProtect" -> {"pageprotect"}
      [] plan \in {"Immix", "StickyImmix", "ConcurrentImmix"} -> {"immix"}
      [] plan = "MarkCompact" -> {"mc"}
      [] plan = "Compressor" -> {"compressor_space"}
      [] OTHER -> {}
SpaceFor(plan, sem) ==
    IF plan = "NoGC" THEN {"nogc_space", "immortal", "los", "nonmoving"}
    ELSE CASE sem = 0 -> DefaultSpace(plan)
           [] sem = 1 -> {"immortal"}
           [] sem = 2 -> {"los"}
           [] sem = 6 -> {"nonmoving"}
           [] sem = 3 -> {"code_space", "immortal"}
           [] sem = 5 -> {"code_lo_space", "los"}
           [] sem = 4 -> {"read_only_space", "immortal"}
           [] OTHER -> {}

AllocOK(e) ==
    /\ G("C01:fresh-id", e.id \notin DOMAIN objs)
    /\ G("C03:nonzero-aligned", e.s # NullA /\ (e.lo + e.off) % e.al = 0)
    /\ G("C03:zeroed", e.zero)
    /\ G("C03:in-mmtk", e.inMMTk)
    /\ G("C03:ref-offset", e.a = AddW(e.s, RefOffW))
    /\ G("C03:space", "sp" \in DOMAIN e =>
            e.sp = e.spSem /\ e.spEnd = e.sp /\ e.sp \in SpaceFor(cfg.plan, e.sem))
    /\ G("C02:overlap", \A o \in DOMAIN ivl : Disjoint(ivl[o], Ivl(e.s, e.sz)))
DoAlloc(e) ==
    /\ objs' = (e.id :> [sz |-> e.sz, nf |-> e.nf, k |-> e.k, sem |-> e.sem, h |-> e.h,
                         f |-> [j \in 1..e.nf |-> Null], a |-> e.a]) @@ objs
    /\ roots' = (e.slot :> e.id) @@ roots
    /\ ivl' = (e.id :> Ivl(e.s, e.sz)) @@ ivl
    /\ imm' = IF e.sem \in NeverCollectedSem \/ IsNoGC
              THEN (e.id :> [a |-> e.a, h |-> e.h]) @@ imm ELSE imm
    /\ stats' = Bump("allocs")
    /\ UNCHANGED <<cfg, pinned, bound, failed, aux>>

WriteOK(e) ==
    /\ G("C01:write-src-known", e.src \in DOMAIN objs /\ e.k \in 1..objs[e.src].nf)
    /\ G("C01:write-old-value", objs[e.src].f[e.k] = e.old)        \* memory agrees with the model
    /\ G("C01:write-tgt-known", e.tgt = Null \/ e.tgt \in DOMAIN objs)
DoWrite(e) ==
    /\ objs' = [objs EXCEPT ![e.src].f[e.k] = e.tgt]
    /\ stats' = Bump("writes")
    /\ UNCHANGED <<cfg, roots, ivl, imm, pinned, bound, failed, aux>>

LoadOK(e) ==
    /\ G("C01:load-src-known", e.src \in DOMAIN objs /\ e.k \in 1..objs[e.src].nf)
    /\ G("C01:load-value", objs[e.src].f[e.k] = e.id)
SetRootOK(e) == G("C01:root-known", e.id = Null \/ e.id \in DOMAIN objs)
DoSetRoot(e) ==
    /\ roots' = IF e.id = Null THEN [s \in DOMAIN roots \ {e.slot} |-> roots[s]]
                ELSE (e.slot :> e.id) @@ roots
    /\ UNCHANGED <<cfg, objs, ivl, imm, pinned, bound, failed, aux, stats>>

DoBind(e) == bound' = bound \cup {e.m} /\ UNCHANGED <<cfg, objs, roots, ivl, imm, pinned, failed, aux, stats>>
DoDestroy(e) ==
    /\ bound' = bound \ {e.m}
    /\ roots' = [s \in {s \in DOMAIN roots : s \div 100 # e.m} |-> roots[s]]
    /\ UNCHANGED <<cfg, objs, ivl, imm, pinned, failed, aux, stats>>

\* pin_object pins (it answers FALSE for an object that was pinned already or never moves) and does
\* not keep the object alive
DoPin(e) == pinned' = pinned \cup {e.id}
            /\ UNCHANGED <<cfg, objs, roots, ivl, imm, bound, failed, aux, stats>>
DoUnpin(e) == pinned' = pinned \ {e.id}
              /\ UNCHANGED <<cfg, objs, roots, ivl, imm, bound, failed, aux, stats>>

\* ---- the collection report -------------------------------------------------------------------
Good(e) == \A i \in DOMAIN e.nodes : "bad" \notin DOMAIN e.nodes[i]
NodeIds(e) == { e.nodes[i].id : i \in DOMAIN e.nodes }
IdOfIdx(e, i) == IF i = 0 THEN Null ELSE IF i \in DOMAIN e.nodes THEN e.nodes[i].id ELSE -1
StrongFields(o) == IF o.k = 1 THEN SubSeq(o.f, 2, Len(o.f)) ELSE o.f

\* The walked graph is the model's reachable graph (used at every collection end and at the
\* re-walk after a burst of allocations that follows a collection, PostChurn).
GraphOK(e) ==
    LET R == Reach IN
    /\ G("C01:dangling-reference", Good(e))
    \* roots: same slots, same referents
    /\ G("C01:root-slots", { r[1] : r \in { e.roots[i] : i \in DOMAIN e.roots } } = DOMAIN roots)
    /\ G("C01:root-referent", \A i \in DOMAIN e.roots : IdOfIdx(e, e.roots[i][2]) = roots[e.roots[i][1]])
    \* identity: the walk found exactly the reachable objects, each at one address
    /\ G("C01:reachable-set", NodeIds(e) = R)
    /\ G("C01:identity", Cardinality(R) = Len(e.nodes))
    \* contents
    /\ G("C01:size", \A i \in DOMAIN e.nodes : e.nodes[i].sz = objs[e.nodes[i].id].sz)
    /\ G("C01:payload", \A i \in DOMAIN e.nodes : e.nodes[i].h = objs[e.nodes[i].id].h
                                                   /\ e.nodes[i].k = objs[e.nodes[i].id].k)
    /\ G("C01:fields", \A i \in DOMAIN e.nodes :
            LET want == StrongFields(objs[e.nodes[i].id])
                got  == e.nodes[i].f
            IN  Len(got) = Len(want) /\ \A j \in DOMAIN got : IdOfIdx(e, got[j]) = want[j])
    \* C04: never-moved semantics and pinned objects keep their address
    /\ G("C04:moved", \A i \in DOMAIN e.nodes :
            LET id == e.nodes[i].id IN
            (objs[id].sem \in NeverMovedSem \/ id \in pinned \/ IsNoGC \/ ~cfg.moves)
                => e.nodes[i].a = objs[id].a)
    \* C04: objects of never-collected spaces are intact at their address, reachable or not
    /\ G("C04:immortal-intact", \A id \in DOMAIN imm :
            \E i \in DOMAIN e.imm : e.imm[i] = <<imm[id].a, id, imm[id].h>>)
    \* C02: the surviving objects do not overlap each other
    /\ G("C02:survivors-overlap", \A i, j \in DOMAIN e.nodes : i < j =>
            Disjoint(Ivl(e.nodes[i].a, e.nodes[i].sz), Ivl(e.nodes[j].a, e.nodes[j].sz)))
    \* C36 in situ: the treadmill of every large object space holds each object in at most one of
    \* its four sets, and every reachable object of that space in exactly one.
    /\ G("C36:treadmill-partition", "los" \in DOMAIN e => \A i \in DOMAIN e.los :
            LET all == e.los[i].from \o e.los[i].to \o e.los[i].cn \o e.los[i].an IN
            Cardinality({all[j] : j \in DOMAIN all}) = Len(all))
    /\ G("C36:reachable-large-object-not-on-treadmill", "los" \in DOMAIN e => \A i \in DOMAIN e.los :
            LET all == e.los[i].from \o e.los[i].to \o e.los[i].cn \o e.los[i].an
                ids == {all[j] : j \in DOMAIN all} IN
            \A k \in DOMAIN e.nodes : e.nodes[k].sp = e.los[i].n => e.nodes[k].id \in ids)
    \* vo_bit builds: every object the roots reach is a valid object for MMTk. A reference that was
    \* not updated still reads an intact stale copy in released memory; its valid-object bit is gone.
    /\ G("C01:reference-to-reclaimed-object", \A i \in DOMAIN e.nodes :
            "vo" \in DOMAIN e.nodes[i] => e.nodes[i].vo)

GCEndOK(e) ==
    LET R == Reach IN
    /\ GraphOK(e)
    \* C07 (vo_bit builds): after an exhaustive collection MMTk enumerates exactly the survivors
    \* (reachable objects plus the objects of never-collected spaces), each once
    /\ G("C07:enumerate-invalid", "enum" \in DOMAIN e => e.enumBad = 0)
    /\ G("C07:enumerate-duplicate", "enum" \in DOMAIN e /\ aux.exh =>
            Cardinality({e.enum[i] : i \in DOMAIN e.enum}) = Len(e.enum))
    /\ G("C07:enumerate-missing", "enum" \in DOMAIN e =>
            R \cup DOMAIN imm \subseteq {e.enum[i] : i \in DOMAIN e.enum})
    /\ G("C07:enumerate-dead", "enum" \in DOMAIN e /\ aux.exh =>
            {e.enum[i] : i \in DOMAIN e.enum} \subseteq R \cup DOMAIN imm)

\* Re-walk after the allocation burst that follows a collection: memory reclaimed by the collection
\* has been reused, so a reference that still points at a stale copy now reads foreign data.
\* Nothing may have moved since the collection.
PostChurnOK(e) ==
    /\ GraphOK(e)
    /\ G("C01:moved-outside-collection", \A i \in DOMAIN e.nodes : e.nodes[i].a = objs[e.nodes[i].id].a)

DoGCEnd(e) ==
    LET keep == NodeIds(e) \cup DOMAIN imm \cup (ext.keep \cap DOMAIN objs)
        newA == [id \in NodeIds(e) |-> (CHOOSE i \in DOMAIN e.nodes : e.nodes[i].id = id)]
    IN
    /\ objs' = [id \in keep |-> IF id \in NodeIds(e)
                                THEN [objs[id] EXCEPT !.a = e.nodes[newA[id]].a] ELSE objs[id]]
    \* placement stays known for survivors and never-collected objects only
    /\ ivl' = [id \in NodeIds(e) \cup DOMAIN imm |->
                 IF id \in NodeIds(e)
                 THEN LET n == e.nodes[newA[id]] IN Ivl(SubW(n.a, RefOffW), n.sz)
                 ELSE ivl[id]]
    /\ stats' = [Bump("gcs") EXCEPT !["moved"] = @ +
                   Cardinality({id \in NodeIds(e) : e.nodes[newA[id]].a # objs[id].a}),
                 !["survivors"] = @ + Len(e.nodes)]
    /\ aux' = [aux EXCEPT !.exh = FALSE]
    /\ UNCHANGED <<cfg, roots, imm, pinned, bound, failed>>

\* An Alloc of a never-collected space seen while skipping a failed program: the object exists in
\* the real heap for ever, so it is registered (without judging the call).
DoAllocImmOnly(e) ==
    /\ objs' = (e.id :> [sz |-> e.sz, nf |-> e.nf, k |-> e.k, sem |-> e.sem, h |-> e.h,
                         f |-> [j \in 1..e.nf |-> Null], a |-> e.a]) @@ objs
    /\ ivl' = (e.id :> Ivl(e.s, e.sz)) @@ ivl
    /\ imm' = (e.id :> [a |-> e.a, h |-> e.h]) @@ imm
    /\ UNCHANGED <<cfg, roots, pinned, bound, failed, aux, stats>>

SetAux(f, v) == aux' = [aux EXCEPT ![f] = v]
                /\ UNCHANGED <<cfg, objs, roots, ivl, imm, pinned, bound, failed, stats>>

\* C03: inside the argument grid (a heap several times larger than the grid) every legal request
\* must be satisfied.
AllocFailOK(e) == G("C03:legal-request-failed", ~aux.grid)

\* C09: allocate-drop-collect cycles
CycleOK(e) ==
    /\ G("C09:out-of-memory", e.failed = 0 /\ e.oomSeen = aux.oom)
    /\ G("C09:floor", e.usedPages <= 16)
    /\ G("C09:growth", aux.lastUsed >= 0 /\ e.cycle >= 2 => e.usedPages <= aux.lastUsed)
DoCycle(e) == aux' = [aux EXCEPT !.lastUsed = e.usedPages, !.oom = e.oomSeen]
              /\ UNCHANGED <<cfg, objs, roots, ivl, imm, pinned, bound, failed, stats>>

\* C08: valid-object and interior-pointer lookups. `Placed` are the objects whose placement the
\* model knows for certain (reachable at the last collection or allocated since): nothing is
\* reclaimed between collections, so all of them are valid objects. Answers about other heap
\* addresses (possibly unreclaimed garbage) are not constrained.
RefOf(o) == AddW(ivl[o][1], RefOffW)
LT(p, q) == LE(p, q) /\ p # q
Inside(p, o) == LE(ivl[o][1], p) /\ LT(p, ivl[o][2])
WordsFrom(a, b) == (b[1] - a[1]) * LoLimit + b[2] - a[2]      \* a <= b, close to each other
ProbeOK(r) ==
    /\ r.obj # <<-1, -1>> /\ r.fip # <<-1, -1>>                                  \* no panic
    /\ r.out => r.obj = NullA /\ r.fip = NullA
    /\ \A o \in DOMAIN ivl :
         /\ RefOf(o) = r.p => r.obj = r.p
         /\ Inside(r.p, o) /\ RefOf(o) # r.p => r.obj = NullA
         /\ Inside(r.p, o) /\ LE(RefOf(o), r.p) =>
               LET dist == WordsFrom(RefOf(o), r.p) * 8 IN
               /\ dist < r.n => r.fip = RefOf(o)
               /\ dist > r.n => r.fip = NullA
         /\ Inside(r.p, o) /\ ~LE(RefOf(o), r.p) => r.fip = NullA
ProbesOK(e) == G("C08:lookup", \A i \in DOMAIN e.rows : ProbeOK(e.rows[i]))

Skip == UNCHANGED <<cfg, objs, roots, ivl, imm, pinned, bound, failed, aux, stats>>
FailStep == failed' = TRUE /\ UNCHANGED <<cfg, objs, roots, ivl, imm, pinned, bound, aux, stats>>

Step(e) ==
    CASE e.ev = "Boot"    -> DoBoot(e)
      [] e.ev = "Reset"   -> DoReset(e)
      [] failed /\ e.ev # "Crash" -> IF e.ev = "Alloc" /\ e.sem \in NeverCollectedSem /\ e.id \notin DOMAIN objs
                             THEN DoAllocImmOnly(e) ELSE Skip
      [] e.ev = "GCRequest" -> SetAux("exh", e.exhaustive)
      \* C11: a forced user request returns only after a collection has ended (it is blocked until
      \* then even when another request was already pending)
      [] e.ev = "GCReturn"  -> IF G("C11:forced-request-returned-before-a-collection-ended",
                                    "pauses" \in DOMAIN e => e.pauses >= 1)
                               THEN Skip ELSE FailStep
      [] e.ev = "GridStart" -> SetAux("grid", TRUE)
      [] e.ev = "GridEnd"   -> SetAux("grid", FALSE)
      [] e.ev = "AllocFail" -> IF AllocFailOK(e) THEN Skip ELSE FailStep
      [] e.ev = "CycleEnd"  -> IF CycleOK(e) THEN DoCycle(e) ELSE FailStep
      [] e.ev = "Probes"    -> IF ProbesOK(e) THEN Skip ELSE FailStep
      [] e.ev = "Alloc"   -> IF AllocOK(e) THEN DoAlloc(e) ELSE FailStep
      [] e.ev = "Write"   -> IF WriteOK(e) THEN DoWrite(e) ELSE FailStep
      [] e.ev = "Load"    -> IF LoadOK(e) THEN DoSetRoot(e) ELSE FailStep
      [] e.ev = "SetRoot" -> IF SetRootOK(e) THEN DoSetRoot(e) ELSE FailStep
      [] e.ev = "Bind"    -> DoBind(e)
      [] e.ev = "Destroy" -> DoDestroy(e)
      [] e.ev = "Pin"     -> DoPin(e)
      [] e.ev = "Unpin"   -> DoUnpin(e)
      [] e.ev = "GCEnd"   -> IF GCEndOK(e) THEN DoGCEnd(e) ELSE FailStep
      [] e.ev = "PostChurn" -> IF PostChurnOK(e) THEN Skip ELSE FailStep
      \* a crash of the code under test is reported even while the trace waits for the next Reset
      [] e.ev = "Crash"   -> Fail("crash") /\ FailStep
      [] OTHER            -> Skip

TInit ==
    /\ l = 1
    /\ cfg = [plan |-> "?", variant |-> 0, moves |-> TRUE]
    /\ objs = << >> /\ roots = << >> /\ ivl = << >> /\ imm = << >>
    /\ pinned = {} /\ bound = {} /\ failed = FALSE
    /\ aux = [exh |-> FALSE, grid |-> FALSE, lastUsed |-> -1, oom |-> 0]
    /\ stats = [programs |-> 0, allocs |-> 0, writes |-> 0, gcs |-> 0, moved |-> 0, survivors |-> 0]
    /\ ext = [keep |-> {}]

TNext == /\ l <= Len(Rec)
         /\ l' = l + 1
         /\ Step(Rec[l])
         /\ UNCHANGED ext

TraceSpec == TInit /\ [][TNext]_vars

Accepted ==
    LET d == TLCGet("stats").diameter
    IN  IF d = Len(Rec) + 1 THEN TRUE
        ELSE /\ PrintT("TRACE_REJECTED matched=" \o ToString(d - 1) \o " of=" \o ToString(Len(Rec)))
             /\ FALSE
\* printed once at the end of the trace so that the check can report measured coverage
StatsPrinted == l = Len(Rec) + 1 => PrintT("HEAP_STATS " \o ToString(stats))
=====================================================================================
