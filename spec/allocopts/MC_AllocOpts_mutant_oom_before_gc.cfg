SPECIFICATION Spec
CONSTANTS MaxGC = 3
  Mutant = "oom_before_gc"
INVARIANT ContractHolds
CHECK_DEADLOCK FALSE
