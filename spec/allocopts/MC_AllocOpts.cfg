SPECIFICATION Spec
CONSTANTS MaxGC = 3
  Mutant = "none"
INVARIANT ContractHolds
CHECK_DEADLOCK FALSE
