SPECIFICATION Spec
CONSTANTS MaxGC = 3
  Mutant = "ignore_allow_oom"
INVARIANT ContractHolds
CHECK_DEADLOCK FALSE
