SPECIFICATION Spec
CONSTANTS MaxGC = 3
  Mutant = "obvious_oom_wrong_bound"
INVARIANT ContractHolds
CHECK_DEADLOCK FALSE
