SPECIFICATION Spec
CONSTANTS MaxGC = 3
  Mutant = "overcommit_polls"
INVARIANT ContractHolds
CHECK_DEADLOCK FALSE
