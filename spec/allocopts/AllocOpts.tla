--------------------------------- MODULE AllocOpts ---------------------------------
(* C10: the out-of-memory and allocation-option contract of one allocation call.                   *)
(* Structured like the implementation: util/alloc/allocator.rs alloc_slow_inline (loop: try ->     *)
(* success | failure handling), handle_obvious_oom_request, policy/space.rs acquire (poll the GC   *)
(* trigger unless overcommit is allowed; block_for_gc only at a safepoint), global_state.rs        *)
(* (emergency collection after a collection that did not help).                                    *)
(*                                                                                                 *)
(* State of one call:  pc, gcs (collections this call waited for), blocks (block_for_gc calls),     *)
(* ooms (out_of_memory callbacks), ret ("none" | "obj" | "null").                                  *)
(* The heap is abstracted to what the call can observe: whether the request is larger than the     *)
(* maximum heap (overHeap) and, per attempt, whether pages were available (non-deterministic, the  *)
(* environment decides; after an emergency collection that did not help the request fails).        *)
EXTENDS Naturals, Sequences, TLC

CONSTANTS MaxGC,        \* bound on collections per call in the model
          Mutant        \* "none" | "oom_before_gc" | "ignore_allow_oom" | "block_no_safepoint" | "overcommit_polls"

VARIABLES opt,      \* [overcommit, safepoint, oomCall, overHeap]
          pc, gcs, blocks, ooms, ret, emergency
vars == <<opt, pc, gcs, blocks, ooms, ret, emergency>>

Opts == { o \in [overcommit : BOOLEAN, safepoint : BOOLEAN, oomCall : BOOLEAN, overHeap : BOOLEAN,
                 small : BOOLEAN] : ~(o.small /\ o.overHeap) }

Init == /\ opt \in Opts
        /\ pc = "try" /\ gcs = 0 /\ blocks = 0 /\ ooms = 0 /\ ret = "none" /\ emergency = FALSE

\* handle_obvious_oom_request: larger than the maximum heap -> (callback if allowed), null
ObviousOOM ==
    /\ pc = "try" /\ (opt.overHeap \/ Mutant = "obvious_oom_wrong_bound")
    /\ ooms' = IF opt.oomCall \/ Mutant = "ignore_allow_oom" THEN ooms + 1 ELSE ooms
    /\ ret' = "null" /\ pc' = "done"
    /\ UNCHANGED <<opt, gcs, blocks, emergency>>

\* Space::acquire finds pages (always possible when overcommit is allowed)
Success ==
    /\ pc = "try" /\ ~opt.overHeap
    /\ ret' = "obj" /\ pc' = "done"
    /\ UNCHANGED <<opt, gcs, blocks, ooms, emergency>>

\* Space::acquire: the GC trigger's poll says a collection is required
NeedGC ==
    /\ pc = "try" /\ ~opt.overHeap
    /\ ~opt.overcommit \/ Mutant = "overcommit_polls"
    /\ pc' = "failed"
    /\ IF (opt.safepoint /\ Mutant # "oom_before_gc") \/ Mutant = "block_no_safepoint"
       THEN blocks' = blocks + 1 /\ gcs' = gcs + 1          \* block_for_gc, a collection runs
       ELSE UNCHANGED <<blocks, gcs>>
    /\ UNCHANGED <<opt, ooms, ret, emergency>>

\* alloc_slow_inline after a failed attempt
AfterFailure ==
    /\ pc = "failed"
    /\ IF ~opt.safepoint /\ Mutant # "block_no_safepoint"
       THEN ret' = "null" /\ pc' = "done" /\ UNCHANGED <<ooms, emergency>>
       ELSE IF emergency \/ (Mutant = "oom_before_gc" /\ gcs = 0) \/ gcs >= MaxGC
            THEN /\ ooms' = IF opt.oomCall \/ Mutant = "ignore_allow_oom" THEN ooms + 1 ELSE ooms
                 /\ ret' = "null" /\ pc' = "done" /\ UNCHANGED emergency
            ELSE /\ pc' = "try"
                 /\ emergency' \in BOOLEAN      \* the next collection may be an emergency one
                 /\ UNCHANGED <<ooms, ret>>
    /\ UNCHANGED <<opt, gcs, blocks>>

Next == ObviousOOM \/ Success \/ NeedGC \/ AfterFailure
Spec == Init /\ [][Next]_vars

\* ---- the contract (also evaluated on recorded calls by Trace_AllocOpts) ------------------------
\* `small`: the request is at most 1/8 of the heap. MMTk reserves 2 x heap of address space per space;
\* an overcommitted request that does not fit the fragmented address space physically fails and then
\* follows the ordinary failure path, so "overcommit never blocks" is required of small requests only.
Contract(o, nblocks, ngcs, nooms, isnull) ==
    /\ nooms > 0 => ngcs > 0 \/ o.overHeap                 \* OOM only after a collection was attempted
    /\ ~o.oomCall => nooms = 0                              \* never when allow_oom_call is false
    /\ nooms > 0 => isnull                                  \* ... and then returns null
    /\ ~o.safepoint => nblocks = 0                          \* never blocks when not at a safepoint
    /\ o.overcommit /\ o.small => nblocks = 0 /\ ~isnull    \* overcommit neither blocks nor fails
    /\ o.overHeap => isnull /\ nblocks = 0                  \* larger than the heap: fails immediately
    \* ... and only those: any other request that may block is given up only after blocking for a
    \* collection (an overcommitted one never blocks and may fail physically, see `small`)
    /\ isnull /\ ~o.overHeap /\ o.safepoint /\ ~o.overcommit => nblocks > 0
    /\ nooms <= 1
ContractHolds == pc = "done" => Contract(opt, blocks, gcs, ooms, ret = "null")
Terminates == <>(pc = "done")
=====================================================================================
