SPECIFICATION TraceSpec
CONSTANTS MaxGC = 3
  Mutant = "none"
POSTCONDITION Accepted
INVARIANT StatsPrinted
CHECK_DEADLOCK FALSE
