SPECIFICATION Spec
CONSTANTS MaxGC = 3
  Mutant = "block_no_safepoint"
INVARIANT ContractHolds
CHECK_DEADLOCK FALSE
