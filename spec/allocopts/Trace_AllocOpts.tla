------------------------------ MODULE Trace_AllocOpts ------------------------------
(* Validates recorded allocation calls (gcdrive --mode oom) against AllocOpts!Contract. Events:    *)
(* OptCall(id, opts, overHeap) ... BlockEnter / Resume / OutOfMemory ... OptRet(id, null).          *)
EXTENDS AllocOpts, Json, IOUtils

Rec == ndJsonDeserialize(IOEnv.TRACE)
VARIABLES l, cur, nb, ng, no, calls
tvars == <<l, cur, nb, ng, no, calls>>

Fail(tag) == PrintT("ROW_REJECTED l=" \o ToString(l) \o " tag=" \o tag)
Tag(o, nblocks, ngcs, nooms, isnull) ==
    IF ~o.oomCall /\ nooms > 0 THEN "C10:oom-call-although-disallowed"
    ELSE IF nooms > 0 /\ ngcs = 0 /\ ~o.overHeap THEN "C10:oom-before-any-collection"
    ELSE IF nooms > 0 /\ ~isnull THEN "C10:oom-but-not-null"
    ELSE IF ~o.safepoint /\ nblocks > 0 THEN "C10:blocked-although-not-at-safepoint"
    ELSE IF o.overcommit /\ o.small /\ (nblocks > 0 \/ isnull) THEN "C10:overcommit-blocked-or-failed"
    ELSE IF o.overHeap /\ (~isnull \/ nblocks > 0) THEN "C10:over-heap-request-not-failed-immediately"
    ELSE IF isnull /\ ~o.overHeap /\ o.safepoint /\ ~o.overcommit /\ nblocks = 0
         THEN "C10:given-up-without-any-collection"
    ELSE "C10:contract"

TInit == l = 1 /\ cur = [id |-> 0] /\ nb = 0 /\ ng = 0 /\ no = 0 /\ calls = 0
Step(e) ==
    CASE e.ev = "OptCall" ->
            /\ cur' = e /\ nb' = 0 /\ ng' = 0 /\ no' = 0 /\ UNCHANGED calls
      [] e.ev = "BlockEnter" /\ cur.id # 0 -> nb' = nb + 1 /\ UNCHANGED <<cur, ng, no, calls>>
      [] e.ev = "Resume" /\ cur.id # 0 -> ng' = ng + 1 /\ UNCHANGED <<cur, nb, no, calls>>
      [] e.ev = "OutOfMemory" /\ cur.id # 0 -> no' = no + 1 /\ UNCHANGED <<cur, nb, ng, calls>>
      [] e.ev = "OptRet" ->
            LET o == [overcommit |-> cur.overcommit, safepoint |-> cur.safepoint,
                      oomCall |-> cur.oomCall, overHeap |-> cur.overHeap,
                      small |-> cur.szKB <= cur.heapKB \div 8] IN
            /\ IF Contract(o, nb, ng, no, e.null) THEN TRUE ELSE Fail(Tag(o, nb, ng, no, e.null))
            /\ cur' = [id |-> 0] /\ calls' = calls + 1 /\ UNCHANGED <<nb, ng, no>>
      [] e.ev = "Crash" -> Fail("crash") /\ UNCHANGED <<cur, nb, ng, no, calls>>
      [] OTHER -> UNCHANGED <<cur, nb, ng, no, calls>>
TNext == l <= Len(Rec) /\ l' = l + 1 /\ Step(Rec[l])
         /\ UNCHANGED <<opt, pc, gcs, blocks, ooms, ret, emergency>>
TraceSpec == TInit /\ Init /\ opt = [overcommit |-> FALSE, safepoint |-> TRUE, oomCall |-> TRUE, overHeap |-> FALSE, small |-> TRUE]
             /\ [][TNext]_<<tvars, vars>>
Accepted == LET d == TLCGet("stats").diameter IN
            IF d = Len(Rec) + 1 THEN TRUE
            ELSE PrintT("TRACE_REJECTED matched=" \o ToString(d - 1)) /\ FALSE
StatsPrinted == l = Len(Rec) + 1 => PrintT("OPT_STATS calls=" \o ToString(calls))
=====================================================================================
