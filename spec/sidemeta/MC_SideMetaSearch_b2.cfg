SPECIFICATION SSpec
CONSTANTS
  B = 2
  NB = 1
  LR = 2
  MemVals = {0}
  ArgVals = {0}
  MaxSteps = 0
  MemVals <- AllBytes
INVARIANTS
  PrevAgrees
  NextAgrees
  ScanAgrees
  PrevSound
CHECK_DEADLOCK FALSE
