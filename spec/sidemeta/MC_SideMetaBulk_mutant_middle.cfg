SPECIFICATION BSpec
CONSTANTS
  B = 2
  NB = 3
  MemVals = {0, 165}
  ArgVals = {90}
  MaxSteps = 1
  MiddleStart <- BrokenMiddleStart
INVARIANTS
  BulkRefines
CHECK_DEADLOCK FALSE
