SPECIFICATION Spec
CONSTANTS
  B = 4
  NB = 2
  MemVals = {0, 255, 165, 30, 241}
  ArgVals = {0, 1, 15, 10, 5, 8}
  MaxSteps = 1

INVARIANTS
  Refines
  BitStringAgrees
CHECK_DEADLOCK FALSE
