-------------------------- MODULE Trace_SideMetaBulk --------------------------
(* Validates recorded calls of the real bzero_metadata / bset_metadata /                          *)
(* bcopy_metadata_contiguous (driver d_sidemeta c21) against SideMetaBulk.  Rows:                  *)
(*   Map  : lb, lr, dref, mref (destination spec), mref2 (source spec), as in Trace_SideMeta      *)
(*   Bulk : op, start, size (data bytes from dref), pre/post = destination window bytes before    *)
(*          and after, spre/spost = source window bytes (bcopy only, else empty)                  *)
(*   Crash: never allowed                                                                         *)
(* Rows are independent: each carries lb, lr and its own pre-state.                                *)
EXTENDS SideMetaBulk, Json, IOUtils, TLC

Rec == ndJsonDeserialize(IOEnv.TRACE)
VARIABLE l

MapRowOK(r) ==
    /\ r.lb \in 0..6 /\ r.lr + 3 - r.lb >= 1
    /\ MetaOffsetOK(r.lb, r.lr, r.dref, r.mref)
    /\ MetaOffsetOK(r.lb, r.lr, r.dref, r.mref2)
    /\ (8 * Len(r.dump)) % (2^r.lb) = 0

RowOK(r) ==
    CASE r.ev = "Map" -> MapRowOK(r)
      [] r.ev = "Bulk" -> /\ r.lb \in 0..6
                          /\ BulkOK(2^r.lb, r.lr, r.pre, r.post, r.spre, r.spost, r.op, r.start, r.size)
      [] OTHER -> FALSE

TInit == l = 1
TNext ==
    /\ l <= Len(Rec)
    /\ IF RowOK(Rec[l]) THEN TRUE ELSE PrintT("ROW_REJECTED l=" \o ToString(l))
    /\ l' = l + 1
    /\ UNCHANGED <<mem, last, steps, src>>
TraceSpec == TInit /\ mem = << >> /\ src = << >> /\ last = [kind |-> "none"] /\ steps = 0
             /\ [][TNext]_<<l, mem, last, steps, src>>

Accepted ==
    LET d == TLCGet("stats").diameter
    IN  IF d = Len(Rec) + 1 THEN TRUE
        ELSE /\ PrintT("TRACE_REJECTED matched=" \o ToString(d - 1) \o " of=" \o ToString(Len(Rec)))
             /\ FALSE
=============================================================================
