------------------------- MODULE Trace_SideMetaSearch -------------------------
(* Validates recorded answers of the real find_prev_non_zero_value / find_next_non_zero_value /   *)
(* scan_non_zero_values (driver d_sidemeta c22) against SideMetaSearch.  Rows:                     *)
(*   Map : lb, lr, dref, mref as in Trace_SideMeta; dhi = data offset (from dref) at which the    *)
(*         mapped data above the window ends (as reported by Address::is_mapped)                  *)
(*   Set : the harness wrote a new bitmap; dump = the window's metadata bytes                     *)
(*   FP / FN : a batch of find_prev / find_next queries qs = <<a, L, res>> (data offsets from     *)
(*         dref, res = -1 for None)                                                               *)
(*   FPU : one find_prev query whose limit ends inside the region of its unaligned start address  *)
(*         (its own row: the contract is ambiguous there, see SmallOK)                            *)
(*   SC / SCU : scan_non_zero_values(s, e) with a region-aligned / unaligned start, res = the     *)
(*         visited addresses in call order                                                        *)
(*   every query row carries lb, lr, dhi and dump = the window's bytes after the query (they     *)
(*   must still be the bytes of the last Set row: searching does not modify metadata)             *)
(*   Crash : never allowed                                                                        *)
EXTENDS SideMetaSearch, Json, IOUtils, TLC

Rec == ndJsonDeserialize(IOEnv.TRACE)
VARIABLES l, cur

MapRowOK(r) ==
    /\ r.lb \in 0..6 /\ r.lr + 3 - r.lb >= 1
    /\ MetaOffsetOK(r.lb, r.lr, r.dref, r.mref)
    /\ (8 * Len(r.dump)) % (2^r.lb) = 0

\* FPU: the limit ends inside the region of the unaligned start address a.  The documentation
\* ("including this address") and the region-by-region loop disagree about whether that region
\* is searched; both answers are accepted here.  (In debug builds the implementation's own
\* cross-check between its two algorithms fails on these inputs: that is a Crash row.)
SmallOK(NZ, R, dh, q) ==
    \/ PrevOK(NZ, R, dh, q)
    \/ (q[1] \div R) \in NZ /\ q[3] = (q[1] \div R) * R

QueryRowOK(r) ==
    LET b == 2^r.lb
        R == 2^r.lr
        NZ == NZSet(r.dump, b)
    IN  /\ r.lb \in 0..6
        /\ cur = << >> \/ r.dump = cur                      \* searching does not modify metadata
        /\ CASE r.ev = "FP" -> \A i \in 1..Len(r.qs) : PrevOK(NZ, R, r.dhi, r.qs[i])
              [] r.ev = "FPU" -> \A i \in 1..Len(r.qs) : SmallOK(NZ, R, r.dhi, r.qs[i])
              [] r.ev = "FN" -> \A i \in 1..Len(r.qs) : NextOK(NZ, R, r.dhi, r.qs[i])
              [] r.ev \in {"SC", "SCU"} -> ScanOK(NZ, R, r.s, r.e, r.res)

RowOK(r) ==
    CASE r.ev = "Map" -> MapRowOK(r)
      [] r.ev = "Set" -> TRUE
      [] r.ev \in {"FP", "FPU", "FN", "SC", "SCU"} -> QueryRowOK(r)
      [] OTHER -> FALSE

TInit == l = 1 /\ cur = << >>
TNext ==
    /\ l <= Len(Rec)
    /\ IF RowOK(Rec[l]) THEN TRUE ELSE PrintT("ROW_REJECTED l=" \o ToString(l))
    /\ l' = l + 1
    /\ cur' = IF Rec[l].ev \in {"Map", "Set"} THEN Rec[l].dump ELSE cur
    /\ UNCHANGED <<mem, last, steps>>
TraceSpec == TInit /\ mem = << >> /\ last = [kind |-> "none"] /\ steps = 0
             /\ [][TNext]_<<l, cur, mem, last, steps>>

Accepted ==
    LET d == TLCGet("stats").diameter
    IN  IF d = Len(Rec) + 1 THEN TRUE
        ELSE /\ PrintT("TRACE_REJECTED matched=" \o ToString(d - 1) \o " of=" \o ToString(Len(Rec)))
             /\ FALSE
=============================================================================
