SPECIFICATION BSpec
CONSTANTS
  B = 1
  NB = 3
  MemVals = {0, 165}
  ArgVals = {90}
  MaxSteps = 1
  SetMask <- BrokenSetMask
INVARIANTS
  BulkRefines
CHECK_DEADLOCK FALSE
