SPECIFICATION BSpec
CONSTANTS
  B = 16
  NB = 6
  MemVals = {0, 255}
  ArgVals = {90}
  MaxSteps = 1

INVARIANTS
  BulkRefines
CHECK_DEADLOCK FALSE
