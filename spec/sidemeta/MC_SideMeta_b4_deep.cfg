SPECIFICATION Spec
CONSTANTS
  B = 4
  NB = 1
  MemVals = {0}
  ArgVals = {0, 1, 2, 5, 7, 8, 10, 15}
  MaxSteps = 1
  MemVals <- AllBytes
INVARIANTS
  Refines
  BitStringAgrees
CHECK_DEADLOCK FALSE
