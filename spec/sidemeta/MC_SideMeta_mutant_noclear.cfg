SPECIFICATION Spec
CONSTANTS
  B = 2
  NB = 2
  MemVals = {0, 255, 165}
  ArgVals = {0, 1, 2, 3}
  MaxSteps = 1
  ImplInsert <- BrokenInsertNoClear
INVARIANTS
  Refines
  BitStringAgrees
CHECK_DEADLOCK FALSE
