----------------------------- MODULE SideMetaBulk -----------------------------
(* C21. bzero_metadata / bset_metadata / bcopy_metadata_contiguous over the data range            *)
(* [start, start+size) set the field of every region inside the range to all-zeros / all-ones /   *)
(* the source spec's field and leave every field outside the range unchanged                      *)
(* (global.rs: bulk_update_metadata, zero_meta_bits, set_meta_bits; ranges.rs: break_bit_range).  *)
(*                                                                                                 *)
(* Part 1: the meaning on memory dumps (layout as in SideMeta).  For ranges that are not aligned  *)
(* to regions the documentation fixes nothing about the (at most two) partially covered regions:  *)
(* fields of regions entirely inside must be updated, fields of regions entirely outside must     *)
(* not change, partially covered regions are unconstrained.                                       *)
(* Part 2 (model checked): the implementation's way of doing it - translate the region range to   *)
(* (byte, bit) positions, break the bit range into sub-byte and whole-byte pieces, update each    *)
(* piece with a byte mask or a memset/memcpy - has exactly that meaning, for every range.         *)
EXTENDS SideMeta

\* ------------------------------------------------------------------ part 1 -------------------
Inside(f, start, size, R) == f * R >= start /\ (f + 1) * R <= start + size
Outside(f, start, size, R) == (f + 1) * R <= start \/ f * R >= start + size

\* pre/post: dump of the destination spec before/after; spre/spost: dump of the source spec (same
\* data range; only meaningful for bcopy).  start/size: data bytes relative to the dump start.
\* Bytes whose fields are all inside (or all outside) the range are compared as bytes; only the
\* bytes that straddle an end of the range are compared bit by bit.
BulkOK(b, lr, pre, post, spre, spost, op, start, size) ==
    LET R == 2^lr
        Want(k, j) == CASE op = "bzero" -> 0 [] op = "bset" -> 1 [] op = "bcopy" -> BitOf(spre[k], j)
        WantByte(k) == CASE op = "bzero" -> 0 [] op = "bset" -> 255 [] op = "bcopy" -> spre[k]
        ByteOK(k) ==
            LET f0 == ((k - 1) * 8) \div b                  \* first and last field touching byte k
                f1 == (k * 8 - 1) \div b
            IN  IF Inside(f0, start, size, R) /\ Inside(f1, start, size, R)
                THEN post[k] = WantByte(k)
                ELSE IF (f1 + 1) * R <= start \/ f0 * R >= start + size
                THEN post[k] = pre[k]
                ELSE \A j \in 0..7 :
                        LET f == ((k - 1) * 8 + j) \div b
                        IN  IF Inside(f, start, size, R) THEN BitOf(post[k], j) = Want(k, j)
                            ELSE IF Outside(f, start, size, R) THEN BitOf(post[k], j) = BitOf(pre[k], j)
                            ELSE TRUE
    IN  /\ op \in {"bzero", "bset", "bcopy"}
        /\ Len(post) = Len(pre)
        /\ spost = spre                                          \* the source is only read
        /\ op = "bcopy" => Len(spre) = Len(pre)
        /\ start + size <= ((8 * Len(pre)) \div b) * R          \* generator: range inside the dump
        /\ \A k \in 1..Len(pre) : ByteOK(k)

\* ------------------------------------------------------------------ part 2 -------------------
\* constants/variables of SideMeta are reused: B (field width, here 1..64), NB bytes of memory,
\* MemVals (initial destination bytes), ArgVals (initial source bytes), mem, last, steps.
VARIABLE src
NF == (NB * 8) \div B

\* address_to_meta_address / meta_byte_lshift of the first region of a range: (byte index, bit)
PosByte(r) == ((r * B) \div 8) + 1
PosBit(r) == (r * B) % 8

\* ranges.rs::break_bit_range, forwards
Bits(a, b0, b1) == [t |-> "bits", a |-> a, b0 |-> b0, b1 |-> b1]
Bytes(s, e) == [t |-> "bytes", a |-> s, b0 |-> e, b1 |-> 0]         \* bytes s .. e-1
MiddleStart(sa, sb) == IF sb = 0 THEN sa ELSE sa + 1
Segments(sa, sb, ea, eb) ==
    IF sa = ea /\ sb = eb THEN << >>
    ELSE IF sb = 0 /\ eb = 0 THEN << Bytes(sa, ea) >>
    ELSE IF sa = ea THEN << Bits(sa, sb, eb) >>
    ELSE IF sa + 1 = ea /\ eb = 0 THEN << Bits(sa, sb, 8) >>
    ELSE (IF sb # 0 THEN << Bits(sa, sb, 8) >> ELSE << >>)
         \o (IF MiddleStart(sa, sb) < ea THEN << Bytes(MiddleStart(sa, sb), ea) >> ELSE << >>)
         \o (IF eb # 0 THEN << Bits(ea, 0, eb) >> ELSE << >>)

\* u8::MAX.checked_shl(n).unwrap_or(0)
ShlMax(n) == IF n >= 8 THEN 0 ELSE Shl8(255, n)
ZeroMask(b0, b1) == Or8(ShlMax(b1), Not8(Shl8(255, b0)))        \* zero_meta_bits: fetch_and(mask)
SetMask(b0, b1) == And8(Not8(ShlMax(b1)), Shl8(255, b0))         \* set_meta_bits: fetch_or(mask)

ApplySeg(op, m, s, seg) ==
    IF seg.t = "bytes"
    THEN [k \in 1..NB |-> IF k >= seg.a /\ k < seg.b0
                          THEN CASE op = "bzero" -> 0 [] op = "bset" -> 255 [] op = "bcopy" -> s[k]
                          ELSE m[k]]
    ELSE [m EXCEPT ![seg.a] =
            CASE op = "bzero" -> And8(m[seg.a], ZeroMask(seg.b0, seg.b1))
              [] op = "bset" -> Or8(m[seg.a], SetMask(seg.b0, seg.b1))
              [] op = "bcopy" -> Or8(And8(s[seg.a], SetMask(seg.b0, seg.b1)),
                                     And8(m[seg.a], Not8(SetMask(seg.b0, seg.b1))))]
RECURSIVE ApplySegs(_, _, _, _, _)
ApplySegs(op, m, s, segs, i) ==
    IF i > Len(segs) THEN m ELSE ApplySegs(op, ApplySeg(op, m, s, segs[i]), s, segs, i + 1)

BInit == /\ mem \in [1..NB -> MemVals]
         /\ src \in [1..NB -> ArgVals]
         /\ last = [kind |-> "none"]
         /\ steps = 0
Bulk(op, rs, re) ==
    /\ steps < MaxSteps
    /\ mem' = ApplySegs(op, mem, src, Segments(PosByte(rs), PosBit(rs), PosByte(re), PosBit(re)), 1)
    /\ last' = [kind |-> op, rs |-> rs, re |-> re, pre |-> mem]
    /\ steps' = steps + 1
    /\ UNCHANGED src
BNext == \E op \in {"bzero", "bset", "bcopy"}, rs \in 0..NF : \E re \in rs..NF : Bulk(op, rs, re)
BSpec == BInit /\ [][BNext]_<<mem, last, steps, src>>

AsSeq(m) == [i \in 1..NB |-> m[i]]
BulkRefines ==
    last.kind # "none" =>
        BulkOK(B, 0, AsSeq(last.pre), AsSeq(mem), AsSeq(src), AsSeq(src), last.kind, last.rs,
               last.re - last.rs)

\* ---- mutants ------------------------------------------------------------------------------
BrokenZeroMask(b0, b1) == Not8(Or8(ShlMax(b1), Not8(Shl8(255, b0))))     \* mask inverted
BrokenMiddleStart(sa, sb) == sa + 1                                       \* first whole byte skipped
BrokenSetMask(b0, b1) == And8(Not8(ShlMax(b1 - 1)), Shl8(255, b0))        \* end bit included twice
=============================================================================
