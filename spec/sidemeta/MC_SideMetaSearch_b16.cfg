SPECIFICATION SSpec
CONSTANTS
  B = 16
  NB = 6
  LR = 1
  MemVals = {0, 1, 128}
  ArgVals = {0}
  MaxSteps = 0

INVARIANTS
  PrevAgrees
  NextAgrees
  ScanAgrees
  PrevSound
CHECK_DEADLOCK FALSE
