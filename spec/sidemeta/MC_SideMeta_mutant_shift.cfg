SPECIFICATION Spec
CONSTANTS
  B = 4
  NB = 2
  MemVals = {0, 255, 165}
  ArgVals = {0, 1, 15, 10}
  MaxSteps = 1
  LShift <- BrokenLShift
INVARIANTS
  Refines
  BitStringAgrees
CHECK_DEADLOCK FALSE
