SPECIFICATION Spec
CONSTANTS
  B = 2
  NB = 1
  MemVals = {0}
  ArgVals = {0, 1, 2, 3}
  MaxSteps = 1
  MemVals <- AllBytes
INVARIANTS
  Refines
  BitStringAgrees
CHECK_DEADLOCK FALSE
