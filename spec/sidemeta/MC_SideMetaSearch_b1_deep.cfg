SPECIFICATION SSpec
CONSTANTS
  B = 1
  NB = 2
  LR = 1
  MemVals = {0, 1, 2, 16, 128, 129, 255, 36}
  ArgVals = {0}
  MaxSteps = 0

INVARIANTS
  PrevAgrees
  NextAgrees
  ScanAgrees
  PrevSound
CHECK_DEADLOCK FALSE
