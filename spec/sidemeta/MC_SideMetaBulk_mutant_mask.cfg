SPECIFICATION BSpec
CONSTANTS
  B = 1
  NB = 3
  MemVals = {255, 165}
  ArgVals = {90}
  MaxSteps = 1
  ZeroMask <- BrokenZeroMask
INVARIANTS
  BulkRefines
CHECK_DEADLOCK FALSE
