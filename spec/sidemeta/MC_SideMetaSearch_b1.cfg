SPECIFICATION SSpec
CONSTANTS
  B = 1
  NB = 1
  LR = 1
  MemVals = {0}
  ArgVals = {0}
  MaxSteps = 0
  MemVals <- AllBytes
INVARIANTS
  PrevAgrees
  NextAgrees
  ScanAgrees
  PrevSound
CHECK_DEADLOCK FALSE
