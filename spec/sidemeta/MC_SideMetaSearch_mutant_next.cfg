SPECIFICATION SSpec
CONSTANTS
  B = 2
  NB = 1
  LR = 1
  MemVals = {0, 1, 16, 128}
  ArgVals = {0}
  MaxSteps = 0
  NaiveNextFrom <- BrokenNextFrom
INVARIANTS
  PrevAgrees
  NextAgrees
  ScanAgrees
  PrevSound
CHECK_DEADLOCK FALSE
