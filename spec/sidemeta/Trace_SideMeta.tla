---------------------------- MODULE Trace_SideMeta ----------------------------
(* Validates recorded calls of the real SideMetadataSpec accessors (driver d_sidemeta c20)        *)
(* against SideMeta.  Rows:                                                                        *)
(*   Map  : a new history: lb, lr, dref/mref (data and metadata address of the dump start as bit  *)
(*          strings, LSB first), dump = metadata bytes from mref on (window + guard fields)        *)
(*   Raw  : the harness overwrote the dumped bytes itself (fill pattern); dump = new contents      *)
(*   Op   : one accessor call: lb, lr, pre = the dumped bytes before the call (must equal the     *)
(*          previous row's dump), op, off (data byte offset from dref, any address in the region), *)
(*          a1/a2 (arguments, LE bytes), calls (observed closure calls of fetch_update), hasret,  *)
(*          ret (LE bytes), ok (Ok/Err tag), post = the dumped bytes after the call               *)
(*   Crash: the code under test panicked or the driver process died - never allowed               *)
(* Every Op row is judged on its own pre/post dumps (so a stored row can be replayed alone); the   *)
(* state is the last dump and only links consecutive rows into a history.                         *)
EXTENDS SideMeta, Json, IOUtils, TLC

Rec == ndJsonDeserialize(IOEnv.TRACE)
VARIABLES l, cur

Calls(r, b) == [i \in 1..Len(r.calls) |->
                  [x |-> ValBits(r.calls[i].x, b), some |-> r.calls[i].some,
                   y |-> ValBits(r.calls[i].y, b)]]

OpRowOK(r) ==
    LET b == 2^r.lb
    IN  /\ r.op \in Kinds
        /\ cur = << >> \/ r.pre = cur                                \* histories are contiguous
        /\ ValWellFormed(r.a1, b) /\ ValWellFormed(r.a2, b)          \* generator constraints
        /\ \A i \in 1..Len(r.calls) : ValWellFormed(r.calls[i].y, b)
        /\ r.hasret => ValWellFormed(r.ret, b)                        \* result truncated to b bits
        /\ \A i \in 1..Len(r.calls) : ValWellFormed(r.calls[i].x, b) \* closure sees only the field
        /\ CallOK(b, r.lr, r.pre, r.post, r.op, r.off, ValBits(r.a1, b), ValBits(r.a2, b),
                  Calls(r, b), r.hasret, IF r.hasret THEN ValBits(r.ret, b) ELSE << >>, r.ok)

MapRowOK(r) ==
    /\ r.lb \in 0..6 /\ r.lr + 3 - r.lb >= 1
    /\ MetaOffsetOK(r.lb, r.lr, r.dref, r.mref)
    /\ (8 * Len(r.dump)) % (2^r.lb) = 0

RowOK(r) ==
    CASE r.ev = "Map" -> MapRowOK(r)
      [] r.ev = "Raw" -> TRUE
      [] r.ev = "Op" -> OpRowOK(r)
      [] OTHER -> FALSE

TInit == l = 1 /\ cur = << >>
TNext ==
    /\ l <= Len(Rec)
    /\ IF RowOK(Rec[l]) THEN TRUE ELSE PrintT("ROW_REJECTED l=" \o ToString(l))
    /\ l' = l + 1
    /\ cur' = CASE Rec[l].ev \in {"Map", "Raw"} -> Rec[l].dump
                [] Rec[l].ev = "Op" -> Rec[l].post
                [] OTHER -> cur
    /\ UNCHANGED <<mem, last, steps>>
TraceSpec == TInit /\ mem = << >> /\ last = [kind |-> "none"] /\ steps = 0
             /\ [][TNext]_<<l, cur, mem, last, steps>>

Accepted ==
    LET d == TLCGet("stats").diameter
    IN  IF d = Len(Rec) + 1 THEN TRUE
        ELSE /\ PrintT("TRACE_REJECTED matched=" \o ToString(d - 1) \o " of=" \o ToString(Len(Rec)))
             /\ FALSE
=============================================================================
