SPECIFICATION TraceSpec
CONSTANTS
  B = 1
  NB = 1
  LR = 0
  MemVals = {0}
  ArgVals = {0}
  MaxSteps = 0
POSTCONDITION Accepted
CHECK_DEADLOCK FALSE
