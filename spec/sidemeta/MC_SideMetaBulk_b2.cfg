SPECIFICATION BSpec
CONSTANTS
  B = 2
  NB = 3
  MemVals = {0, 255, 165}
  ArgVals = {90}
  MaxSteps = 1

INVARIANTS
  BulkRefines
CHECK_DEADLOCK FALSE
