SPECIFICATION Spec
CONSTANTS
  B = 1
  NB = 2
  MemVals = {0, 255, 165, 90, 1, 128}
  ArgVals = {0, 1}
  MaxSteps = 2

INVARIANTS
  Refines
  BitStringAgrees
CHECK_DEADLOCK FALSE
