------------------------------- MODULE SideMeta -------------------------------
(* C20. Side metadata (src/util/metadata/side_metadata/{global,helpers}.rs) is an array of        *)
(* independent fixed-width integers, one per data region.                                          *)
(*                                                                                                 *)
(* Layout contract (public: JIT fast paths rely on it).  A spec has b = 2^lb bits per region of    *)
(* 2^lr bytes.  Relative to the metadata address of a region-aligned data address D, the field of  *)
(* the region that contains D + off occupies the bits                                              *)
(*        [ (off \div 2^lr) * b ,  (off \div 2^lr) * b + b )                                        *)
(* of the metadata memory read as ONE little-endian bit string (bit k of byte j is bit 8j+k):      *)
(* sub-byte fields are packed LSB-first into a byte, wider fields are little-endian integers at    *)
(* naturally aligned addresses.  The metadata address of D itself is                               *)
(*        spec_start + ((D >> lr) >> (3-lb))   (lb <= 3)     spec_start + ((D >> lr) << (lb-3))     *)
(*                                                                                                 *)
(* Part 1 (operators, no state): the bit-string layout, field arithmetic on bit strings (so that   *)
(* 32/64-bit fields never need integers wider than TLC's), and the meaning of every accessor:      *)
(* NewVal/RetOK.  The trace specification evaluates these on recorded memory dumps.                *)
(* Part 2 (state machine, model checked): the byte-level shift/mask algebra the implementation     *)
(* uses for sub-byte fields (meta_byte_lshift / meta_byte_mask / fetch_ops_on_bits) refines the     *)
(* abstract array, and the bit-string arithmetic of part 1 is arithmetic modulo 2^b.               *)
EXTENDS Naturals, Sequences, FiniteSets

\* ------------------------------------------------------------------ part 1: layout ----------
BitOf(x, k) == (x \div (2^k)) % 2

\* The little-endian bit string of a byte sequence (1-based: bit i of the string is bit (i-1)%8
\* of byte (i-1)\div 8).
BitsOfBytes(bs) == [i \in 1..(8 * Len(bs)) |-> BitOf(bs[((i - 1) \div 8) + 1], (i - 1) % 8)]

\* Field f (0-based, counted from the start of the dump) of width b.
FieldOf(bits, b, f) == SubSeq(bits, f * b + 1, f * b + b)
NumFields(bits, b) == Len(bits) \div b

\* Region index of a data offset, and the field it selects.
RegionOf(off, lr) == off \div (2^lr)

\* A value travels in traces as little-endian bytes (one byte for sub-byte fields).
ValLen(b) == IF b < 8 THEN 1 ELSE b \div 8
ValBits(v, b) == SubSeq(BitsOfBytes(v), 1, b)
ValWellFormed(v, b) ==
    /\ Len(v) = ValLen(b)
    /\ \A i \in 1..Len(v) : v[i] \in 0..255
    /\ \A k \in b..7 : b < 8 => BitOf(v[1], k) = 0       \* truncated to the field width

ZeroBits(b) == [i \in 1..b |-> 0]
OneBits(b) == [i \in 1..b |-> 1]
IsZero(x) == \A i \in 1..Len(x) : x[i] = 0

\* ---- arithmetic on bit strings (LSB first), modulo 2^Len ----------------------------------
RECURSIVE AddRec(_, _, _, _)
AddRec(x, y, i, c) ==
    IF i > Len(x) THEN << >>
    ELSE LET s == x[i] + y[i] + c IN << s % 2 >> \o AddRec(x, y, i + 1, s \div 2)
AddBits(x, y) == AddRec(x, y, 1, 0)
NotBits(x) == [i \in 1..Len(x) |-> 1 - x[i]]
SubBits(x, y) == AddRec(x, NotBits(y), 1, 1)          \* x + ~y + 1
AndBits(x, y) == [i \in 1..Len(x) |-> x[i] * y[i]]
OrBits(x, y) == [i \in 1..Len(x) |-> IF x[i] + y[i] > 0 THEN 1 ELSE 0]

\* ---- meaning of the accessors ------------------------------------------------------------
\* kind: the SideMetadataSpec method.  old: the field before the call.  a1, a2: arguments
\* (store value / operand / CAS expected and new).  calls: the observed calls of the closure
\* given to fetch_update_atomic, as records [x |-> input, some |-> BOOLEAN, y |-> output].
Loads == {"load", "load_atomic"}
Stores == {"store", "store_atomic"}
Zeroes == {"set_zero", "set_zero_atomic"}
Fetches == {"fetch_add", "fetch_sub", "fetch_and", "fetch_or"}
Kinds == Loads \cup Stores \cup Zeroes \cup Fetches \cup {"cas", "update"}

NewVal(kind, old, a1, a2, calls) ==
    CASE kind \in Loads -> old
      [] kind \in Stores -> a1
      [] kind \in Zeroes -> ZeroBits(Len(old))
      [] kind = "cas" -> IF old = a1 THEN a2 ELSE old
      [] kind = "fetch_add" -> AddBits(old, a1)
      [] kind = "fetch_sub" -> SubBits(old, a1)
      [] kind = "fetch_and" -> AndBits(old, a1)
      [] kind = "fetch_or" -> OrBits(old, a1)
      [] kind = "update" -> IF calls[Len(calls)].some THEN calls[Len(calls)].y ELSE old

\* What the call returns: hasret = a value is returned; ret = that value; ok = the Ok/Err tag of
\* compare_exchange / fetch_update (TRUE where there is no tag).
RetOK(kind, old, a1, calls, hasret, ret, ok) ==
    CASE kind \in Loads \cup Fetches -> hasret /\ ret = old /\ ok
      [] kind \in Stores \cup Zeroes -> ~hasret /\ ok
      [] kind = "cas" -> hasret /\ ret = old /\ (ok <=> (old = a1))
      [] kind = "update" -> /\ hasret /\ ret = old
                            /\ Len(calls) >= 1
                            /\ \A i \in 1..Len(calls) : calls[i].x = old
                            /\ (ok <=> calls[Len(calls)].some)

\* One accessor call on a memory dump: exactly the field of the addressed region changes, to
\* NewVal; every other bit of the dump (neighbours in the same byte, guard bytes) is unchanged.
\* Only the bytes that hold the field (lo..hi) are expanded into bits.
CallOK(b, lr, pre, post, kind, off, a1, a2, calls, hasret, ret, ok) ==
    LET s == RegionOf(off, lr) * b                 \* bit offset of the field in the dump
        lo == (s \div 8) + 1
        hi == ((s + b - 1) \div 8) + 1
        t == s - 8 * (lo - 1)                       \* bit offset of the field inside byte lo
        sbits == BitsOfBytes(SubSeq(pre, lo, hi))
        pbits == BitsOfBytes(SubSeq(post, lo, hi))
        old == SubSeq(sbits, t + 1, t + b)
        new == NewVal(kind, old, a1, a2, calls)
    IN  /\ Len(post) = Len(pre)
        /\ hi <= Len(pre)
        /\ Len(new) = b
        /\ \A k \in 1..Len(pre) : (k < lo \/ k > hi) => post[k] = pre[k]
        /\ \A i \in 1..Len(sbits) :
              pbits[i] = IF i > t /\ i <= t + b THEN new[i - t] ELSE sbits[i]
        /\ RetOK(kind, old, a1, calls, hasret, ret, ok)

\* The metadata address of a region-aligned data address, on bit strings (LSB first, equal
\* lengths): mref = (dref >> lr) >> (3 - lb)  or  (dref >> lr) << (lb - 3).
ShiftR(x, n) == [i \in 1..Len(x) |-> IF i + n <= Len(x) THEN x[i + n] ELSE 0]
ShiftL(x, n) == [i \in 1..Len(x) |-> IF i - n >= 1 THEN x[i - n] ELSE 0]
MetaOffsetOK(lb, lr, dref, mref) ==
    /\ Len(dref) = Len(mref)
    /\ \A i \in 1..lr : dref[i] = 0                                   \* region aligned
    /\ mref = IF lb <= 3 THEN ShiftR(ShiftR(dref, lr), 3 - lb) ELSE ShiftL(ShiftR(dref, lr), lb - 3)
    /\ lb <= 3 => \A i \in 1..(lr + 3 - lb) : dref[i] = 0            \* byte aligned metadata

\* ------------------------------------------------------------------ part 2: refinement -------
\* A window of NB metadata bytes holding fields of B bits (B in {1,2,4,8}).  `mem` is the memory,
\* the abstract array is AbsVal(mem).  Each step performs one accessor the way global.rs does for
\* B < 8 (shift/mask on the containing byte) and records what it returned.
CONSTANTS B, NB, MemVals, ArgVals, MaxSteps
VARIABLES mem, last, steps

AllBytes == 0..255                          \* for MemVals <- AllBytes in deep configurations
PerByte == 8 \div B
NReg == NB * PerByte
Mod == 2^B

\* integer view of the abstract array
AbsVal(m) == [r \in 0..(NReg - 1) |-> (m[(r \div PerByte) + 1] \div (2^((r % PerByte) * B))) % Mod]

\* byte algebra (AND/OR/NOT on 0..255) spelled out with bits
B2(x, y, k) == ((x \div (2^k)) % 2) * ((y \div (2^k)) % 2)           \* bit k of x AND y
And8(x, y) == B2(x, y, 0) + 2 * B2(x, y, 1) + 4 * B2(x, y, 2) + 8 * B2(x, y, 3) + 16 * B2(x, y, 4)
              + 32 * B2(x, y, 5) + 64 * B2(x, y, 6) + 128 * B2(x, y, 7)
Or8(x, y) == x + y - And8(x, y)
Not8(x) == 255 - x
Shl8(x, n) == (x * (2^n)) % 256            \* u8 << n (truncating)

LShift(r) == (r % PerByte) * B             \* meta_byte_lshift
Mask == Mod - 1                             \* meta_byte_mask
ByteIdx(r) == (r \div PerByte) + 1

\* the implementation's formulas (global.rs)
ImplExtract(byte, r) == And8(byte, Shl8(Mask, LShift(r))) \div (2^LShift(r))
\* store / compare_exchange: (byte & !mask) | (v << lshift)       (v < 2^B is a precondition)
ImplInsert(byte, r, v) == Or8(And8(byte, Not8(Shl8(Mask, LShift(r)))), Shl8(v, LShift(r)))
\* fetch_ops_on_bits / fetch_update: (byte & !mask) | ((v << lshift) & mask)
ImplInsertMasked(byte, r, v) == Or8(And8(byte, Not8(Shl8(Mask, LShift(r)))), And8(Shl8(v, LShift(r)), Shl8(Mask, LShift(r))))
ImplAndRhs(r, v) == Or8(Shl8(v, LShift(r)), Not8(Shl8(Mask, LShift(r))))      \* fetch_and_atomic
ImplOrRhs(r, v) == And8(Shl8(v, LShift(r)), Shl8(Mask, LShift(r)))            \* fetch_or_atomic

\* abstract meaning on integers
AbsNew(kind, old, a1, a2) ==
    CASE kind = "load" -> old
      [] kind = "store" -> a1
      [] kind = "cas" -> IF old = a1 THEN a2 ELSE old
      [] kind = "fetch_add" -> (old + a1) % Mod
      [] kind = "fetch_sub" -> (old + Mod - a1) % Mod
      [] kind = "fetch_and" -> And8(old, a1)
      [] kind = "fetch_or" -> Or8(old, a1)

\* the implementation's new byte for each accessor
ImplByte(kind, byte, r, a1, a2) ==
    LET old == ImplExtract(byte, r)
    IN  CASE kind = "load" -> byte
          [] kind = "store" -> ImplInsert(byte, r, a1)
          [] kind = "cas" -> IF byte = ImplInsert(byte, r, a1) THEN ImplInsert(ImplInsert(byte, r, a1), r, a2) ELSE byte
          [] kind = "fetch_add" -> ImplInsertMasked(byte, r, (old + a1) % 256)
          [] kind = "fetch_sub" -> ImplInsertMasked(byte, r, (old + 256 - a1) % 256)
          [] kind = "fetch_and" -> And8(byte, ImplAndRhs(r, a1))
          [] kind = "fetch_or" -> Or8(byte, ImplOrRhs(r, a1))

MKinds == {"load", "store", "cas", "fetch_add", "fetch_sub", "fetch_and", "fetch_or"}

Init == /\ mem \in [1..NB -> MemVals]
        /\ last = [kind |-> "none"]
        /\ steps = 0

Call(kind, r, a1, a2) ==
    /\ steps < MaxSteps
    /\ mem' = [mem EXCEPT ![ByteIdx(r)] = ImplByte(kind, mem[ByteIdx(r)], r, a1, a2)]
    /\ last' = [kind |-> kind, r |-> r, a1 |-> a1, a2 |-> a2, pre |-> mem,
                ret |-> ImplExtract(mem[ByteIdx(r)], r)]
    /\ steps' = steps + 1

Next == \E kind \in MKinds, r \in 0..(NReg - 1), a1 \in ArgVals :
           \E a2 \in (IF kind = "cas" THEN ArgVals ELSE {0}) : Call(kind, r, a1, a2)

Spec == Init /\ [][Next]_<<mem, last, steps>>

\* Refinement: the byte algebra implements the abstract array: only region r changes, to AbsNew,
\* and the returned value is the previous field.
Refines ==
    last.kind # "none" =>
        LET av == AbsVal(last.pre)
        IN  /\ AbsVal(mem) = [av EXCEPT ![last.r] = AbsNew(last.kind, av[last.r], last.a1, last.a2)]
            /\ last.ret = av[last.r]

\* The bit-string formulation used on traces (part 1) is the same function: decode the previous
\* memory as a bit string, apply CallOK with the recorded call, and it must accept exactly the
\* memory the byte algebra produced.
IntBits(v, n) == [i \in 1..n |-> BitOf(v, i - 1)]
BitStringAgrees ==
    last.kind # "none" =>
        LET pre == [i \in 1..NB |-> last.pre[i]]
            post == [i \in 1..NB |-> mem[i]]
        IN  CallOK(B, 0, pre, post, last.kind, last.r, IntBits(last.a1, B), IntBits(last.a2, B),
                   << >>, last.kind # "store", IntBits(last.ret, B),
                   IF last.kind = "cas" THEN last.ret = last.a1 ELSE TRUE)

\* ---- mutants (MC_SideMeta_mutant*.cfg substitute these for the implementation formulas) -----
\* store that does not clear the old field first
BrokenInsertNoClear(byte, r, v) == Or8(byte, Shl8(v, LShift(r)))
\* fetch_add result not masked: the carry spills into the neighbour
BrokenInsertUnmasked(byte, r, v) == Or8(And8(byte, Not8(Shl8(Mask, LShift(r)))), Shl8(v, LShift(r)))
\* shift counted in fields instead of bits (wrong for 2- and 4-bit fields)
BrokenLShift(r) == r % PerByte
\* fetch_and without protecting the neighbours
BrokenAndRhs(r, v) == Shl8(v, LShift(r))
=============================================================================
