---------------------------- MODULE SideMetaSearch ----------------------------
(* C22. find_prev_non_zero_value / find_next_non_zero_value / scan_non_zero_values                *)
(* (global.rs, helpers.rs) return exactly what a region-by-region scan of the same range returns. *)
(*                                                                                                 *)
(* Part 1: the declarative meaning on a memory dump (layout as in SideMeta).  R = 2^lr.           *)
(*   NZ            = regions (fields of the dump) whose field is not zero                          *)
(*   FindPrev(a,L) = the highest region start x = f*R with f in NZ and a-L+1 <= x <= a            *)
(*                   ("starts from the given data address (including this address), and iterates   *)
(*                   backwards for the given bytes (non inclusive)"), None (-1) if there is none   *)
(*   FindNext(a,L) = the lowest region start x = f*R with f in NZ, f >= region(a), x < a+L         *)
(*   Scan(s,e)     = the ascending list of region starts f*R, f in NZ, s <= f*R < e                *)
(* Results are region starts ("an address that is aligned to the region", "the lowest address of  *)
(* that region").  All fields outside the dump are zero (harness guarantee), data at or above     *)
(* `dhi` is not mapped: a search that starts there may return None without looking.               *)
(* Part 2 (model checked): the region-by-region loops (the repo's *_simple functions) compute      *)
(* exactly these sets, for every bitmap, start address and limit of a small window.               *)
EXTENDS SideMeta, Integers

\* ------------------------------------------------------------------ part 1 -------------------
NonZeroField(bytes, b, f) ==
    IF b >= 8
    THEN \E k \in ((f * b) \div 8 + 1)..(((f + 1) * b) \div 8) : bytes[k] # 0
    ELSE (bytes[(f * b) \div 8 + 1] \div (2^((f * b) % 8))) % (2^b) # 0
NZSet(bytes, b) == {f \in 0..(((8 * Len(bytes)) \div b) - 1) : NonZeroField(bytes, b, f)}

MaxOf(S) == CHOOSE x \in S : \A y \in S : y <= x
MinOf(S) == CHOOSE x \in S : \A y \in S : y >= x

PrevCands(NZ, R, a, L) == {f \in NZ : f * R <= a /\ f * R >= a - L + 1}
FindPrev(NZ, R, a, L) == IF PrevCands(NZ, R, a, L) = {} THEN -1 ELSE MaxOf(PrevCands(NZ, R, a, L)) * R
NextCands(NZ, R, a, L) == {f \in NZ : f >= a \div R /\ f * R < a + L}
FindNext(NZ, R, a, L) == IF NextCands(NZ, R, a, L) = {} THEN -1 ELSE MinOf(NextCands(NZ, R, a, L)) * R

\* one recorded query q = <<a, L, res>>
PrevOK(NZ, R, dhi, q) == q[3] = FindPrev(NZ, R, q[1], q[2]) \/ (q[1] >= dhi /\ q[3] = -1)
NextOK(NZ, R, dhi, q) == q[3] = FindNext(NZ, R, q[1], q[2]) \/ (q[1] >= dhi /\ q[3] = -1)

\* scan over [s, e): regions entirely inside are reported exactly, in ascending order, by their
\* lowest address; a region only partially inside (s or e not region aligned) may or may not be.
ScanOK(NZ, R, s, e, res) ==
    LET must == {f \in NZ : f * R >= s /\ (f + 1) * R <= e}
        may == {f \in NZ : (f + 1) * R > s /\ f * R < e}
    IN  /\ \A i \in 1..Len(res) : res[i] % R = 0 /\ (res[i] \div R) \in may
        /\ \A i \in 1..(Len(res) - 1) : res[i] < res[i + 1]
        /\ \A f \in must : \E i \in 1..Len(res) : res[i] = f * R

\* ------------------------------------------------------------------ part 2 -------------------
\* mem (NB bytes, fields of B bits) is the bitmap; SetByte reaches every content over MemVals.
CONSTANT LR
RR == 2^LR
NFS == (NB * 8) \div B
Dump == [i \in 1..NB |-> mem[i]]

\* find_prev_non_zero_value_simple: cursor from align_down(a) downwards while cursor >= a-L+1
RECURSIVE NaivePrevFrom(_, _, _)
NaivePrevFrom(NZ, cursor, endAddr) ==
    IF cursor < endAddr \/ cursor < 0 THEN -1
    ELSE IF (cursor \div RR) \in NZ THEN cursor
    ELSE NaivePrevFrom(NZ, cursor - RR, endAddr)
NaivePrev(NZ, a, L) == NaivePrevFrom(NZ, (a \div RR) * RR, a - L + 1)

\* find_next_non_zero_value_simple: cursor from align_down(a) upwards while cursor < a+L
RECURSIVE NaiveNextFrom(_, _, _)
NaiveNextFrom(NZ, cursor, endAddr) ==
    IF cursor >= endAddr \/ cursor >= (NFS + 1) * RR THEN -1
    ELSE IF (cursor \div RR) \in NZ THEN cursor
    ELSE NaiveNextFrom(NZ, cursor + RR, endAddr)
NaiveNext(NZ, a, L) == NaiveNextFrom(NZ, (a \div RR) * RR, a + L)

\* scan_non_zero_values_simple for a region-aligned start
RECURSIVE NaiveScanFrom(_, _, _)
NaiveScanFrom(NZ, cursor, e) ==
    IF cursor >= e THEN << >>
    ELSE (IF (cursor \div RR) \in NZ THEN << cursor >> ELSE << >>) \o NaiveScanFrom(NZ, cursor + RR, e)

SInit == mem = [i \in 1..NB |-> 0] /\ last = [kind |-> "none"] /\ steps = 0
SetByte(k, v) == /\ mem' = [mem EXCEPT ![k] = v]
                 /\ UNCHANGED <<last, steps>>
SNext == \E k \in 1..NB, v \in MemVals : SetByte(k, v)
SSpec == SInit /\ [][SNext]_<<mem, last, steps>>

Addrs == 0..((NFS + 1) * RR - 1)
Limits == 1..((NFS + 1) * RR + 1)
PrevAgrees == LET NZ == NZSet(Dump, B) IN \A a \in Addrs, L \in Limits : NaivePrev(NZ, a, L) = FindPrev(NZ, RR, a, L)
NextAgrees == LET NZ == NZSet(Dump, B) IN \A a \in Addrs, L \in Limits : NaiveNext(NZ, a, L) = FindNext(NZ, RR, a, L)
ScanAgrees == LET NZ == NZSet(Dump, B)
              IN  \A fs \in 0..NFS, e \in 0..(NFS * RR) :
                     fs * RR <= e => ScanOK(NZ, RR, fs * RR, e, NaiveScanFrom(NZ, fs * RR, e))
\* the result of a search is always a non-zero region inside the byte range
PrevSound == LET NZ == NZSet(Dump, B)
             IN  \A a \in Addrs, L \in Limits :
                    LET x == FindPrev(NZ, RR, a, L)
                    IN  x # -1 => x % RR = 0 /\ (x \div RR) \in NZ /\ x <= a /\ x > a - L

\* ---- mutants: the loop bound is inclusive / exclusive at the wrong end -----------------------
RECURSIVE BrokenPrevFrom(_, _, _)
BrokenPrevFrom(NZ, cursor, endAddr) ==
    IF cursor <= endAddr \/ cursor < 0 THEN -1
    ELSE IF (cursor \div RR) \in NZ THEN cursor
    ELSE BrokenPrevFrom(NZ, cursor - RR, endAddr)
RECURSIVE BrokenNextFrom(_, _, _)
BrokenNextFrom(NZ, cursor, endAddr) ==
    IF cursor > endAddr \/ cursor >= (NFS + 1) * RR THEN -1
    ELSE IF (cursor \div RR) \in NZ THEN cursor
    ELSE BrokenNextFrom(NZ, cursor + RR, endAddr)
=============================================================================
