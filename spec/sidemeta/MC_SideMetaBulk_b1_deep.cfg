SPECIFICATION BSpec
CONSTANTS
  B = 1
  NB = 3
  MemVals = {0, 255, 165, 90}
  ArgVals = {90, 60}
  MaxSteps = 1

INVARIANTS
  BulkRefines
CHECK_DEADLOCK FALSE
