SPECIFICATION Spec
CONSTANTS
  B = 8
  NB = 2
  MemVals = {0, 255, 165, 1}
  ArgVals = {0, 1, 255, 170, 128, 127}
  MaxSteps = 1

INVARIANTS
  Refines
  BitStringAgrees
CHECK_DEADLOCK FALSE
