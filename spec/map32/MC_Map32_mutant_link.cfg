\* Vacuity control: freeing a region without patching its predecessor's next link must break
\* "the per-space lists link exactly the allocated regions" (middle / tail region freed).
SPECIFICATION Spec
CONSTANTS
  NChunks = 4
  NSpaces = 2
  MaxReq = 2
  PatchNextOfPrev <- NoPatch
INVARIANTS
  ListsExact
CHECK_DEADLOCK FALSE
