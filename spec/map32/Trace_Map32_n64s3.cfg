SPECIFICATION TraceSpec
CONSTANTS
  NChunks = 64
  NSpaces = 3
  MaxReq = 1
  CheckProp = FALSE
POSTCONDITION Accepted
CHECK_DEADLOCK FALSE
