SPECIFICATION TraceSpec
CONSTANTS
  NChunks = 24
  NSpaces = 3
  MaxReq = 1
  CheckProp = FALSE
POSTCONDITION Accepted
CHECK_DEADLOCK FALSE
