----------------------------------- MODULE Map32 -----------------------------------
(* C29. The chunk map used with discontiguous spaces (src/util/heap/layout/map32.rs `Map32`,      *)
(* with the list-head protocol of src/util/heap/pageresource.rs `CommonPageResource`).            *)
(*                                                                                               *)
(* Chunks 0 .. NChunks-1 are the chunks handed to `finalize_static_space_map` (the shared        *)
(* discontiguous range). State, mirroring `Map32Inner` and the page resources:                   *)
(*   desc[c]   descriptor_map: 0 = SpaceDescriptor::UNINITIALIZED, s = descriptor of space s     *)
(*   reg[c]    region_map seen through `get_contiguous_region_chunks`: n > 0 iff c is the first  *)
(*             chunk of an allocated region of n chunks (0: not a region head)                   *)
(*   own[c]    ghost: the space that requested the region whose first chunk is c (0: none)       *)
(*   cov[c]    ghost: the first chunk of the allocated region that contains chunk c (NIL: free); *)
(*             kept only so that "is chunk c free" is a constant-time lookup when long traces     *)
(*             are validated; invariant CovExact ties it to reg                                  *)
(*   next, prev  next_link / prev_link of region heads (NIL = the code's 0)                      *)
(*   head[s]   CommonPageResource::head_discontiguous_region of space s                          *)
(*   avail     total_available_discontiguous_chunks                                              *)
(* One action per call; each call runs under `Map32::sync` and the page resource's head lock.    *)
(* Which free run an allocation takes (the free list's first fit) is not specified.              *)
(* Deliberate deviations: `global_page_map`, `shared_discontig_fl_count`, SFT clearing and the   *)
(* unused `maybe_freelist` argument are not modelled.                                            *)
EXTENDS Integers, Sequences, FiniteSets

CONSTANTS NChunks, NSpaces, MaxReq
Chunks == 0..(NChunks - 1)
Spaces == 1..NSpaces
NIL == -1

\* ---- definitions on a state record ------------------------------------------------------------
Heads(X) == { c \in Chunks : X.reg[c] > 0 }
Covers(X, r, c) == r <= c /\ c < r + X.reg[r]
Covered(X, c) == \E r \in Heads(X) : Covers(X, r, c)
FreeRun(X, c, n) == \A i \in c..(c + n - 1) : i \in Chunks /\ X.cov[i] = NIL
RegionsOf(X, s) == { r \in Heads(X) : X.own[r] = s }
RECURSIVE WalkFrom(_, _, _)
WalkFrom(X, c, fuel) ==     \* the list from c following next (fuel bounds a corrupted, cyclic list)
    IF c = NIL \/ fuel = 0 THEN << >> ELSE << c >> \o WalkFrom(X, X.next[c], fuel - 1)
Walk(X, s) == WalkFrom(X, X.head[s], NChunks + 1)
SeqSet(q) == { q[i] : i \in 1..Len(q) }

\* ---- replaceable pieces of free_contiguous_chunks_no_lock (mutants) ---------------------------
PatchNextOfPrev(nx, pv, r) == TRUE      \* "if prev != 0 { next_link[prev] = next }" is executed
ClearDescriptors == TRUE                \* descriptor_map[..] = UNINITIALIZED is executed
AvailAfterFree(a, n) == a + n

\* ---- effects ----------------------------------------------------------------------------------
\* allocate_contiguous_chunks(descriptor of s, n, head[s]) returning chunk c, followed by
\* `*head = new_head` (grow_discontiguous_space)
AllocEff(X, s, n, c) ==
    LET h == X.head[s] IN
    [X EXCEPT !.reg[c] = n,
              !.own[c] = s,
              !.cov = [i \in Chunks |-> IF c <= i /\ i < c + n THEN c ELSE X.cov[i]],
              !.avail = X.avail - n,
              !.desc = [i \in Chunks |-> IF c <= i /\ i < c + n THEN s ELSE X.desc[i]],
              !.next = IF h = NIL THEN X.next ELSE [X.next EXCEPT ![c] = h],
              !.prev = IF h = NIL THEN X.prev ELSE [X.prev EXCEPT ![h] = c],
              !.head[s] = c]

\* free_contiguous_chunks_no_lock(r)
FreeOne(X, r) ==
    LET n == X.reg[r]
        nx == X.next[r]
        pv == X.prev[r]
        prev1 == IF nx # NIL THEN [X.prev EXCEPT ![nx] = pv] ELSE X.prev
        next1 == IF pv # NIL /\ PatchNextOfPrev(nx, pv, r) THEN [X.next EXCEPT ![pv] = nx] ELSE X.next
    IN  [X EXCEPT !.reg[r] = 0,
                  !.own[r] = 0,
                  !.cov = [i \in Chunks |-> IF r <= i /\ i < r + n THEN NIL ELSE X.cov[i]],
                  !.avail = AvailAfterFree(X.avail, n),
                  !.prev = [prev1 EXCEPT ![r] = NIL],
                  !.next = [next1 EXCEPT ![r] = NIL],
                  !.desc = [i \in Chunks |-> IF r <= i /\ i < r + n /\ ClearDescriptors
                                             THEN 0 ELSE X.desc[i]]]

\* release_discontiguous_chunks(r) of space s: the head moves on first, then the region is freed
ReleaseEff(X, s, r) ==
    LET X1 == IF r = X.head[s] THEN [X EXCEPT !.head[s] = X.next[r]] ELSE X
    IN  FreeOne(X1, r)

\* free_all_chunks(any): free next(any) while there is one, then prev(any) while there is one,
\* then any itself (fuel bounds a corrupted list)
RECURSIVE FreeNexts(_, _, _), FreePrevs(_, _, _)
FreeNexts(X, any, fuel) ==
    IF X.next[any] = NIL \/ fuel = 0 THEN X ELSE FreeNexts(FreeOne(X, X.next[any]), any, fuel - 1)
FreePrevs(X, any, fuel) ==
    IF X.prev[any] = NIL \/ fuel = 0 THEN X ELSE FreePrevs(FreeOne(X, X.prev[any]), any, fuel - 1)
FreeAllFrom(X, any) ==
    IF any = NIL THEN X
    ELSE FreeOne(FreePrevs(FreeNexts(X, any, NChunks), any, NChunks), any)
\* release_all_chunks of space s (any = head[s]); with the raw VMMap call any region of s may be
\* passed and the caller resets its head afterwards
ReleaseAllEff(X, s, any) == [FreeAllFrom(X, any) EXCEPT !.head[s] = NIL]

VARIABLES desc, reg, own, cov, next, prev, head, avail
vars == <<desc, reg, own, cov, next, prev, head, avail>>
Cur == [desc |-> desc, reg |-> reg, own |-> own, cov |-> cov, next |-> next, prev |-> prev,
        head |-> head, avail |-> avail]
Becomes(T) == /\ desc' = T.desc /\ reg' = T.reg /\ own' = T.own /\ cov' = T.cov /\ next' = T.next
              /\ prev' = T.prev /\ head' = T.head /\ avail' = T.avail

InitRec == [desc |-> [c \in Chunks |-> 0], reg |-> [c \in Chunks |-> 0],
            own |-> [c \in Chunks |-> 0], cov |-> [c \in Chunks |-> NIL], next |-> [c \in Chunks |-> NIL],
            prev |-> [c \in Chunks |-> NIL], head |-> [s \in Spaces |-> NIL], avail |-> NChunks]
Init == /\ desc = InitRec.desc /\ reg = InitRec.reg /\ own = InitRec.own /\ cov = InitRec.cov
        /\ next = InitRec.next
        /\ prev = InitRec.prev /\ head = InitRec.head /\ avail = InitRec.avail

Alloc(s, n, c) == FreeRun(Cur, c, n) /\ Becomes(AllocEff(Cur, s, n, c))
AllocFail(s, n) == (~\E c \in Chunks : FreeRun(Cur, c, n)) /\ UNCHANGED vars
Release(s, r) == r \in RegionsOf(Cur, s) /\ Becomes(ReleaseEff(Cur, s, r))
ReleaseAll(s) == s \in Spaces /\ Becomes(ReleaseAllEff(Cur, s, head[s]))
ReleaseAllAny(s, r) == r \in RegionsOf(Cur, s) /\ Becomes(ReleaseAllEff(Cur, s, r))

Next == \E s \in Spaces :
          \/ \E n \in 1..MaxReq : \/ \E c \in Chunks : Alloc(s, n, c)
                                  \/ AllocFail(s, n)
          \/ \E r \in Chunks : Release(s, r) \/ ReleaseAllAny(s, r)
          \/ ReleaseAll(s)
Spec == Init /\ [][Next]_vars

\* ---- the property -----------------------------------------------------------------------------
TypeOK == /\ desc \in [Chunks -> 0..NSpaces] /\ reg \in [Chunks -> 0..NChunks]
          /\ own \in [Chunks -> 0..NSpaces] /\ cov \in [Chunks -> Chunks \cup {NIL}]
          /\ next \in [Chunks -> Chunks \cup {NIL}] /\ prev \in [Chunks -> Chunks \cup {NIL}]
          /\ head \in [Spaces -> Chunks \cup {NIL}] /\ avail \in Int
\* (1) regions lie inside the discontiguous range and are pairwise disjoint, each owned by a space
RegionsDisjointX(X) ==
    /\ \A r \in Heads(X) : r + X.reg[r] <= NChunks /\ X.own[r] \in Spaces
    /\ \A r1, r2 \in Heads(X) : r1 < r2 => r1 + X.reg[r1] <= r2
\* (2) a chunk's descriptor names its owning space exactly while allocated, and is cleared otherwise
DescExactX(X) ==
    \A c \in Chunks :
        X.desc[c] = IF Covered(X, c) THEN X.own[CHOOSE r \in Heads(X) : Covers(X, r, c)] ELSE 0
\* (3) the per-space lists link exactly the allocated regions of the space
ListsExactX(X) ==
    \A s \in Spaces :
        LET w == Walk(X, s) IN
        /\ Len(w) = Cardinality(SeqSet(w))
        /\ SeqSet(w) = RegionsOf(X, s)
        /\ \A i \in 1..Len(w) : X.prev[w[i]] = IF i = 1 THEN NIL ELSE w[i - 1]
\* (4) the available-chunk count equals the chunks not allocated
AvailExactX(X) == X.avail = Cardinality({ c \in Chunks : ~Covered(X, c) })

\* the ghost cov is the covering relation defined by reg
CovExact == \A c \in Chunks :
              cov[c] = IF Covered(Cur, c) THEN CHOOSE r \in Heads(Cur) : Covers(Cur, r, c) ELSE NIL

RegionsDisjoint == RegionsDisjointX(Cur)
DescExact == DescExactX(Cur)
ListsExact == ListsExactX(Cur)
AvailExact == AvailExactX(Cur)

\* ---- mutants (vacuity control) ----------------------------------------------------------------
NoPatch(nx, pv, r) == FALSE
NoClear == FALSE
AvailForgets(a, n) == a
=====================================================================================
