SPECIFICATION Spec
CONSTANTS
  NChunks = 6
  NSpaces = 3
  MaxReq = 3
INVARIANTS
  TypeOK
  CovExact
  RegionsDisjoint
  DescExact
  ListsExact
  AvailExact
CHECK_DEADLOCK FALSE
