SPECIFICATION Spec
CONSTANTS
  NChunks = 5
  NSpaces = 2
  MaxReq = 3
INVARIANTS
  TypeOK
  CovExact
  RegionsDisjoint
  DescExact
  ListsExact
  AvailExact
CHECK_DEADLOCK FALSE
