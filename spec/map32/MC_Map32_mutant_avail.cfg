\* Vacuity control: not returning freed chunks to the available count must break AvailExact.
SPECIFICATION Spec
CONSTANTS
  NChunks = 4
  NSpaces = 2
  MaxReq = 2
  AvailAfterFree <- AvailForgets
INVARIANTS
  AvailExact
CHECK_DEADLOCK FALSE
