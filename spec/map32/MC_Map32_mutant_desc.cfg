\* Vacuity control: not clearing the descriptors of freed chunks must break DescExact.
SPECIFICATION Spec
CONSTANTS
  NChunks = 4
  NSpaces = 2
  MaxReq = 2
  ClearDescriptors <- NoClear
INVARIANTS
  DescExact
CHECK_DEADLOCK FALSE
