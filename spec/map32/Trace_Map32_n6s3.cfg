SPECIFICATION TraceSpec
CONSTANTS
  NChunks = 6
  NSpaces = 3
  MaxReq = 1
  CheckProp = TRUE
INVARIANTS
  RegionsDisjoint
  DescExact
  ListsExact
  AvailExact
POSTCONDITION Accepted
CHECK_DEADLOCK FALSE
