------------------------------- MODULE Trace_Map32 -------------------------------
(* Validates traces recorded from a private, real `Map32` (harness d_layout map32) against       *)
(* Map32.                                                                                        *)
(*  {"ev":"Reset","n":N,"spaces":S,"fin":b,"dstart":c,<observation>}   a fresh, finalized map    *)
(*  {"ev":"Op","d":depth,"mode":"pr"|"raw","k":"A"|"F"|"X","s":space,"n":chunks (A),            *)
(*   "r":region (F) / any-chunk (X, -1 = zero address),"ret":A: first chunk or -1 (zero address);*)
(*   raw F: freed chunk count; otherwise -1, <observation>}                                      *)
(*  <observation> = "desc":[descriptor index per chunk, first byte],"descE":[.. last byte],      *)
(*   "gdesc":[chunk below, chunk above the range],"walk":[per space [[first chunk, chunks,       *)
(*   size/chunk size],..] following get_next_contiguous_region from the space's list head],      *)
(*   "avail":get_available_discontiguous_chunks                                                  *)
(*  optional "rc":{"heads":[..],<observation>}: the history of this row was executed on the      *)
(*   previous instance after releasing all spaces; the observation after the release must be     *)
(*   the initial one (then the same specification state stack[k] is the pre-state)               *)
(*  {"ev":"Crash",..}  the code under test panicked: never allowed                               *)
(* History structure (d) as in Trace_Mmapper: d = k > 0 is the k-th call of the history formed   *)
(* by the most recent rows of depth 1..k-1, its pre-state is stack[k]; d = 0 continues the        *)
(* previous row's history. Which free run an allocation returns and the order of a region list   *)
(* are not constrained: the returned region must be free and inside the range, the list must     *)
(* contain exactly the space's regions once each.                                                *)
EXTENDS Map32, Json, IOUtils, TLC

CONSTANT CheckProp   \* re-evaluate the (quadratic) property definitions on every accepted state

Rec == ndJsonDeserialize(IOEnv.TRACE)

VARIABLES l, stack, fd
tvars == <<l, stack, fd>>

PreOK(r, S) ==
    /\ r.s \in Spaces
    /\ CASE r.k = "A" -> r.n >= 1
         [] r.k = "F" -> r.r \in RegionsOf(S, r.s)
         [] r.k = "X" -> IF r.r = -1 THEN RegionsOf(S, r.s) = {} ELSE r.r \in RegionsOf(S, r.s)
         [] OTHER -> FALSE

\* the call's own result is acceptable in pre-state S
ResultOK(r, S) ==
    CASE r.k = "A" -> IF r.ret = -1 THEN ~\E c \in Chunks : FreeRun(S, c, r.n)   \* zero address: no room
                      ELSE FreeRun(S, r.ret, r.n)          \* inside the range and disjoint from every region
      [] r.k = "F" -> r.ret = -1 \/ r.ret = S.reg[r.r]
      [] OTHER -> TRUE
Post(r, S) ==
    CASE r.k = "A" -> IF r.ret = -1 THEN S ELSE AllocEff(S, r.s, r.n, r.ret)
      [] r.k = "F" -> ReleaseEff(S, r.s, r.r)
      [] OTHER -> ReleaseAllEff(S, r.s, IF r.r = -1 THEN NIL ELSE r.r)

Observed(r, T) ==
    /\ Len(r.desc) = NChunks /\ Len(r.descE) = NChunks /\ Len(r.walk) = NSpaces
    /\ \A c \in Chunks : r.desc[c + 1] = T.desc[c] /\ r.descE[c + 1] = T.desc[c]
    /\ r.gdesc = << 0, 0 >>
    /\ \A s \in Spaces :
         LET w == r.walk[s] IN
         /\ \A i, j \in 1..Len(w) : i # j => w[i][1] # w[j][1]
         /\ { w[i][1] : i \in 1..Len(w) } = RegionsOf(T, s)
         /\ \A i \in 1..Len(w) : w[i][2] = T.reg[w[i][1]] /\ w[i][3] = w[i][2]
    /\ r.avail = T.avail
\* "rc" (optional): the row's history ran on a re-used instance after all spaces were released;
\* what was observed then must be the initial state again
RcOK(r) == "rc" \in DOMAIN r => (Observed(r.rc, InitRec) /\ \A s \in Spaces : r.rc.heads[s] = -1)
\* the property on the specification's state (holds by the MC runs; re-checked on every row)
PropertyOn(T) == RegionsDisjointX(T) /\ DescExactX(T) /\ ListsExactX(T) /\ AvailExactX(T)

Skip == UNCHANGED <<vars, stack, fd>>
Cut(d) == IF d = 0 THEN stack ELSE SubSeq(stack, 1, d)
Reject(d) ==
    /\ PrintT("ROW_REJECTED l=" \o ToString(l))
    /\ fd' = (IF d = 0 THEN 1 ELSE d)
    /\ stack' = Cut(d)
    /\ UNCHANGED vars

TInit == /\ l = 1 /\ stack = << InitRec >> /\ fd = 0 /\ Init

Skipped(r) == fd # 0 /\ (r.d = 0 \/ r.d > fd)

Step(r) ==
    CASE r.ev = "Reset" ->
           /\ IF r.n = NChunks /\ r.spaces = NSpaces THEN TRUE
              ELSE PrintT("PRECOND_FAILED l=" \o ToString(l) \o " constants differ from the cfg")
           /\ Becomes(InitRec) /\ stack' = << InitRec >>
           /\ IF r.fin /\ r.dstart = 0 /\ Observed(r, InitRec)
              THEN fd' = 0
              ELSE PrintT("ROW_REJECTED l=" \o ToString(l)) /\ fd' = 1
      [] r.ev = "Op" ->
           IF Skipped(r) THEN Skip
           ELSE IF r.d > Len(stack) THEN
                /\ PrintT("PRECOND_FAILED l=" \o ToString(l) \o " depth without parent")
                /\ Skip
           ELSE LET d == IF r.d = 0 THEN Len(stack) ELSE r.d
                    S == stack[d]
                IN  IF ~RcOK(r) THEN Reject(r.d)
                    ELSE IF ~PreOK(r, S) THEN
                        /\ PrintT("PRECOND_FAILED l=" \o ToString(l))
                        /\ fd' = (IF r.d = 0 THEN 1 ELSE d) /\ stack' = Cut(r.d)
                        /\ UNCHANGED vars
                    ELSE IF ~ResultOK(r, S) THEN Reject(r.d)
                    ELSE LET T == Post(r, S) IN
                         IF Observed(r, T) /\ (CheckProp => PropertyOn(T)) THEN
                            /\ Becomes(T)
                            /\ stack' = (IF r.d = 0 THEN << T >> ELSE Append(SubSeq(stack, 1, d), T))
                            /\ fd' = 0
                         ELSE Reject(r.d)
      [] OTHER ->   \* Crash or unknown row
           IF Skipped(r) THEN Skip ELSE Reject(r.d)

TNext == /\ l <= Len(Rec)
         /\ Step(Rec[l])
         /\ l' = l + 1
TraceSpec == TInit /\ [][TNext]_<<vars, tvars>>

Accepted ==
    LET d == TLCGet("stats").diameter
    IN  IF d = Len(Rec) + 1 THEN TRUE
        ELSE /\ PrintT("TRACE_REJECTED matched=" \o ToString(d - 1) \o " of=" \o ToString(Len(Rec)))
             /\ FALSE
=====================================================================================
