SPECIFICATION TraceSpec
CONSTANTS
  NChunks = 4
  NSpaces = 2
  MaxReq = 1
  CheckProp = TRUE
INVARIANTS
  RegionsDisjoint
  DescExact
  ListsExact
  AvailExact
POSTCONDITION Accepted
CHECK_DEADLOCK FALSE
