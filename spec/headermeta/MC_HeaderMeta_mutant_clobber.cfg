\* Vacuity control: a store that rewrites the whole byte of a sub-byte field must violate Isolation.
SPECIFICATION Spec
CONSTANTS
  BB = 3
  W = 2
  H = 2
  MaskMode = "few"
  CasMode = "few"
  Put <- ClobberPut
INVARIANTS
  AllCallsCorrect
CHECK_DEADLOCK FALSE
