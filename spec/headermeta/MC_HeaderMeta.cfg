\* quick A: 3-bit bytes, window of 2 bytes, header address at the second byte (bit offsets -3..2):
\* all 64 window contents x all legal specs (1, 2 bits inside a byte at every shift; whole bytes)
\* x every call with every mask and every (expected, new) pair
SPECIFICATION Spec
CONSTANTS
  BB = 3
  W = 2
  H = 2
  MaskMode = "few"
  CasMode = "few"
INVARIANTS
  TypeOK
  AllCallsCorrect
  PreAdmitsCalls
CHECK_DEADLOCK FALSE
