------------------------------- MODULE BitwiseCheck -------------------------------
(* Trace_HeaderMeta substitutes TLC's built-in bitwise operators (module Bitwise, implemented in    *)
(* Java) for the reference definitions RefAndN / RefOrN of HeaderMeta. This model checks that they  *)
(* coincide on all 65536 pairs of byte values (one state per left operand).                         *)
EXTENDS Integers, Bitwise

RECURSIVE RefAndN(_, _, _), RefOrN(_, _, _)
RefAndN(x, y, n) == IF n = 0 THEN 0
                    ELSE (x % 2) * (y % 2) + 2 * RefAndN(x \div 2, y \div 2, n - 1)
RefOrN(x, y, n)  == IF n = 0 THEN 0
                    ELSE ((x % 2) + (y % 2) - (x % 2) * (y % 2)) + 2 * RefOrN(x \div 2, y \div 2, n - 1)

VARIABLE x
Init == x = 0
Step == x < 255 /\ x' = x + 1
Spec == Init /\ [][Step]_x
Agrees == \A y \in 0..255 : RefAndN(x, y, 8) = (x & y) /\ RefOrN(x, y, 8) = (x | y)
======================================================================================
