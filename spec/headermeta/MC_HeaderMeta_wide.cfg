\* quick B: 2-bit bytes, window of 2 bytes starting at the header address (bit offsets 0..3):
\* 1-byte and 2-byte fields (2 and 4 bits) with carry / borrow, every mask, every (expected, new)
SPECIFICATION Spec
CONSTANTS
  BB = 2
  W = 2
  H = 1
  MaskMode = "all"
  CasMode = "few"
INVARIANTS
  TypeOK
  AllCallsCorrect
  PreAdmitsCalls
CHECK_DEADLOCK FALSE
