--------------------------------- MODULE HeaderMeta ---------------------------------
(* C23. In-header metadata (src/util/metadata/header_metadata.rs, HeaderMetadataSpec).             *)
(*                                                                                                  *)
(* A header spec is (off, w): `w` bits starting at bit position `off` relative to the header        *)
(* address, counted LSB-first; negative positions lie in the bytes before the header address.       *)
(* Legal specs: 1..BB-1 bits inside one byte, or BB, 2BB, 4BB, 8BB bits naturally aligned           *)
(* (BB = bits per byte: 8 in the implementation, a small number for model checking).                *)
(* load / store / compare_exchange of byte-or-wider fields take an optional mask selecting the      *)
(* part of the field the call is about (forwarding pointer without the forwarding bits).            *)
(*                                                                                                  *)
(* Two formulations are given and TLC checks that they agree:                                       *)
(*  - the property of C23 stated declaratively on bit positions and integers (Isolation, RetPrev,   *)
(*    Effect), and                                                                                  *)
(*  - the constructive byte-level definition `Apply` (shift/mask algebra on bytes, little-endian    *)
(*    byte sequences with carry for wide values) that the trace specification uses to validate      *)
(*    calls of the real accessors (64-bit values do not fit TLC integers).                          *)
EXTENDS Integers, Sequences, FiniteSets, TLC

CONSTANTS BB,   \* bits per byte
          W,    \* bytes in the header window
          H     \* 1-based window index of the byte the header address points to

Pow2(n) == 2 ^ n
BV == Pow2(BB)                       \* number of byte values

\* ---- bit algebra on naturals below 2^n (pure TLA+, so that BB can be a constant) --------------
RECURSIVE RefAndN(_, _, _), RefOrN(_, _, _)
RefAndN(x, y, n) == IF n = 0 THEN 0
                    ELSE (x % 2) * (y % 2) + 2 * RefAndN(x \div 2, y \div 2, n - 1)
RefOrN(x, y, n)  == IF n = 0 THEN 0
                    ELSE ((x % 2) + (y % 2) - (x % 2) * (y % 2)) + 2 * RefOrN(x \div 2, y \div 2, n - 1)
\* (the trace specification substitutes TLC's built-in bitwise operators for these two after
\*  checking that they coincide with the definitions above on all byte values)
AndN(x, y, n) == RefAndN(x, y, n)
OrN(x, y, n)  == RefOrN(x, y, n)
BitOf(x, i)   == (x \div Pow2(i)) % 2

\* ---- specs -------------------------------------------------------------------------------------
SubByte(w) == w < BB
Legal(off, w) ==
    \/ w \in 1..(BB - 1) /\ (off % BB) + w <= BB
    \/ w \in {BB, 2 * BB, 4 * BB, 8 * BB} /\ off % w = 0
NB(w)      == IF SubByte(w) THEN 1 ELSE w \div BB      \* bytes of a value of the field
Base(off)  == H + (off \div BB)                         \* window index of the field's first byte
Shift(off) == off % BB                                  \* (\div and % are floor division: -1 \div 8 = -1)
InWindow(off, w) == Base(off) >= 1 /\ Base(off) + NB(w) - 1 <= W

\* ---- values: little-endian byte sequences of NB(w) bytes ---------------------------------------
\* (TLCEval only forces TLC to evaluate a function constructor once instead of at every application)
FullV(w)   == IF SubByte(w) THEN << Pow2(w) - 1 >> ELSE TLCEval([i \in 1..NB(w) |-> BV - 1])
ZeroV(w)   == TLCEval([i \in 1..NB(w) |-> 0])
IsVal(v, w) == /\ Len(v) = NB(w)
               /\ \A i \in 1..NB(w) : v[i] \in 0..((IF SubByte(w) THEN Pow2(w) ELSE BV) - 1)
AndV(a, b, w) == TLCEval([i \in 1..NB(w) |-> AndN(a[i], b[i], BB)])
OrV(a, b, w)  == TLCEval([i \in 1..NB(w) |-> OrN(a[i], b[i], BB)])
NotV(a, w)    == LET F == FullV(w) IN TLCEval([i \in 1..NB(w) |-> F[i] - a[i]])
Within(a, m, w) == AndV(a, m, w) = a                    \* a has no bit outside m

\* wrapping add / subtract with carry / borrow (mod 2^w)
RECURSIVE CarryIn(_, _, _), BorrowIn(_, _, _)
CarryIn(a, b, i)  == IF i = 1 THEN 0 ELSE (a[i - 1] + b[i - 1] + CarryIn(a, b, i - 1)) \div BV
BorrowIn(a, b, i) == IF i = 1 THEN 0
                     ELSE IF a[i - 1] - b[i - 1] - BorrowIn(a, b, i - 1) < 0 THEN 1 ELSE 0
AddV(a, b, w) == IF SubByte(w) THEN << (a[1] + b[1]) % Pow2(w) >>
                 ELSE TLCEval([i \in 1..NB(w) |-> (a[i] + b[i] + CarryIn(a, b, i)) % BV])
SubV(a, b, w) == IF SubByte(w) THEN << (a[1] - b[1]) % Pow2(w) >>
                 ELSE TLCEval([i \in 1..NB(w) |-> (a[i] - b[i] - BorrowIn(a, b, i)) % BV])

\* ---- field access on the window h : [1..W -> 0..BV-1] -------------------------------------------
Get(h, off, w) ==
    IF SubByte(w) THEN << (h[Base(off)] \div Pow2(Shift(off))) % Pow2(w) >>
    ELSE TLCEval([i \in 1..NB(w) |-> h[Base(off) + i - 1]])
Put(h, off, w, v) ==
    IF SubByte(w)
    THEN LET b   == Base(off)
             s   == Shift(off)
             old == (h[b] \div Pow2(s)) % Pow2(w)
         IN  [h EXCEPT ![b] = h[b] - old * Pow2(s) + v[1] * Pow2(s)]
    ELSE TLCEval([i \in 1..W |-> IF i >= Base(off) /\ i < Base(off) + NB(w)
                                 THEN v[i - Base(off) + 1] ELSE h[i]])

\* ---- operations ----------------------------------------------------------------------------------
\* op = [k, a, b, m, fk]:  k in load, load_atomic, store, store_atomic, cas, add, sub, and, or, upd;
\* a, b values; m the mask (FullV(w) when the call passes None); fk names the closure of
\* fetch_update: "none" = |x| None, "const" = |x| Some(a), "add" = |x| Some(x + a mod 2^w),
\* "cond" = |x| if x = a then None else Some(b).
\* Preconditions of the API (generator constraints): sub-byte specs take no mask; values fit the
\* field; compare_exchange arguments lie inside the mask.
Pre(off, w, op) ==
    /\ Legal(off, w) /\ InWindow(off, w)
    /\ IsVal(op.m, w) /\ (SubByte(w) => op.m = FullV(w))
    /\ op.k \in {"store", "store_atomic", "add", "sub", "and", "or"} => IsVal(op.a, w)
    /\ op.k = "cas" => IsVal(op.a, w) /\ IsVal(op.b, w) /\ Within(op.a, op.m, w) /\ Within(op.b, op.m, w)
    /\ op.k \notin {"load", "load_atomic", "store", "store_atomic", "cas"} => op.m = FullV(w)
    /\ op.k = "upd" =>
          /\ op.fk \in {"none", "const", "add", "cond"}
          /\ op.fk \in {"const", "add", "cond"} => IsVal(op.a, w)
          /\ op.fk = "cond" => IsVal(op.b, w)

Ret(t, v) == [t |-> t, v |-> v]

\* What compare_exchange reports: the previous value of the field the call is about (C23).
CasRet(h, off, w, m) == AndV(Get(h, off, w), m, w)

\* Result of the closure named (fk, a, b) on the value x: <<TRUE, new>> or <<FALSE, _>>.
Closure(op, x, w) ==
    CASE op.fk = "none"  -> << FALSE, x >>
      [] op.fk = "const" -> << TRUE, op.a >>
      [] op.fk = "add"   -> << TRUE, AddV(x, op.a, w) >>
      [] op.fk = "cond"  -> IF x = op.a THEN << FALSE, x >> ELSE << TRUE, op.b >>

Apply(h, off, w, op) ==
    LET cur == Get(h, off, w)
        m   == op.m
        keep(v) == OrV(AndV(cur, NotV(m, w), w), v, w)   \* bits outside the mask stay
    IN  CASE op.k \in {"load", "load_atomic"} ->
               [h |-> h, ret |-> Ret("val", AndV(cur, m, w))]
          [] op.k \in {"store", "store_atomic"} ->
               [h |-> Put(h, off, w, keep(AndV(op.a, m, w))), ret |-> Ret("none", << >>)]
          [] op.k = "cas" ->
               IF AndV(cur, m, w) = op.a
               THEN [h |-> Put(h, off, w, keep(op.b)), ret |-> Ret("ok", CasRet(h, off, w, m))]
               ELSE [h |-> h, ret |-> Ret("err", CasRet(h, off, w, m))]
          [] op.k = "add" -> [h |-> Put(h, off, w, AddV(cur, op.a, w)), ret |-> Ret("val", cur)]
          [] op.k = "sub" -> [h |-> Put(h, off, w, SubV(cur, op.a, w)), ret |-> Ret("val", cur)]
          [] op.k = "and" -> [h |-> Put(h, off, w, AndV(cur, op.a, w)), ret |-> Ret("val", cur)]
          [] op.k = "or"  -> [h |-> Put(h, off, w, OrV(cur, op.a, w)), ret |-> Ret("val", cur)]
          [] op.k = "upd" ->
               LET c == Closure(op, cur, w)
               IN  IF c[1] THEN [h |-> Put(h, off, w, c[2]), ret |-> Ret("ok", cur)]
                   ELSE [h |-> h, ret |-> Ret("err", cur)]

\* ================================================================================================
\* The property of C23, stated on bit positions and integers (used for model checking only: the
\* integers stay small because BB and W are small there).
\* ================================================================================================
WinBits == ((1 - H) * BB)..((W - H + 1) * BB - 1)          \* all bit positions of the window
BitAt(h, p) == BitOf(h[H + (p \div BB)], p % BB)
RECURSIVE SumBits(_, _, _, _)
SumBits(h, off, k, w) == IF k = w THEN 0 ELSE BitAt(h, off + k) * Pow2(k) + SumBits(h, off, k + 1, w)
FieldInt(h, off, w) == SumBits(h, off, 0, w)               \* the field as an integer
RECURSIVE SeqIntFrom(_, _)
SeqIntFrom(v, i) == IF i > Len(v) THEN 0 ELSE v[i] + BV * SeqIntFrom(v, i + 1)
ValInt(v) == SeqIntFrom(v, 1)                               \* a value as an integer
FieldBits(off, w) == off..(off + w - 1)
MaskedBits(off, w, m) == LET mi == ValInt(m) IN { off + k : k \in { j \in 0..(w - 1) : BitOf(mi, j) = 1 } }

\* bits the call is allowed to modify
MayTouch(off, w, op) ==
    CASE op.k \in {"load", "load_atomic"} -> {}
      [] op.k \in {"store", "store_atomic", "cas"} -> MaskedBits(off, w, op.m)
      [] OTHER -> FieldBits(off, w)

\* (1) every accessor modifies only the bits of that field
Isolation(h, off, w, op, r) ==
    \A p \in WinBits \ MayTouch(off, w, op) : BitAt(r.h, p) = BitAt(h, p)

\* (2) value-returning operations return the previous value of that field only
RetPrev(h, off, w, op, r) ==
    LET prev == AndN(FieldInt(h, off, w), ValInt(op.m), w)
    IN  /\ op.k \in {"store", "store_atomic"} => r.ret.t = "none"
        /\ op.k \notin {"store", "store_atomic"} => ValInt(r.ret.v) = prev /\ IsVal(r.ret.v, w)

\* (3) the field's new value is the operation's function of the old one (mod 2^w), and success /
\*     failure is reported exactly
Effect(h, off, w, op, r) ==
    LET old == FieldInt(h, off, w)
        new == FieldInt(r.h, off, w)
        mi  == ValInt(op.m)
        ai  == ValInt(op.a)
        bi  == ValInt(op.b)
        M   == Pow2(w)
    IN  CASE op.k \in {"load", "load_atomic"} -> new = old /\ r.ret.t = "val"
          [] op.k \in {"store", "store_atomic"} -> AndN(new, mi, w) = AndN(ai, mi, w)
          [] op.k = "cas" -> IF AndN(old, mi, w) = ai
                             THEN r.ret.t = "ok" /\ AndN(new, mi, w) = bi
                             ELSE r.ret.t = "err" /\ new = old
          [] op.k = "add" -> new = (old + ai) % M /\ r.ret.t = "val"
          [] op.k = "sub" -> new = (old - ai) % M /\ r.ret.t = "val"
          [] op.k = "and" -> new = AndN(old, ai, w) /\ r.ret.t = "val"
          [] op.k = "or"  -> new = OrN(old, ai, w) /\ r.ret.t = "val"
          [] op.k = "upd" ->
               CASE op.fk = "none"  -> new = old /\ r.ret.t = "err"
                 [] op.fk = "const" -> new = ai /\ r.ret.t = "ok"
                 [] op.fk = "add"   -> new = (old + ai) % M /\ r.ret.t = "ok"
                 [] op.fk = "cond"  -> IF old = ai THEN new = old /\ r.ret.t = "err"
                                       ELSE new = bi /\ r.ret.t = "ok"

Correct(h, off, w, op) ==
    LET r == Apply(h, off, w, op)
    IN  /\ Isolation(h, off, w, op, r)
        /\ RetPrev(h, off, w, op, r)
        /\ Effect(h, off, w, op, r)
        /\ \A i \in 1..W : r.h[i] \in 0..(BV - 1)

\* ---- state machine for model checking: all windows are reached by flipping single bits through
\* ---- the model of `store` on 1-bit specs; in every window every legal call is checked. -----------
CONSTANTS MaskMode,  \* "all": every mask value; "few": none, all-but-low-bit, alternating
          CasMode    \* "all": every (expected, new) pair inside the mask; "few": new from 3 picks
VARIABLE hdr

Specs == { s \in ((1 - H) * BB..(W - H + 1) * BB - 1) \X (1..(8 * BB)) :
             Legal(s[1], s[2]) /\ InWindow(s[1], s[2]) }
Vals(w) == IF SubByte(w) THEN { << x >> : x \in 0..(Pow2(w) - 1) }
           ELSE { v \in [1..NB(w) -> 0..(BV - 1)] : TRUE }
AltV(w) == [i \in 1..NB(w) |-> AndN(FullV(w)[i], (BV \div 3) * 2 + (BV % 3) \div 2, BB)]
Masks(w) == IF SubByte(w) THEN { FullV(w) }
            ELSE IF MaskMode = "all" THEN Vals(w)
            ELSE { FullV(w), [FullV(w) EXCEPT ![1] = BV - 2], AltV(w) }
Op(k, a, b, m, fk) == [k |-> k, a |-> a, b |-> b, m |-> m, fk |-> fk]
Check(h, off, w, op) == Correct(h, off, w, op)
\* every legal call on field (off, w) in window h (the *_atomic variants are the same model
\* operations as load / store and are not enumerated separately)
AllCallsOn(h, off, w) ==
    LET F == FullV(w)
        Z == ZeroV(w)
        cur == Get(h, off, w)
        CasNew(m) == IF CasMode = "all" THEN { x \in Vals(w) : Within(x, m, w) }
                     ELSE { Z, AndV(F, m, w), AndV(NotV(cur, w), m, w) }
    IN  /\ \A m \in Masks(w) :
             /\ Check(h, off, w, Op("load", Z, Z, m, ""))
             /\ \A a \in Vals(w) :
                  /\ Check(h, off, w, Op("store", a, Z, m, ""))
                  /\ Within(a, m, w) => \A b \in CasNew(m) : Check(h, off, w, Op("cas", a, b, m, ""))
        /\ \A a \in Vals(w) :
             /\ \A k \in {"add", "sub", "and", "or"} : Check(h, off, w, Op(k, a, Z, F, ""))
             /\ \A fk \in {"const", "add"} : Check(h, off, w, Op("upd", a, Z, F, fk))
             /\ \A x \in {cur, NotV(cur, w)} : Check(h, off, w, Op("upd", x, a, F, "cond"))
        /\ Check(h, off, w, Op("upd", Z, Z, F, "none"))

Init == hdr = [i \in 1..W |-> 0]
Flip == \E p \in WinBits :
          LET cur == Get(hdr, p, 1)
          IN  hdr' = Apply(hdr, p, 1, Op("store", << 1 - cur[1] >>, << 0 >>, << 1 >>, "")).h
Next == Flip
Spec == Init /\ [][Next]_hdr

TypeOK == hdr \in [1..W -> 0..(BV - 1)]
AllCallsCorrect == \A s \in Specs : AllCallsOn(hdr, s[1], s[2])
\* the API preconditions used as generator constraints by the trace specification admit the calls
\* enumerated above (checked on a sample of them: Pre does not depend on the window contents)
PreAdmitsCalls ==
    \A s \in Specs :
        LET w == s[2]
            F == FullV(w)
            Z == ZeroV(w)
        IN  /\ \A m \in Masks(w) : \A k \in {"load", "store"} : Pre(s[1], w, Op(k, F, Z, m, ""))
            /\ \A m \in Masks(w) : Pre(s[1], w, Op("cas", AndV(F, m, w), Z, m, ""))
            /\ \A k \in {"add", "sub", "and", "or"} : Pre(s[1], w, Op(k, F, Z, F, ""))
            /\ \A fk \in {"none", "const", "add", "cond"} : Pre(s[1], w, Op("upd", F, Z, F, fk))
\* the model's spec universe is not vacuous (evaluated once, on the constants)
ASSUME NonVacuous ==
    /\ \E s \in Specs : SubByte(s[2]) /\ Shift(s[1]) > 0
    /\ \E s \in Specs : ~SubByte(s[2])
    /\ H > 1 => \E s \in Specs : s[1] < 0 /\ SubByte(s[2]) /\ Shift(s[1]) > 0
    /\ H > 1 => \E s \in Specs : s[1] < 0 /\ ~SubByte(s[2])

\* ---- mutants (vacuity control): substituted for the definitions above by MC_*_mutant*.cfg ---------
\* the deviation of §9 item 3: compare_exchange reports the whole containing byte / unmasked word
ContainerCasRet(h, off, w, m) ==
    IF SubByte(w) THEN << h[Base(off)] >> ELSE Get(h, off, w)
\* a store that rewrites the whole byte of a sub-byte field
ClobberPut(h, off, w, v) ==
    IF SubByte(w) THEN [h EXCEPT ![Base(off)] = v[1] * Pow2(Shift(off))]
    ELSE [i \in 1..W |-> IF i >= Base(off) /\ i < Base(off) + NB(w)
                         THEN v[i - Base(off) + 1] ELSE h[i]]
\* byte addressing that rounds negative offsets towards zero
TruncBase(off) == H + (IF off >= 0 THEN off \div BB ELSE -((-off) \div BB))
======================================================================================
