\* thorough: 2-bit bytes, window of 4 bytes, header address at the third byte (bit offsets -4..3):
\* 1- and 2-byte fields at negative and positive offsets with every mask
SPECIFICATION Spec
CONSTANTS
  BB = 2
  W = 4
  H = 3
  MaskMode = "all"
  CasMode = "few"
INVARIANTS
  TypeOK
  AllCallsCorrect
  PreAdmitsCalls
CHECK_DEADLOCK FALSE
