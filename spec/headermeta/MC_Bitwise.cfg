SPECIFICATION Spec
INVARIANTS
  Agrees
CHECK_DEADLOCK FALSE
