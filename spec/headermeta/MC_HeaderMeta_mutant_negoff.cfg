\* Vacuity control: byte addressing that rounds negative bit offsets towards zero must be caught.
SPECIFICATION Spec
CONSTANTS
  BB = 3
  W = 2
  H = 2
  MaskMode = "few"
  CasMode = "few"
  Base <- TruncBase
INVARIANTS
  AllCallsCorrect
CHECK_DEADLOCK FALSE
