\* thorough: 4-bit bytes, window of 2 bytes, header address at the second byte (bit offsets -4..3):
\* sub-byte fields of 1, 2 and 3 bits at every shift, and whole bytes
SPECIFICATION Spec
CONSTANTS
  BB = 4
  W = 2
  H = 2
  MaskMode = "few"
  CasMode = "few"
INVARIANTS
  TypeOK
  AllCallsCorrect
  PreAdmitsCalls
CHECK_DEADLOCK FALSE
