SPECIFICATION TraceSpec
CONSTANTS
  BB = 8
  W = 56
  H = 25
  MaskMode = "few"
  CasMode = "few"
  AndN <- FastAndN
  OrN <- FastOrN
POSTCONDITION Accepted
CHECK_DEADLOCK FALSE
