\* thorough: 3-bit bytes, window of 3 bytes around the header address (bit offsets -3..5):
\* all 512 window contents x all legal specs (widths 1, 2 inside a byte; 3, 6 aligned) x all calls
SPECIFICATION Spec
CONSTANTS
  BB = 3
  W = 3
  H = 2
  MaskMode = "few"
  CasMode = "few"
INVARIANTS
  TypeOK
  AllCallsCorrect
  PreAdmitsCalls
CHECK_DEADLOCK FALSE
