------------------------------ MODULE Trace_HeaderMeta ------------------------------
(* Validates calls of the real HeaderMetadataSpec accessors (harness/d_header, sub-command          *)
(* `header`) against HeaderMeta with BB = 8, W = 56, H = 25 (window bytes -24..31 around the        *)
(* header address). One row per call:                                                               *)
(*   {"ev":"Op","i":n,"off":o,"w":w,"ty":bits of T,"k":kind,"m":0|1,"mask":[..],"a":[..],"b":[..], *)
(*    "fk":..,"pre":[56 bytes]?,"ret":{"t":..,"v":[..]},"seen":[[..]..],"post":[56 bytes]}          *)
(* The model state `hdr` is the observed window: `pre` when the harness re-initialised it before    *)
(* the call, else the previous row's `post`. A row is accepted iff                                  *)
(*   - the call satisfies the API preconditions (Pre) - otherwise the generator is at fault,        *)
(*   - post = Apply(hdr, ..).h           (only the field's / mask's bits changed, new value right), *)
(*   - ret  = Apply(hdr, ..).ret         (kind and the field's previous value, zero-extended to T), *)
(*   - every value the fetch_update closure was called with is the field's current value.           *)
(* Rejected rows are printed as `ROW_REJECTED l=<line> tag=<class>`; the class names the *)
(* part that deviates. `ret.container` is the deviation recorded as DESIGN.md §9 item 3: the call   *)
(* behaves as specified except that compare_exchange reports the whole byte containing a sub-byte   *)
(* field, or the unmasked word when a mask is given.                                                *)
EXTENDS HeaderMeta, Json, IOUtils, Bitwise

Rec == ndJsonDeserialize(IOEnv.TRACE)

\* Speed: Trace_HeaderMeta.cfg substitutes TLC's built-in bitwise operators (module Bitwise, Java)
\* for AndN / OrN. They are checked here against the reference definitions on a grid of byte
\* patterns; MC_Bitwise.cfg (thorough tier) checks all 65536 byte pairs.
FastAndN(x, y, n) == x & y
FastOrN(x, y, n)  == x | y
BytePatterns == {0, 1, 2, 3, 15, 16, 85, 127, 128, 129, 165, 170, 240, 252, 254, 255}
ASSUME BuiltinBitwiseAgrees ==
    \A x \in BytePatterns : \A y \in BytePatterns :
        /\ RefAndN(x, y, 8) = (x & y)
        /\ RefOrN(x, y, 8) = (x | y)

VARIABLE l

OpOf(r) == [k |-> r.k, a |-> r.a, b |-> r.b, fk |-> r.fk,
            m |-> IF r.m = 1 THEN r.mask ELSE FullV(r.w)]

\* value v of the field, zero-extended to n bytes
Ext(v, n) == [i \in 1..n |-> IF i <= Len(v) THEN v[i] ELSE 0]
SameVal(logged, v) == Len(logged) >= Len(v) /\ logged = Ext(v, Len(logged))

RetOK(logged, ret) ==
    /\ logged.t = ret.t
    /\ IF ret.t = "none" THEN logged.v = << >> ELSE SameVal(logged.v, ret.v)

Why(r, h) ==
    IF r.ev # "Op" THEN "crash"
    ELSE IF ~(Len(h) = W /\ Len(r.post) = W /\ r.ty \in {0, 8, 16, 32, 64}) THEN "generator"
    ELSE IF ~Pre(r.off, r.w, OpOf(r)) THEN "generator"
    ELSE LET op  == OpOf(r)
             res == Apply(h, r.off, r.w, op)
             cur == Get(h, r.off, r.w)
         IN  IF res.h # r.post THEN "post"
             ELSE IF ~(\A j \in 1..Len(r.seen) : SameVal(r.seen[j], cur)) THEN "seen"
             ELSE IF op.k = "upd" /\ Len(r.seen) = 0 THEN "seen"
             ELSE IF RetOK(r.ret, res.ret) THEN "ok"
             ELSE IF /\ op.k = "cas"
                     /\ RetOK(r.ret, Ret(res.ret.t, ContainerCasRet(h, r.off, r.w, op.m)))
                  THEN "ret.container"
             ELSE "ret"

TInit == l = 1 /\ hdr = << >>
TNext ==
    /\ l <= Len(Rec)
    /\ LET r   == Rec[l]
           h   == IF "pre" \in DOMAIN r THEN r.pre ELSE hdr
           why == Why(r, h)
       IN  /\ IF why = "ok" THEN TRUE
              ELSE PrintT("ROW_REJECTED l=" \o ToString(l) \o " tag=" \o why)
           /\ hdr' = r.post
    /\ l' = l + 1
TraceSpec == TInit /\ [][TNext]_<<l, hdr>>

Accepted ==
    LET d == TLCGet("stats").diameter
    IN  IF d = Len(Rec) + 1 THEN TRUE
        ELSE /\ PrintT("TRACE_REJECTED matched=" \o ToString(d - 1) \o " of=" \o ToString(Len(Rec)))
             /\ FALSE
======================================================================================
