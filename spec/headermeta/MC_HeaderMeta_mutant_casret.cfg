\* Vacuity control: compare_exchange reporting the whole containing byte / the unmasked word
\* (the deviation of DESIGN.md §9 item 3) must violate RetPrev.
SPECIFICATION Spec
CONSTANTS
  BB = 3
  W = 2
  H = 2
  MaskMode = "few"
  CasMode = "few"
  CasRet <- ContainerCasRet
INVARIANTS
  AllCallsCorrect
CHECK_DEADLOCK FALSE
