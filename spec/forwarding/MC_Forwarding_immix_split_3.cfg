\* C17 design check: 3 tracers, caller immix, split forwarding word; all invariants of the property
SPECIFICATION Spec
CONSTANTS
  Threads = {1, 2, 3}
  Variant = "split"
  Caller = "immix"
  AllowDecline = TRUE
  SpuriousFail = TRUE
  DebugLoads = TRUE
  Mutant = "none"
INVARIANTS
  TypeOK
  CopyOnce
  Agree
  RetValid
  NoTornRead
  Quiescent
CHECK_DEADLOCK FALSE
