\* C17 design check: 2 tracers, caller copyspace, combined forwarding word; all invariants of the property
SPECIFICATION Spec
CONSTANTS
  Threads = {1, 2}
  Variant = "combined"
  Caller = "copyspace"
  AllowDecline = TRUE
  SpuriousFail = TRUE
  DebugLoads = TRUE
  Mutant = "none"
INVARIANTS
  TypeOK
  CopyOnce
  Agree
  RetValid
  NoTornRead
  Quiescent
CHECK_DEADLOCK FALSE
