\* mutant: FORWARDED bits are published before the forwarding pointer -> NoTornRead must fail
SPECIFICATION Spec
CONSTANTS
  Threads = {1, 2}
  Variant = "split"
  Caller = "copyspace"
  AllowDecline = TRUE
  SpuriousFail = TRUE
  DebugLoads = TRUE
  Mutant = "bits_first"
INVARIANTS
  TypeOK
  CopyOnce
  Agree
  RetValid
  NoTornRead
  Quiescent
CHECK_DEADLOCK FALSE
