------------------------------ MODULE Trace_Forwarding ------------------------------
(* Validates recorded real-thread forwarding races (racedrive fwd) against Forwarding.            *)
(* One row per (round, object); every row of a file has the same variant / caller / nt:          *)
(*   {"ev":"Fwd","variant":"split"|"combined","caller":"copyspace"|"immix","nt":N,"round":k,      *)
(*    "init":[bits,ptr,marked],"logs":[[step,..],..],"final":[bits,ptr,marked]}                    *)
(* (rows with another "ev" - the Cfg header, the Stats trailer - are skipped).                     *)
(* logs[t] is the ordered list of the atomic steps thread t performed on the object, each step in *)
(* the label form of Forwarding.tla, <<op, field, a, b, ok>>, as produced by the per-thread recorder  *)
(* hook (mmtk::util::metadata::verif_steps) inside MetadataSpec::{load_atomic, store_atomic,      *)
(* compare_exchange_metadata} plus the harness' own "copy" (inside ObjectModel::copy), "decide"    *)
(* and "ret" steps.  References are projected: 0 = the object, t = the copy made by thread t,      *)
(* -1 = anything else.  A run of identical consecutive ["ld","bits",2,0,0] entries (spinning) is    *)
(* logged once.                                                                                   *)
(*                                                                                                *)
(* A row is accepted iff SOME interleaving of the threads' logs that respects every thread's own  *)
(* order is a behaviour of Forwarding (every logged step is the next step of that thread in the   *)
(* specification and observes/returns exactly the logged values), the behaviour ends in the       *)
(* logged final memory contents, and the property holds in its final state.  The search is done   *)
(* level by level (level k = all specification states reachable by consuming k log entries).      *)
EXTENDS Forwarding, Json, IOUtils

Rec == ndJsonDeserialize(IOEnv.TRACE)
TraceVariant == Rec[1].variant
TraceCaller == Rec[1].caller
TraceThreads == 1..Rec[1].nt

VARIABLE l

LogOf(r, t) == IF t <= Len(r.logs) THEN r.logs[t] ELSE << >>

TInit(r) == [s |-> InitState(r.init[1], r.init[2], r.init[3] = 1),
             pos |-> [t \in Threads |-> 1]]

TSuccT(r, ts, t) ==
    IF ts.pos[t] > Len(LogOf(r, t)) THEN {}
    ELSE LET e == LogOf(r, t)[ts.pos[t]]
         IN  { [s |-> p[2], pos |-> [ts.pos EXCEPT ![t] = @ + 1]] :
                   p \in { q \in StepS(ts.s, t) : q[1] = e } }

\* Reduction of the search (complete, see below): a logged step that does not write shared memory
\* (a load, a failed compare-exchange, copy / decide / ret) and that is possible NOW is taken
\* immediately and exclusively. Completeness: if some accepted interleaving continues the current
\* prefix and performs that step later, moving the step to the front keeps every other step
\* unchanged (it writes nothing the others read) and the step itself observes the current memory,
\* which is what it logged. Branching therefore only happens between writes.
ReadOnly(e) == e[1] \in {"ld", "ret", "decide", "copy"} \/ (e[1] = "cas" /\ e[5] = 0)
Eager(r, ts) == { t \in Threads : /\ ts.pos[t] <= Len(LogOf(r, t))
                                  /\ ReadOnly(LogOf(r, t)[ts.pos[t]])
                                  /\ TSuccT(r, ts, t) # {} }
TSucc(r, ts) == LET E == Eager(r, ts)
                IN  IF E # {} THEN TSuccT(r, ts, CHOOSE t \in E : \A u \in E : t <= u)
                    ELSE UNION { TSuccT(r, ts, t) : t \in Threads }

RECURSIVE SumLen(_, _)
SumLen(r, n) == IF n = 0 THEN 0 ELSE SumLen(r, n - 1) + Len(r.logs[n])

RECURSIVE Level(_, _, _)
Level(r, F, k) == IF k = 0 \/ F = {} THEN F
                  ELSE Level(r, UNION { TSucc(r, ts) : ts \in F }, k - 1)
Finals(r) == Level(r, {TInit(r)}, SumLen(r, Len(r.logs)))

FinalMem(r, s) == /\ s.bits = r.final[1]
                  /\ s.ptr = r.final[2]
                  /\ s.marked = (r.final[3] = 1)

Tag(r) == LET F == Finals(r)
          IN  IF F = {} THEN "no-interleaving"
              ELSE IF \A ts \in F : ~FinalMem(r, ts.s) THEN "final-memory"
              ELSE IF \E ts \in F : FinalMem(r, ts.s) /\ ~PropertyP(ts.s) THEN "property"
              ELSE "ok"
RowOK(r) == Tag(r) = "ok"

TInitS == l = 1 /\ st = InitState(NOT_YET, NoPtr, FALSE)
TNext == /\ l <= Len(Rec)
         /\ IF Rec[l].ev # "Fwd" \/ RowOK(Rec[l]) THEN TRUE
            ELSE PrintT("ROW_REJECTED l=" \o ToString(l) \o " tag=" \o Tag(Rec[l]))
         /\ l' = l + 1
         /\ UNCHANGED st
TraceSpec == TInitS /\ [][TNext]_<<l, st>>

Accepted ==
    LET d == TLCGet("stats").diameter
    IN  IF d = Len(Rec) + 1 THEN TRUE
        ELSE /\ PrintT("TRACE_REJECTED matched=" \o ToString(d - 1) \o " of=" \o ToString(Len(Rec)))
             /\ FALSE
=====================================================================================
