\* C17 design check: 4 tracers, caller immix, combined forwarding word; all invariants of the property
SPECIFICATION Spec
CONSTANTS
  Threads = {1, 2, 3, 4}
  Variant = "combined"
  Caller = "immix"
  AllowDecline = TRUE
  SpuriousFail = TRUE
  DebugLoads = TRUE
  Mutant = "none"
INVARIANTS
  TypeOK
  CopyOnce
  Agree
  RetValid
  NoTornRead
  Quiescent
CHECK_DEADLOCK FALSE
