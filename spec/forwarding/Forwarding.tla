------------------------------ MODULE Forwarding ------------------------------
(* C17. The object forwarding protocol of src/util/object_forwarding.rs at the granularity of its *)
(* atomic operations, together with the two callers that race on it:                              *)
(*   Caller = "copyspace" : policy/copyspace.rs  CopySpace::trace_object                          *)
(*   Caller = "immix"     : policy/immix/immixspace.rs  trace_object_with_opportunistic_copy      *)
(* One object `Obj` is traced concurrently by the threads in `Threads`. Every action below is ONE  *)
(* atomic metadata operation of the real code (one MetadataSpec::load_atomic / store_atomic /      *)
(* compare_exchange_metadata call), one `ObjectModel::copy`, or the return of the tracer.          *)
(*                                                                                                *)
(* Style: the step relation is given as *successor-set operators* on a state record `s`           *)
(* (XxxS(s, t) = set of <<label, successor>> pairs). `Next` (for model checking) and the          *)
(* interleaving search of Trace_Forwarding (for validating recorded real-thread races) use the     *)
(* same operators. A label is the observable form of the step, <<op, field, a, b, ok>>, and is exactly *)
(* what the per-thread recorder in the harness logs for that step.                                *)
(*                                                                                                *)
(* Variant = "split"    : forwarding pointer and forwarding bits are written by two stores        *)
(*                        (bits on side, or in the header outside the pointer word)               *)
(* Variant = "combined" : the bits live in the pointer word; forward_object writes               *)
(*                        pointer | FORWARDED with one store_atomic                                *)
(* Deliberate abstractions: the copy made by thread t is the reference `t` (references are not     *)
(* interpreted); `Decide` is a nondeterministic choice standing for `is_pinned(object) ||          *)
(* defrag.space_exhausted()`; memory is sequentially consistent (all operations are SeqCst in the  *)
(* code).                                                                                          *)
EXTENDS Naturals, Integers, FiniteSets, Sequences, TLC

CONSTANTS Threads,       \* set of tracer ids, positive integers
          Variant,       \* "split" | "combined"
          Caller,        \* "copyspace" | "immix"
          AllowDecline,  \* immix: the winner may decline to move the object
          SpuriousFail,  \* a sub-byte compare-exchange may fail although the field has the
                         \* expected value (a neighbouring field in the same byte changed between
                         \* the implementation's byte load and byte CAS); callers loop
          DebugLoads,    \* debug_assert! loads of the forwarding bits (debug builds)
          Mutant         \* "none" or the name of a deliberately broken variant (vacuity control)

Obj == 0              \* the reference of the unmoved object
NoPtr == 0 - 1        \* content of the pointer field before any store (not a reference)
None == 0 - 2         \* "no value yet"
NOT_YET == 0          \* FORWARDING_NOT_TRIGGERED_YET
BEING == 2            \* BEING_FORWARDED
FWD == 3              \* FORWARDED

VARIABLE st

InitState(b, p, m) ==
    [bits |-> b, ptr |-> p, marked |-> m,
     pc |-> [t \in Threads |-> "load"],
     seen |-> [t \in Threads |-> None],
     retv |-> [t \in Threads |-> None],
     ret |-> [t \in Threads |-> None],
     \* an object that is already FORWARDED when the race starts was copied before: `p` is that copy
     copies |-> IF b = FWD THEN {p} ELSE {}]

L(op, f, x, y) == <<op, f, x, y, 0>>
C(f, old, new, ok) == <<"cas", f, old, new, ok>>
B2N(b) == IF b THEN 1 ELSE 0

\* ---- attempt_to_forward ---------------------------------------------------------------------
\* old_value = get_forwarding_status(object)
LoadStatusS(s, t) ==
    IF s.pc[t] # "load" THEN {}
    ELSE LET v == s.bits
             npc == IF v = NOT_YET THEN "cas" ELSE IF v = BEING THEN "spin" ELSE "rdptr"
         IN  { <<L("ld", "bits", v, 0), [s EXCEPT !.pc[t] = npc, !.seen[t] = v]>> }

AfterWin == IF Caller = "immix" THEN "chkmark" ELSE "copy"

\* compare_exchange_metadata(object, 0, BEING_FORWARDED)
CasS(s, t) ==
    IF s.pc[t] # "cas" THEN {}
    ELSE IF Mutant = "cas_plain"
         \* broken: the CAS is a plain store (always "succeeds")
         THEN { <<C("bits", NOT_YET, BEING, 1), [s EXCEPT !.bits = BEING, !.pc[t] = AfterWin]>> }
         ELSE (IF s.bits = NOT_YET
               THEN { <<C("bits", NOT_YET, BEING, 1), [s EXCEPT !.bits = BEING, !.pc[t] = AfterWin]>> }
                    \cup (IF SpuriousFail
                          THEN { <<C("bits", NOT_YET, BEING, 0), [s EXCEPT !.pc[t] = "load"]>> }
                          ELSE {})
               ELSE { <<C("bits", NOT_YET, BEING, 0), [s EXCEPT !.pc[t] = "load"]>> })

\* ---- Immix: the winner looks at the mark bit, may decline --------------------------------------
ChkMarkS(s, t) ==
    IF s.pc[t] # "chkmark" THEN {}
    ELSE { <<L("ld", "mark", B2N(s.marked), 0),
             [s EXCEPT !.pc[t] = IF s.marked THEN "clear" ELSE "decide"]>> }

DecideS(s, t) ==
    IF s.pc[t] # "decide" THEN {}
    ELSE { <<L("decide", "", 0, 0), [s EXCEPT !.pc[t] = "copy"]>> }
         \cup (IF AllowDecline
               THEN { <<L("decide", "", 1, 0), [s EXCEPT !.pc[t] = "mkld"]>> }
               ELSE {})

\* attempt_mark(object, mark_state): load; if marked return; CAS; retry
MarkLoadS(s, t) ==
    IF s.pc[t] # "mkld" THEN {}
    ELSE { <<L("ld", "mark", B2N(s.marked), 0),
             [s EXCEPT !.pc[t] = IF s.marked THEN "clear" ELSE "mkcas"]>> }
MarkCasS(s, t) ==
    IF s.pc[t] # "mkcas" THEN {}
    ELSE IF ~s.marked
         THEN { <<C("mark", 0, 1, 1), [s EXCEPT !.marked = TRUE, !.pc[t] = "clear"]>> }
              \cup (IF SpuriousFail
                    THEN { <<C("mark", 0, 1, 0), [s EXCEPT !.pc[t] = "mkld"]>> } ELSE {})
         ELSE { <<C("mark", 0, 1, 0), [s EXCEPT !.pc[t] = "mkld"]>> }

\* clear_forwarding_bits(object); return object
ClearS(s, t) ==
    IF s.pc[t] # "clear" THEN {}
    ELSE { <<L("st", "bits", NOT_YET, 0),
             [s EXCEPT !.bits = NOT_YET, !.pc[t] = "retn", !.retv[t] = Obj]>> }

\* ---- forward_object ---------------------------------------------------------------------------
\* ObjectModel::copy
CopyS(s, t) ==
    IF s.pc[t] # "copy" THEN {}
    ELSE LET npc == IF Variant = "combined" THEN "stcomb"
                    ELSE IF Mutant = "bits_first" THEN "stbits" ELSE "stptr"
         IN  { <<L("copy", "", t, 0), [s EXCEPT !.pc[t] = npc, !.copies = @ \cup {t}]>> }

\* write_forwarding_pointer (masked store of the pointer)
StPtrS(s, t) ==
    IF s.pc[t] # "stptr" THEN {}
    ELSE LET npc == IF Mutant = "bits_first" THEN "retn" ELSE "stbits"
         IN  { <<L("st", "ptr", t, 0),
                 [s EXCEPT !.ptr = t, !.pc[t] = npc, !.retv[t] = t]>> }

\* store_atomic(FORWARDING_BITS, FORWARDED)
StBitsS(s, t) ==
    IF s.pc[t] # "stbits" THEN {}
    ELSE LET npc == IF Mutant = "bits_first" THEN "stptr" ELSE "retn"
         IN  { <<L("st", "bits", FWD, 0),
                 [s EXCEPT !.bits = FWD, !.pc[t] = npc, !.retv[t] = t]>> }

\* one store_atomic of pointer | (FORWARDED << shift)
StCombS(s, t) ==
    IF s.pc[t] # "stcomb" THEN {}
    ELSE { <<L("st", "ptr", t, FWD),
             [s EXCEPT !.ptr = t, !.bits = FWD, !.pc[t] = "retn", !.retv[t] = t]>> }

\* ---- spin_and_get_forwarded_object -----------------------------------------------------------
SpinS(s, t) ==
    IF s.pc[t] # "spin" THEN {}
    ELSE LET v == s.bits
             npc == IF v = BEING THEN (IF Mutant = "spin_exit" THEN "rdptr" ELSE "spin")
                    ELSE IF v = FWD THEN "rdptr" ELSE "retn"
         IN  { <<L("ld", "bits", v, 0),
                 [s EXCEPT !.pc[t] = npc, !.seen[t] = v,
                           !.retv[t] = IF npc = "retn" THEN Obj ELSE @]>> }

\* read_forwarding_pointer (masked load of the pointer)
RdPtrS(s, t) ==
    IF s.pc[t] # "rdptr" THEN {}
    ELSE { <<L("ld", "ptr", s.ptr, 0), [s EXCEPT !.pc[t] = "retn", !.retv[t] = s.ptr]>> }

\* debug_assert!(is_being_forwarded(..)) in write_forwarding_pointer and
\* debug_assert!(is_forwarded_or_being_forwarded(..)) in read_forwarding_pointer: a load of the
\* bits that does not influence control flow (debug builds only). Stuttering on the state.
DebugLoadS(s, t) ==
    IF DebugLoads /\ s.pc[t] \in {"stptr", "rdptr"}
    THEN { <<L("ld", "bits", s.bits, 0), s>> }
    ELSE {}

\* the tracer returns
ReturnS(s, t) ==
    IF s.pc[t] # "retn" THEN {}
    ELSE { <<L("ret", "", s.retv[t], 0), [s EXCEPT !.pc[t] = "done", !.ret[t] = s.retv[t]]>> }

StepS(s, t) ==
    LoadStatusS(s, t) \cup CasS(s, t) \cup ChkMarkS(s, t) \cup DecideS(s, t) \cup MarkLoadS(s, t)
    \cup MarkCasS(s, t) \cup ClearS(s, t) \cup CopyS(s, t) \cup StPtrS(s, t) \cup StBitsS(s, t)
    \cup StCombS(s, t) \cup SpinS(s, t) \cup RdPtrS(s, t) \cup DebugLoadS(s, t) \cup ReturnS(s, t)

\* ---- as a TLA+ behaviour specification (for model checking) -----------------------------------
LoadStatus == \E t \in Threads : \E p \in LoadStatusS(st, t) : st' = p[2]
Cas == \E t \in Threads : \E p \in CasS(st, t) : st' = p[2]
ChkMark == \E t \in Threads : \E p \in ChkMarkS(st, t) : st' = p[2]
Decide == \E t \in Threads : \E p \in DecideS(st, t) : st' = p[2]
MarkLoad == \E t \in Threads : \E p \in MarkLoadS(st, t) : st' = p[2]
MarkCas == \E t \in Threads : \E p \in MarkCasS(st, t) : st' = p[2]
Clear == \E t \in Threads : \E p \in ClearS(st, t) : st' = p[2]
Copy == \E t \in Threads : \E p \in CopyS(st, t) : st' = p[2]
StPtr == \E t \in Threads : \E p \in StPtrS(st, t) : st' = p[2]
StBits == \E t \in Threads : \E p \in StBitsS(st, t) : st' = p[2]
StComb == \E t \in Threads : \E p \in StCombS(st, t) : st' = p[2]
Spin == \E t \in Threads : \E p \in SpinS(st, t) : st' = p[2]
RdPtr == \E t \in Threads : \E p \in RdPtrS(st, t) : st' = p[2]
DebugLoad == \E t \in Threads : \E p \in DebugLoadS(st, t) : st' = p[2]
Return == \E t \in Threads : \E p \in ReturnS(st, t) : st' = p[2]

Init == st \in { InitState(NOT_YET, NoPtr, m) : m \in (IF Caller = "immix" THEN BOOLEAN ELSE {FALSE}) }
Next == LoadStatus \/ Cas \/ ChkMark \/ Decide \/ MarkLoad \/ MarkCas \/ Clear \/ Copy \/ StPtr
        \/ StBits \/ StComb \/ Spin \/ RdPtr \/ DebugLoad \/ Return
ThreadStep(t) == \E p \in StepS(st, t) : st' = p[2]
Spec == Init /\ [][Next]_st
FairSpec == Spec /\ \A t \in Threads : WF_st(ThreadStep(t))

\* ---- the property (C17) -----------------------------------------------------------------------
\* exactly one tracer copies (at most one at any time; exactly one once somebody returned a copy)
CopyOnceP(s) == Cardinality(s.copies) <= 1
\* every tracer obtains the same reference
AgreeP(s) == \A t1, t2 \in Threads :
                (s.ret[t1] # None /\ s.ret[t2] # None) => s.ret[t1] = s.ret[t2]
\* ... which is the winner's copy, or the unmoved object only if nobody copied (winner declined)
RetValidP(s) == \A t \in Threads :
                   s.ret[t] # None =>
                      \/ s.ret[t] \in s.copies
                      \/ (s.ret[t] = Obj /\ s.copies = {} /\ Caller = "immix")
\* no reader obtains a forwarding pointer that was not written by the winner: whenever a thread is
\* about to read the pointer, the bits say FORWARDED and the pointer is the (only) copy
NoTornReadP(s) == \A t \in Threads :
                     s.pc[t] = "rdptr" => (s.bits = FWD /\ s.ptr \in s.copies)
\* the forwarding word is never left BEING_FORWARDED once everybody has returned
QuiescentP(s) == (\A t \in Threads : s.pc[t] = "done") => s.bits \in {NOT_YET, FWD}

PropertyP(s) == CopyOnceP(s) /\ AgreeP(s) /\ RetValidP(s) /\ NoTornReadP(s) /\ QuiescentP(s)

CopyOnce == CopyOnceP(st)
Agree == AgreeP(st)
RetValid == RetValidP(st)
NoTornRead == NoTornReadP(st)
Quiescent == QuiescentP(st)
TypeOK == /\ st.bits \in {NOT_YET, BEING, FWD}
          /\ st.ptr \in Threads \cup {NoPtr}
          /\ st.copies \subseteq Threads
\* every tracer returns (the spin loop ends): checked under weak fairness of every thread
Termination == <>(\A t \in Threads : st.pc[t] = "done")
=====================================================================================
