\* mutant: attempt_to_forward uses load + plain store instead of CAS -> CopyOnce must fail
SPECIFICATION Spec
CONSTANTS
  Threads = {1, 2}
  Variant = "split"
  Caller = "copyspace"
  AllowDecline = TRUE
  SpuriousFail = TRUE
  DebugLoads = TRUE
  Mutant = "cas_plain"
INVARIANTS
  TypeOK
  CopyOnce
  Agree
  RetValid
  NoTornRead
  Quiescent
CHECK_DEADLOCK FALSE
