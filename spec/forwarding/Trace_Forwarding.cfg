SPECIFICATION TraceSpec
CONSTANTS
  Threads <- TraceThreads
  Variant <- TraceVariant
  Caller <- TraceCaller
  AllowDecline = TRUE
  SpuriousFail = TRUE
  DebugLoads = TRUE
  Mutant = "none"
POSTCONDITION Accepted
CHECK_DEADLOCK FALSE
