\* mutant: the spin loop exits while the bits are still BEING_FORWARDED -> NoTornRead/Agree must fail
SPECIFICATION Spec
CONSTANTS
  Threads = {1, 2}
  Variant = "combined"
  Caller = "immix"
  AllowDecline = TRUE
  SpuriousFail = TRUE
  DebugLoads = TRUE
  Mutant = "spin_exit"
INVARIANTS
  TypeOK
  CopyOnce
  Agree
  RetValid
  NoTornRead
  Quiescent
CHECK_DEADLOCK FALSE
