\* every tracer returns (spin loop terminates) under weak fairness; no spurious CAS failure
SPECIFICATION FairSpec
CONSTANTS
  Threads = {1, 2, 3}
  Variant = "split"
  Caller = "immix"
  AllowDecline = TRUE
  SpuriousFail = FALSE
  DebugLoads = TRUE
  Mutant = "none"
INVARIANTS
  TypeOK
  CopyOnce
  Agree
  RetValid
  NoTornRead
  Quiescent
PROPERTIES
  Termination
CHECK_DEADLOCK FALSE
