\* Vacuity control: raw_align_up adding `align` instead of `align - 1` must be rejected.
SPECIFICATION Spec
CONSTANTS
  LB = 2
  NL = 4
  MaxLogAlign = 3
  OffSpan = 16
  LiteralLeast = TRUE
  AlignUpCode <- BrokenAlignUpCode
INVARIANTS
  CodeMeetsMath
CHECK_DEADLOCK FALSE
