\* Vacuity control: a limb-level multiple test that looks at one bit too few must be rejected.
SPECIFICATION Spec
CONSTANTS
  LB = 2
  NL = 4
  MaxLogAlign = 3
  OffSpan = 16
  LiteralLeast = TRUE
  IsMultL <- BrokenIsMultL
INVARIANTS
  LimbsMeetMath
CHECK_DEADLOCK FALSE
