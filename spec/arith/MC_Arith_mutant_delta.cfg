\* Vacuity control: align_allocation losing the sign of the offset must be rejected.
SPECIFICATION Spec
CONSTANTS
  LB = 2
  NL = 4
  MaxLogAlign = 3
  OffSpan = 16
  LiteralLeast = TRUE
  DeltaCode <- BrokenDeltaCode
INVARIANTS
  AllocCodeMeetsMath
CHECK_DEADLOCK FALSE
