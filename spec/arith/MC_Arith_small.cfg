\* 8-bit word as 4 limbs of 2 bits (a different limb count than MC_Arith.cfg); "least" spelled
\* out literally; allocation predicates on limbs.
SPECIFICATION Spec
CONSTANTS
  LB = 2
  NL = 4
  MaxLogAlign = 4
  OffSpan = 20
  LiteralLeast = TRUE
INVARIANTS
  CodeMeetsMath
  SpacingLemma
  AllocCodeMeetsMath
  WorstPadAttained
  LimbsMeetMath
  LimbBinaryOps
  LimbAllocMeetsMath
CHECK_DEADLOCK FALSE
