\* 12-bit word as 4 limbs of 3 bits, everything, literal "least" (thorough tier).
SPECIFICATION Spec
CONSTANTS
  LB = 3
  NL = 4
  MaxLogAlign = 5
  OffSpan = 40
  LiteralLeast = TRUE
INVARIANTS
  CodeMeetsMath
  SpacingLemma
  AllocCodeMeetsMath
  WorstPadAttained
  LimbsMeetMath
  LimbBinaryOps
  LimbAllocMeetsMath
CHECK_DEADLOCK FALSE
