------------------------------ MODULE Trace_Arith ------------------------------
(* Validates rows recorded by `d_arith arith` (the real functions of conversions.rs, address.rs   *)
(* and allocator.rs) against Arith, instantiated with 4 limbs of 16 bits (64-bit words).          *)
(* Row formats: see harness/d_arith/src/arith.rs. Every row is a batch of independent calls; a    *)
(* row is accepted iff for every call:  precondition(inputs) => postcondition(inputs, result).    *)
(* A call that panicked is reported as the empty limb list (or -1) and is accepted only where the *)
(* precondition does not hold.                                                                    *)
EXTENDS Arith, Json, IOUtils

Rec == ndJsonDeserialize(IOEnv.TRACE)
VARIABLE l

Crashed(r) == r = << >>
SmallL(n) == << n % 65536, n \div 65536, 0, 0 >>     \* 0 <= n < 2^31, LB = 16, NL = 4
BoolOf(t) == t = 1

(* Narrow rows ("w":0): every value of the row is an integer below 2^29 (-1 = the call panicked) *)
(* and is judged with the mathematical definitions of Arith directly (layer 1). No overflow can   *)
(* occur at this magnitude, so the only preconditions left are the documented ones on arguments.  *)
(* Wide rows ("w":1): four 16-bit limbs per value ([] = panicked), judged by the limb predicates  *)
(* (layer 3).                                                                                     *)

\* ---- RA: raw_align_up / raw_align_down / raw_is_aligned and the Address methods ----------------
RAItemN(r, i) ==
    LET x == r.vs[i]
        a == 2 ^ r.la
    IN  /\ IsGreatestMultipleLeqSp(r.down[i], x, a) /\ r.adown[i] = r.down[i]
        /\ r.al[i] \in {0, 1} /\ (BoolOf(r.al[i]) <=> (x % a = 0)) /\ r.aal[i] = r.al[i]
        /\ IsLeastMultipleGeqSp(r.up[i], x, a) /\ r.aup[i] = r.up[i]
RAItemW(r, i) ==
    LET x == r.vs[i]
        k == r.la
    IN  /\ ~Crashed(r.down[i]) /\ PostAlignDown(x, k, r.down[i])
        /\ r.adown[i] = r.down[i]
        /\ r.al[i] \in {0, 1} /\ (BoolOf(r.al[i]) <=> IsMultL(x, k))
        /\ r.aal[i] = r.al[i]
        /\ PreAlignUp(x, k) =>
             /\ ~Crashed(r.up[i]) /\ PostAlignUp(x, k, r.up[i])
             /\ r.aup[i] = r.up[i]

\* ---- RS: rshift_align_up ---------------------------------------------------------------------
\* r = ceil(x / a): r * a >= x and (r - 1) * a < x
IsCeilDiv(r, x, a) == r >= 0 /\ r * a >= x /\ (r = 0 \/ (r - 1) * a < x)
IsFloorDiv(r, x, a) == r >= 0 /\ r * a <= x /\ x - r * a < a
RSItemN(r, i) == IsCeilDiv(r.res[i], r.vs[i], 2 ^ r.bits)
RSItemW(r, i) ==
    LET x == r.vs[i]
        k == r.bits
    IN  PreCeilShr(x, k) => (~Crashed(r.res[i]) /\ PostCeilShr(x, k, r.res[i]))

\* ---- PG / PX: page / chunk conversions ---------------------------------------------------------
PGItemN(r, i) ==
    LET x == r.vs[i]
        pg == 2 ^ r.lp
        ch == 2 ^ r.lc
    IN  /\ IsCeilDiv(r.p_up[i], x, pg)                         \* bytes_to_pages_up
        /\ IsCeilDiv(r.c_up[i], x, ch)                         \* bytes_to_chunks_up
        /\ IsGreatestMultipleLeqSp(r.pad[i], x, pg)            \* page_align_down
        /\ BoolOf(r.ipa[i]) <=> (x % pg = 0)                   \* is_page_aligned
        /\ BoolOf(r.iaa[i]) <=> (x % (2 ^ r.lw) = 0)           \* is_address_aligned
        /\ IsLeastMultipleGeqSp(r.cau[i], x, ch)               \* chunk_align_up
        /\ IsGreatestMultipleLeqSp(r.cad[i], x, ch)            \* chunk_align_down
        /\ IsFloorDiv(r.aci[i], x, ch)                         \* address_to_chunk_index
PGItemW(r, i) ==
    LET x == r.vs[i]
        lp == r.lp
        lc == r.lc
    IN  /\ PreCeilShr(x, lp) => (~Crashed(r.p_up[i]) /\ PostCeilShr(x, lp, r.p_up[i]))
        /\ PreCeilShrStrict(x, lc) => (~Crashed(r.c_up[i]) /\ PostCeilShr(x, lc, r.c_up[i]))
        /\ ~Crashed(r.pad[i]) /\ PostAlignDown(x, lp, r.pad[i])
        /\ BoolOf(r.ipa[i]) <=> IsMultL(x, lp)
        /\ BoolOf(r.iaa[i]) <=> IsMultL(x, r.lw)
        /\ PreAlignUp(x, lc) => (~Crashed(r.cau[i]) /\ PostAlignUp(x, lc, r.cau[i]))
        /\ ~Crashed(r.cad[i]) /\ PostAlignDown(x, lc, r.cad[i])
        /\ ~Crashed(r.aci[i]) /\ PostFloorShr(x, lc, r.aci[i])
PXItemN(r, i) ==
    /\ r.p2b[i] = r.vs[i] * (2 ^ r.lp)                         \* pages_to_bytes
    /\ r.cia[i] = r.vs[i] * (2 ^ r.lc)                         \* chunk_index_to_address
PXItemW(r, i) ==
    LET x == r.vs[i]
    IN  /\ PreShl(x, r.lp) => (~Crashed(r.p2b[i]) /\ PostShl(x, r.lp, r.p2b[i]))
        /\ PreShl(x, r.lc) => (~Crashed(r.cia[i]) /\ PostShl(x, r.lc, r.cia[i]))

\* ---- AA: align_allocation / align_allocation_no_fill / align_allocation_inner ------------------
PreArgs(r) == r.lmin <= r.la /\ r.la <= r.lmax /\ r.lmin <= r.known
WorstPadN(la, known) == IF la <= known THEN 0 ELSE 2 ^ la - 2 ^ known
AAItemN(r, i) ==
    LET region == r.regions[i]
        res == r.res[i]
        ka == 2 ^ r.known
    IN  (/\ PreArgs(r) /\ region % ka = 0 /\ r.off % ka = 0
         /\ (r.fn = "fill" => region # 0)) =>
          /\ IsLeastAlignedSp(res, region, 2 ^ r.la, r.off)
          /\ (r.size % ka = 0) => (res - region) + r.size <= r.mas
AARowN(r) == (PreArgs(r) /\ r.size % (2 ^ r.known) = 0) => r.mas >= r.size + WorstPadN(r.la, r.known)
AAItemW(r, i) ==
    LET region == r.regions[i]
        res == r.res[i]
    IN  PreAlignAlloc(region, r.la, r.off, r.known, r.lmin, r.lmax, r.fn = "fill") =>
          /\ ~Crashed(res)
          /\ PostAlignAlloc(region, r.la, r.off, res)
          /\ PreMaxAligned(r.size, r.la, r.known, r.lmin, r.lmax) =>
               (~Crashed(r.mas) /\ PaddedWithin(region, res, r.size, r.mas))
AARowW(r) ==
    PreMaxAligned(r.size, r.la, r.known, r.lmin, r.lmax) =>
        (~Crashed(r.mas) /\ PostMaxAligned(r.size, r.la, r.known, r.mas))

\* ---- MS: get_maximum_aligned_size(_inner) ------------------------------------------------------
MSItemN(r, i) ==
    (PreArgs(r) /\ r.sizes[i] % (2 ^ r.known) = 0) =>
        r.res[i] >= r.sizes[i] + WorstPadN(r.la, r.known)
MSItemW(r, i) ==
    PreMaxAligned(r.sizes[i], r.la, r.known, r.lmin, r.lmax) =>
        (~Crashed(r.res[i]) /\ PostMaxAligned(r.sizes[i], r.la, r.known, r.res[i]))

\* ---- AF: the filling variant on real memory (ALIGNMENT_VALUE # 0) -------------------------------
\* Documented: "Fill the specified region with the alignment value": exactly the bytes of the gap
\* [region, result) are set to ALIGNMENT_VALUE, nothing else in the window changes.
AFRow(r) ==
    LET region == AddL(r.base, SmallL(r.roff))
    IN  PreAlignAlloc(region, r.la, r.off, r.lmin, r.lmin, r.lmax, TRUE) =>
          /\ ~Crashed(r.res)
          /\ PostAlignAlloc(region, r.la, r.off, r.res)
          /\ LET gap == SubL(r.res, region)
                 d == gap[1]
             IN  /\ gap[2] = 0 /\ gap[3] = 0 /\ gap[4] = 0
                 /\ Len(r.after) = Len(r.before)
                 /\ \A j \in 1..Len(r.before) :
                       r.after[j] = (IF r.roff < j /\ j <= r.roff + d THEN r.av ELSE r.before[j])

Items(r) == IF r.ev \in {"RA", "RS", "PG", "PX"} THEN 1..Len(r.vs)
            ELSE IF r.ev = "AA" THEN 1..Len(r.regions)
            ELSE IF r.ev = "MS" THEN 1..Len(r.sizes)
            ELSE {}
ItemOK(r, i) ==
    IF r.w = 0
    THEN CASE r.ev = "RA" -> RAItemN(r, i)
           [] r.ev = "RS" -> RSItemN(r, i)
           [] r.ev = "PG" -> PGItemN(r, i)
           [] r.ev = "PX" -> PXItemN(r, i)
           [] r.ev = "AA" -> AAItemN(r, i)
           [] r.ev = "MS" -> MSItemN(r, i)
           [] OTHER -> FALSE
    ELSE CASE r.ev = "RA" -> RAItemW(r, i)
           [] r.ev = "RS" -> RSItemW(r, i)
           [] r.ev = "PG" -> PGItemW(r, i)
           [] r.ev = "PX" -> PXItemW(r, i)
           [] r.ev = "AA" -> AAItemW(r, i)
           [] r.ev = "MS" -> MSItemW(r, i)
           [] OTHER -> FALSE
RowLevelOK(r) == CASE r.ev = "AA" -> IF r.w = 0 THEN AARowN(r) ELSE AARowW(r)
                   [] r.ev = "AF" -> AFRow(r)
                   [] r.ev \in {"RA", "RS", "PG", "PX", "MS"} -> TRUE
                   [] OTHER -> FALSE           \* unknown rows (e.g. a Crash event) are never accepted
RowOK(r) == RowLevelOK(r) /\ \A i \in Items(r) : ItemOK(r, i)

TInit == l = 1 /\ v = 0
TNext == /\ l <= Len(Rec)
         /\ IF RowOK(Rec[l]) THEN TRUE
            ELSE /\ PrintT("ROW_REJECTED l=" \o ToString(l))
                 /\ PrintT(<< "rejected items of row", l, {i \in Items(Rec[l]) : ~ItemOK(Rec[l], i)},
                              "row-level ok", RowLevelOK(Rec[l]) >>)
         /\ l' = l + 1
         /\ UNCHANGED v
TraceSpec == TInit /\ [][TNext]_<<l, v>>

Accepted ==
    LET d == TLCGet("stats").diameter
    IN  IF d = Len(Rec) + 1 THEN TRUE
        ELSE /\ PrintT("TRACE_REJECTED matched=" \o ToString(d - 1) \o " of=" \o ToString(Len(Rec)))
             /\ FALSE
=====================================================================================
