\* 12-bit word as 3 limbs of 4 bits: every word value, every power-of-two alignment.
SPECIFICATION Spec
CONSTANTS
  LB = 4
  NL = 3
  MaxLogAlign = 4
  OffSpan = 20
  LiteralLeast = FALSE
INVARIANTS
  CodeMeetsMath
  AllocCodeMeetsMath
  WorstPadAttained
  LimbsMeetMath
  LimbBinaryOps
CHECK_DEADLOCK FALSE
