--------------------------------- MODULE Arith ---------------------------------
(* C33. Alignment and size arithmetic of mmtk-core:                                              *)
(*   src/util/conversions.rs  raw_align_up / raw_align_down / raw_is_aligned, rshift_align_up,    *)
(*                            bytes_to_pages_up, bytes_to_chunks_up, pages_to_bytes, page/chunk   *)
(*                            alignment, address <-> chunk index                                  *)
(*   src/util/address.rs      Address::align_up / align_down / is_aligned_to                      *)
(*   src/util/alloc/allocator.rs  align_allocation(_no_fill/_inner), get_maximum_aligned_size     *)
(*                                                                                                *)
(* Three layers.                                                                                  *)
(*  1. Mathematical definitions on naturals ("least r >= region with (r+offset) % align = 0",     *)
(*     "least multiple >= v", "ceil(v / 2^k)") - the property of C33.                             *)
(*  2. Models of what the code computes on a W-bit word (wrapping add, mask) - `*Code`.           *)
(*     TLC checks 2 = 1 for EVERY input of a small word whenever the documented precondition      *)
(*     (power-of-two alignment, no overflow of the mathematical result) holds.                    *)
(*  3. The same definitions on little-endian limb vectors (NL limbs of LB bits), which is how     *)
(*     64-bit values travel in traces (TLC integers are 32-bit). TLC checks 3 = 1 on the small    *)
(*     word (LB*NL = 12 or 8 bits); the trace specification instantiates 3 with LB = 16, NL = 4.  *)
(*     The limb operators are parametric in LB and NL; that they are correct for (16,4) because   *)
(*     they are for (4,3), (3,4) and (2,4) is argued, not proved (carry/borrow propagate the      *)
(*     same way through every limb).                                                              *)
EXTENDS Integers, Sequences, FiniteSets, TLC

CONSTANTS LB,      \* bits per limb
          NL       \* number of limbs

B == 2 ^ LB
W == LB * NL

----------------------------------------------------------------------------------
(* Layer 3: limb vectors (functions 1..NL -> 0..B-1, limb 1 least significant).                   *)

IsLimbs(x) == /\ DOMAIN x = 1..NL
              /\ \A i \in 1..NL : x[i] \in 0..(B - 1)
\* TLC note: a function constructor is a lazy value in TLC (its body would be re-evaluated at every
\* application); TLCEval forces the explicit function once. Semantically TLCEval(e) = e.
ZeroL == TLCEval([i \in 1..NL |-> 0])
OneL  == TLCEval([i \in 1..NL |-> IF i = 1 THEN 1 ELSE 0])
LimbAt(x, i) == IF i >= 1 /\ i <= NL THEN x[i] ELSE 0

\* 2^k as a limb vector (k < W)
Pow2L(k) == TLCEval([i \in 1..NL |-> IF (i - 1) * LB <= k /\ k < i * LB THEN 2 ^ (k - (i - 1) * LB) ELSE 0])

\* the low k bits of x are zero (x is a multiple of 2^k), 0 <= k <= W
IsMultL(x, k) ==
    \A i \in 1..NL :
        LET lo == (i - 1) * LB
        IN  IF k >= lo + LB THEN x[i] = 0
            ELSE IF k <= lo THEN TRUE
            ELSE x[i] % (2 ^ (k - lo)) = 0

LessL(x, y) == \E i \in 1..NL : x[i] < y[i] /\ \A j \in (i + 1)..NL : x[j] = y[j]
LeqL(x, y)  == ~LessL(y, x)

\* x + y (+ c) limb by limb from limb i on, carrying c: the sequence of the remaining result limbs
RECURSIVE AddFrom(_, _, _, _)
AddFrom(x, y, i, c) ==
    IF i > NL THEN << >>
    ELSE << (x[i] + y[i] + c) % B >> \o AddFrom(x, y, i + 1, (x[i] + y[i] + c) \div B)
AddL(x, y) == AddFrom(x, y, 1, 0)                                          \* wrapping sum
RECURSIVE CarryOut(_, _, _, _)
CarryOut(x, y, i, c) == IF i > NL THEN c ELSE CarryOut(x, y, i + 1, (x[i] + y[i] + c) \div B)
AddOverflows(x, y) == CarryOut(x, y, 1, 0) = 1

\* x - y limb by limb with borrow b
RECURSIVE SubFrom(_, _, _, _)
SubFrom(x, y, i, b) ==
    IF i > NL THEN << >>
    ELSE << (x[i] - y[i] - b + B) % B >> \o SubFrom(x, y, i + 1, IF x[i] - y[i] - b < 0 THEN 1 ELSE 0)
SubL(x, y) == SubFrom(x, y, 1, 0)                                          \* wrapping difference
NegL(x) == SubL(ZeroL, x)

\* logical shifts by k bits, 0 <= k < W
ShRL(x, k) ==
    LET q == k \div LB
        r == k % LB
    IN  TLCEval([i \in 1..NL |-> (LimbAt(x, i + q) \div (2 ^ r)) + (LimbAt(x, i + q + 1) % (2 ^ r)) * (2 ^ (LB - r))])
ShLL(x, k) ==    \* wrapping
    LET q == k \div LB
        r == k % LB
    IN  TLCEval([i \in 1..NL |-> (LimbAt(x, i - q) % (2 ^ (LB - r))) * (2 ^ r) + (LimbAt(x, i - q - 1) \div (2 ^ (LB - r)))])

\* x with its low k bits cleared / only its low k bits
ClearLowL(x, k) ==
    TLCEval([i \in 1..NL |->
        LET lo == (i - 1) * LB
        IN  IF k >= lo + LB THEN 0
            ELSE IF k <= lo THEN x[i]
            ELSE x[i] - (x[i] % (2 ^ (k - lo)))])
LowBitsL(x, k) ==
    TLCEval([i \in 1..NL |->
        LET lo == (i - 1) * LB
        IN  IF k >= lo + LB THEN x[i]
            ELSE IF k <= lo THEN 0
            ELSE x[i] % (2 ^ (k - lo))])

(* ---- the judged predicates (declarative, on limbs). `k` is log2 of the alignment. ----        *)

\* r is the greatest multiple of 2^k that is <= v
PostAlignDown(v, k, r) == IsMultL(r, k) /\ LeqL(r, v) /\ LessL(SubL(v, r), Pow2L(k))
\* the least multiple of 2^k that is >= v fits the word
PreAlignUp(v, k) == IsMultL(v, k) \/ ~AddOverflows(ClearLowL(v, k), Pow2L(k))
\* r is the least multiple of 2^k that is >= v
PostAlignUp(v, k, r) == IsMultL(r, k) /\ LeqL(v, r) /\ LessL(SubL(r, v), Pow2L(k))

\* rshift_align_up(num, bits): documented as ceil(num / 2^bits); "for every input that does not
\* overflow" = num + 2^bits - 1 fits the word.
PreCeilShr(v, k) == ~AddOverflows(v, SubL(Pow2L(k), OneL))
\* bytes_to_chunks_up computes `(bytes + BYTES_IN_CHUNK - 1) >> LOG` left to right: the intermediate
\* sum bytes + 2^k has to fit the word (one more input, 2^W - 2^k, is outside the domain)
PreCeilShrStrict(v, k) == ~AddOverflows(v, Pow2L(k))
\* r = ceil(v / 2^k): r * 2^k does not overflow, r * 2^k >= v, r * 2^k - v < 2^k
PostCeilShr(v, k, r) ==
    LET s == ShLL(r, k)
    IN  /\ ShRL(s, k) = r
        /\ LeqL(v, s)
        /\ LessL(SubL(s, v), Pow2L(k))
\* r = floor(v / 2^k)
PostFloorShr(v, k, r) ==
    LET s == ShLL(r, k)
    IN  /\ ShRL(s, k) = r
        /\ LeqL(s, v)
        /\ LessL(SubL(v, s), Pow2L(k))
\* r = v * 2^k without overflow
PreShl(v, k) == ShRL(ShLL(v, k), k) = v
PostShl(v, k, r) == r = ShLL(v, k)

(* align_allocation(region, 2^la, offset) with region known to be 2^known aligned.               *)
(* Preconditions (allocator.rs debug assertions and parameter documentation):                    *)
(*   lmin <= la <= lmax, known >= lmin, region and offset multiples of 2^known (for the public    *)
(*   entry points known = lmin and the assertion is `offset & (MIN_ALIGNMENT-1) == 0`; the name   *)
(*   `known_alignment` documents the region's alignment), region # 0 for the filling variant,     *)
(*   and the result fits the word.                                                                *)
DeltaL(region, la, off) == LowBitsL(SubL(NegL(off), region), la)       \* what the code computes
PreAlignAlloc(region, la, off, known, lmin, lmax, fill) ==
    /\ lmin <= la /\ la <= lmax /\ lmin <= known
    /\ IsMultL(region, known) /\ IsMultL(off, known)
    /\ fill => region # ZeroL
    /\ ~AddOverflows(region, DeltaL(region, la, off))
\* r is the least address >= region with (r + offset) a multiple of 2^la (mod 2^W: 2^la divides
\* 2^W, so the wrapping sum has the same residue)
PostAlignAlloc(region, la, off, r) ==
    /\ LeqL(region, r)
    /\ IsMultL(AddL(r, off), la)
    /\ LessL(SubL(r, region), Pow2L(la))

\* Worst-case padding for a 2^known-aligned region and offset: 2^la - 2^known (0 if la <= known).
WorstPadL(la, known) == IF la <= known THEN ZeroL ELSE SubL(Pow2L(la), Pow2L(known))
PreMaxAligned(size, la, known, lmin, lmax) ==
    /\ lmin <= la /\ la <= lmax /\ lmin <= known
    /\ IsMultL(size, known)
    \* the code computes `size + alignment - known_alignment` left to right: the intermediate sum
    \* has to fit the word (sizes within `alignment` bytes of 2^W are outside the domain)
    /\ ~AddOverflows(size, Pow2L(la))
\* get_maximum_aligned_size bounds the padded size: mas >= size + worst padding
PostMaxAligned(size, la, known, mas) == LeqL(AddL(size, WorstPadL(la, known)), mas)
\* ... and, directly: the padding of THIS aligned allocation plus size is within mas
PaddedWithin(region, r, size, mas) ==
    LET pad == SubL(r, region)
    IN  ~AddOverflows(pad, size) /\ LeqL(AddL(pad, size), mas)

----------------------------------------------------------------------------------
(* Layers 1 and 2 on naturals; only evaluated by the model-checking configurations (small W).    *)

Top == 2 ^ W
RECURSIVE ValUpTo(_, _)
ValUpTo(x, i) == IF i = 0 THEN 0 ELSE ValUpTo(x, i - 1) + x[i] * (B ^ (i - 1))
Val(x) == ValUpTo(x, NL)
ToL(n) == [i \in 1..NL |-> (n \div (B ^ (i - 1))) % B]

\* Layer 1: the mathematical definitions. With LiteralLeast the words "least" / "greatest" are
\* spelled out as a quantifier over every value in between; otherwise the equivalent spacing form
\* is used (consecutive multiples of a are a apart, consecutive solutions of (s+off) % a = 0 too).
\* `SpacingLemma` checks the equivalence of the two forms on the small word.
CONSTANT LiteralLeast
IsLeastMultipleGeqLit(r, w, a) == r >= w /\ r % a = 0 /\ \A s \in w..(r - 1) : s % a # 0
IsLeastMultipleGeqSp(r, w, a) == r >= w /\ r % a = 0 /\ r - w < a
IsGreatestMultipleLeqLit(r, w, a) == r <= w /\ r % a = 0 /\ \A s \in (r + 1)..w : s % a # 0
IsGreatestMultipleLeqSp(r, w, a) == r <= w /\ r % a = 0 /\ w - r < a
IsLeastAlignedLit(r, region, a, off) ==
    r >= region /\ (r + off) % a = 0 /\ \A s \in region..(r - 1) : (s + off) % a # 0
IsLeastAlignedSp(r, region, a, off) == r >= region /\ (r + off) % a = 0 /\ r - region < a
IsLeastMultipleGeq(r, w, a) ==
    IF LiteralLeast THEN IsLeastMultipleGeqLit(r, w, a) ELSE IsLeastMultipleGeqSp(r, w, a)
IsGreatestMultipleLeq(r, w, a) ==
    IF LiteralLeast THEN IsGreatestMultipleLeqLit(r, w, a) ELSE IsGreatestMultipleLeqSp(r, w, a)
IsLeastAligned(r, region, a, off) ==
    IF LiteralLeast THEN IsLeastAlignedLit(r, region, a, off) ELSE IsLeastAlignedSp(r, region, a, off)
AlignUpN(w, a) == ((w + a - 1) \div a) * a
AlignDownN(w, a) == (w \div a) * a
CeilDivN(w, a) == (w + a - 1) \div a

\* Layer 2: what the code computes on a W-bit word (`x & !(a-1)` = x - x % a and `x & (a-1)` =
\* x % a for a power of two a; wrapping_add/sub = arithmetic mod 2^W)
AlignUpCode(v, a) == LET t == (v + a - 1) % Top IN t - (t % a)            \* raw_align_up
AlignDownCode(v, a) == v - (v % a)                                        \* raw_align_down
IsAlignedCode(v, a) == v % a = 0                                          \* raw_is_aligned
RshiftUpCode(v, k) == (v + (2 ^ k - 1)) \div (2 ^ k)                      \* rshift_align_up (no overflow)
DeltaCode(region, a, off) == ((2 * Top - (off % Top) - region) % Top) % a \* align_allocation_inner
AlignAllocCode(region, a, off, ka) == IF a <= ka THEN region ELSE region + DeltaCode(region, a, off)
MaxAlignedCode(size, a, ka) == IF a <= ka THEN size ELSE size + a - ka    \* get_maximum_aligned_size_inner

\* ---- the state machine only enumerates the word ------------------------------------------------
CONSTANTS MaxLogAlign,   \* alignments 2^0 .. 2^MaxLogAlign for the allocation functions
          OffSpan        \* offsets 0..OffSpan-1 and Top-OffSpan..Top-1 (negative offsets)
VARIABLE v
\* a binary tree over the word (v -> 2v, 2v+1) so that TLC's workers share the values
Init == v = 0
Step == v' \in {x \in {2 * v, 2 * v + 1} : x < Top /\ x # v}
Spec == Init /\ [][Step]_v

Logs == 0..(W - 1)

\* 2 = 1: the code's formulas meet the mathematical definitions wherever the result fits
CodeMeetsMath ==
    \A k \in Logs :
        LET a == 2 ^ k
        IN  /\ IsGreatestMultipleLeq(AlignDownCode(v, a), v, a)
            /\ AlignDownCode(v, a) = AlignDownN(v, a)
            /\ (AlignUpN(v, a) < Top) => /\ IsLeastMultipleGeq(AlignUpCode(v, a), v, a)
                                          /\ AlignUpCode(v, a) = AlignUpN(v, a)
            /\ IsAlignedCode(v, a) <=> (AlignDownN(v, a) = v)
            /\ (v + a - 1 < Top) => /\ RshiftUpCode(v, k) = CeilDivN(v, a)
                                     /\ RshiftUpCode(v, k) * a >= v
                                     /\ (RshiftUpCode(v, k) > 0 => (RshiftUpCode(v, k) - 1) * a < v)

\* literal and spacing forms of "least"/"greatest" agree on every candidate near the answer
SpacingLemma ==
    \A k \in Logs :
        LET a == 2 ^ k
        IN  \A r \in {x \in (v - 2 * a)..(v + 2 * a) : x >= 0 /\ x < 2 * Top} :
              /\ IsLeastMultipleGeqLit(r, v, a) <=> IsLeastMultipleGeqSp(r, v, a)
              /\ IsGreatestMultipleLeqLit(r, v, a) <=> IsGreatestMultipleLeqSp(r, v, a)
              /\ \A off \in {0, 1, a - 1, a \div 2, Top - 1, Top - a} :
                    IsLeastAlignedLit(r, v, a, off) <=> IsLeastAlignedSp(r, v, a, off)

Offsets == (0..(OffSpan - 1)) \cup ((Top - OffSpan)..(Top - 1))
\* align_allocation: for a region aligned to the known alignment and an offset that is a multiple
\* of it, the result is the least suitable address and the padding is within the documented bound
AllocCodeMeetsMath ==
    \A la \in 0..MaxLogAlign : \A known \in 0..MaxLogAlign :
        LET a == 2 ^ la
            ka == 2 ^ known
        IN  (v % ka = 0) =>
              \A off \in {o \in Offsets : o % ka = 0} :
                LET r == AlignAllocCode(v, a, off, ka)
                IN  (r < Top) =>
                      /\ IsLeastAligned(r, v, a, off)
                      /\ r - v <= (IF la <= known THEN 0 ELSE a - ka)
                      /\ \A size \in {0, ka, 5 * ka} : (r - v) + size <= MaxAlignedCode(size, a, ka)
\* the worst case is attained (the bound of get_maximum_aligned_size is tight); checked once
WorstPadAttained ==
    v = 0 =>
        \A la \in 0..MaxLogAlign : \A known \in 0..la :
            \E region \in 0..(2 ^ (la + 1)) : \E off \in 0..(2 ^ la) :
                /\ region % (2 ^ known) = 0 /\ off % (2 ^ known) = 0
                /\ DeltaCode(region, 2 ^ la, off) = 2 ^ la - 2 ^ known

\* 3 = 1: the limb predicates used to judge traces agree with the definitions on naturals
LimbsMeetMath ==
    LET x == ToL(v)
    IN  /\ Val(x) = v /\ IsLimbs(x)
        /\ \A k \in Logs :
            LET a == 2 ^ k
            IN  /\ Val(Pow2L(k)) = a
                /\ IsMultL(x, k) <=> (v % a = 0)
                /\ Val(ClearLowL(x, k)) = AlignDownN(v, a)
                /\ Val(LowBitsL(x, k)) = v % a
                /\ Val(ShRL(x, k)) = v \div a
                /\ Val(ShLL(x, k)) = (v * a) % Top
                /\ PreShl(x, k) <=> (v * a < Top)
                /\ PreAlignUp(x, k) <=> (AlignUpN(v, a) < Top)
                /\ PreCeilShr(x, k) <=> (v + a - 1 < Top)
                /\ PostAlignDown(x, k, ToL(AlignDownN(v, a)))
                /\ (AlignUpN(v, a) < Top) => PostAlignUp(x, k, ToL(AlignUpN(v, a)))
                /\ (v + a - 1 < Top) => PostCeilShr(x, k, ToL(CeilDivN(v, a)))
                /\ PostFloorShr(x, k, ToL(v \div a))
                \* wrong answers next to the right one are refused
                /\ \A d \in {1, a} :
                    /\ (AlignDownN(v, a) >= d) => ~PostAlignDown(x, k, ToL(AlignDownN(v, a) - d))
                    /\ (AlignDownN(v, a) + d < Top) => ~PostAlignDown(x, k, ToL(AlignDownN(v, a) + d))
                    /\ (AlignUpN(v, a) + d < Top) => ~PostAlignUp(x, k, ToL(AlignUpN(v, a) + d))
                    /\ (AlignUpN(v, a) < Top /\ AlignUpN(v, a) >= d) => ~PostAlignUp(x, k, ToL(AlignUpN(v, a) - d))
                /\ (v + a - 1 < Top) => /\ ~PostCeilShr(x, k, ToL(CeilDivN(v, a) + 1))
                                         /\ (CeilDivN(v, a) > 0) => ~PostCeilShr(x, k, ToL(CeilDivN(v, a) - 1))

\* binary limb operators against a second operand drawn from a structured set
Others == {0, 1, 2, Top - 1, Top - 2, Top \div 2, Top \div 2 - 1} \cup {2 ^ k : k \in Logs}
                \cup {(v * 7 + 3) % Top, (Top - v) % Top, (v + Top \div 2) % Top}
LimbBinaryOps ==
    \A y \in Others :
        LET x == ToL(v)
            z == ToL(y)
        IN  /\ Val(AddL(x, z)) = (v + y) % Top
            /\ AddOverflows(x, z) <=> (v + y >= Top)
            /\ Val(SubL(x, z)) = (v - y + Top) % Top
            /\ LessL(x, z) <=> (v < y)
            /\ LeqL(x, z) <=> (v <= y)

\* the allocation predicates on limbs against the definitions on naturals
LimbAllocMeetsMath ==
    \A la \in 0..MaxLogAlign : \A off \in Offsets :
        LET a == 2 ^ la
            x == ToL(v)
            o == ToL(off)
            d == DeltaCode(v, a, off)
        IN  /\ Val(DeltaL(x, la, o)) = d
            /\ (v + d < Top) =>
                /\ IsLeastAligned(v + d, v, a, off)
                /\ PostAlignAlloc(x, la, o, ToL(v + d))
                /\ (v + d + 1 < Top) => ~PostAlignAlloc(x, la, o, ToL(v + d + 1))
                /\ (v + d + a < Top) => ~PostAlignAlloc(x, la, o, ToL(v + d + a))
                /\ (d > 0) => ~PostAlignAlloc(x, la, o, x)
            /\ \A known \in 0..MaxLogAlign :
                 Val(WorstPadL(la, known)) = (IF la <= known THEN 0 ELSE a - 2 ^ known)

\* ---- broken variants for the mutant configurations ------------------------------------------------
BrokenAlignUpCode(w, a) == LET t == (w + a) % Top IN t - (t % a)            \* adds a instead of a-1
BrokenDeltaCode(region, a, off) == (((off % Top) + region) % Top) % a         \* sign of the offset lost
BrokenIsMultL(x, k) ==                                                       \* mask one bit short
    \A i \in 1..NL :
        LET lo == (i - 1) * LB
        IN  IF k >= lo + LB THEN x[i] = 0
            ELSE IF k <= lo + 1 THEN TRUE
            ELSE x[i] % (2 ^ (k - lo - 1)) = 0
=====================================================================================
