SPECIFICATION TraceSpec
CONSTANTS
  LB = 16
  NL = 4
  MaxLogAlign = 0
  OffSpan = 0
  LiteralLeast = FALSE
POSTCONDITION Accepted
CHECK_DEADLOCK FALSE
