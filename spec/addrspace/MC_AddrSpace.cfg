\* space map with the descriptor index checked against the table length: every lookup of every address
SPECIFICATION Spec
CONSTANTS
  LogExtent = 2
  MaxSpaces = 4
  MaxExtent = 3
  DescRule = "bounded"
  MaskRule = "implemented"
INVARIANTS
  Total
  Granted
  Agree
  Outside
CHECK_DEADLOCK FALSE
