\* Vacuity control and design-level statement of DESIGN.md section 9 item 4: the implemented descriptor index reaches slots >= MAX_SPACES for addresses up to heap_end
SPECIFICATION Spec
CONSTANTS
  LogExtent = 2
  MaxSpaces = 4
  MaxExtent = 3
  DescRule = "implemented"
  MaskRule = "implemented"
INVARIANTS
  Total
CHECK_DEADLOCK FALSE
