------------------------------ MODULE Trace_AddrSpace ------------------------------
(* C31 binding. `gcdrive --mode lookup` allocates objects of every semantics, collects, and then    *)
(* asks the real code, for a grid of addresses (8, space starts/ends +-8, slot boundaries, granted  *)
(* range edges read back from its own trace, heap start/end, the side-metadata range, 2^47, the top *)
(* of the address space, stack / static / malloc addresses, random addresses):                      *)
(*   {"ev":"Lookup","why":..,"a":[a>>44,(a>>22)&(2^22-1),a&(2^22-1)],"sft":name|"panic",           *)
(*    "in":"t"|"f"|"panic","mapped":..,"desc":hex|"panic","msg":panic message}                      *)
(*   sft = SFT_MAP.get_checked(a).name(), in = memory_manager::is_in_mmtk_spaces,                    *)
(*   mapped = memory_manager::is_mapped_address, desc = VM_MAP.get_descriptor_for_address(a).       *)
(* The same trace carries the space table (`Spaces`) and the page-resource events (PRAcquire, ...)  *)
(* from which this specification keeps the set of live grants (module Grants, as in C28).           *)
(* Rules (tags), DESIGN.md section 5 C31, sound direction only:                                     *)
(*   C31:panic:<fn>:<where>   no lookup panics                                                      *)
(*   C31:granted-unresolved   a in a live grant of s  =>  sft = s, in = t, mapped = t, desc = desc(s)*)
(*   C31:sft-unknown-space    sft names a space of the plan or is "empty"                           *)
(*   C31:sft-desc-disagree    sft = s # empty  =>  desc(a) = desc(s)                                *)
(*   C31:sft-outside-space    sft = s # empty  =>  a is in s's range: its slot (space map), its       *)
(*                            [start, end) (chunk maps, contiguous space) or a chunk currently        *)
(*                            assigned to s (chunk maps, discontiguous space: no stale entries)       *)
(*   C31:outside-in-mmtk      a outside every space's range  =>  in = f and sft = "empty"           *)
(*   C31:outside-descriptor   a outside every space's range  =>  descriptor = UNINITIALIZED (0)     *)
(* Inside a space's slot but outside its grants nothing is required (with the space map such an     *)
(* address resolves to the space by design).                                                        *)
EXTENDS AddrSpace, Grants, Sequences, Json, IOUtils

Rec == ndJsonDeserialize(IOEnv.TRACE)

VARIABLES l, tab, live, owner, stats
tvars == <<l, tab, live, owner, stats>>

Rej(tag) == PrintT("ROW_REJECTED l=" \o ToString(l) \o " tag=" \o tag)
G(tag, cond) == IF cond THEN TRUE ELSE Rej(tag)
Bump(key) == [stats EXCEPT ![key] = @ + 1]

\* limbs <<a >> 44, (a >> 22) & (2^22-1), a & (2^22-1)>>; addresses >= 2^47 (first limb >= 8) are beyond
\* every space and every grant, their chunk number is not computed (TLC integers are 32-bit)
Far(a)    == a[1] >= 8
LChunk(a) == a[1] * 4194304 + a[2]
LPage(a)  == a[3] \div 4096
LLe(a, b) == a[1] < b[1] \/ (a[1] = b[1] /\ (a[2] < b[2] \/ (a[2] = b[2] /\ a[3] <= b[3])))
LLt(a, b) == LLe(a, b) /\ a # b
InLRange(a, lo, hi) == LLe(lo, a) /\ LLt(a, hi)

DoSpaces(e) ==
    /\ tab' = e
    /\ UNCHANGED <<live, owner, stats>>
Common == { tab.spaces[i] : i \in { j \in 1..Len(tab.spaces) : tab.spaces[j].common } }
HasMallocSpace == \E i \in 1..Len(tab.spaces) : ~tab.spaces[i].common
SpaceNamed(n) == { s \in { tab.spaces[i] : i \in 1..Len(tab.spaces) } : s.n = n }

\* ---- grant bookkeeping (same transitions as Trace_PageResource, without its guards) -----------------
DoAcquire(e) == /\ live' = AddGrant(live, MkGrant(e.sp, e.c, e.p, e.n))
                /\ UNCHANGED <<tab, owner, stats>>
DoRelease(e) == /\ live' = DelGrants(live, Exactly(live, SlotOf(e.c), PageIdx(e.c, e.p), e.n))
                /\ UNCHANGED <<tab, owner, stats>>
DoRangeRelease(e) ==
    /\ IF e.kind = "monotone.reset.discontiguous"
       THEN LET di  == IF e.c \in DOMAIN owner THEN owner[e.c] ELSE -1
                sps == { s.n : s \in { x \in Common : x.descIndex = di } }
            IN  live' = DelGrants(live, { h \in AllGrants(live) : h.sp \in sps })
       ELSE LET k   == SlotOf(e.c)
                lo  == PageIdx(e.c, e.p)
                hi  == lo + (e.tc - e.c) * PagesInChunk + e.tp - e.p
                hit == InRange(live, k, lo, hi)
            IN  live' = AddGrants(DelGrants(live, hit), UNION { Remainder(h, lo, hi) : h \in hit })
    /\ UNCHANGED <<tab, owner, stats>>
DoChunksAlloc(e) ==
    LET cs == e.c..(e.c + e.k - 1)
    IN  /\ owner' = [c \in DOMAIN owner \cup cs |-> IF c \in cs THEN e.di ELSE owner[c]]
        /\ UNCHANGED <<tab, live, stats>>
DoChunksFree(e) ==
    /\ owner' = [c \in DOMAIN owner \ (e.c..(e.c + e.k - 1)) |-> owner[c]]
    /\ UNCHANGED <<tab, live, stats>>
DoChunksFreeAll(e) ==
    LET di == IF e.c \in DOMAIN owner THEN owner[e.c] ELSE -1
    IN  /\ owner' = [c \in { x \in DOMAIN owner : owner[x] # di } |-> owner[c]]
        /\ UNCHANGED <<tab, live, stats>>

\* ---- the lookup rules ---------------------------------------------------------------------------------
SpaceMap == tab.sftMap = "space"
\* slot of an address below 2^47 (space map layout): chunk number >> (logSpaceExtent - 22)
SlotNo(a) == LChunk(a) \div (2 ^ (tab.logSpaceExtent - 22))
\* a is in the range within which the SFT map may resolve to space s: its slot (space map), its
\* [start, end) (chunk maps, contiguous space), a chunk currently assigned to it (discontiguous space)
InResolutionRange(a, s) ==
    /\ ~Far(a)
    /\ IF s.contig
       THEN IF SpaceMap THEN SlotNo(a) = SlotNo(s.start)
            ELSE InLRange(a, s.start, s.end)
       ELSE LChunk(a) \in DOMAIN owner /\ owner[LChunk(a)] = s.descIndex
\* ... and the range within which the VM map may answer s's descriptor: the slot with Map64
\* (contiguous layout), else as above
InDescriptorRange(a, s) ==
    /\ ~Far(a)
    /\ IF s.contig
       THEN IF tab.contigLayout THEN SlotNo(a) = SlotNo(s.start)
            ELSE InLRange(a, s.start, s.end)
       ELSE LChunk(a) \in DOMAIN owner /\ owner[LChunk(a)] = s.descIndex
OutsideAllSpaces(a) == \A s \in Common : ~InResolutionRange(a, s)
OutsideAllDescriptors(a) == \A s \in Common : ~InDescriptorRange(a, s)
GrantsAt(a) == IF Far(a) THEN {} ELSE Covering(live, SlotOf(LChunk(a)), PageIdx(LChunk(a), LPage(a)))

\* where a panic happened, for the finding key
Where(a) ==
    IF Far(a) THEN "beyond-2^47"
    ELSE IF tab.contigLayout /\ SlotNo(a) >= tab.maxSpaces /\ LLe(a, tab.heapEnd) THEN "slot>=MAX_SPACES..heap_end"
    ELSE IF LLt(a, tab.heapStart) THEN "below-heap"
    ELSE IF LLt(a, tab.heapEnd) THEN "in-heap"
    ELSE "above-heap"

LookupOK(r) ==
    LET a  == r.a
        gs == GrantsAt(a)
        named == SpaceNamed(r.sft)
    IN  /\ G("C31:panic:sft:" \o Where(a), r.sft # "panic")
        /\ G("C31:panic:is_in_mmtk_spaces:" \o Where(a), r.in # "panic")
        /\ G("C31:panic:is_mapped_address:" \o Where(a), r.mapped # "panic")
        /\ G("C31:panic:get_descriptor_for_address:" \o Where(a), r.desc # "panic")
        /\ G("C31:granted-unresolved",
               \A g \in gs :
                   /\ r.sft \in {g.sp, "panic"}
                   /\ r.in \in {"t", "panic"} /\ r.mapped \in {"t", "panic"}
                   /\ \A s \in SpaceNamed(g.sp) : r.desc \in {s.desc, "panic"})
        /\ G("C31:sft-unknown-space", r.sft \in {"empty", "panic"} \/ named # {})
        /\ G("C31:sft-desc-disagree",
               r.sft \in {"empty", "panic"} \/ r.desc = "panic" \/ \A s \in named : r.desc = s.desc)
        /\ G("C31:sft-outside-space",
               r.sft \in {"empty", "panic"} \/ \A s \in named : ~s.common \/ InResolutionRange(a, s))
        /\ G("C31:outside-in-mmtk",
               (OutsideAllSpaces(a) /\ ~(HasMallocSpace /\ r.why \in {"objStart", "objEnd"}))
                   => (r.in \in {"f", "panic"} /\ r.sft \in {"empty", "panic"}))
        /\ G("C31:outside-descriptor", OutsideAllDescriptors(a) => r.desc \in {"0", "panic"})
DoLookup(r) ==
    /\ LookupOK(r)
    /\ stats' = [stats EXCEPT !.rows = @ + 1,
                              !.granted = @ + (IF GrantsAt(r.a) # {} THEN 1 ELSE 0),
                              !.outside = @ + (IF OutsideAllSpaces(r.a) THEN 1 ELSE 0)]
    /\ UNCHANGED <<tab, live, owner>>

Skip == UNCHANGED <<tab, live, owner, stats>>
Step(e) ==
    CASE e.ev = "Spaces"         -> DoSpaces(e)
      [] e.ev = "PRAcquire"      -> DoAcquire(e)
      [] e.ev = "PRRelease"      -> DoRelease(e)
      [] e.ev = "PRRangeRelease" -> DoRangeRelease(e)
      [] e.ev = "ChunksAlloc"    -> DoChunksAlloc(e)
      [] e.ev = "ChunksFree"     -> DoChunksFree(e)
      [] e.ev = "ChunksFreeAll"  -> DoChunksFreeAll(e)
      [] e.ev = "Lookup"         -> DoLookup(e)
      [] e.ev = "Crash"          -> Rej("crash") /\ Skip
      [] OTHER                   -> Skip

TInit == /\ l = 1 /\ tab = [spaces |-> << >>] /\ live = << >> /\ owner = << >>
         /\ stats = [rows |-> 0, granted |-> 0, outside |-> 0]
TNext == /\ l <= Len(Rec)
         /\ l' = l + 1
         /\ Step(Rec[l])
TraceSpec == /\ TInit /\ spaces = << >> /\ granted = << >>
             /\ [][TNext /\ UNCHANGED vars]_<<tvars, vars>>
Accepted ==
    LET d == TLCGet("stats").diameter
    IN  IF d = Len(Rec) + 1 THEN TRUE
        ELSE /\ PrintT("TRACE_REJECTED matched=" \o ToString(d - 1) \o " of=" \o ToString(Len(Rec)))
             /\ FALSE
StatsPrinted == l = Len(Rec) + 1 => PrintT("LOOKUP_STATS " \o ToString(stats))
=====================================================================================
