--------------------------------- MODULE AddrSpace ---------------------------------
(* C31. Address-to-space resolution is total and exact. Design-level model of the 64-bit            *)
(* "space map" configuration: src/policy/sft_map.rs (SFTSpaceMap), src/util/heap/layout/map64.rs    *)
(* (Map64::space_index, get_descriptor_for_address), src/memory_manager.rs (is_in_mmtk_spaces).     *)
(*                                                                                                  *)
(* The heap range is [HeapStart, HeapEnd) = slots 1 .. MaxSpaces of 2^LogExtent addresses each      *)
(* (real values: LogExtent = 41, MaxSpaces = 16, HeapStart = 2^41, HeapEnd = 17 * 2^41).             *)
(* A space occupies one slot: [start, start + extent) with start = slot * 2^LogExtent.              *)
(*   SFT:        index(a) = (a & (0x1f << LogExtent)) >> LogExtent into a table of 2*MaxSpaces       *)
(*               entries; has_sft_entry(a) <=> slot 1 start <= a < slot MaxSpaces-1 end              *)
(*   descriptor: space_index(a) = None if a > HeapEnd, else a >> LogExtent, into descriptor_map of   *)
(*               MaxSpaces entries                                                                  *)
(* Lookup(a) returns [sft, desc, inMMTk]; Panic models an out-of-bounds index.                       *)
(* Required (DESIGN.md section 5 C31, sound direction):                                             *)
(*   Total     no lookup panics, for any address of the address space                               *)
(*   Granted   an address in memory granted to space s resolves to s, descriptor = desc(s)          *)
(*   Agree     sft(a) = s # empty  =>  descriptor(a) = desc(s)                                      *)
(*   Outside   an address outside every space's slot: sft = empty, is_in_mmtk_spaces = false,       *)
(*             descriptor = UNINITIALIZED (VMMap::get_descriptor_for_address documentation)         *)
EXTENDS Integers, FiniteSets, TLC

CONSTANTS LogExtent, MaxSpaces, MaxExtent,
          DescRule,     \* "implemented" | "bounded" (index checked against the table length)
          MaskRule      \* "implemented" | a broken SFT index mask (vacuity control)

SlotSize  == 2 ^ LogExtent
HeapStart == SlotSize
HeapEnd   == (MaxSpaces + 1) * SlotSize
Universe  == 0..((2 * MaxSpaces + 2) * SlotSize - 1)     \* stands for 0 .. usize::MAX
Empty == 0            \* the empty SFT entry / the UNINITIALIZED descriptor (space names are the slot numbers)
Panic == -1           \* an out-of-bounds index

VARIABLES spaces,    \* slot -> [name, extent]  (occupied slots)
          granted    \* slot -> number of addresses handed out so far (a prefix of the extent)
vars == <<spaces, granted>>

Init == spaces = << >> /\ granted = << >>
\* spaces are placed bottom-up in free slots of the heap range (Fraction/Extent requests)
Create(k, ext) ==
    /\ k \in 1..(MaxSpaces - 1) /\ k \notin DOMAIN spaces
    /\ \A j \in 1..(k - 1) : j \in DOMAIN spaces
    /\ spaces' = (k :> [name |-> k, extent |-> ext]) @@ spaces
    /\ granted' = (k :> 0) @@ granted
Grow(k) ==
    /\ k \in DOMAIN spaces /\ granted[k] < spaces[k].extent
    /\ granted' = [granted EXCEPT ![k] = @ + 1]
    /\ UNCHANGED spaces
Next == \/ \E k \in 1..MaxSpaces, ext \in 1..MaxExtent : Create(k, ext)
        \/ \E k \in DOMAIN spaces : Grow(k)
Spec == Init /\ [][Next]_vars

\* ---- the lookups as implemented --------------------------------------------------------------------
SftTableSize == 2 * MaxSpaces
SftMask == IF MaskRule = "implemented" THEN SftTableSize - 1 ELSE MaxSpaces \div 2 - 1
SftIndex(a) == (a \div SlotSize) % (SftMask + 1)
HasSftEntry(a) == a >= HeapStart /\ a < MaxSpaces * SlotSize
SftTable(i) == IF i \in DOMAIN spaces THEN spaces[i].name ELSE Empty     \* eager_initialize per space
Sft(a) == IF HasSftEntry(a) THEN SftTable(SftIndex(a)) ELSE Empty
DescTable(i) == IF i \in DOMAIN spaces THEN spaces[i].name ELSE 0       \* descriptor of the space, 0 = UNINITIALIZED
Desc(a) ==
    IF DescRule = "implemented"
    THEN IF a > HeapEnd THEN 0
         ELSE IF a \div SlotSize >= MaxSpaces THEN Panic ELSE DescTable(a \div SlotSize)
    ELSE IF a >= HeapEnd \/ a \div SlotSize >= MaxSpaces THEN 0 ELSE DescTable(a \div SlotSize)
InMMTk(a) == Sft(a) # Empty          \* EMPTY_SPACE_SFT.is_in_space = false, every space's = true
Lookup(a) == [sft |-> Sft(a), desc |-> Desc(a), inMMTk |-> InMMTk(a)]

\* ---- the property ------------------------------------------------------------------------------------
SlotOfSpace(a) == a \div SlotSize
GrantedTo(a) == { k \in DOMAIN spaces : a >= k * SlotSize /\ a < k * SlotSize + granted[k] }
Total   == \A a \in Universe : Lookup(a).desc # Panic
Granted == \A a \in Universe : \A k \in GrantedTo(a) :
              Lookup(a).sft = spaces[k].name /\ Lookup(a).desc = spaces[k].name /\ Lookup(a).inMMTk
Agree   == \A a \in Universe : Lookup(a).sft # Empty /\ Lookup(a).desc # Panic
              => Lookup(a).desc = Lookup(a).sft
Outside == \A a \in Universe : SlotOfSpace(a) \notin DOMAIN spaces
              => Lookup(a).sft = Empty /\ ~Lookup(a).inMMTk /\ Lookup(a).desc \in {Empty, Panic}
=====================================================================================
