SPECIFICATION TraceSpec
CONSTANTS
  LogExtent = 1
  MaxSpaces = 2
  MaxExtent = 1
  DescRule = "bounded"
  MaskRule = "implemented"
POSTCONDITION Accepted
INVARIANT StatsPrinted
CHECK_DEADLOCK FALSE
