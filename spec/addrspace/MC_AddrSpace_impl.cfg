\* the implemented descriptor lookup: everything but totality holds
SPECIFICATION Spec
CONSTANTS
  LogExtent = 2
  MaxSpaces = 4
  MaxExtent = 3
  DescRule = "implemented"
  MaskRule = "implemented"
INVARIANTS
  Granted
  Agree
  Outside
CHECK_DEADLOCK FALSE
