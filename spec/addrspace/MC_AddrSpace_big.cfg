\* thorough: 5 slots, extents 1..4; space map with the descriptor index checked against the table length: every lookup of every address
SPECIFICATION Spec
CONSTANTS
  LogExtent = 2
  MaxSpaces = 5
  MaxExtent = 4
  DescRule = "bounded"
  MaskRule = "implemented"
INVARIANTS
  Total
  Granted
  Agree
  Outside
CHECK_DEADLOCK FALSE
