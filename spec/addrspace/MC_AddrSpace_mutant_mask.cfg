\* Vacuity control: a too short SFT index mask must be rejected
SPECIFICATION Spec
CONSTANTS
  LogExtent = 2
  MaxSpaces = 4
  MaxExtent = 3
  DescRule = "bounded"
  MaskRule = "short"
INVARIANTS
  Granted
  Agree
  Outside
CHECK_DEADLOCK FALSE
