---------------------------- MODULE Trace_Descriptor ----------------------------
(* Validates rows recorded by `d_arith descriptor --layout <l>` (the real SpaceDescriptor of      *)
(* src/util/heap/space_descriptor.rs under one VM layout per process; formats in                 *)
(* harness/d_arith/src/descriptor.rs) against Descriptor.                                         *)
(*   LY  the layout: force_use_contiguous_spaces, heap start/end chunk, log space extent          *)
(*   CD  for one start chunk: the descriptors created for several chunk counts and what they      *)
(*       report (start, extent, contiguity, top-of-heap flag, emptiness)                          *)
(*   DD  a batch of discontiguous descriptors (raw word as limbs, flags)                          *)
(* Judged: for every pair the encoding admits (Descriptor!Admissible, the 32-bit style encoding   *)
(* selected by a layout without force_use_contiguous_spaces) the descriptor reports exactly the   *)
(* range it was created for, is contiguous, not empty, and "hi" iff the range ends at heap_end.   *)
(* For the 64-bit layout (force_use_contiguous_spaces) the same is required of ranges that are    *)
(* exactly one space slot [i << lse, (i+1) << lse) (what the 64-bit encoding represents).         *)
(* Discontiguous descriptors: not contiguous, not empty, raw words distinct from every other one  *)
(* created in the same process (an LY row starts the rows of a new process).                     *)
EXTENDS Descriptor, Json, IOUtils

Rec == ndJsonDeserialize(IOEnv.TRACE)
VARIABLES l, ly, seen

B(t) == t = 1

InDomain(c, n) ==
    IF ly.force = 1
    THEN LET per == 2 ^ (ly.lse - ly.lchunk)
         IN  n = per /\ c % per = 0 /\ c >= 1 /\ c + n <= ly.he
    ELSE Admissible(c, n)

CDItem(r, i) ==
    LET n == r.ns[i]
    IN  InDomain(r.sc, n) =>
          /\ r.st_c[i] >= 0                                  \* -1: the call panicked
          /\ Reports(r.st_c[i], r.st_lo[i], r.ex_c[i], r.ex_lo[i], B(r.cont[i]), B(r.hi[i]),
                     B(r.empty[i]), r.sc, n, r.sc + n = ly.he)
CDOK(r) == \A i \in 1..Len(r.ns) : CDItem(r, i)

Raws(r) == {r.raws[i] : i \in 1..Len(r.raws)}
DDOK(r) ==
    /\ \A i \in 1..Len(r.raws) : ~B(r.cont[i]) /\ ~B(r.hi[i]) /\ ~B(r.empty[i])
    /\ Cardinality(Raws(r)) = Len(r.raws)
    /\ Raws(r) \cap seen = {}

Tag(r) == CASE r.ev = "LY" -> ""
            [] r.ev = "CD" -> IF CDOK(r) THEN "" ELSE "contiguous"
            [] r.ev = "DD" -> IF DDOK(r) THEN "" ELSE "discontiguous"
            [] OTHER -> "row"

TInit == l = 1 /\ ly = [force |-> 0, he |-> 0, hs |-> 0, lse |-> 0, lchunk |-> 0] /\ seen = {} /\ sc = 1
TNext ==
    /\ l <= Len(Rec)
    /\ LET r == Rec[l]
           t == Tag(r)
       IN  /\ IF t = "" THEN TRUE ELSE PrintT("ROW_REJECTED l=" \o ToString(l) \o " tag=" \o t)
           /\ ly' = IF r.ev = "LY"
                    THEN [force |-> r.force, he |-> r.he, hs |-> r.hs, lse |-> r.lse, lchunk |-> r.lchunk]
                    ELSE ly
           /\ seen' = IF r.ev = "DD" THEN seen \cup Raws(r)
                    ELSE IF r.ev = "LY" THEN {} ELSE seen          \* LY starts a new process
    /\ l' = l + 1
    /\ UNCHANGED sc
TraceSpec == TInit /\ [][TNext]_<<l, ly, seen, sc>>

Accepted ==
    LET d == TLCGet("stats").diameter
    IN  IF d = Len(Rec) + 1 THEN TRUE
        ELSE /\ PrintT("TRACE_REJECTED matched=" \o ToString(d - 1) \o " of=" \o ToString(Len(Rec)))
             /\ FALSE
=====================================================================================
