\* Vacuity control: dropping the top-of-heap flag must be rejected.
SPECIFICATION Spec
CONSTANTS
  TypeBits = 2
  SizeBits = 10
  ExpBits = 5
  MantBits = 14
  BaseExp = 18
  LogChunk = 22
  MaxSC = 63
  WideExp = 2
  FullCounts = FALSE
  EncodeME <- BrokenEncodeME
INVARIANTS
  RoundTripAll
CHECK_DEADLOCK FALSE
