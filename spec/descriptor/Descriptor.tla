------------------------------- MODULE Descriptor -------------------------------
(* C32. Space descriptors (src/util/heap/space_descriptor.rs).                                    *)
(*                                                                                                *)
(* In a layout without `force_use_contiguous_spaces` (the 32-bit layout, and 64-bit layouts with  *)
(* compressed pointers) a contiguous space [start, start + chunks * 4MB) is encoded in one word:  *)
(*      mantissa << 17 | exponent << 12 | chunks << 2 | type                                      *)
(* where start = mantissa << (BASE_EXPONENT + exponent), BASE_EXPONENT = 32 - 14 = 18, and type   *)
(* is 1 (contiguous) or 3 (contiguous, ends at heap_end). Discontiguous descriptors are           *)
(* index << 2 (type 0) for a fresh index >= 1.                                                    *)
(*                                                                                                *)
(* Addresses are modelled in granules of 2^BaseExp bytes (a chunk = 2^(LogChunk-BaseExp) = 16     *)
(* granules), so every number stays below 2^31.                                                   *)
(* The encoding admits (start chunk sc, chunk count n) iff sc >= 1, 1 <= n < 2^SizeBits, the odd  *)
(* part of the start (in granules) fits MantBits bits and the exponent fits ExpBits bits.         *)
EXTENDS Integers, Sequences, FiniteSets, TLC

CONSTANTS TypeBits, SizeBits, ExpBits, MantBits, BaseExp, LogChunk

SizeShift == TypeBits
ExpShift == SizeShift + SizeBits
MantShift == ExpShift + ExpBits
TypeContig == 1
TypeContigHi == 3
GranulesPerChunk == 2 ^ (LogChunk - BaseExp)

\* create_descriptor_from_heap_range: strip the trailing zero bits of start >> BASE_EXPONENT
RECURSIVE Strip(_, _)
Strip(tmp, e) == IF tmp # 0 /\ tmp % 2 = 0 THEN Strip(tmp \div 2, e + 1) ELSE << tmp, e >>
MantExp(sc) == Strip(sc * GranulesPerChunk, 0)

\* (me = MantExp(start chunk); passed around so that it is computed once per start)
AdmissibleME(me, c, n) ==
    /\ c >= 1 /\ n >= 1 /\ n < 2 ^ SizeBits
    /\ me[1] < 2 ^ MantBits
    /\ me[2] < 2 ^ ExpBits
Admissible(c, n) == AdmissibleME(MantExp(c), c, n)

EncodeME(me, n, top) ==
    me[1] * (2 ^ MantShift) + me[2] * (2 ^ ExpShift) + n * (2 ^ SizeShift)
        + (IF top THEN TypeContigHi ELSE TypeContig)
Encode(c, n, top) == EncodeME(MantExp(c), n, top)

Field(d, shift, bits) == (d \div (2 ^ shift)) % (2 ^ bits)
IsContiguous(d) == d % 2 = 1                          \* (d & TYPE_CONTIGUOUS) == TYPE_CONTIGUOUS
IsContiguousHi(d) == d % (2 ^ TypeBits) = TypeContigHi
IsEmpty(d) == d = 0
\* get_start_32 in chunks (the start in granules is mantissa << exponent)
StartChunk(d) == ((d \div (2 ^ MantShift)) * (2 ^ Field(d, ExpShift, ExpBits))) \div GranulesPerChunk
StartLow(d) == ((d \div (2 ^ MantShift)) * (2 ^ Field(d, ExpShift, ExpBits))) % GranulesPerChunk
ExtentChunks(d) == Field(d, SizeShift, SizeBits)      \* get_extent_32 in chunks

\* create_descriptor: the i-th discontiguous descriptor
Discontig(i) == i * (2 ^ TypeBits)

\* ---- the property -------------------------------------------------------------------------------
\* what a descriptor created for an admissible range must report
Reports(start_c, start_lo, extent_c, extent_lo, cont, hi, empty, sc, n, top) ==
    /\ start_c = sc /\ start_lo = 0
    /\ extent_c = n /\ extent_lo = 0
    /\ cont /\ (hi <=> top) /\ ~empty

RoundTripD(d, c, n, top) ==
    Reports(StartChunk(d), StartLow(d), ExtentChunks(d), 0, IsContiguous(d), IsContiguousHi(d),
            IsEmpty(d), c, n, top)
RoundTrip(c, n, top) == RoundTripD(Encode(c, n, top), c, n, top)

\* ---- state machine: enumerate start chunks (binary tree) ----------------------------------------
CONSTANTS MaxSC,      \* start chunks 1..MaxSC are enumerated one per state
          WideExp     \* additionally sc * 2^e for e in 0..WideExp (starts beyond 2^32)
VARIABLE sc
Init == sc = 1
Step == sc' \in {x \in {2 * sc, 2 * sc + 1} : x <= MaxSC}
Spec == Init /\ [][Step]_sc

CONSTANT FullCounts    \* TRUE: every chunk count 1..2^SizeBits-1; FALSE: a stratified subset
AllCounts == 1..(2 ^ SizeBits - 1)
Counts == IF FullCounts THEN AllCounts
          ELSE {n \in AllCounts : \/ n <= 17 \/ n >= 2 ^ SizeBits - 9
                                   \/ \E k \in 0..SizeBits : n \in {2 ^ k - 1, 2 ^ k, 2 ^ k + 1}
                                   \/ n % 97 = 0}
\* every admissible (start, count, top) round-trips; with the real constants every start below
\* 2^32 is admissible
RoundTripAll ==
    LET me == MantExp(sc)
    IN  \A n \in Counts : \A top \in BOOLEAN :
            AdmissibleME(me, sc, n) => RoundTripD(EncodeME(me, n, top), sc, n, top)
AllAdmissibleBelow4G ==
    (MaxSC < 2 ^ (32 - LogChunk)) => LET me == MantExp(sc) IN \A n \in AllCounts : AdmissibleME(me, sc, n)
\* starts beyond 2^32 whose odd part still fits the mantissa
RoundTripWide ==
    \A e \in 0..WideExp : \A n \in {1, 2, 2 ^ (SizeBits - 1), 2 ^ SizeBits - 2, 2 ^ SizeBits - 1} :
        \A top \in BOOLEAN :
            (sc * (2 ^ e) < 2 ^ 25 /\ Admissible(sc * (2 ^ e), n)) => RoundTrip(sc * (2 ^ e), n, top)
\* distinct ranges get distinct descriptors; discontiguous descriptors are distinct from them,
\* from each other, not contiguous and not empty
Injective ==
    \A n \in {1, 2, 2 ^ SizeBits - 1} : \A top \in BOOLEAN :
        /\ Encode(sc, n, top) # Encode(sc, n, ~top)
        /\ (n > 1) => Encode(sc, n, top) # Encode(sc, n - 1, top)
        /\ (sc > 1) => Encode(sc, n, top) # Encode(sc - 1, n, top)
DiscontigOK ==
    LET d == Discontig(sc)
    IN  /\ ~IsContiguous(d) /\ ~IsContiguousHi(d) /\ ~IsEmpty(d)
        /\ d # Discontig(sc + 1)
        /\ \A n \in {1, 2 ^ SizeBits - 1} : \A top \in BOOLEAN : d # Encode(sc, n, top)

\* ---- broken variants for the mutant configurations ------------------------------------------------
BrokenExtentChunks(d) == Field(d, SizeShift, SizeBits - 1)       \* size mask one bit short
BrokenEncodeME(me, n, top) ==                                     \* top-of-heap flag dropped
    me[1] * (2 ^ MantShift) + me[2] * (2 ^ ExpShift) + n * (2 ^ SizeShift) + TypeContig
=====================================================================================
