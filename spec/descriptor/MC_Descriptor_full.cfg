\* thorough: real constants, EVERY chunk count
\* sc * 2^e up to 47-bit addresses for the same sc
SPECIFICATION Spec
CONSTANTS
  TypeBits = 2
  SizeBits = 10
  ExpBits = 5
  MantBits = 14
  BaseExp = 18
  LogChunk = 22
  MaxSC = 1023
  WideExp = 15
  FullCounts = TRUE
INVARIANTS
  RoundTripAll
  AllAdmissibleBelow4G
  RoundTripWide
  Injective
  DiscontigOK
CHECK_DEADLOCK FALSE
