SPECIFICATION TraceSpec
CONSTANTS
  TypeBits = 2
  SizeBits = 10
  ExpBits = 5
  MantBits = 14
  BaseExp = 18
  LogChunk = 22
  MaxSC = 0
  WideExp = 0
  FullCounts = FALSE
POSTCONDITION Accepted
CHECK_DEADLOCK FALSE
