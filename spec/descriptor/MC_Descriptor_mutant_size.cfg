\* Vacuity control: a size mask one bit short must be rejected.
SPECIFICATION Spec
CONSTANTS
  TypeBits = 2
  SizeBits = 10
  ExpBits = 5
  MantBits = 14
  BaseExp = 18
  LogChunk = 22
  MaxSC = 63
  WideExp = 2
  FullCounts = FALSE
  ExtentChunks <- BrokenExtentChunks
INVARIANTS
  RoundTripAll
CHECK_DEADLOCK FALSE
