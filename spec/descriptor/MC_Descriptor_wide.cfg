\* thorough: every mantissa below 2^14 (start chunks up to 16383) and their shifts
SPECIFICATION Spec
CONSTANTS
  TypeBits = 2
  SizeBits = 10
  ExpBits = 5
  MantBits = 14
  BaseExp = 18
  LogChunk = 22
  MaxSC = 16383
  WideExp = 11
  FullCounts = FALSE
INVARIANTS
  RoundTripWide
  Injective
  DiscontigOK
CHECK_DEADLOCK FALSE
