\* real constants; every start chunk below 2^32 x every chunk count x top flag, plus starts
\* sc * 2^e up to 47-bit addresses for the same sc
SPECIFICATION Spec
CONSTANTS
  TypeBits = 2
  SizeBits = 10
  ExpBits = 5
  MantBits = 14
  BaseExp = 18
  LogChunk = 22
  MaxSC = 1023
  WideExp = 15
  FullCounts = FALSE
INVARIANTS
  RoundTripAll
  AllAdmissibleBelow4G
  RoundTripWide
  Injective
  DiscontigOK
CHECK_DEADLOCK FALSE
