\* thorough: 2 workers, 2 poppers, 5 blocks
SPECIFICATION Spec
CONSTANTS
  Workers = {0, 1}
  Poppers = {100, 101}
  Blocks = {1, 2, 3, 4, 5}
  Cap = 2
  Mutant = "none"
INVARIANTS
  TypeOK
  NoLossNoDup
  PopValid
  LenOK
  GuarPoppable
  FlushComplete
CHECK_DEADLOCK FALSE
