\* mutant: count is not decremented on the slow pop path -> len over-reports
SPECIFICATION Spec
CONSTANTS
  Workers = {0, 1}
  Poppers = {100}
  Blocks = {1, 2, 3, 4}
  Cap = 2
  Mutant = "slow_path_no_dec"
INVARIANTS
  TypeOK
  NoLossNoDup
  PopValid
  LenOK
  GuarPoppable
  FlushComplete
CHECK_DEADLOCK FALSE
