-------------------------------- MODULE BlockPool --------------------------------
(* C19. `BlockPool` / `BlockQueue` of src/util/heap/blockpageresource.rs at the granularity of    *)
(* its atomic operations and critical sections.                                                   *)
(*                                                                                                *)
(*   head    head_global_freed_blocks : RwLock<Option<BlockQueue>>  (sequence; << >> = None/empty)*)
(*   global  global_freed_blocks      : RwLock<Vec<BlockQueue>>     (sequence of sequences)       *)
(*   local   worker_local_freed_blocks[w]                           (sequence, capacity Cap)      *)
(*   count   AtomicUsize                                                                          *)
(* Threads: `Workers` push (each to its own local queue: `current_worker_ordinal()`), `Poppers`   *)
(* pop, one `Flusher` runs flush_all. Pops are serialised by the upgradeable read lock of `head`  *)
(* (spin::RwLock admits one upgradeable reader); `global` is only touched under its write lock.   *)
(* API precondition (generator constraint): flush_all does not run concurrently with pushes       *)
(* (it swaps the workers' local queues, which are unsynchronised by design: `push_relaxed`).      *)
(*                                                                                                *)
(* The second half of the module is the *abstract contract* of the pool (what C19 states):        *)
(* a set `held` of blocks in the pool and a set `guar` of blocks guaranteed to be poppable (the   *)
(* blocks that were held when the last flush_all finished). History variables carry it along the  *)
(* detailed model; the invariants say that the detailed model implements it. Trace_BlockPool      *)
(* validates recorded histories of the real pool against the same contract operators.             *)
EXTENDS Naturals, Integers, FiniteSets, Sequences, TLC

CONSTANTS Workers, Poppers, Blocks, Cap, Mutant

NoBlock == 0 - 1            \* pop returned None
Idle == "idle"
NoOne == 0 - 7             \* lock not held (lock holders are popper ids: integers)

VARIABLES head, global, local, count,      \* the data structure
          headLock, globalLock,            \* who holds the upgradeable read lock / the write lock
          wpc, warg, wold,                 \* pushing workers: pc, block being pushed, detached queue
          ppc, pres, pq,                   \* poppers: pc, result, queue taken from `global`
          fpc, fidx, fq,                   \* flusher: pc, worker index being flushed, detached queue
          held, guar, out,                 \* history: contract state; blocks currently outside
          err                              \* history: first violation of the contract by a pop
vars == <<head, global, local, count, headLock, globalLock, wpc, warg, wold, ppc, pres, pq,
          fpc, fidx, fq, held, guar, out, err>>

\* ---------------------------------------------------------------------------------------------
\* The abstract contract (used by the invariants below and by Trace_BlockPool)
\* ---------------------------------------------------------------------------------------------
AbsInit == [held |-> {}, guar |-> {}]
\* push(b): b enters the pool (precondition: b is not in the pool)
AbsPush(a, b) == [held |-> a.held \cup {b}, guar |-> a.guar]
\* pop() = b is legal iff b is in the pool; pop() = None is legal iff no block is guaranteed
AbsPopOK(a, r) == IF r = NoBlock THEN a.guar = {} ELSE r \in a.held
AbsPop(a, r) == IF r = NoBlock THEN a ELSE [held |-> a.held \ {r}, guar |-> a.guar \ {r}]
\* flush_all(): everything in the pool is now guaranteed to be poppable
AbsFlush(a) == [held |-> a.held, guar |-> a.held]
\* len() at a quiescent point; iterate_blocks at a quiescent point: exactly the held blocks, once
AbsLenOK(a, n) == n = Cardinality(a.held)
SeqToSet(s) == { s[i] : i \in 1..Len(s) }
NoDupSeq(s) == Cardinality(SeqToSet(s)) = Len(s)
AbsIterOK(a, s) == NoDupSeq(s) /\ SeqToSet(s) = a.held

\* ---------------------------------------------------------------------------------------------
\* The detailed model
\* ---------------------------------------------------------------------------------------------
Last(s) == s[Len(s)]
Front(s) == SubSeq(s, 1, Len(s) - 1)
Flat(ss) == UNION { SeqToSet(ss[i]) : i \in 1..Len(ss) }
RECURSIVE SumLens(_, _)
SumLens(ss, n) == IF n = 0 THEN 0 ELSE SumLens(ss, n - 1) + Len(ss[n])

Init ==
    /\ head = << >> /\ global = << >> /\ local = [w \in Workers |-> << >>] /\ count = 0
    /\ headLock = NoOne /\ globalLock = NoOne
    /\ wpc = [w \in Workers |-> Idle] /\ warg = [w \in Workers |-> NoBlock]
    /\ wold = [w \in Workers |-> << >>]
    /\ ppc = [p \in Poppers |-> Idle] /\ pres = [p \in Poppers |-> NoBlock]
    /\ pq = [p \in Poppers |-> << >>]
    /\ fpc = Idle /\ fidx = 0 /\ fq = << >>
    /\ held = {} /\ guar = {} /\ out = Blocks /\ err = ""

NoFlush == fpc = Idle
NoPush == \A w \in Workers : wpc[w] = Idle

\* ---- push(block) by worker w ------------------------------------------------------------------
\* self.count.fetch_add(1)
PushCount(w, b) ==
    /\ wpc[w] = Idle /\ NoFlush /\ b \in out
    /\ count' = count + 1
    /\ wpc' = [wpc EXCEPT ![w] = "local"] /\ warg' = [warg EXCEPT ![w] = b]
    /\ out' = out \ {b} /\ held' = held \cup {b}
    /\ UNCHANGED <<head, global, local, headLock, globalLock, wold, ppc, pres, pq, fpc, fidx, fq, guar, err>>
\* worker_local_freed_blocks[id].push_relaxed(block) succeeds
PushLocal(w) ==
    /\ wpc[w] = "local" /\ Len(local[w]) < Cap
    /\ local' = [local EXCEPT ![w] = Append(@, warg[w])]
    /\ wpc' = [wpc EXCEPT ![w] = Idle] /\ warg' = [warg EXCEPT ![w] = NoBlock]
    /\ UNCHANGED <<head, global, count, headLock, globalLock, wold, ppc, pres, pq, fpc, fidx, fq, held, guar, out, err>>
\* the local queue is full: a new queue holding the block replaces it (`replace`)
PushOverflow(w) ==
    /\ wpc[w] = "local" /\ Len(local[w]) >= Cap
    /\ wold' = [wold EXCEPT ![w] = local[w]]
    /\ local' = [local EXCEPT ![w] = <<warg[w]>>]
    /\ wpc' = [wpc EXCEPT ![w] = "glob"] /\ warg' = [warg EXCEPT ![w] = NoBlock]
    /\ UNCHANGED <<head, global, count, headLock, globalLock, ppc, pres, pq, fpc, fidx, fq, held, guar, out, err>>
\* self.global_freed_blocks.write().push(old_queue)
PushGlobal(w) ==
    /\ wpc[w] = "glob" /\ globalLock = NoOne
    /\ global' = IF Mutant = "overflow_drops_old" THEN global ELSE Append(global, wold[w])
    /\ wold' = [wold EXCEPT ![w] = << >>]
    /\ wpc' = [wpc EXCEPT ![w] = Idle]
    /\ UNCHANGED <<head, local, count, headLock, globalLock, warg, ppc, pres, pq, fpc, fidx, fq, held, guar, out, err>>

\* ---- pop() by popper p ------------------------------------------------------------------------
\* History: the contract's pop step is taken at the linearisation point of the real pop (the
\* moment the block leaves the structure, or the moment emptiness is decided); `err` records a
\* result the contract does not allow at that moment.
Abs == [held |-> held, guar |-> guar]
Took(b) == /\ held' = held \ {b} /\ guar' = guar \ {b}
           /\ err' = IF err = "" /\ ~AbsPopOK(Abs, b) THEN "pop returned a block that is not held" ELSE err
SaidNone == /\ UNCHANGED <<held, guar>>
            /\ err' = IF err = "" /\ ~AbsPopOK(Abs, NoBlock)
                      THEN "pop returned None although a flushed block is held" ELSE err
\* if self.len() == 0 { return None }
PopCheckLen(p) ==
    /\ ppc[p] = Idle
    /\ IF count = 0
       THEN /\ pres' = [pres EXCEPT ![p] = NoBlock] /\ ppc' = [ppc EXCEPT ![p] = "ret"] /\ SaidNone
       ELSE /\ ppc' = [ppc EXCEPT ![p] = "lock"] /\ UNCHANGED <<pres, held, guar, err>>
    /\ UNCHANGED <<head, global, local, count, headLock, globalLock, wpc, warg, wold, pq, fpc, fidx, fq, out>>
\* self.head_global_freed_blocks.upgradeable_read()
PopLockHead(p) ==
    /\ ppc[p] = "lock" /\ headLock = NoOne
    /\ headLock' = p /\ ppc' = [ppc EXCEPT ![p] = "head"]
    /\ UNCHANGED <<head, global, local, count, globalLock, wpc, warg, wold, pres, pq, fpc, fidx, fq, held, guar, out, err>>
\* head.as_ref().and_then(|q| q.pop())   (BlockQueue::pop is one atomic fetch_update)
PopHead(p) ==
    /\ ppc[p] = "head"
    /\ IF head # << >>
       THEN /\ head' = Front(head) /\ pres' = [pres EXCEPT ![p] = Last(head)]
            /\ ppc' = [ppc EXCEPT ![p] = "dec"] /\ Took(Last(head))
       ELSE /\ ppc' = [ppc EXCEPT ![p] = "glock"] /\ UNCHANGED <<head, pres, held, guar, err>>
    /\ UNCHANGED <<global, local, count, headLock, globalLock, wpc, warg, wold, pq, fpc, fidx, fq, out>>
\* self.global_freed_blocks.write()
PopLockGlobal(p) ==
    /\ ppc[p] = "glock" /\ globalLock = NoOne
    /\ globalLock' = p /\ ppc' = [ppc EXCEPT ![p] = "retry"]
    /\ UNCHANGED <<head, global, local, count, headLock, wpc, warg, wold, pres, pq, fpc, fidx, fq, held, guar, out, err>>
\* retry the head; otherwise global_freed_blocks.pop()? ; blocks.pop().unwrap()
PopRetry(p) ==
    /\ ppc[p] = "retry"
    /\ IF head # << >>
       THEN /\ head' = Front(head) /\ pres' = [pres EXCEPT ![p] = Last(head)]
            /\ ppc' = [ppc EXCEPT ![p] = "dec"] /\ Took(Last(head)) /\ UNCHANGED <<global, pq>>
       ELSE IF global = << >>
       THEN /\ pres' = [pres EXCEPT ![p] = NoBlock] /\ ppc' = [ppc EXCEPT ![p] = "unlock"]
            /\ SaidNone /\ UNCHANGED <<head, global, pq>>
       ELSE /\ global' = Front(global)
            /\ pres' = [pres EXCEPT ![p] = Last(Last(global))]
            /\ pq' = [pq EXCEPT ![p] = Front(Last(global))]
            /\ ppc' = [ppc EXCEPT ![p] = "install"] /\ Took(Last(Last(global))) /\ UNCHANGED head
    /\ UNCHANGED <<local, count, headLock, globalLock, wpc, warg, wold, fpc, fidx, fq, out>>
\* if !blocks.is_empty() { *head.upgrade() = Some(blocks) }
PopInstall(p) ==
    /\ ppc[p] = "install"
    /\ head' = IF pq[p] # << >> THEN pq[p] ELSE head
    /\ pq' = [pq EXCEPT ![p] = << >>]
    /\ ppc' = [ppc EXCEPT ![p] = "dec"]
    /\ UNCHANGED <<global, local, count, headLock, globalLock, wpc, warg, wold, pres, fpc, fidx, fq, held, guar, out, err>>
\* self.count.fetch_sub(1); the guards are dropped on return
PopDec(p) ==
    /\ ppc[p] = "dec"
    /\ count' = IF Mutant = "slow_path_no_dec" /\ globalLock = p THEN count ELSE count - 1
    /\ ppc' = [ppc EXCEPT ![p] = "unlock"]
    /\ UNCHANGED <<head, global, local, headLock, globalLock, wpc, warg, wold, pres, pq, fpc, fidx, fq, held, guar, out, err>>
PopUnlock(p) ==
    /\ ppc[p] = "unlock"
    /\ headLock' = IF headLock = p THEN NoOne ELSE headLock
    /\ globalLock' = IF globalLock = p THEN NoOne ELSE globalLock
    /\ ppc' = [ppc EXCEPT ![p] = "ret"]
    /\ UNCHANGED <<head, global, local, count, wpc, warg, wold, pres, pq, fpc, fidx, fq, held, guar, out, err>>
\* the caller has the result (the block may be pushed again from now on)
PopReturn(p) ==
    /\ ppc[p] = "ret"
    /\ ppc' = [ppc EXCEPT ![p] = Idle]
    /\ out' = IF pres[p] = NoBlock THEN out ELSE out \cup {pres[p]}
    /\ pres' = [pres EXCEPT ![p] = NoBlock]
    /\ UNCHANGED <<head, global, local, count, headLock, globalLock, wpc, warg, wold, pq, fpc, fidx, fq, held, guar, err>>

\* ---- flush_all() ------------------------------------------------------------------------------
WorkerSeq == CHOOSE s \in [1..Cardinality(Workers) -> Workers] : \A i, j \in DOMAIN s : i # j => s[i] # s[j]
NW == Cardinality(Workers)
\* if self.len() == 0 { return }
FlushStart ==
    /\ fpc = Idle /\ NoPush
    /\ IF count = 0 THEN fpc' = "done" /\ UNCHANGED fidx
       ELSE fpc' = "take" /\ fidx' = 1
    /\ UNCHANGED <<head, global, local, count, headLock, globalLock, wpc, warg, wold, ppc, pres, pq, fq, held, guar, out, err>>
\* flush(i): if !local[i].is_empty() { queue = local[i].replace(BlockQueue::new()) ...
FlushTake ==
    /\ fpc = "take"
    /\ IF fidx > NW \/ (Mutant = "flush_skips_last" /\ fidx = NW /\ NW > 1)
       THEN fpc' = "done" /\ UNCHANGED <<local, fq, fidx>>
       ELSE LET w == WorkerSeq[fidx]
            IN  IF local[w] = << >>
                THEN fidx' = fidx + 1 /\ UNCHANGED <<local, fq, fpc>>
                ELSE /\ fq' = local[w] /\ local' = [local EXCEPT ![w] = << >>]
                     /\ fpc' = "put" /\ UNCHANGED fidx
    /\ UNCHANGED <<head, global, count, headLock, globalLock, wpc, warg, wold, ppc, pres, pq, held, guar, out, err>>
\* ... self.global_freed_blocks.write().push(queue) }
FlushPut ==
    /\ fpc = "put" /\ globalLock = NoOne
    /\ global' = Append(global, fq) /\ fq' = << >>
    /\ fidx' = fidx + 1 /\ fpc' = "take"
    /\ UNCHANGED <<head, local, count, headLock, globalLock, wpc, warg, wold, ppc, pres, pq, held, guar, out, err>>
\* flush_all returned: contract step
FlushReturn ==
    /\ fpc = "done"
    /\ fpc' = Idle /\ fidx' = 0
    /\ guar' = held
    /\ UNCHANGED <<head, global, local, count, headLock, globalLock, wpc, warg, wold, ppc, pres, pq, fq, held, out, err>>

Next ==
    \/ \E w \in Workers : (\E b \in Blocks : PushCount(w, b)) \/ PushLocal(w) \/ PushOverflow(w) \/ PushGlobal(w)
    \/ \E p \in Poppers : PopCheckLen(p) \/ PopLockHead(p) \/ PopHead(p) \/ PopLockGlobal(p)
                          \/ PopRetry(p) \/ PopInstall(p) \/ PopDec(p) \/ PopUnlock(p) \/ PopReturn(p)
    \/ FlushStart \/ FlushTake \/ FlushPut \/ FlushReturn
Spec == Init /\ [][Next]_vars

\* ---------------------------------------------------------------------------------------------
\* Properties (C19)
\* ---------------------------------------------------------------------------------------------
\* blocks physically in the structure, or detached queues in a thread's hands
InQueues == SeqToSet(head) \cup Flat(global) \cup UNION { SeqToSet(local[w]) : w \in Workers }
            \cup UNION { SeqToSet(wold[w]) : w \in Workers } \cup SeqToSet(fq)
            \cup UNION { SeqToSet(pq[p]) : p \in Poppers }
\* blocks whose push has started (count incremented) but which are not yet stored
InFlightIn == { warg[w] : w \in { v \in Workers : wpc[v] = "local" } }
PopperSeq == CHOOSE s \in [1..Cardinality(Poppers) -> Poppers] : \A i, j \in DOMAIN s : i # j => s[i] # s[j]
NP == Cardinality(Poppers)
NumStored == Len(head) + SumLens(global, Len(global)) + SumLens([i \in 1..NW |-> local[WorkerSeq[i]]], NW)
             + SumLens([i \in 1..NW |-> wold[WorkerSeq[i]]], NW) + Len(fq)
             + SumLens([i \in 1..NP |-> pq[PopperSeq[i]]], NP)

\* no block is lost, none is duplicated: what is stored (plus pushes in flight) is exactly what the
\* contract says is held, each block once
NoLossNoDup == /\ InQueues \cup InFlightIn = held
               /\ InQueues \cap InFlightIn = {}
               /\ NumStored = Cardinality(InQueues)
\* every pop result was allowed by the contract at its linearisation point: a returned block was
\* pushed and not popped since; None only if no flushed block was held
PopValid == err = ""
\* the reported length equals the number of blocks held when nothing is in progress, and it never
\* under-reports what is stored
Quiescent == NoPush /\ NoFlush /\ \A p \in Poppers : ppc[p] = Idle
LenOK == /\ Quiescent => count = Cardinality(held)
         /\ count >= NumStored
\* after flush_all every held block is poppable: it is in `head` or `global` (or in the queue a
\* popper is about to install as `head`), never stranded in a worker-local queue
Poppable == SeqToSet(head) \cup Flat(global) \cup UNION { SeqToSet(pq[p]) : p \in Poppers }
GuarPoppable == guar \subseteq Poppable
FlushComplete == (fpc = "done") => held \subseteq Poppable
TypeOK == /\ count \in Nat
          /\ held \subseteq Blocks /\ guar \subseteq held
=====================================================================================
