\* mutant: flush_all skips one worker -> held blocks stay unpoppable
SPECIFICATION Spec
CONSTANTS
  Workers = {0, 1}
  Poppers = {100}
  Blocks = {1, 2, 3, 4}
  Cap = 2
  Mutant = "flush_skips_last"
INVARIANTS
  TypeOK
  NoLossNoDup
  PopValid
  LenOK
  GuarPoppable
  FlushComplete
CHECK_DEADLOCK FALSE
