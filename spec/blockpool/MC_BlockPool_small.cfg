\* quick tier: 2 pushing workers, 1 popper, the flusher, 3 blocks, queue capacity 1
SPECIFICATION Spec
CONSTANTS
  Workers = {0, 1}
  Poppers = {100}
  Blocks = {1, 2, 3}
  Cap = 1
  Mutant = "none"
INVARIANTS
  TypeOK
  NoLossNoDup
  PopValid
  LenOK
  GuarPoppable
  FlushComplete
CHECK_DEADLOCK FALSE
