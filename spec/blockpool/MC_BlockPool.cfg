\* C19 design check: 2 pushing workers, 1 popper, the flusher, 4 blocks, queue capacity 2 (the real 256 is a parameter)
SPECIFICATION Spec
CONSTANTS
  Workers = {0, 1}
  Poppers = {100}
  Blocks = {1, 2, 3, 4}
  Cap = 2
  Mutant = "none"
INVARIANTS
  TypeOK
  NoLossNoDup
  PopValid
  LenOK
  GuarPoppable
  FlushComplete
CHECK_DEADLOCK FALSE
