\* two concurrent poppers, one worker
SPECIFICATION Spec
CONSTANTS
  Workers = {0}
  Poppers = {100, 101}
  Blocks = {1, 2, 3, 4}
  Cap = 2
  Mutant = "none"
INVARIANTS
  TypeOK
  NoLossNoDup
  PopValid
  LenOK
  GuarPoppable
  FlushComplete
CHECK_DEADLOCK FALSE
