SPECIFICATION TraceSpec
CONSTANTS
  Workers = {0}
  Poppers = {100}
  Blocks = {}
  Cap = 1
  Mutant = "none"
POSTCONDITION Accepted
CHECK_DEADLOCK FALSE
