------------------------------ MODULE Trace_BlockPool ------------------------------
(* Validates recorded histories of the real `BlockPool` (racedrive pool) against the abstract     *)
(* contract of BlockPool.tla (AbsPush / AbsPopOK / AbsPop / AbsFlush / AbsLenOK / AbsIterOK), the  *)
(* contract the detailed lock-level model is checked to implement.                                *)
(*                                                                                                *)
(* Sequential histories (one thread, switching the acting worker ordinal), one row each:          *)
(*   {"ev":"Hist","nw":W,"ops":[[op,w,x],..],"iters":[[blocks..],..]}                              *)
(*     ["push",w,b]  worker w pushed block b            ["pop",0,r]  pop returned r (-1 = None)    *)
(*     ["flush",0,0] flush_all                          ["len",0,n]  len() returned n              *)
(*     ["iter",0,k]  iterate_blocks reported iters[k]   ["addg",0,k] add_global_array of iters[k]  *)
(* Concurrent batches (W pushing workers, P poppers racing; then quiescent observations):          *)
(*   {"ev":"Batch","pre":[..],"pushed":[[..],..],"popped":[[..],..],"len_mid":n,"iter_mid":[..],   *)
(*    "drained":[..],"len_end":m}                                                                  *)
(*   pre = blocks put in before the race, pushed[w] / popped[p] = what each thread pushed / got,   *)
(*   len_mid, iter_mid observed after the race, drained = pops after flush_all until None.         *)
(* A `Crash` row (panic inside the pool) is never accepted.                                        *)
EXTENDS BlockPool, Json, IOUtils

Rec == ndJsonDeserialize(IOEnv.TRACE)
VARIABLE l

\* ---- sequential histories: fold the contract over the operations --------------------------------
RECURSIVE PushAll(_, _, _)
PushAll(a, s, i) == IF i > Len(s) THEN a ELSE PushAll(AbsPush(a, s[i]), s, i + 1)

Bad(a, o, r) ==
    IF o[1] = "push" THEN (IF o[3] \in a.held THEN "malformed:push-of-held-block" ELSE "")
    ELSE IF o[1] = "pop" THEN
        (IF AbsPopOK(a, o[3]) THEN ""
         ELSE IF o[3] = NoBlock THEN "pop-none-but-flushed-block-held" ELSE "pop-block-not-held")
    ELSE IF o[1] = "len" THEN (IF AbsLenOK(a, o[3]) THEN "" ELSE "len")
    ELSE IF o[1] = "iter" THEN (IF AbsIterOK(a, r.iters[o[3]]) THEN "" ELSE "iter")
    ELSE IF o[1] = "addg" THEN
        (IF NoDupSeq(r.iters[o[3]]) /\ SeqToSet(r.iters[o[3]]) \cap a.held = {} THEN ""
         ELSE "malformed:addg-of-held-block")
    ELSE IF o[1] = "flush" THEN "" ELSE "malformed:op"
Apply(a, o, r) ==
    IF o[1] = "push" THEN AbsPush(a, o[3])
    ELSE IF o[1] = "pop" THEN AbsPop(a, o[3])
    ELSE IF o[1] = "flush" THEN AbsFlush(a)
    \* add_global_array: the blocks enter the pool directly in the global list: held and poppable
    ELSE IF o[1] = "addg" THEN [held |-> a.held \cup SeqToSet(r.iters[o[3]]),
                                guar |-> a.guar \cup SeqToSet(r.iters[o[3]])]
    ELSE a
RECURSIVE Run(_, _, _)
Run(r, a, i) == IF i > Len(r.ops) THEN ""
                ELSE LET b == Bad(a, r.ops[i], r)
                     IN  IF b # "" THEN b ELSE Run(r, Apply(a, r.ops[i], r), i + 1)
HistTag(r) == Run(r, AbsInit, 1)

\* ---- concurrent batches ------------------------------------------------------------------------
RECURSIVE Concat(_, _)
Concat(ss, n) == IF n = 0 THEN << >> ELSE Concat(ss, n - 1) \o ss[n]
BatchTag(r) ==
    LET pushed == Concat(r.pushed, Len(r.pushed))
        popped == Concat(r.popped, Len(r.popped))
        all == SeqToSet(r.pre) \cup SeqToSet(pushed)
        a1 == [held |-> all, guar |-> {}]
        rem == all \ SeqToSet(popped)
        a2 == AbsFlush([held |-> rem, guar |-> {}])
    IN  IF ~(NoDupSeq(r.pre \o pushed)) THEN "malformed:duplicate-push"
        \* every block obtained by a popper was in the pool, and nobody else obtained it
        ELSE IF ~(SeqToSet(popped) \subseteq a1.held) THEN "pop-block-not-held"
        ELSE IF ~NoDupSeq(popped) THEN "block-popped-twice"
        ELSE IF ~AbsLenOK([held |-> rem, guar |-> {}], r.len_mid) THEN "len"
        ELSE IF ~AbsIterOK([held |-> rem, guar |-> {}], r.iter_mid) THEN "iter"
        \* after flush_all, popping until None returns exactly the held blocks
        ELSE IF ~NoDupSeq(r.drained) THEN "block-popped-twice"
        ELSE IF ~(SeqToSet(r.drained) \subseteq a2.held) THEN "pop-block-not-held"
        ELSE IF SeqToSet(r.drained) # a2.guar THEN "pop-none-but-flushed-block-held"
        ELSE IF r.len_end # 0 THEN "len"
        ELSE ""

Tag(r) == IF r.ev = "Hist" THEN HistTag(r)
          ELSE IF r.ev = "Batch" THEN BatchTag(r)
          ELSE IF r.ev = "Crash" THEN "crash"
          ELSE ""

TInitS == l = 1 /\ Init
TNext == /\ l <= Len(Rec)
         /\ IF Tag(Rec[l]) = "" THEN TRUE
            ELSE PrintT("ROW_REJECTED l=" \o ToString(l) \o " tag=" \o Tag(Rec[l]))
         /\ l' = l + 1
         /\ UNCHANGED vars
TraceSpec == TInitS /\ [][TNext]_<<l, vars>>

Accepted ==
    LET d == TLCGet("stats").diameter
    IN  IF d = Len(Rec) + 1 THEN TRUE
        ELSE /\ PrintT("TRACE_REJECTED matched=" \o ToString(d - 1) \o " of=" \o ToString(Len(Rec)))
             /\ FALSE
=====================================================================================
