\* mutant: on local-queue overflow the old queue is not handed to the global list -> blocks lost
SPECIFICATION Spec
CONSTANTS
  Workers = {0, 1}
  Poppers = {100}
  Blocks = {1, 2, 3, 4}
  Cap = 2
  Mutant = "overflow_drops_old"
INVARIANTS
  TypeOK
  NoLossNoDup
  PopValid
  LenOK
  GuarPoppable
  FlushComplete
CHECK_DEADLOCK FALSE
