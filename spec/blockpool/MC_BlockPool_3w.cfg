\* thorough: 3 pushing workers, 1 popper, 4 blocks, queue capacity 1
SPECIFICATION Spec
CONSTANTS
  Workers = {0, 1, 2}
  Poppers = {100}
  Blocks = {1, 2, 3, 4}
  Cap = 1
  Mutant = "none"
INVARIANTS
  TypeOK
  NoLossNoDup
  PopValid
  LenOK
  GuarPoppable
  FlushComplete
CHECK_DEADLOCK FALSE
