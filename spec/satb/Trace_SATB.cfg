SPECIFICATION SSpec
POSTCONDITION Accepted
INVARIANT StatsPrinted
INVARIANT SatbStatsPrinted
CHECK_DEADLOCK FALSE
