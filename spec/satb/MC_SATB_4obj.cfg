SPECIFICATION Spec
CONSTANTS
  Obj = {o1, o2, o3, o4}
  Null = Null
  NF = 1
  Roots = {1, 2}
  Mut = {1}
  AtomicWrite = TRUE
  Mutant = "none"
SYMMETRY ObjSymmetry
INVARIANTS
  TypeOK
  SnapshotKept
  NoDangling
CHECK_DEADLOCK FALSE
