----------------------------------- MODULE SATB -----------------------------------
(* C12, design level: snapshot-at-the-beginning concurrent marking as ConcurrentImmix does it.     *)
(*                                                                                                 *)
(*   InitialMark   plan/concurrent/immix/global.rs schedule_concurrent_marking_initial_pause,      *)
(*                 prepare (unlog bits bulk set), roots loaded as nodes into a                     *)
(*                 ConcurrentTraceObjects packet (concurrent_marking_work.rs), allocate-as-live on *)
(*   MarkStep      ConcurrentTraceObjects::do_work: pop one object, mark it, scan it, push the     *)
(*                 unmarked children (runs concurrently with the mutators)                         *)
(*   Write steps   plan/barriers.rs SATBBarrier::object_reference_write_pre: test the SOURCE's     *)
(*                 unlog bit; slow path (concurrent/barrier.rs): push every non-null field of the  *)
(*                 source (object_probable_write_slow), then clear the bit (log_object); then the  *)
(*                 mutator stores. Several mutators may run the barrier on one object at once.     *)
(*   Alloc         during marking objects are allocated as live (Space::set_allocate_as_live,      *)
(*                 Line::eager_mark_lines / LOS mark state)                                        *)
(*   Flush         SATBBarrierSemantics::flush_satb (buffer full; every mutator at FinalMark)      *)
(*   FinalMark     schedule_concurrent_marking_final_pause: flush all mutators, finish the         *)
(*                 closure (no root re-scan), sweep unmarked objects, bulk clear the unlog bits    *)
(*                                                                                                 *)
(* Property SnapshotKept: at the end of FinalMark every object that was reachable at InitialMark   *)
(* and every object allocated since is marked (survives the sweep). NoDangling is its visible      *)
(* consequence. Abstractions: scanning an object is one atomic step (the object-logging barrier    *)
(* records all fields of the source before its first modification, so finer scanning adds          *)
(* nothing); ids of swept objects are reused; reference processing is left to C06.                 *)
EXTENDS Naturals, FiniteSets, TLC

CONSTANTS Obj, Null, NF, Roots, Mut,
          AtomicWrite, \* TRUE: a reference write (barrier + store) is one step (enough for one
                       \* mutator); FALSE: test / record / log / store are separate steps
          Mutant       \* "none" | "records_new_value" | "no_allocate_live" | "log_before_record"
                       \*        | "no_final_flush" | "tests_target" | "test_inverted"

Flds == 1..NF
Val == Obj \cup {Null}
Idle == <<>>

VARIABLES alive, fields, roots,
          phase,      \* "idle" | "marking"
          marked,     \* Obj -> BOOLEAN
          gray,       \* objects in ConcurrentTraceObjects / ProcessModBufSATB packets (to be traced)
          unlog,      \* Obj -> {0,1}: 1 = the barrier has not logged the object in this cycle
          satb,       \* Mut -> SUBSET Obj: thread-local SATB buffer
          pc,         \* Mut -> Idle | [src, k, val, st] with st in {"test","rec","clr","store"}
          snap,       \* history: objects reachable when InitialMark ended + objects allocated since
          lost        \* history: snap \ marked at the end of the last FinalMark
vars == <<alive, fields, roots, phase, marked, gray, unlog, satb, pc, snap, lost>>

RootVals == {roots[r] : r \in Roots} \ {Null}
Held == RootVals \cap alive
AtSafepoint == \A m \in Mut : pc[m] = Idle

RECURSIVE Clo(_)
Clo(S) == LET N == S \cup ({fields[o][k] : o \in S, k \in Flds} \ {Null})
          IN  IF N = S THEN S ELSE Clo(N)
Reach == Clo(RootVals)

Init ==
    /\ alive = {} /\ fields = [o \in Obj |-> [k \in Flds |-> Null]]
    /\ roots = [r \in Roots |-> Null]
    /\ phase = "idle" /\ marked = [o \in Obj |-> FALSE] /\ gray = {}
    /\ unlog = [o \in Obj |-> 0] /\ satb = [m \in Mut |-> {}] /\ pc = [m \in Mut |-> Idle]
    /\ snap = {} /\ lost = {}

\* ---- mutators ---------------------------------------------------------------------------------
Alloc(m, r, bit) ==
    /\ pc[m] = Idle
    /\ \E o \in Obj \ alive :
        /\ alive' = alive \cup {o}
        /\ fields' = [fields EXCEPT ![o] = [k \in Flds |-> Null]]
        /\ roots' = [roots EXCEPT ![r] = o]
        \* allocate as live while marking is in progress
        /\ marked' = [marked EXCEPT ![o] = (phase = "marking" /\ Mutant # "no_allocate_live")]
        \* the unlog bit of a fresh object is whatever its (possibly recycled) line holds
        /\ unlog' = [unlog EXCEPT ![o] = IF phase = "marking" THEN bit ELSE 0]
        /\ snap' = IF phase = "marking" THEN snap \cup {o} ELSE snap
    /\ UNCHANGED <<phase, gray, satb, pc, lost>>

WriteBegin(m, src, k, val) ==
    /\ ~AtomicWrite
    /\ pc[m] = Idle
    /\ src \in Held /\ val \in Held \cup {Null}
    /\ pc' = [pc EXCEPT ![m] = [src |-> src, k |-> k, val |-> val, st |-> "test"]]
    /\ UNCHANGED <<alive, fields, roots, phase, marked, gray, unlog, satb, snap, lost>>

Tested(m) == IF Mutant = "tests_target" THEN pc[m].val ELSE pc[m].src
\* object_reference_write_pre: fast-path test of the unlog bit
BarrierTest(m) ==
    /\ pc[m] # Idle /\ pc[m].st = "test"
    /\ LET u == IF Tested(m) = Null THEN 0 ELSE unlog[Tested(m)]
           slow == IF Mutant = "test_inverted" THEN u = 0 ELSE u = 1
       IN pc' = [pc EXCEPT ![m].st = IF slow THEN (IF Mutant = "log_before_record" THEN "clr" ELSE "rec")
                                     ELSE "store"]
    /\ UNCHANGED <<alive, fields, roots, phase, marked, gray, unlog, satb, snap, lost>>

\* object_probable_write_slow: enqueue the current value of every field of the source
BarrierRecord(m) ==
    /\ pc[m] # Idle /\ pc[m].st = "rec"
    /\ LET olds == IF Mutant = "records_new_value" THEN {pc[m].val} \ {Null}
                   ELSE {fields[pc[m].src][j] : j \in Flds} \ {Null}
       IN satb' = [satb EXCEPT ![m] = @ \cup olds]
    /\ pc' = [pc EXCEPT ![m].st = IF Mutant = "log_before_record" THEN "store" ELSE "clr"]
    /\ UNCHANGED <<alive, fields, roots, phase, marked, gray, unlog, snap, lost>>

\* log_object: clear the unlog bit
BarrierLog(m) ==
    /\ pc[m] # Idle /\ pc[m].st = "clr"
    /\ unlog' = [unlog EXCEPT ![pc[m].src] = 0]
    /\ pc' = [pc EXCEPT ![m].st = IF Mutant = "log_before_record" THEN "rec" ELSE "store"]
    /\ UNCHANGED <<alive, fields, roots, phase, marked, gray, satb, snap, lost>>

WriteStore(m) ==
    /\ pc[m] # Idle /\ pc[m].st = "store"
    /\ fields' = [fields EXCEPT ![pc[m].src][pc[m].k] = pc[m].val]
    /\ pc' = [pc EXCEPT ![m] = Idle]
    /\ UNCHANGED <<alive, roots, phase, marked, gray, unlog, satb, snap, lost>>

\* the same four steps as one action (single mutator: nothing can interleave with them except
\* MarkStep, which neither reads the unlog bits nor the SATB buffers)
Write(m, src, k, val) ==
    /\ AtomicWrite
    /\ pc[m] = Idle
    /\ src \in Held /\ val \in Held \cup {Null}
    /\ LET t == IF Mutant = "tests_target" THEN val ELSE src
           u == IF t = Null THEN 0 ELSE unlog[t]
           slow == IF Mutant = "test_inverted" THEN u = 0 ELSE u = 1
           olds == IF Mutant = "records_new_value" THEN {val} \ {Null}
                   ELSE {fields[src][j] : j \in Flds} \ {Null}
       IN /\ satb' = IF slow THEN [satb EXCEPT ![m] = @ \cup olds] ELSE satb
          /\ unlog' = IF slow THEN [unlog EXCEPT ![src] = 0] ELSE unlog
    /\ fields' = [fields EXCEPT ![src][k] = val]
    /\ UNCHANGED <<alive, roots, phase, marked, gray, pc, snap, lost>>

Load(m, src, k, r) ==
    /\ pc[m] = Idle /\ src \in Held
    /\ roots' = [roots EXCEPT ![r] = fields[src][k]]
    /\ UNCHANGED <<alive, fields, phase, marked, gray, unlog, satb, pc, snap, lost>>

DropRoot(r) ==
    /\ roots[r] # Null
    /\ roots' = [roots EXCEPT ![r] = Null]
    /\ UNCHANGED <<alive, fields, phase, marked, gray, unlog, satb, pc, snap, lost>>

\* flush_satb: packets are only created while marking is in progress (or in FinalMark)
Flush(m) ==
    /\ pc[m] = Idle /\ satb[m] # {}
    /\ gray' = IF phase = "marking" THEN gray \cup satb[m] ELSE gray
    /\ satb' = [satb EXCEPT ![m] = {}]
    /\ UNCHANGED <<alive, fields, roots, phase, marked, unlog, pc, snap, lost>>

\* ---- collector --------------------------------------------------------------------------------
InitialMark ==
    /\ phase = "idle" /\ AtSafepoint
    /\ phase' = "marking"
    /\ marked' = [o \in Obj |-> FALSE]
    /\ gray' = RootVals                          \* root slots are loaded now; roots are not re-scanned
    /\ unlog' = [o \in Obj |-> IF o \in alive THEN 1 ELSE 0]   \* UnlogBitsOperation::BulkSet
    /\ satb' = [m \in Mut |-> {}]
    /\ snap' = Reach /\ lost' = {}
    /\ UNCHANGED <<alive, fields, roots, pc>>

\* one ConcurrentTraceObjects step: runs while the mutators run
MarkStep ==
    /\ phase = "marking"
    /\ \E o \in gray :
        IF marked[o]
        THEN gray' = gray \ {o} /\ UNCHANGED marked
        ELSE /\ marked' = [marked EXCEPT ![o] = TRUE]
             /\ gray' = (gray \ {o}) \cup {c \in {fields[o][k] : k \in Flds} \ {Null} : ~marked[c] /\ c # o}
    /\ UNCHANGED <<alive, fields, roots, phase, unlog, satb, pc, snap, lost>>

RECURSIVE MarkClo(_, _)
\* finish the closure inside the pause: M marked so far, G still to trace
MarkClo(M, G) ==
    IF G = {} THEN M
    ELSE LET o == CHOOSE x \in G : TRUE IN
         IF o \in M THEN MarkClo(M, G \ {o})
         ELSE MarkClo(M \cup {o}, (G \ {o}) \cup ({fields[o][k] : k \in Flds} \ {Null}))

FinalMark ==
    /\ phase = "marking" /\ AtSafepoint
    /\ LET flushed == IF Mutant = "no_final_flush" THEN gray ELSE gray \cup UNION {satb[m] : m \in Mut}
           M == MarkClo({o \in Obj : marked[o]}, flushed)
       IN
       /\ lost' = snap \ M
       /\ alive' = alive \cap M                                  \* sweep
       /\ fields' = [o \in Obj |-> IF o \in alive \cap M THEN fields[o] ELSE [k \in Flds |-> Null]]
       /\ marked' = [o \in Obj |-> FALSE]                       \* (mark bits are not read while idle)
    /\ phase' = "idle" /\ gray' = {} /\ snap' = {}
    /\ unlog' = [o \in Obj |-> 0]                                \* UnlogBitsOperation::BulkClear
    /\ satb' = [m \in Mut |-> {}]
    /\ UNCHANGED <<roots, pc>>

Next ==
    \/ \E m \in Mut, r \in Roots, b \in {0, 1} : Alloc(m, r, b)
    \/ \E m \in Mut, s \in Obj, k \in Flds, v \in Val : WriteBegin(m, s, k, v) \/ Write(m, s, k, v)
    \/ \E m \in Mut : BarrierTest(m) \/ BarrierRecord(m) \/ BarrierLog(m) \/ WriteStore(m) \/ Flush(m)
    \/ \E m \in Mut, s \in Obj, k \in Flds, r \in Roots : Load(m, s, k, r)
    \/ \E r \in Roots : DropRoot(r)
    \/ InitialMark \/ MarkStep \/ FinalMark

Spec == Init /\ [][Next]_vars
ObjSymmetry == Permutations(Obj)

\* ---- properties -------------------------------------------------------------------------------
TypeOK ==
    /\ alive \subseteq Obj /\ gray \subseteq Obj
    /\ fields \in [Obj -> [Flds -> Val]] /\ roots \in [Roots -> Val]
    /\ marked \in [Obj -> BOOLEAN] /\ unlog \in [Obj -> {0, 1}]
    /\ phase \in {"idle", "marking"}

\* C12: everything reachable at InitialMark and everything allocated since survived FinalMark
SnapshotKept == lost = {}

\* its visible consequence: the mutators never hold a reference to a swept object
NoDangling ==
    /\ RootVals \subseteq alive
    /\ \A o \in Reach \cap alive : \A k \in Flds : fields[o][k] # Null => fields[o][k] \in alive

=====================================================================================
