SPECIFICATION Spec
CONSTANTS
  Obj = {o1, o2}
  Null = Null
  NF = 1
  Roots = {1, 2}
  Mut = {1, 2}
  AtomicWrite = FALSE
  Mutant = "log_before_record"
SYMMETRY ObjSymmetry
INVARIANTS
  SnapshotKept
  NoDangling
CHECK_DEADLOCK FALSE
