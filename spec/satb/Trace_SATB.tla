-------------------------------- MODULE Trace_SATB --------------------------------
(* C12, conformance: validates traces of `gcdrive --mode satb` (ConcurrentImmix on the real MMTk;  *)
(* the mutator keeps writing through the SATB barrier while concurrent marking runs) against the   *)
(* protocol of SATB.tla. HeapTrace supplies the heap model and the graph checks at every pause     *)
(* (InitialMark, FinalMark, Full): every object the model reaches from the roots is found intact   *)
(* by the walker. This module adds, in HeapTrace's extension record `ext`:                         *)
(*                                                                                                 *)
(*   PauseEnd(kind) GCEnd    SATB!InitialMark : snap := the reachable set, marking begins          *)
(*                           SATB!FinalMark   : SnapshotKept - every object of snap and every      *)
(*                                              object allocated since is still a valid object for *)
(*                                              MMTk (ids `enum` of MMTK::enumerate_objects,       *)
(*                                              vo_bit builds), and all SATB buffers were flushed  *)
(*   Alloc                   SATB!Alloc       : objects allocated while marking join snap          *)
(*   [SATBSlow SATBPush*] Write  SATB!Write   : the first write to a snapshot object finds its     *)
(*                                              unlog bit set; a write that finds the bit set      *)
(*                                              takes the slow path, which pushes the value of     *)
(*                                              every non-null field of the SOURCE as it was       *)
(*                                              before the store, and clears the bit               *)
(*   [SATBPush*] RegionCopy                   : the overwritten values of a not yet logged         *)
(*                                              snapshot destination are pushed                    *)
(*   SATBFlush               SATB!Flush       : while marking, flushed buffers become packets      *)
(*                                                                                                 *)
(* Never constrained: when MMTk starts or ends a concurrent collection, marking order, which       *)
(* worker runs what, addresses, the unlog bit of objects allocated during marking, extra pushes.   *)
EXTENDS HeapTrace

InitExt == [keep |-> {},
            phase |-> "idle",       \* "idle" | "marking"
            lastPause |-> "none",   \* kind of the last PauseEnd (names the next GCEnd)
            snap0 |-> {},           \* reachable at the InitialMark GCEnd
            snap |-> {},            \* snap0 + allocated since
            logged |-> {},          \* snapshot objects written (hence logged) since InitialMark
            pendSlow |-> << >>,     \* SATBSlow sources since the last Write
            pendPush |-> << >>,     \* SATBPush values since the last Write / RegionCopy
            unflushed |-> 0,        \* pushes not yet flushed
            st |-> [cycles |-> 0, writesInMarking |-> 0, slowInMarking |-> 0, pushes |-> 0,
                    allocInMarking |-> 0, snapObjects |-> 0, droppedSnapObjects |-> 0,
                    markPacketsWhileMutating |-> 0, regionInMarking |-> 0, fullPauses |-> 0]]
X == IF "phase" \in DOMAIN ext THEN ext ELSE InitExt
SeqSet(s) == {s[i] : i \in DOMAIN s}
SBump(key) == [X.st EXCEPT ![key] = @ + 1]
FieldAddr(a, k) == AddW(SubW(a, RefOffW), 3 + k - 1)
\* addresses of the non-null reference fields k1..k2 of model object o (field 1 of a reference
\* object is its weak referent: not a strong field)
FieldTargets(o, k1, k2) ==
    {objs[objs[o].f[k]].a : k \in {j \in k1..k2 : objs[o].f[j] # Null /\ objs[o].f[j] \in DOMAIN objs
                                                  /\ ~(objs[o].k = 1 /\ j = 1)}}

SAlloc(e) ==
    IF AllocOK(e)
    THEN /\ DoAlloc(e)
         /\ ext' = IF X.phase = "marking"
                   THEN [X EXCEPT !.snap = @ \cup {e.id}, !.st = SBump("allocInMarking")]
                   ELSE X
    ELSE FailStep /\ UNCHANGED ext

SatbWriteOK(e) ==
    LET first == X.phase = "marking" /\ e.src \in X.snap0 /\ e.src \notin X.logged
    IN
    /\ G("C12:write-src-address", e.sa = objs[e.src].a)
    /\ G("C12:snapshot-object-not-armed", first => e.ub = 1)
    /\ G("C12:barrier-slow-path-missing", e.ub = 1 => X.pendSlow = <<e.sa>>)
    /\ G("C12:old-value-not-recorded",
            e.ub = 1 => FieldTargets(e.src, 1, objs[e.src].nf) \subseteq SeqSet(X.pendPush))
    /\ G("C12:log-bit-not-cleared", e.ub = 1 => e.ua = 0)
    /\ G("C12:barrier-slow-path-spurious", e.ub = 0 => X.pendSlow = << >> /\ X.pendPush = << >>)
SWrite(e) ==
    IF "ub" \notin DOMAIN e
    THEN (IF WriteOK(e) THEN DoWrite(e) ELSE FailStep) /\ UNCHANGED ext
    ELSE IF WriteOK(e) /\ SatbWriteOK(e)
    THEN /\ DoWrite(e)
         /\ ext' = [X EXCEPT !.logged = IF X.phase = "marking" THEN @ \cup {e.src} ELSE @,
                             !.pendSlow = << >>, !.pendPush = << >>,
                             !.unflushed = @ + Len(X.pendPush),
                             !.st = [X.st EXCEPT
                                !.writesInMarking = @ + (IF X.phase = "marking" THEN 1 ELSE 0),
                                !.slowInMarking = @ + (IF X.phase = "marking" /\ e.ub = 1 THEN 1 ELSE 0),
                                !.pushes = @ + Len(X.pendPush)]]
    ELSE FailStep /\ UNCHANGED ext

RegionOK(e) ==
    /\ G("C12:region-known", e.src \in DOMAIN objs /\ e.dst \in DOMAIN objs
            /\ e.sk >= 1 /\ e.sk + e.n - 1 <= objs[e.src].nf
            /\ e.dk >= 1 /\ e.dk + e.n - 1 <= objs[e.dst].nf)
    /\ G("C12:region-dst-address", e.da = FieldAddr(objs[e.dst].a, e.dk))
    /\ G("C12:region-old-value-not-recorded",
            X.phase = "marking" /\ e.dst \in X.snap0 /\ e.dst \notin X.logged =>
                FieldTargets(e.dst, e.dk, e.dk + e.n - 1) \subseteq SeqSet(X.pendPush))
SRegionCopy(e) ==
    IF RegionOK(e)
    THEN /\ objs' = [objs EXCEPT ![e.dst].f =
                        [j \in DOMAIN @ |-> IF j >= e.dk /\ j < e.dk + e.n
                                            THEN objs[e.src].f[e.sk + (j - e.dk)] ELSE @[j]]]
         /\ ext' = [X EXCEPT !.pendPush = << >>, !.pendSlow = << >>,
                             !.unflushed = @ + Len(X.pendPush),
                             !.st = [X.st EXCEPT !.pushes = @ + Len(X.pendPush),
                                        !.regionInMarking = @ + (IF X.phase = "marking" THEN 1 ELSE 0)]]
         /\ UNCHANGED <<cfg, roots, ivl, imm, pinned, bound, failed, aux, stats>>
    ELSE FailStep /\ UNCHANGED ext

SFlush(e) ==
    IF G("C12:satb-flush-dropped-while-marking", X.phase = "marking" => e.packets)
    THEN Skip /\ ext' = [X EXCEPT !.unflushed = IF @ >= e.n THEN @ - e.n ELSE 0]
    ELSE FailStep /\ UNCHANGED ext

EnumIds(e) == {e.enum[i] : i \in DOMAIN e.enum}
SatbGCEndOK(e) ==
    /\ G("C12:barrier-event-outside-a-write", X.pendSlow = << >> /\ X.pendPush = << >>)
    /\ G("C12:satb-buffer-not-flushed-at-final-mark",
            X.lastPause = "FinalMark" /\ X.phase = "marking" => X.unflushed = 0)
    /\ G("C12:snapshot-object-lost",
            X.lastPause = "FinalMark" /\ X.phase = "marking" /\ "enum" \in DOMAIN e =>
                X.snap \subseteq EnumIds(e))
SGCEnd(e) ==
    IF SatbGCEndOK(e) /\ GCEndOK(e)
    THEN /\ DoGCEnd(e)
         /\ ext' =
              CASE X.lastPause = "InitialMark" ->
                     [X EXCEPT !.phase = "marking", !.snap = NodeIds(e), !.snap0 = NodeIds(e), !.logged = {},
                               !.unflushed = 0,
                               !.st = [SBump("cycles") EXCEPT !.snapObjects = @ + Len(e.nodes)]]
                [] X.lastPause = "FinalMark" ->
                     [X EXCEPT !.phase = "idle", !.snap = {}, !.snap0 = {}, !.logged = {}, !.unflushed = 0,
                               !.st = [X.st EXCEPT !.droppedSnapObjects =
                                          @ + Cardinality(X.snap \ NodeIds(e))]]
                [] OTHER ->
                     [X EXCEPT !.phase = "idle", !.snap = {}, !.snap0 = {}, !.logged = {}, !.unflushed = 0,
                               !.st = SBump("fullPauses")]
    ELSE FailStep /\ UNCHANGED ext

SReset(e) ==
    /\ DoReset(e)
    /\ ext' = [X EXCEPT !.pendSlow = << >>, !.pendPush = << >>,
                        !.snap = IF failed THEN {} ELSE @, !.snap0 = IF failed THEN {} ELSE @, !.phase = IF failed THEN "idle" ELSE @]

SStep(e) ==
    CASE e.ev = "Boot" -> DoBoot(e) /\ ext' = InitExt
      [] e.ev = "Reset" -> SReset(e)
      [] e.ev = "PauseEnd" -> Skip /\ ext' = [X EXCEPT !.lastPause = e.kind]
      [] failed -> Step(e) /\ UNCHANGED ext
      [] e.ev = "Alloc" -> SAlloc(e)
      [] e.ev = "SATBSlow" -> Skip /\ ext' = [X EXCEPT !.pendSlow = Append(@, e.src)]
      \* SATB!BarrierRecord precedes SATB!BarrierLog: an old value is recorded while its source still
      \* counts as not logged (otherwise a second mutator skips the barrier before the value is safe)
      [] e.ev = "SATBPush" ->
            IF G("C12:source-logged-before-its-old-values-were-recorded", "su" \in DOMAIN e => e.su # 0)
            THEN Skip /\ ext' = [X EXCEPT !.pendPush = Append(@, e.old)]
            ELSE FailStep /\ UNCHANGED ext
      [] e.ev = "SATBFlush" -> SFlush(e)
      [] e.ev = "Write" -> SWrite(e)
      [] e.ev = "RegionCopy" -> SRegionCopy(e)
      [] e.ev = "ConcTrace" ->
            Skip /\ ext' = IF e.marking /\ X.phase = "marking"
                           THEN [X EXCEPT !.st = SBump("markPacketsWhileMutating")] ELSE X
      [] e.ev = "GCEnd" -> SGCEnd(e)
      [] OTHER -> Step(e) /\ UNCHANGED ext

SNext == /\ l <= Len(Rec)
         /\ l' = l + 1
         /\ SStep(Rec[l])

SSpec == TInit /\ [][SNext]_vars

SatbStatsPrinted == l = Len(Rec) + 1 => PrintT("SATB_STATS " \o ToString(X.st))
=====================================================================================
