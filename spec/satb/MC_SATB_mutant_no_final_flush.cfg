SPECIFICATION Spec
CONSTANTS
  Obj = {o1, o2, o3}
  Null = Null
  NF = 1
  Roots = {1, 2}
  Mut = {1}
  AtomicWrite = TRUE
  Mutant = "no_final_flush"
SYMMETRY ObjSymmetry
INVARIANTS
  SnapshotKept
  NoDangling
CHECK_DEADLOCK FALSE
