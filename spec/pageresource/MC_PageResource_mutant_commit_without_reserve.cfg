\* Vacuity control: the broken variant "commit_without_reserve" must be rejected.
SPECIFICATION Spec
CONSTANTS
  SpaceIds = {1, 2, 3}
  Extent = 4
  MaxGrant = 2
  Threads = {1, 2}
  Kind <- MCKind
  BlockPages = 2
  Mutant = "commit_without_reserve"
INVARIANTS
  TypeOK
  Disjoint
  InSpace
  Accounting
  QuiescentExact
  MonotoneBelowCursor
CHECK_DEADLOCK FALSE
