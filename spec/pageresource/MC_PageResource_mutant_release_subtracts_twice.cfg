\* Vacuity control: the broken variant "release_subtracts_twice" must be rejected.
SPECIFICATION Spec
CONSTANTS
  SpaceIds = {1, 2, 3}
  Extent = 4
  MaxGrant = 2
  Threads = {1, 2}
  Kind <- MCKind
  BlockPages = 2
  Mutant = "release_subtracts_twice"
INVARIANTS
  TypeOK
  Disjoint
  InSpace
  Accounting
  QuiescentExact
  MonotoneBelowCursor
CHECK_DEADLOCK FALSE
