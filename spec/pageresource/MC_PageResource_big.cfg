\* thorough: 3 spaces x 5 pages, requests of 1..3 pages, two interleaved acquirers
SPECIFICATION Spec
CONSTANTS
  SpaceIds = {1, 2, 3}
  Extent = 5
  MaxGrant = 3
  Threads = {1, 2}
  Kind <- MCKind
  BlockPages = 2
  Mutant = "none"
INVARIANTS
  TypeOK
  Disjoint
  InSpace
  Accounting
  QuiescentExact
  MonotoneBelowCursor
CHECK_DEADLOCK FALSE
