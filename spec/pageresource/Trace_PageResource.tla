---------------------------- MODULE Trace_PageResource ----------------------------
(* C28, in situ. Validates the page-resource events of any gcdrive run (real MMTk, ShadowVM binding)  *)
(* against PageResource.tla. Events (emitted by cfg(mmtk_verif) hooks in mmtk-core, see              *)
(* /repo/src/verif_space.rs; addresses as c = addr >> 22, p = (addr >> 12) & 1023, o = addr & 4095): *)
(*   Spaces          the space table (name, [start, end), contiguous?, descriptor index)              *)
(*   PRAcquire       Space::acquire got n pages at (c,p,o) for space sp            = Grant            *)
(*   PRRelease       release_pages / release_block takes back n pages at (c,p,o)   = Release          *)
(*   PRRangeRelease  monotone reset / reset_cursor, region reset_cursor: every granted page in        *)
(*                   [from, to) goes back                                          = Reset/ResetCursor*)
(*   ChunksAlloc / ChunksFree / ChunksFreeAll   chunk regions of discontiguous spaces (Map32)         *)
(*   PRCounters      raw reserved / committed of every page resource at a quiescent point             *)
(* Every event is consumed (row mode); a guard that fails prints ROW_REJECTED with its tag and the    *)
(* bookkeeping continues, so that one finding does not hide another.                                  *)
(* Guards (tags):                                                                                    *)
(*   C28:aligned             a grant is page aligned and not empty                                    *)
(*   C28:in-space            a grant lies in the owning space's address range (contiguous space) /     *)
(*                           in chunks currently assigned to the space (discontiguous space)          *)
(*   C28:disjoint            a grant shares no page with any live grant of any space                  *)
(*   C28:release-not-live    release_pages / release_block of something that is not a live grant      *)
(*   C28:counter-underflow   a counter holds an impossible (wrapped) value                            *)
(*   C28:reserved<committed  reserved >= committed                                                    *)
(*   C28:committed!=granted  at quiescence committed = pages of the live grants of the space          *)
(*   C28:reserved!=granted   at quiescence reserved  = pages of the live grants of the space          *)
(*   C28:chunk-*             chunk regions: handed out twice, outside the space, freed while granted  *)
EXTENDS PageResource, Grants, Json, IOUtils

Rec == ndJsonDeserialize(IOEnv.TRACE)

VARIABLES l,        \* next line
          spaces,   \* name -> [k, lo, hi, contig, di]  (pages [lo, hi) of slot k)
          live,     \* chunk number -> set of live grants
          cnt,      \* name -> pages currently granted
          owner,    \* chunk number -> descriptor index of the space the chunk is assigned to
          stats
tvars == <<l, spaces, live, cnt, owner, stats>>

Rej(tag) == PrintT("ROW_REJECTED l=" \o ToString(l) \o " tag=" \o tag)
G(tag, cond) == IF cond THEN TRUE ELSE Rej(tag)
Bump(key) == [stats EXCEPT ![key] = @ + 1]

\* limbs [a >> 44, (a >> 22) & (2^22-1), a & (2^22-1)] -> chunk number, page in chunk
LChunk(a) == a[1] * 4194304 + a[2]
LPage(a)  == a[3] \div 4096
Cnt(sp)   == IF sp \in DOMAIN cnt THEN cnt[sp] ELSE 0

DoSpaces(e) ==
    /\ spaces' = [n \in { e.spaces[i].n : i \in { j \in 1..Len(e.spaces) : e.spaces[j].common } } |->
                    LET s == CHOOSE x \in { e.spaces[i] : i \in 1..Len(e.spaces) } : x.n = n
                    IN  [k |-> SlotOf(LChunk(s.start)),
                         lo |-> PageIdx(LChunk(s.start), LPage(s.start)),
                         hi |-> PageIdx(LChunk(s.start), LPage(s.start))
                                + (LChunk(s.end) - LChunk(s.start)) * PagesInChunk
                                + LPage(s.end) - LPage(s.start),
                         contig |-> s.contig, di |-> s.descIndex]]
    /\ UNCHANGED <<live, cnt, owner, stats>>

InSpaceOK(g) ==
    /\ g.sp \in DOMAIN spaces
    /\ LET s == spaces[g.sp]
       IN  IF s.contig
           THEN g.k = s.k /\ RangeInside(g.lo, g.n, s.lo, s.hi)
           ELSE \A c \in ChunksOf(g) : c \in DOMAIN owner /\ owner[c] = s.di

DoAcquire(e) ==
    LET g == MkGrant(e.sp, e.c, e.p, e.n)
    IN  /\ G("C28:aligned", e.o = 0 /\ e.n >= 1)
        /\ G("C28:in-space", InSpaceOK(g))
        /\ G("C28:disjoint", Overlapping(live, g) = {})
        /\ live' = AddGrant(live, g)
        /\ cnt' = (e.sp :> Cnt(e.sp) + e.n) @@ cnt
        /\ stats' = Bump("grants")
        /\ UNCHANGED <<spaces, owner>>

DoRelease(e) ==
    LET hit == Exactly(live, SlotOf(e.c), PageIdx(e.c, e.p), e.n)
    IN  /\ G("C28:release-not-live", e.o = 0 /\ hit # {})
        /\ live' = DelGrants(live, hit)
        /\ cnt' = [sp \in DOMAIN cnt |-> cnt[sp] - SumN({ h \in hit : h.sp = sp })]
        /\ stats' = Bump("releases")
        /\ UNCHANGED <<spaces, owner>>

\* every granted page in [from, to) goes back
TakeBack(k, lo, hi) ==
    LET hit  == InRange(live, k, lo, hi)
        rest == UNION { Remainder(h, lo, hi) : h \in hit }
    IN  /\ live' = AddGrants(DelGrants(live, hit), rest)
        /\ cnt' = [sp \in DOMAIN cnt |->
                     cnt[sp] - SumN({ h \in hit : h.sp = sp }) + SumN({ h \in rest : h.sp = sp })]
DoRangeRelease(e) ==
    /\ IF e.kind = "monotone.reset.discontiguous"
       THEN \* all chunks of the space owning chunk e.c go back (nothing if the resource is empty)
            LET di  == IF e.c \in DOMAIN owner THEN owner[e.c] ELSE -1
                sps == { sp \in DOMAIN spaces : spaces[sp].di = di }
                hit == { h \in AllGrants(live) : h.sp \in sps }
            IN  /\ live' = DelGrants(live, hit)
                /\ cnt' = [sp \in DOMAIN cnt |-> IF sp \in sps THEN 0 ELSE cnt[sp]]
       ELSE TakeBack(SlotOf(e.c), PageIdx(e.c, e.p),
                     PageIdx(e.c, e.p) + (e.tc - e.c) * PagesInChunk + e.tp - e.p)
    /\ stats' = Bump("rangeReleases")
    /\ UNCHANGED <<spaces, owner>>

SpaceOfDi(di) == { sp \in DOMAIN spaces : spaces[sp].di = di }
DoChunksAlloc(e) ==
    LET cs == e.c..(e.c + e.k - 1)
    IN  /\ G("C28:chunk-double-alloc", \A c \in cs : c \notin DOMAIN owner)
        /\ G("C28:chunk-outside-space",
               \A sp \in SpaceOfDi(e.di) :
                   spaces[sp].contig =>
                     /\ SlotOf(e.c) = spaces[sp].k
                     /\ RangeInside(PageIdx(e.c, 0), e.k * PagesInChunk, spaces[sp].lo, spaces[sp].hi))
        /\ owner' = [c \in DOMAIN owner \cup cs |-> IF c \in cs THEN e.di ELSE owner[c]]
        /\ stats' = Bump("chunkAllocs")
        /\ UNCHANGED <<spaces, live, cnt>>
DoChunksFree(e) ==
    LET cs == e.c..(e.c + e.k - 1)
    IN  /\ G("C28:chunk-freed-while-granted", \A c \in cs : Bucket(live, c) = {})
        /\ owner' = [c \in DOMAIN owner \ cs |-> owner[c]]
        /\ stats' = Bump("chunkFrees")
        /\ UNCHANGED <<spaces, live, cnt>>
DoChunksFreeAll(e) ==
    LET di == IF e.c \in DOMAIN owner THEN owner[e.c] ELSE -1
        cs == { c \in DOMAIN owner : owner[c] = di }
    IN  /\ owner' = [c \in DOMAIN owner \ cs |-> owner[c]]
        /\ stats' = Bump("chunkFrees")
        /\ UNCHANGED <<spaces, live, cnt>>

Wrapped == 1073741824            \* the hook clamps counters to 2^30 pages (4 TB): only an underflow gets there
CounterRowOK(r) ==
    /\ G("C28:counter-underflow:" \o r.sp, r.r < Wrapped /\ r.c < Wrapped)
    /\ G("C28:reserved<committed:" \o r.sp, r.r >= Wrapped \/ r.c >= Wrapped \/ CounterOK(r.r, r.c))
    /\ G("C28:committed!=granted:" \o r.sp, r.c >= Wrapped \/ r.c = Cnt(r.sp))
    /\ G("C28:reserved!=granted:" \o r.sp, r.r >= Wrapped \/ r.r = Cnt(r.sp))
DoCounters(e) ==
    /\ \A i \in 1..Len(e.spaces) : CounterRowOK(e.spaces[i])
    /\ stats' = Bump("counterChecks")
    /\ UNCHANGED <<spaces, live, cnt, owner>>

Skip == UNCHANGED <<spaces, live, cnt, owner, stats>>
Step(e) ==
    CASE e.ev = "Spaces"         -> DoSpaces(e)
      [] e.ev = "PRAcquire"      -> DoAcquire(e)
      [] e.ev = "PRRelease"      -> DoRelease(e)
      [] e.ev = "PRRangeRelease" -> DoRangeRelease(e)
      [] e.ev = "ChunksAlloc"    -> DoChunksAlloc(e)
      [] e.ev = "ChunksFree"     -> DoChunksFree(e)
      [] e.ev = "ChunksFreeAll"  -> DoChunksFreeAll(e)
      [] e.ev = "PRCounters"     -> DoCounters(e)
      [] e.ev = "Crash"          -> Rej("crash") /\ Skip
      [] OTHER                   -> Skip

TInit == /\ l = 1
         /\ spaces = << >> /\ live = << >> /\ cnt = << >> /\ owner = << >>
         /\ stats = [grants |-> 0, releases |-> 0, rangeReleases |-> 0, chunkAllocs |-> 0,
                     chunkFrees |-> 0, counterChecks |-> 0]
TNext == /\ l <= Len(Rec)
         /\ l' = l + 1
         /\ Step(Rec[l])
TraceSpec == /\ TInit
             /\ granted = {} /\ reserved = << >> /\ committed = << >> /\ cursor = << >> /\ pc = << >>
             /\ [][TNext /\ UNCHANGED vars]_<<tvars, vars>>

Accepted ==
    LET d == TLCGet("stats").diameter
    IN  IF d = Len(Rec) + 1 THEN TRUE
        ELSE /\ PrintT("TRACE_REJECTED matched=" \o ToString(d - 1) \o " of=" \o ToString(Len(Rec)))
             /\ FALSE
StatsPrinted == l = Len(Rec) + 1 => PrintT("PR_STATS " \o ToString(stats))
=====================================================================================
