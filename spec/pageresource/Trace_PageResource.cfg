SPECIFICATION TraceSpec
CONSTANTS
  SpaceIds = {}
  Extent = 0
  MaxGrant = 0
  Threads = {}
  Kind <- MCKind
  BlockPages = 1
  Mutant = "none"
POSTCONDITION Accepted
INVARIANT StatsPrinted
CHECK_DEADLOCK FALSE
