------------------------------- MODULE PageResource -------------------------------
(* C28. Page resources hand out disjoint in-space pages with exact accounting.                      *)
(*                                                                                                  *)
(* Code: src/util/heap/{pageresource,freelistpageresource,blockpageresource,monotonepageresource,   *)
(* accounting}.rs and Space::acquire (src/policy/space.rs).                                         *)
(*                                                                                                  *)
(* One action per critical section of the real code:                                                *)
(*   Reserve(t,s,n)     Space::acquire: pr.reserve_pages(n)            (accounting.reserve)         *)
(*   Grant(t)           pr.get_new_pages -> alloc_pages under the page resource's lock: pick a      *)
(*                      range, commit_pages (accounting.commit)                                     *)
(*   Fail(t)            alloc_pages failed, or a GC was triggered: pr.clear_request                 *)
(*   Release(g)         FreeListPageResource::release_pages / BlockPageResource::release_block      *)
(*   Reset(s)           MonotonePageResource::reset (all pages of the space)                        *)
(*   ResetCursor(s,top) MonotonePageResource::reset_cursor (pages at and above top)                 *)
(* A page is named <<k, i>>: k = address >> 41 (the 2 TB slot), i = page index inside the slot      *)
(* (TLC integers are 32-bit). Here (model checking) there is one slot per space.                    *)
(* Which free range a grant gets is not specified (first fit, block queues, ...): any free range    *)
(* inside the space. What is specified: page granularity, disjointness from every live grant of     *)
(* every space, containment in the owning space's extent, and the counters.                         *)
(* Deliberate abstraction: metadata pages, block caches (a released block is simply free), chunk    *)
(* growth and mmap are not modelled; `reserved`/`committed` are the raw PageAccounting counters.    *)
EXTENDS Integers, FiniteSets, Sequences, TLC

CONSTANTS SpaceIds,     \* the spaces (model values or small integers)
          Extent,       \* pages per space
          MaxGrant,     \* largest request, in pages
          Threads,      \* acquirers (mutators / GC workers)
          Kind,         \* [SpaceIds -> {"freelist", "block", "monotone"}]
          BlockPages,   \* block size of a "block" resource, in pages
          Mutant        \* "none" or the name of a deliberately broken variant (vacuity control)

VARIABLES granted,      \* set of live grants [sp, lo, n]: pages lo .. lo+n-1 of space sp
          reserved,     \* [SpaceIds -> Int]   PageAccounting.reserved
          committed,    \* [SpaceIds -> Int]   PageAccounting.committed
          cursor,       \* [SpaceIds -> 0..Extent] bump cursor of a monotone resource
          pc            \* [Threads -> Idle | [sp, n]] a reservation in flight

vars == <<granted, reserved, committed, cursor, pc>>

\* ---- pure operators (shared with the trace specification) ----------------------------------------
\* two page ranges [a, a+n) and [b, b+m) of the same slot
RangesDisjoint(a, n, b, m) == a + n <= b \/ b + m <= a
RangeInside(a, n, lo, hi)  == lo <= a /\ a + n <= hi
GrantsDisjoint(g1, g2) == g1.sp # g2.sp \/ RangesDisjoint(g1.lo, g1.n, g2.lo, g2.n)
RECURSIVE SumPages(_)
SumPages(S) == IF S = {} THEN 0 ELSE LET g == CHOOSE x \in S : TRUE IN g.n + SumPages(S \ {g})
\* counters are unsigned machine words in the real code: "never underflowing" = never negative here
CounterOK(r, c) == r >= c /\ c >= 0

Idle == [sp |-> 0, n |-> 0]             \* 0 is never a space id
Of(s) == { g \in granted : g.sp = s }
Pending(s) == { t \in Threads : pc[t] # Idle /\ pc[t].sp = s }
RECURSIVE SumPending(_, _)
SumPending(s, T) == IF T = {} THEN 0
                    ELSE LET t == CHOOSE x \in T : TRUE IN pc[t].n + SumPending(s, T \ {t})

Init == /\ granted = {}
        /\ reserved = [s \in SpaceIds |-> 0]
        /\ committed = [s \in SpaceIds |-> 0]
        /\ cursor = [s \in SpaceIds |-> 0]
        /\ pc = [t \in Threads |-> Idle]

Reserve(t, s, n) ==
    /\ pc[t] = Idle
    /\ Kind[s] = "block" => n = BlockPages
    /\ pc' = [pc EXCEPT ![t] = [sp |-> s, n |-> n]]
    /\ reserved' = [reserved EXCEPT ![s] = @ + (IF Mutant = "commit_without_reserve" THEN 0 ELSE n)]
    /\ UNCHANGED <<granted, committed, cursor>>

\* the ranges the resource may return for n pages
Free(s, lo, n) ==
    /\ RangeInside(lo, n, 0, Extent)
    /\ \A g \in Of(s) : RangesDisjoint(lo, n, g.lo, g.n)
Candidates(s, n) ==
    CASE Kind[s] = "monotone" -> IF cursor[s] + n <= Extent THEN {cursor[s]} ELSE {}
      [] Kind[s] = "block"    -> { lo \in 0..(Extent - n) : lo % BlockPages = 0 /\ Free(s, lo, n) }
      [] OTHER                -> { lo \in 0..(Extent - n) : Free(s, lo, n) }
\* broken variants of the choice
MutantCandidates(s, n) ==
    CASE Mutant = "double_grant"   -> { lo \in 0..(Extent - n) : TRUE }         \* ignores live grants
      [] Mutant = "beyond_extent"  -> Candidates(s, n) \cup { Extent - n + 1 }  \* off-by-one at the end
      [] OTHER -> Candidates(s, n)

Grant(t) ==
    /\ pc[t] # Idle
    /\ LET s == pc[t].sp
           n == pc[t].n
       IN  \E lo \in MutantCandidates(s, n) :
             /\ granted' = granted \cup {[sp |-> s, lo |-> lo, n |-> n]}
             /\ committed' = [committed EXCEPT ![s] = @ + n]
             /\ cursor' = IF Kind[s] = "monotone" THEN [cursor EXCEPT ![s] = lo + n] ELSE cursor
    /\ pc' = [pc EXCEPT ![t] = Idle]
    /\ UNCHANGED reserved

Fail(t) ==
    /\ pc[t] # Idle
    /\ reserved' = [reserved EXCEPT ![pc[t].sp] = @ - (IF Mutant = "clear_request_dropped" THEN 0 ELSE pc[t].n)]
    /\ pc' = [pc EXCEPT ![t] = Idle]
    /\ UNCHANGED <<granted, committed, cursor>>

Release(g) ==
    /\ g \in granted
    /\ Kind[g.sp] \in {"freelist", "block"}
    /\ granted' = granted \ {g}
    /\ LET d == CASE Mutant = "release_not_subtracting" -> 0
                  [] Mutant = "release_subtracts_twice" -> 2 * g.n
                  [] OTHER -> g.n
       IN  /\ reserved' = [reserved EXCEPT ![g.sp] = @ - d]
           /\ committed' = [committed EXCEPT ![g.sp] = @ - d]
    /\ UNCHANGED <<cursor, pc>>

\* only while no acquire of that space is in flight (the real callers run inside a stop-the-world
\* pause after all copying is done)
Reset(s) ==
    /\ Kind[s] = "monotone" /\ Pending(s) = {}
    /\ granted' = granted \ Of(s)
    /\ reserved' = [reserved EXCEPT ![s] = 0]
    /\ committed' = [committed EXCEPT ![s] = 0]
    /\ cursor' = [cursor EXCEPT ![s] = IF Mutant = "reset_keeps_cursor_unused" THEN @ ELSE 0]
    /\ UNCHANGED pc

\* pages at and above `top` go back; a grant straddling top keeps its lower part
Trim(g, top) == IF g.lo >= top THEN {} ELSE IF g.lo + g.n <= top THEN {g}
                ELSE {[sp |-> g.sp, lo |-> g.lo, n |-> top - g.lo]}
ResetCursor(s, top) ==
    /\ Kind[s] = "monotone" /\ Pending(s) = {} /\ top <= cursor[s]
    /\ granted' = (granted \ Of(s)) \cup UNION { Trim(g, top) : g \in Of(s) }
    /\ reserved' = [reserved EXCEPT ![s] = top]
    /\ committed' = [committed EXCEPT ![s] = top]
    /\ cursor' = [cursor EXCEPT ![s] = top]
    /\ UNCHANGED pc

Next == \/ \E t \in Threads, s \in SpaceIds, n \in 1..MaxGrant : Reserve(t, s, n)
        \/ \E t \in Threads : Grant(t) \/ Fail(t)
        \/ \E g \in granted : Release(g)
        \/ \E s \in SpaceIds : Reset(s) \/ \E top \in 0..Extent : ResetCursor(s, top)
Spec == Init /\ [][Next]_vars

\* ---- the property --------------------------------------------------------------------------------
Disjoint == \A g1 \in granted : \A g2 \in granted : g1 # g2 => GrantsDisjoint(g1, g2)
InSpace  == \A g \in granted : g.n >= 1 /\ RangeInside(g.lo, g.n, 0, Extent)
\* committed = pages currently granted, reserved = committed + requests in flight; at quiescence
\* (no request in flight) both equal the pages currently granted
Accounting ==
    \A s \in SpaceIds :
        /\ committed[s] = SumPages(Of(s))
        /\ reserved[s] = committed[s] + SumPending(s, Pending(s))
        /\ CounterOK(reserved[s], committed[s])
Quiescent == \A t \in Threads : pc[t] = Idle
QuiescentExact == Quiescent => \A s \in SpaceIds : reserved[s] = SumPages(Of(s)) /\ committed[s] = reserved[s]
\* a monotone resource never hands out a page below its cursor again before a reset
MonotoneBelowCursor == \A s \in SpaceIds : Kind[s] = "monotone" =>
                          \A g \in Of(s) : g.lo + g.n <= cursor[s]
TypeOK == /\ \A g \in granted : g.sp \in SpaceIds
          /\ \A t \in Threads : pc[t] = Idle \/ (pc[t].sp \in SpaceIds /\ pc[t].n \in 1..MaxGrant)

\* ---- model-checking constants (MC_*.cfg: Kind <- MCKind) -----------------------------------------
MCKind == [s \in SpaceIds |-> CASE s = 1 -> "freelist" [] s = 2 -> "block" [] OTHER -> "monotone"]
MCKindFreelist == [s \in SpaceIds |-> "freelist"]
=====================================================================================
