\* Vacuity control: the broken variant "beyond_extent" must be rejected.
SPECIFICATION Spec
CONSTANTS
  SpaceIds = {1, 2, 3}
  Extent = 4
  MaxGrant = 2
  Threads = {1, 2}
  Kind <- MCKind
  BlockPages = 2
  Mutant = "beyond_extent"
INVARIANTS
  TypeOK
  Disjoint
  InSpace
  Accounting
  QuiescentExact
  MonotoneBelowCursor
CHECK_DEADLOCK FALSE
