\* Vacuity control: the broken variant "double_grant" must be rejected.
SPECIFICATION Spec
CONSTANTS
  SpaceIds = {1, 2, 3}
  Extent = 4
  MaxGrant = 2
  Threads = {1, 2}
  Kind <- MCKind
  BlockPages = 2
  Mutant = "double_grant"
INVARIANTS
  TypeOK
  Disjoint
  InSpace
  MonotoneBelowCursor
CHECK_DEADLOCK FALSE
