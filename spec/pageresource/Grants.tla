---------------------------------- MODULE Grants ----------------------------------
(* Bookkeeping of live page grants for trace validation (C28, C31): pure operators on             *)
(*   live : [chunk number -> set of grants],   grant = [sp, k, lo, n]                              *)
(* A page is <<k, i>>: k = address >> 41 (2 TB slot), i = page index inside the slot (< 2^29, TLC   *)
(* integers are 32-bit); the chunk number of the page is address >> 22 = k * 2^19 + i \div 1024.    *)
(* A grant is filed under every chunk it touches, so "disjoint from every live grant" only has to   *)
(* look at the buckets of the chunks the new grant touches (ranges that share no chunk cannot       *)
(* overlap). This is the only difference to PageResource!Disjoint, which quantifies over all pairs. *)
EXTENDS Integers, FiniteSets, TLC

PagesInChunk == 1024
ChunksInSlot == 524288                                  \* 2^19
SlotOf(c)    == c \div ChunksInSlot
\* page index inside the slot of the page p of chunk number c
PageIdx(c, p) == (c % ChunksInSlot) * PagesInChunk + p
ChunkNo(k, i) == k * ChunksInSlot + i \div PagesInChunk
MkGrant(sp, c, p, n) == [sp |-> sp, k |-> SlotOf(c), lo |-> PageIdx(c, p), n |-> n]
GEnd(g) == g.lo + g.n                                   \* exclusive
ChunksOf(g) == ChunkNo(g.k, g.lo)..ChunkNo(g.k, IF g.n > 0 THEN g.lo + g.n - 1 ELSE g.lo)

Bucket(live, c) == IF c \in DOMAIN live THEN live[c] ELSE {}
Overlap(g, h) == g.k = h.k /\ ~(GEnd(g) <= h.lo \/ GEnd(h) <= g.lo)
\* live grants sharing a page with g
Overlapping(live, g) == UNION { { h \in Bucket(live, c) : Overlap(g, h) } : c \in ChunksOf(g) }
\* live grants containing page <<k, i>>
Covering(live, k, i) == { h \in Bucket(live, ChunkNo(k, i)) : h.k = k /\ h.lo <= i /\ i < GEnd(h) }
\* the live grant that is exactly pages [lo, lo+n) of slot k, if any
Exactly(live, k, lo, n) == { h \in Bucket(live, ChunkNo(k, lo)) : h.k = k /\ h.lo = lo /\ h.n = n }

AddGrant(live, g) ==
    LET cs == ChunksOf(g)
    IN  [c \in DOMAIN live \cup cs |-> IF c \in cs THEN Bucket(live, c) \cup {g} ELSE live[c]]
DelGrants(live, G) ==
    [c \in DOMAIN live |-> live[c] \ G]
AddGrants(live, G) ==
    LET cs == UNION { ChunksOf(g) : g \in G }
    IN  [c \in DOMAIN live \cup cs |->
            Bucket(live, c) \cup { g \in G : c \in ChunksOf(g) }]
AllGrants(live) == UNION { live[c] : c \in DOMAIN live }
\* live grants with a page in [lo, hi) of slot k (hi exclusive)
InRange(live, k, lo, hi) ==
    UNION { { h \in live[c] : h.k = k /\ h.lo < hi /\ GEnd(h) > lo } :
            c \in { d \in DOMAIN live : SlotOf(d) = k /\ d >= ChunkNo(k, lo) /\ d <= ChunkNo(k, IF hi > lo THEN hi - 1 ELSE lo) } }
\* what is left of grant h after pages [lo, hi) are taken back
Remainder(h, lo, hi) ==
    (IF h.lo < lo THEN {[h EXCEPT !.n = lo - h.lo]} ELSE {})
    \cup (IF GEnd(h) > hi THEN {[h EXCEPT !.lo = hi, !.n = GEnd(h) - hi]} ELSE {})
RECURSIVE SumN(_)
SumN(S) == IF S = {} THEN 0 ELSE LET g == CHOOSE x \in S : TRUE IN g.n + SumN(S \ {g})
=====================================================================================
