\* 3 spaces (one of each kind) x 4 pages, requests of 1..2 pages, two interleaved acquirers
SPECIFICATION Spec
CONSTANTS
  SpaceIds = {1, 2, 3}
  Extent = 4
  MaxGrant = 2
  Threads = {1, 2}
  Kind <- MCKind
  BlockPages = 2
  Mutant = "none"
INVARIANTS
  TypeOK
  Disjoint
  InSpace
  Accounting
  QuiescentExact
  MonotoneBelowCursor
CHECK_DEADLOCK FALSE
