---------------------------- MODULE Trace_SizeClass ----------------------------
(* Validates rows recorded by `d_arith sizeclass` / `d_arith freshblock` (formats in              *)
(* harness/d_arith/src/sizeclass.rs) against the property of SizeClass. The table and the bins    *)
(* are the REAL ones (hooks verif_size_class_table, verif_mi_bin_from_size, mi_bin::<VM>, a real  *)
(* MarkSweep block); the model operators Table/Bin of SizeClass are NOT used to judge them: C35   *)
(* fixes fit, range, monotonicity and the cell layout, not which bin is chosen.                   *)
(*                                                                                                *)
(* State: the table of the TB row (first row) and the last bin of the preceding row when that row *)
(* belongs to the same series (same function / VM setting / alignment, contiguous sizes).         *)
(* A rejected row is reported as `ROW_REJECTED l=<n> tag=<range|fits|monotone|table|block|alloc|row>`.  *)
EXTENDS SizeClass, Json, IOUtils

Rec == ndJsonDeserialize(IOEnv.TRACE)
VARIABLES l, tbl, meta, prev
\* prev = [ser |-> series id, next |-> the size expected next in the series, bin |-> last bin]

TblAt(b) == tbl[b + 1]

Series(r) == IF r.ev = "BS" THEN << "BS" >> ELSE << "BV", r.lmin, r.lmax, r.la >>
SizeAt(r, i) == r.s0 + (i - 1) * r.step
PadOf(r) == IF r.ev = "BS" THEN 0 ELSE WorstPad(r.la, r.lmin, r.lmax)
\* precondition of mi_bin::<VM>: legal alignment, size a multiple of MIN_ALIGNMENT, size within
\* the largest size class (C35's domain)
PreBin(r, i) ==
    /\ SizeAt(r, i) <= meta.max_bin_size
    /\ r.ev = "BV" => (r.lmin <= r.la /\ r.la <= r.lmax /\ SizeAt(r, i) % (2 ^ r.lmin) = 0)

RangeOK(r) == \A i \in 1..r.n : PreBin(r, i) => InRange(r.bins[i], meta.max_bin)
FitsOK(r) == \A i \in 1..r.n :
                (PreBin(r, i) /\ InRange(r.bins[i], meta.max_bin)) =>
                    TblAt(r.bins[i]) >= SizeAt(r, i) + PadOf(r)
\* monotone inside the row and against the previous row of the same series (rows with a bin out of
\* range are already rejected by RangeOK; they do not take part)
Good(r, i) == InRange(r.bins[i], meta.max_bin)
MonoOK(r) ==
    /\ \A i \in 1..(r.n - 1) : (Good(r, i) /\ Good(r, i + 1)) => r.bins[i] <= r.bins[i + 1]
    /\ (prev.ser = Series(r) /\ prev.next = r.s0 /\ prev.bin >= 1 /\ r.n >= 1 /\ Good(r, 1)) =>
          prev.bin <= r.bins[1]

\* the TB row: a table with one entry per bin 0..max_bin, non-decreasing from bin 1 on
TableOK(r) ==
    /\ Len(r.table) = r.max_bin + 1
    /\ \A b \in 1..(r.max_bin - 1) : r.table[b + 1] <= r.table[b + 2]
    /\ \A b \in 1..r.max_bin : r.table[b + 1] > 0

\* FB: the first allocation from a fresh block. All cells = those still in the free list plus the
\* one just handed out. They have the size of the selected class, hold the request, lie inside the
\* block and are pairwise disjoint.
FBCells(r) == {r.free[j] : j \in 1..Len(r.free)} \cup {r.res}
BlockOK(r) ==
    LET cells == FBCells(r)
        c == r.cell
    IN  /\ InRange(r.bin, meta.max_bin)
        /\ c = TblAt(r.bin)
        /\ c >= r.size /\ c > 0
        /\ Cardinality(cells) = Len(r.free) + 1              \* no cell twice
        /\ CellsInBlock(cells, c, r.block)
        /\ Cardinality(cells) <= r.block \div c              \* pigeonhole, keeps the next test cheap
        /\ CellsDisjoint(cells, c)

\* AL: a request of the domain through memory_manager::alloc: it returns a cell (no panic, no
\* null: the heap is far from full) whose class holds the padded request, inside the block
AllocOK(r) ==
    (/\ r.size <= meta.max_bin_size /\ r.size <= r.max_non_los
     /\ r.lmin <= r.la /\ r.la <= r.lmax /\ r.size % (2 ^ r.lmin) = 0) =>
        /\ r.res >= 0
        /\ r.cell >= r.size + WorstPad(r.la, r.lmin, r.lmax)
        /\ r.res + r.size <= r.block

Tag(r) == CASE r.ev = "TB" -> IF TableOK(r) THEN "" ELSE "table"
            [] r.ev \in {"BS", "BV"} -> IF ~RangeOK(r) THEN "range"
                                        ELSE IF ~FitsOK(r) THEN "fits"
                                        ELSE IF ~MonoOK(r) THEN "monotone" ELSE ""
            [] r.ev = "FB" -> IF BlockOK(r) THEN "" ELSE "block"
            [] r.ev = "AL" -> IF AllocOK(r) THEN "" ELSE "alloc"
            [] OTHER -> "row"                 \* e.g. a Crash event: never accepted

LastGood(r) == IF r.n >= 1 /\ Good(r, r.n) THEN r.bins[r.n] ELSE 0
NoPrev == [ser |-> << >>, next |-> 0, bin |-> 0]

TInit == l = 1 /\ tbl = << >> /\ meta = [max_bin |-> 0, max_bin_size |-> 0] /\ prev = NoPrev /\ s = 0
TNext ==
    /\ l <= Len(Rec)
    /\ LET r == Rec[l]
           t == Tag(r)
       IN  /\ IF t = "" THEN TRUE
              ELSE PrintT("ROW_REJECTED l=" \o ToString(l) \o " tag=" \o t)
           /\ IF r.ev = "TB"
              THEN tbl' = r.table /\ meta' = [max_bin |-> r.max_bin, max_bin_size |-> r.max_bin_size]
              ELSE UNCHANGED << tbl, meta >>
           /\ IF r.ev \in {"BS", "BV"}
              THEN prev' = [ser |-> Series(r), next |-> r.s0 + r.n * r.step, bin |-> LastGood(r)]
              ELSE prev' = NoPrev
    /\ l' = l + 1
    /\ UNCHANGED s
TraceSpec == TInit /\ [][TNext]_<<l, tbl, meta, prev, s>>

Accepted ==
    LET d == TLCGet("stats").diameter
    IN  IF d = Len(Rec) + 1 THEN TRUE
        ELSE /\ PrintT("TRACE_REJECTED matched=" \o ToString(d - 1) \o " of=" \o ToString(Len(Rec)))
             /\ FALSE
=====================================================================================
