\* Vacuity control: the bin formula with bias 4 instead of 3 must be rejected.
SPECIFICATION Spec
CONSTANTS
  Word = 8
  BlockBytes = 65536
  BinOfW <- BrokenBinOfW
INVARIANTS
  ModelFitsPlain
CHECK_DEADLOCK FALSE
