------------------------------- MODULE SizeClass -------------------------------
(* C35. Mark-sweep (mimalloc style) size classes of mmtk-core:                                    *)
(*   src/policy/marksweepspace/native_ms/block_list.rs   new_empty_block_lists (the 48+1 entry    *)
(*       table of cell sizes), mi_wsize_from_size, mi_bin_from_size, mi_bin::<VM>                 *)
(*   src/util/alloc/allocator.rs                          get_maximum_aligned_size                *)
(*   src/util/alloc/free_list_allocator.rs                init_block (cell free list of a block)  *)
(*                                                                                                *)
(* The property (judged on the implementation's outputs by Trace_SizeClass):                      *)
(*   InRange   the selected bin is one of 1..MaxBin                                               *)
(*   Fits      the bin's cell holds the request padded for the worst-case alignment gap           *)
(*   Monotone  larger sizes never select smaller bins; the table is non-decreasing                *)
(*   Block     the cells of a fresh block are pairwise disjoint, of the class size and inside     *)
(*             the block                                                                          *)
(* This module also models what the code computes (Table, Bin, InitBlockCells) so that TLC can    *)
(* evaluate the property on the model over the WHOLE finite domain (every size 0..MaxBinSize x    *)
(* every VM alignment setting listed in Configs) - and exhibit where the literal property fails   *)
(* in the model (MC_SizeClass_literal.cfg: padded size beyond the largest class).                 *)
EXTENDS Integers, Sequences, FiniteSets, TLC

CONSTANTS Word,        \* bytes per machine word (MI_INTPTR_SIZE)
          BlockBytes   \* Block::BYTES

\* cell sizes in words, bins 1..48 (block_list.rs: new_empty_block_lists; bin 0 is reserved)
TableW0 == << 1, 2, 3, 4, 5, 6, 7, 8, 10, 12, 14, 16, 20, 24, 28, 32, 40, 48, 56, 64, 80, 96, 112,
             128, 160, 192, 224, 256, 320, 384, 448, 512, 640, 768, 896, 1024, 1280, 1536, 1792,
             2048, 2560, 3072, 3584, 4096, 5120, 6144, 7168, 8192 >>
TableW == TableW0
MaxBin == Len(TableW)
Table(b) == IF b = 0 THEN Word ELSE TableW[b] * Word
MaxBinSize == Table(MaxBin)

WSize(s) == (s + Word - 1) \div Word                      \* mi_wsize_from_size
RECURSIVE Log2Floor(_)
Log2Floor(n) == IF n <= 1 THEN 0 ELSE 1 + Log2Floor(n \div 2)
BinOfW(w) ==                                              \* mi_bin_from_size after the word rounding
    IF w <= 1 THEN 1
    ELSE IF w <= 8 THEN w
    ELSE LET x == w - 1
             b == Log2Floor(x)
         IN  (b * 4 + ((x \div (2 ^ (b - 2))) % 4)) - 3
Bin(s) == BinOfW(WSize(s))

\* VM alignment settings as <<log2 MIN_ALIGNMENT, log2 MAX_ALIGNMENT>>
Configs == { <<2, 3>>, <<3, 3>>, <<2, 4>>, <<3, 4>>, <<3, 6>>, <<4, 6>> }
\* worst-case alignment gap for a MIN_ALIGNMENT-aligned cell start (Arith.tla: WorstPad)
WorstPad(la, lmin, lmax) == IF lmax <= lmin \/ la <= lmin THEN 0 ELSE 2 ^ la - 2 ^ lmin
MaxAligned(s, la, lmin, lmax) == s + WorstPad(la, lmin, lmax)     \* get_maximum_aligned_size
BinVM(s, la, lmin, lmax) == Bin(MaxAligned(s, la, lmin, lmax))    \* mi_bin::<VM>

\* ---- the property, as predicates over (inputs, selected bin, table lookup) ----------------------
InRange(bin, maxbin) == bin >= 1 /\ bin <= maxbin
Fits(cell, s, la, lmin, lmax) == cell >= s + WorstPad(la, lmin, lmax)

\* init_block (free_list_allocator.rs) on offsets relative to the block start: a do-while loop that
\* stores cell k*c for k = 0, 1, ... and stops after storing k when (k+1)*c + c > BlockBytes; so
\* cell 0 is always stored and cell k >= 1 is stored iff KeepsGoing(c, k - 1).
KeepsGoing(c, k) == (k + 1) * c + c <= BlockBytes
InitBlockCells(c) == {k * c : k \in {k \in 0..(BlockBytes \div c) : k = 0 \/ KeepsGoing(c, k - 1)}}
\* cells (a set of offsets) of size c are inside a block of B bytes and pairwise disjoint
CellsInBlock(cells, c, B) == \A x \in cells : x >= 0 /\ x + c <= B
CellsDisjoint(cells, c) == \A x \in cells : \A t \in 1..(c - 1) : (x + t) \notin cells

\* ---- state machine: enumerate every size of the domain (binary tree so that workers share) ------
VARIABLE s
Init == s = 0
Step == s' \in {x \in {2 * s, 2 * s + 1} : x <= MaxBinSize /\ x # s}
Spec == Init /\ [][Step]_s

Aligns(c) == c[1]..c[2]
\* the model satisfies the property wherever the padded request is within the largest class
ModelFits ==
    \A c \in Configs : \A la \in Aligns(c) :
        (s % (2 ^ c[1]) = 0 /\ MaxAligned(s, la, c[1], c[2]) <= MaxBinSize) =>
            /\ InRange(BinVM(s, la, c[1], c[2]), MaxBin)
            /\ Fits(Table(BinVM(s, la, c[1], c[2])), s, la, c[1], c[2])
ModelFitsPlain == InRange(Bin(s), MaxBin) /\ Table(Bin(s)) >= s
\* the literal property of C35 ("every request size up to the largest size class and every legal
\* alignment"): FAILS in the model for sizes within MAX_ALIGNMENT - MIN_ALIGNMENT of MaxBinSize
ModelFitsLiteral ==
    \A c \in Configs : \A la \in Aligns(c) :
        (s % (2 ^ c[1]) = 0) =>
            /\ InRange(BinVM(s, la, c[1], c[2]), MaxBin)
            /\ Fits(Table(BinVM(s, la, c[1], c[2])), s, la, c[1], c[2])
ModelMonotone == s < MaxBinSize => Bin(s) <= Bin(s + 1)
\* mimalloc's intent: the selected bin is the smallest one that fits (not part of C35; model only)
ModelTight == (s > 0 /\ Bin(s) > 1) => Table(Bin(s) - 1) < s
TableMonotone == s = 0 => \A b \in 1..(MaxBin - 1) : Table(b) < Table(b + 1)
\* every class's fresh block: cells of the class size, disjoint, inside the block, as many as fit
ModelBlocks ==
    s = 0 =>
        \A b \in 1..MaxBin :
            LET c == Table(b)
                cells == InitBlockCells(c)
            IN  /\ CellsInBlock(cells, c, BlockBytes)
                /\ CellsDisjoint(cells, c)
                /\ Cardinality(cells) = BlockBytes \div c

\* ---- broken variants for the mutant configurations ------------------------------------------------
BrokenTableW == [TableW0 EXCEPT ![20] = 60]                       \* one table entry edited (64 -> 60)
BrokenBinOfW(w) ==                                               \* bias 4 instead of 3
    IF w <= 1 THEN 1
    ELSE IF w <= 8 THEN w
    ELSE LET x == w - 1
             b == Log2Floor(x)
         IN  (b * 4 + ((x \div (2 ^ (b - 2))) % 4)) - 4
BrokenKeepsGoing(c, k) == (k + 1) * c <= BlockBytes              \* limit test forgets the cell size
=====================================================================================
