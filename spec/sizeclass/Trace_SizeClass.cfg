SPECIFICATION TraceSpec
CONSTANTS
  Word = 8
  BlockBytes = 65536
POSTCONDITION Accepted
CHECK_DEADLOCK FALSE
