\* Vacuity control: one edited table entry (bin 20: 64 -> 60 words) must be rejected.
SPECIFICATION Spec
CONSTANTS
  Word = 8
  BlockBytes = 65536
  TableW <- BrokenTableW
INVARIANTS
  ModelFitsPlain
CHECK_DEADLOCK FALSE
