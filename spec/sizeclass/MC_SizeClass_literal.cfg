\* The literal statement of C35 evaluated on the model of the code: TLC must find the counterexample
\* (a size within MAX_ALIGNMENT - MIN_ALIGNMENT of the largest class, alignment > MIN_ALIGNMENT).
SPECIFICATION Spec
CONSTANTS
  Word = 8
  BlockBytes = 65536
INVARIANTS
  ModelFitsLiteral
CHECK_DEADLOCK FALSE
