\* Vacuity control: init_block's limit test without the cell size must be rejected.
SPECIFICATION Spec
CONSTANTS
  Word = 8
  BlockBytes = 65536
  KeepsGoing <- BrokenKeepsGoing
INVARIANTS
  ModelBlocks
CHECK_DEADLOCK FALSE
