\* the whole finite domain: every size 0..65536 x every alignment of six VM settings
SPECIFICATION Spec
CONSTANTS
  Word = 8
  BlockBytes = 65536
INVARIANTS
  ModelFits
  ModelFitsPlain
  ModelMonotone
  ModelTight
  TableMonotone
  ModelBlocks
CHECK_DEADLOCK FALSE
