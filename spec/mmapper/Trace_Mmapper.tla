------------------------------ MODULE Trace_Mmapper ------------------------------
(* Validates traces recorded from a private, real `ChunkStateMmapper` (harness d_layout mmapper)  *)
(* against Mmapper.                                                                               *)
(*  {"ev":"Reset","n":N,"cb":bytes per chunk,"place":..,"slab":..,"imaA":[sample offsets]}       *)
(*  {"ev":"Op","d":depth,"k":"Q"|"E"|"K","start":byte offset,"len":bytes,"vm":[chunks the driver *)
(*   mapped itself before a K call],"ok":bool,"err":..,"st":[recorded state per chunk],          *)
(*   "ima":[is_mapped_address per sample offset],"rw":[read/write probe per chunk]}              *)
(*  {"ev":"Crash",..}  the code under test panicked: never allowed                               *)
(* History structure: a row with d = k > 0 is the k-th call of a history whose first k-1 calls    *)
(* are the most recent rows of depth 1..k-1 (depth-first enumeration; the harness re-executes     *)
(* the prefix on a fresh instance); its pre-state is stack[k]. A row with d = 0 continues the     *)
(* history of the previous row. A rejected row prints ROW_REJECTED and the rows that extend its    *)
(* history are skipped. A row whose call is outside the documented preconditions in the           *)
(* specification's state is a harness error (PRECOND_FAILED), not a finding.                      *)
EXTENDS Mmapper, Json, IOUtils, TLC

Rec == ndJsonDeserialize(IOEnv.TRACE)
TraceN == Rec[1].n
TraceCB == Rec[1].cb

VARIABLES l,      \* next line
          stack,  \* stack[k] = state after the first k-1 calls of the current history
          fd,     \* 0, or the depth of a rejected row whose extensions are being skipped
          rl      \* line of the last Reset row
tvars == <<l, stack, fd, rl>>

Set(seq) == { seq[i] : i \in 1..Len(seq) }
Init0 == [st |-> InitSt, os |-> InitOs]

\* pre-state, expected post-state and acceptance of an Op row
Depth(r) == IF r.d = 0 THEN Len(stack) ELSE r.d
PreOK(r, S) ==
    LET cov == OverlapSet(r.start, r.len) IN
    /\ r.len > 0 /\ r.start + r.len <= NChunks * CB
    /\ 0 \notin cov /\ (NChunks - 1) \notin cov        \* guard chunks are never requested
    /\ CASE r.k = "Q" -> QuarantinePre(S, cov) /\ r.vm = << >>
         [] r.k = "E" -> EnsurePre(S, cov) /\ r.vm = << >>
         [] r.k = "K" -> /\ VMMapPre(S, Set(r.vm))
                         /\ MarkPre(VMMapEff(S, Set(r.vm)), cov)
         [] OTHER -> FALSE
Post(r, S) ==
    CASE r.k = "Q" -> QuarantineEff(S, r.start, r.len)
      [] r.k = "E" -> EnsureEff(S, r.start, r.len)
      [] OTHER -> MarkEff(VMMapEff(S, Set(r.vm)), r.start, r.len)
Observed(r, S, T) ==
    LET a == Rec[rl].imaA IN
    /\ r.ok                                              \* the call succeeded
    /\ Len(r.st) = NChunks /\ Len(r.rw) = NChunks /\ Len(r.ima) = Len(a)
    /\ \A c \in Chunks : r.st[c + 1] >= S.st[c]          \* never back to an earlier state
    /\ \A c \in Chunks : r.st[c + 1] = T.st[c]           \* exactly the specified transitions
    /\ \A i \in 1..Len(a) : (r.ima[i] = 1) <=> (T.st[a[i] \div CB] = M)
    /\ \A c \in Chunks : T.st[c] = M => r.rw[c + 1] = 1  \* Mapped chunks are readable and writable
    /\ \A c \in Chunks : T.os[c] = "rw" => r.rw[c + 1] = 1

Skip == UNCHANGED <<st, os, last, stack, fd, rl>>
Reject(d) ==
    /\ PrintT("ROW_REJECTED l=" \o ToString(l))
    /\ fd' = (IF d = 0 THEN 1 ELSE d)
    /\ stack' = (IF d = 0 THEN stack ELSE SubSeq(stack, 1, d))
    /\ UNCHANGED <<st, os, last, rl>>

TInit == /\ l = 1 /\ stack = << Init0 >> /\ fd = 0 /\ rl = 1
         /\ st = InitSt /\ os = InitOs /\ last = [op |-> "init", cov |-> {}]

Step(r) ==
    CASE r.ev = "Reset" ->
           /\ IF r.n = NChunks /\ r.cb = CB THEN TRUE
              ELSE PrintT("PRECOND_FAILED l=" \o ToString(l) \o " window size differs from line 1")
           /\ st' = InitSt /\ os' = InitOs /\ last' = [op |-> "init", cov |-> {}]
           /\ stack' = << Init0 >> /\ fd' = 0 /\ rl' = l
      [] r.ev = "Op" ->
           IF fd # 0 /\ (r.d = 0 \/ r.d > fd) THEN Skip
           ELSE IF r.d > Len(stack) THEN
                /\ PrintT("PRECOND_FAILED l=" \o ToString(l) \o " depth without parent")
                /\ Skip
           ELSE LET d == Depth(r)
                    S == stack[d]
                IN  IF ~PreOK(r, S) THEN
                        /\ PrintT("PRECOND_FAILED l=" \o ToString(l))
                        /\ fd' = (IF r.d = 0 THEN 1 ELSE d)
                        /\ stack' = (IF r.d = 0 THEN stack ELSE SubSeq(stack, 1, d))
                        /\ UNCHANGED <<st, os, last, rl>>
                    ELSE LET T == Post(r, S) IN
                         IF Observed(r, S, T) THEN
                            /\ st' = T.st /\ os' = T.os
                            /\ last' = [op |-> r.k, cov |-> OverlapSet(r.start, r.len)]
                            /\ stack' = (IF r.d = 0 THEN << T >> ELSE Append(SubSeq(stack, 1, d), T))
                            /\ fd' = 0 /\ UNCHANGED rl
                         ELSE Reject(r.d)
      [] OTHER ->   \* Crash or unknown row
           IF fd # 0 /\ (r.d = 0 \/ r.d > fd) THEN Skip ELSE Reject(r.d)

TNext == /\ l <= Len(Rec)
         /\ Step(Rec[l])
         /\ l' = l + 1
TraceSpec == TInit /\ [][TNext]_<<vars, tvars>>

Accepted ==
    LET d == TLCGet("stats").diameter
    IN  IF d = Len(Rec) + 1 THEN TRUE
        ELSE /\ PrintT("TRACE_REJECTED matched=" \o ToString(d - 1) \o " of=" \o ToString(Len(Rec)))
             /\ FALSE
=====================================================================================
