\* Vacuity control: a quarantine that re-reserves Mapped chunks must violate Monotone.
SPECIFICATION Spec
CONSTANTS
  NChunks = 3
  CB = 2
  QuarantineSt <- BrokenQuarantineSt
PROPERTIES
  Monotone
CHECK_DEADLOCK FALSE
