---------------------------------- MODULE Mmapper ----------------------------------
(* C30. The chunk-state mmapper (src/util/heap/layout/mmapper/mod.rs `Mmapper`,                  *)
(* csm/mod.rs `ChunkStateMmapper`, csm/two_level_storage.rs).                                    *)
(*                                                                                               *)
(* Abstract state, for a window of NChunks chunks of CB address units each:                      *)
(*   st[c]  the recorded state of chunk c: 0 = Unmapped, 1 = Quarantined, 2 = Mapped             *)
(*          (the numbers are the ranks of the documented transition graph                        *)
(*           Unmapped -> Quarantined -> Mapped, Unmapped -> Mapped);                              *)
(*   os[c]  what the operating system has at chunk c: "free" (nothing mapped), "none" (a         *)
(*          PROT_NONE reservation), "rw" (readable and writable memory).                         *)
(* One action per API call (each call holds `transition_lock` for its whole duration, so calls   *)
(* are atomic). A call takes an arbitrary address range [start, start+len) and acts on the       *)
(* chunks that overlap it ("Methods that take memory ranges as arguments will round the range    *)
(* to the overlapping chunks").                                                                  *)
(*                                                                                               *)
(* Deliberate deviations: huge-page options, protections other than read-write, annotations and  *)
(* the `_anywhere` / `_preferred` quarantine variants (OS-chosen addresses) are not modelled;    *)
(* mmap failures of the OS are not modelled (the harness owns the address range).                *)
EXTENDS Naturals, Sequences, FiniteSets

CONSTANTS NChunks,   \* chunks 0 .. NChunks-1
          CB         \* address units per chunk (bytes in traces, a small number in MC runs)

Chunks == 0..(NChunks - 1)
U == 0
Q == 1
M == 2

\* ---- which chunks does a range [start, start+len) act on? -------------------------------------
\* The property's definition: the chunks that overlap the range.
Overlaps(c, start, len) == c * CB < start + len /\ (c + 1) * CB > start
OverlapSet(start, len) == { c \in Chunks : Overlaps(c, start, len) }
\* The constructive definition used by the code (`ChunkRange::new_unaligned`): align the start
\* down and the limit up.
AlignDown(a) == (a \div CB) * CB
AlignUp(a) == ((a + CB - 1) \div CB) * CB
CodeCover(start, len) ==
    { c \in Chunks : AlignDown(start) <= c * CB /\ (c + 1) * CB <= AlignUp(start + len) }
\* (the two agree for len > 0: invariant CoverAgrees of the MC runs; a range of length 0 whose
\*  start is unaligned is excluded: the code rounds it to one chunk, the documentation to none.)

\* ---- per-chunk effect of the three calls (replaceable for mutants) ----------------------------
QuarantineSt(s) == IF s = U THEN Q ELSE s          \* Mapped stays; Quarantined is excluded below
QuarantineOs(s, o) == IF s = U THEN "none" ELSE o
EnsureSt(s) == M
EnsureOs(s, o) == "rw"                              \* U: fresh mapping, Q: replaced, M: unchanged (= rw)
MarkSt(s) == M
Cover(start, len) == CodeCover(start, len)

\* ---- effect of each call on a state record S = [st |-> .., os |-> ..] -------------------------
\* (written as operators on records so that the trace specification can apply them to any
\*  recorded pre-state; the actions below apply them to the variables)
Upd(S, cov, F(_), G(_, _)) ==
    [st |-> [c \in Chunks |-> IF c \in cov THEN F(S.st[c]) ELSE S.st[c]],
     os |-> [c \in Chunks |-> IF c \in cov THEN G(S.st[c], S.os[c]) ELSE S.os[c]]]

\* Precondition (csm/mod.rs panics otherwise): no chunk of the range is Quarantined. An Unmapped
\* chunk must not be mapped by anybody else (quarantine uses MAP_FIXED_NOREPLACE).
QuarantinePre(S, cov) == \A c \in cov : S.st[c] # Q /\ (S.st[c] = U => S.os[c] = "free")
QuarantineEff(S, start, len) == Upd(S, Cover(start, len), QuarantineSt, QuarantineOs)

\* Unmapped chunks of the range must be free in the OS (MAP_FIXED_NOREPLACE).
EnsurePre(S, cov) == \A c \in cov : S.st[c] = U => S.os[c] = "free"
EnsureEff(S, start, len) == Upd(S, Cover(start, len), EnsureSt, EnsureOs)

\* The VM maps memory itself (environment step): only memory the mmapper regards as Unmapped.
VMMapPre(S, cs) == \A c \in cs : c \in Chunks /\ S.st[c] = U /\ S.os[c] = "free"
VMMapOs(s, o) == "rw"
Same(s) == s
VMMapEff(S, cs) == Upd(S, cs, Same, VMMapOs)

\* "Used to mark pages that the VM has already mapped": every chunk of the range is readable and
\* writable already; the documented graph has no Quarantined -> Mapped edge for this call.
MarkPre(S, cov) == \A c \in cov : S.st[c] # Q /\ S.os[c] = "rw"
KeepOs(s, o) == o
MarkEff(S, start, len) == Upd(S, Cover(start, len), MarkSt, KeepOs)

VARIABLES st, os,
          last       \* the last call: [op, cov] (for the post-condition of each call)
vars == <<st, os, last>>
Cur == [st |-> st, os |-> os]
Becomes(T) == st' = T.st /\ os' = T.os

TypeOK == /\ st \in [Chunks -> {U, Q, M}]
          /\ os \in [Chunks -> {"free", "none", "rw"}]

InitSt == [c \in Chunks |-> U]
InitOs == [c \in Chunks |-> "free"]
Init == /\ st = InitSt
        /\ os = InitOs
        /\ last = [op |-> "init", cov |-> {}]

Quarantine(start, len) ==
    /\ QuarantinePre(Cur, OverlapSet(start, len))
    /\ Becomes(QuarantineEff(Cur, start, len))
    /\ last' = [op |-> "Q", cov |-> OverlapSet(start, len)]

EnsureMapped(start, len) ==
    /\ EnsurePre(Cur, OverlapSet(start, len))
    /\ Becomes(EnsureEff(Cur, start, len))
    /\ last' = [op |-> "E", cov |-> OverlapSet(start, len)]

VMMap(cs) ==
    /\ VMMapPre(Cur, cs)
    /\ Becomes(VMMapEff(Cur, cs))
    /\ last' = [op |-> "V", cov |-> {}]

MarkAsMapped(start, len) ==
    /\ MarkPre(Cur, OverlapSet(start, len))
    /\ Becomes(MarkEff(Cur, start, len))
    /\ last' = [op |-> "K", cov |-> OverlapSet(start, len)]

IsMappedAddress(a) == st[a \div CB] = M

Ranges == { <<s, l>> \in (0..(NChunks * CB - 1)) \X (1..(NChunks * CB)) : s + l <= NChunks * CB }

Next == \/ \E r \in Ranges : \/ Quarantine(r[1], r[2])
                             \/ EnsureMapped(r[1], r[2])
                             \/ MarkAsMapped(r[1], r[2])
        \/ \E cs \in (SUBSET Chunks) \ {{}} : VMMap(cs)
Spec == Init /\ [][Next]_vars

\* ---- the property -----------------------------------------------------------------------------
\* (1) a chunk's recorded state never returns to an earlier state
Monotone == [][\A c \in Chunks : st'[c] >= st[c]]_vars
\* (2) every chunk of a requested range reaches the requested state (quarantine: at least
\*     Quarantined, i.e. reserved or already mapped); chunks outside the range are not touched
\*     (checked as the action property Frame)
ReachedRequested ==
    /\ last.op \in {"E", "K"} => \A c \in last.cov : st[c] = M
    /\ last.op = "Q" => \A c \in last.cov : st[c] \in {Q, M}
Frame == [][\A c \in Chunks : c \notin last'.cov => st'[c] = st[c]]_vars
\* (3) is_mapped_address is true exactly for Mapped chunks: by definition of IsMappedAddress;
\* (4) Mapped chunks are readable and writable; Quarantined chunks are reserved
MappedIsRW == \A c \in Chunks : st[c] = M => os[c] = "rw"
QuarantinedIsReserved == \A c \in Chunks : st[c] = Q => os[c] = "none"
\* the two definitions of "the chunks of a range" agree
CoverAgrees == \A r \in Ranges : CodeCover(r[1], r[2]) = OverlapSet(r[1], r[2])

\* ---- mutants (vacuity control) ----------------------------------------------------------------
\* quarantine re-reserves chunks that are already mapped
BrokenQuarantineSt(s) == Q
\* the limit of the range is aligned down instead of up (last partial chunk dropped)
BrokenCover(start, len) ==
    { c \in Chunks : AlignDown(start) <= c * CB /\ (c + 1) * CB <= AlignDown(start + len) }
\* ensure_mapped records Mapped for a quarantined chunk but leaves the PROT_NONE reservation
BrokenEnsureOs(s, o) == IF s = Q THEN o ELSE "rw"
=====================================================================================
