SPECIFICATION TraceSpec
CONSTANTS
  NChunks = 16
  CB = 4194304
INVARIANTS
  ReachedRequested
  MappedIsRW
  QuarantinedIsReserved
POSTCONDITION Accepted
CHECK_DEADLOCK FALSE
