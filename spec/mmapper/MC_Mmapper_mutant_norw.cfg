\* Vacuity control: recording Mapped without replacing the PROT_NONE reservation must violate
\* "Mapped chunks are readable and writable".
SPECIFICATION Spec
CONSTANTS
  NChunks = 3
  CB = 2
  EnsureOs <- BrokenEnsureOs
INVARIANTS
  MappedIsRW
CHECK_DEADLOCK FALSE
