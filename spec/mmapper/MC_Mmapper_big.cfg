SPECIFICATION Spec
CONSTANTS
  NChunks = 6
  CB = 3
INVARIANTS
  TypeOK
  ReachedRequested
  MappedIsRW
  QuarantinedIsReserved
  CoverAgrees
PROPERTIES
  Monotone
  Frame
CHECK_DEADLOCK FALSE
