SPECIFICATION TraceSpec
CONSTANTS
  NChunks = 5
  CB = 4194304
INVARIANTS
  ReachedRequested
  MappedIsRW
  QuarantinedIsReserved
POSTCONDITION Accepted
CHECK_DEADLOCK FALSE
