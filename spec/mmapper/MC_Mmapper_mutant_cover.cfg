\* Vacuity control: rounding the limit of a range down must violate "every chunk of the
\* requested range reaches the requested state".
SPECIFICATION Spec
CONSTANTS
  NChunks = 3
  CB = 2
  Cover <- BrokenCover
INVARIANTS
  ReachedRequested
CHECK_DEADLOCK FALSE
