SPECIFICATION Spec
CONSTANTS
  NChunks = 4
  CB = 2
INVARIANTS
  TypeOK
  ReachedRequested
  MappedIsRW
  QuarantinedIsReserved
  CoverAgrees
PROPERTIES
  Monotone
  Frame
CHECK_DEADLOCK FALSE
