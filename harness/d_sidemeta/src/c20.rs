//! C20: every accessor of `SideMetadataSpec` on custom specs, logging the raw metadata bytes of a
//! window (with guard fields on both sides) after each call.  Rows: see Trace_SideMeta.tla.
use crate::common::*;
use mmtk::util::metadata::side_metadata::SideMetadataSpec;
use mmtk::util::Address;
use std::cell::RefCell;
use std::sync::atomic::Ordering;
use vcommon::*;

pub struct Res {
    pub hasret: bool,
    pub ret: u64,
    pub ok: bool,
    pub calls: Vec<(u64, Option<u64>)>,
}

pub const KINDS: [&str; 12] = [
    "load", "load_atomic", "store", "store_atomic", "set_zero", "set_zero_atomic", "cas",
    "fetch_add", "fetch_sub", "fetch_and", "fetch_or", "update",
];

fn ord(name: &str) -> Ordering {
    match name {
        "relaxed" => Ordering::Relaxed,
        "acquire" => Ordering::Acquire,
        "release" => Ordering::Release,
        "acqrel" => Ordering::AcqRel,
        _ => Ordering::SeqCst,
    }
}

/// Orderings that the corresponding operation of a Rust atomic accepts.
pub fn orderings(kind: &str) -> &'static [(&'static str, &'static str)] {
    match kind {
        "load_atomic" => &[("seqcst", ""), ("acquire", ""), ("relaxed", "")],
        "store_atomic" | "set_zero_atomic" => &[("seqcst", ""), ("release", ""), ("relaxed", "")],
        "cas" | "update" => &[
            ("seqcst", "seqcst"),
            ("acqrel", "acquire"),
            ("release", "relaxed"),
            ("acquire", "acquire"),
            ("relaxed", "relaxed"),
        ],
        "fetch_add" | "fetch_sub" | "fetch_and" | "fetch_or" => {
            &[("seqcst", ""), ("acqrel", ""), ("release", ""), ("acquire", ""), ("relaxed", "")]
        }
        _ => &[("", "")],
    }
}

macro_rules! impl_call {
    ($name:ident, $t:ty) => {
        #[allow(clippy::too_many_arguments)]
        fn $name(
            spec: &SideMetadataSpec,
            a: Address,
            kind: &str,
            a1: u64,
            a2: u64,
            o1: Ordering,
            o2: Ordering,
            f: &dyn Fn(u64) -> Option<u64>,
        ) -> Res {
            let none = |ok| Res { hasret: false, ret: 0, ok, calls: vec![] };
            let some = |v: $t| Res { hasret: true, ret: v as u64, ok: true, calls: vec![] };
            match kind {
                "load" => some(unsafe { spec.load::<$t>(a) }),
                "load_atomic" => some(spec.load_atomic::<$t>(a, o1)),
                "store" => {
                    unsafe { spec.store::<$t>(a, a1 as $t) };
                    none(true)
                }
                "store_atomic" => {
                    spec.store_atomic::<$t>(a, a1 as $t, o1);
                    none(true)
                }
                "set_zero" => {
                    unsafe { spec.set_zero(a) };
                    none(true)
                }
                "set_zero_atomic" => {
                    spec.set_zero_atomic(a, o1);
                    none(true)
                }
                "cas" => match spec.compare_exchange_atomic::<$t>(a, a1 as $t, a2 as $t, o1, o2) {
                    Ok(v) => Res { hasret: true, ret: v as u64, ok: true, calls: vec![] },
                    Err(v) => Res { hasret: true, ret: v as u64, ok: false, calls: vec![] },
                },
                "fetch_add" => some(spec.fetch_add_atomic::<$t>(a, a1 as $t, o1)),
                "fetch_sub" => some(spec.fetch_sub_atomic::<$t>(a, a1 as $t, o1)),
                "fetch_and" => some(spec.fetch_and_atomic::<$t>(a, a1 as $t, o1)),
                "fetch_or" => some(spec.fetch_or_atomic::<$t>(a, a1 as $t, o1)),
                "update" => {
                    let calls: RefCell<Vec<(u64, Option<u64>)>> = RefCell::new(vec![]);
                    let cref = &calls;
                    let r = spec.fetch_update_atomic::<$t, _>(a, o1, o2, |x: $t| {
                        let y = f(x as u64);
                        cref.borrow_mut().push((x as u64, y));
                        y.map(|v| v as $t)
                    });
                    let (ok, v) = match r {
                        Ok(v) => (true, v),
                        Err(v) => (false, v),
                    };
                    Res { hasret: true, ret: v as u64, ok, calls: calls.into_inner() }
                }
                _ => panic!("unknown op {}", kind),
            }
        }
    };
}
impl_call!(call_u8, u8);
impl_call!(call_u16, u16);
impl_call!(call_u32, u32);
impl_call!(call_u64, u64);

#[allow(clippy::too_many_arguments)]
pub fn call(
    lb: usize,
    spec: &SideMetadataSpec,
    a: Address,
    kind: &str,
    a1: u64,
    a2: u64,
    o1: Ordering,
    o2: Ordering,
    f: &dyn Fn(u64) -> Option<u64>,
) -> Res {
    match lb {
        0..=3 => call_u8(spec, a, kind, a1, a2, o1, o2, f),
        4 => call_u16(spec, a, kind, a1, a2, o1, o2, f),
        5 => call_u32(spec, a, kind, a1, a2, o1, o2, f),
        _ => call_u64(spec, a, kind, a1, a2, o1, o2, f),
    }
}

/// The closure handed to fetch_update_atomic: an arbitrary function chosen by (mode, c).  The
/// specification never needs to know it: the observed calls are logged.
fn closure(mode: u64, c: u64, max: u64) -> impl Fn(u64) -> Option<u64> {
    move |x: u64| match mode % 5 {
        0 => None,
        1 => Some(c & max),
        2 => Some((x.wrapping_mul(3).wrapping_add(c)) & max),
        3 => Some(!x & max),
        _ => {
            if (x ^ c) & 1 == 0 {
                None
            } else {
                Some(x.wrapping_sub(c) & max)
            }
        }
    }
}

struct Op {
    kind: &'static str,
    field: usize,
    a1: u64,
    a2: u64,
    o1: &'static str,
    o2: &'static str,
    fmode: u64,
    fc: u64,
}

fn do_op(env: &mut Env, h: &Hist, op: &Op) {
    // any address inside the region selects the same field
    let within = if env.lr == 0 { 0 } else { env.rng.below(1u64 << env.lr.min(20)) as usize };
    let within = if env.rng.chance(1, 3) { 0 } else { within };
    let off = (op.field << env.lr) + within;
    let a = addr(h.dref + off);
    let spec = env.spec;
    let lb = env.lb;
    let f = closure(op.fmode, op.fc, env.max_val());
    let (kind, a1, a2, o1, o2) = (op.kind, op.a1, op.a2, ord(op.o1), ord(op.o2));
    let pre = dump(h.maddr, h.n);
    let res = catch(std::panic::AssertUnwindSafe(|| call(lb, &spec, a, kind, a1, a2, o1, o2, &f)));
    let base = Obj::new(if res.is_ok() { "Op" } else { "Crash" })
        .str("op", op.kind)
        .int("off", off as i64)
        .json("a1", &env.val(op.a1))
        .json("a2", &env.val(op.a2))
        .str("o1", op.o1)
        .str("o2", op.o2)
        .int("lb", env.lb as i64)
        .int("lr", env.lr as i64)
        .json("pre", &pre);
    match res {
        Ok(r) => {
            let calls = json_array(r.calls.iter().map(|(x, y)| {
                Obj::raw("")
                    .json("x", &env.val(*x))
                    .bool("some", y.is_some())
                    .json("y", &env.val(y.unwrap_or(0)))
                    .finish()
            }));
            // a returned value wider than one byte for sub-byte fields cannot happen (u8); log
            // the full returned integer so that the specification sees untruncated results
            let ret = if env.b < 8 { json_ints([r.ret as i64]) } else { env.val(r.ret) };
            let line = base
                .json("calls", &calls)
                .bool("hasret", r.hasret)
                .json("ret", &ret)
                .bool("ok", r.ok)
                .json("post", &dump(h.maddr, h.n))
                .finish();
            env.emit(line);
        }
        Err(msg) => {
            let line = base.str("what", "panic in accessor").str("msg", &msg[..msg.len().min(200)]).finish();
            env.emit(line);
            let line = Obj::new("Raw").json("dump", &dump(h.maddr, h.n)).finish();
            env.emit(line);
        }
    }
}

fn fill(env: &mut Env, h: &Hist, kind: u32) {
    let p = pattern(&mut env.rng, kind, h.n);
    raw_fill(h.maddr, &p);
    let line = Obj::new("Raw").int("fill", kind as i64).json("dump", &dump(h.maddr, h.n)).finish();
    env.emit(line);
}

fn current(env: &Env, h: &Hist, field: usize) -> u64 {
    // current value of a field, read through the API, only used to build a succeeding CAS
    let a = addr(h.dref + (field << env.lr));
    let f = |_x: u64| None;
    call(env.lb, &env.spec, a, "load", 0, 0, Ordering::SeqCst, Ordering::SeqCst, &f).ret
}

pub fn run(env: &mut Env, thorough: bool) {
    let g1 = if env.b == 64 { 24 } else { 16 };
    let n = 2 * g1;
    let fields = n * 8 / env.b;
    // target fields: those around byte g1 (the boundary); everything else is guard
    let tb = if env.b < 8 { if thorough { 2 } else { 1 } } else { (2 * env.b / 8).min(g1 - env.b / 8) };
    let t_lo = (g1 - tb) * 8 / env.b;
    let t_hi = (g1 + tb) * 8 / env.b;
    let targets: Vec<usize> = (t_lo..t_hi).collect();
    assert!(t_lo >= 1 && t_hi < fields);
    let quick_places = ["word", "page", "edge_lo"];
    let hist_budget = if thorough { 600 } else { 150 };
    for (pname, m) in places(n, g1, thorough) {
        if !thorough && !quick_places.contains(&pname) {
            continue;
        }
        let h = match env.hist(m, n, false) {
            Some(h) => h,
            None => continue,
        };
        let row = env.map_row(&h, "c20", pname, Obj::raw("")).finish();
        env.emit(row);
        let mut classes = env.classes();
        if !thorough {
            classes.truncate(5);
        }
        let max = env.max_val();
        let full = pname == "word" || (thorough && (pname == "page" || pname == "chunk"));

        // ---- 1. every single operation on every target field, several neighbour patterns ----
        let fills: &[u32] = if full { &[0, 1, 2] } else { &[2] };
        let near: Vec<usize> = vec![g1 * 8 / env.b - 1, g1 * 8 / env.b];
        let tg: &[usize] = if full { &targets } else { &near };
        for &fk in fills {
            for (ti, &field) in tg.iter().enumerate() {
                fill(env, &h, fk);
                for kind in KINDS {
                    let ords = orderings(kind);
                    // the ordering argument is varied at one place, on two fields, with one value
                    let vary = pname == "word" && fk == 2 && ti < 2;
                    for (oi, &(o1, o2)) in ords.iter().enumerate() {
                        if oi > 0 && !vary {
                            break;
                        }
                        let vals: Vec<u64> = match kind {
                            "load" | "load_atomic" | "set_zero" | "set_zero_atomic" => vec![0],
                            _ if oi > 0 => vec![classes[1]],
                            _ => classes.clone(),
                        };
                        for &v in &vals {
                            if kind == "cas" {
                                // succeeding and failing compare-exchange
                                let cur = current(env, &h, field);
                                let other = if cur == v { (cur ^ 1) & max } else { v };
                                let mut pairs = vec![(cur, v), (other, max ^ v)];
                                if thorough {
                                    pairs.push((cur, cur));
                                }
                                for (exp, new) in pairs {
                                    do_op(env, &h, &Op { kind, field, a1: exp, a2: new, o1, o2, fmode: 0, fc: 0 });
                                }
                            } else if kind == "update" {
                                let modes: &[u64] = if thorough { &[0, 1, 2, 3, 4] } else { &[0, 2, 4] };
                                for &fmode in modes {
                                    do_op(env, &h, &Op { kind, field, a1: 0, a2: 0, o1, o2, fmode, fc: v });
                                }
                            } else {
                                do_op(env, &h, &Op { kind, field, a1: v, a2: 0, o1, o2, fmode: 0, fc: 0 });
                            }
                        }
                    }
                }
            }
        }

        // ---- 2. all short histories over three neighbouring fields -------------------------
        if pname == "word" {
            let depth = if thorough { 3 } else { 2 };
            // three fields that share a byte where the width allows, placed on the boundary
            let f0 = if env.b < 4 { g1 * 8 / env.b } else { g1 * 8 / env.b - 1 };
            let alt = 0xAAAA_AAAA_AAAA_AAAA & max;
            let alphabet: Vec<(&'static str, u64)> = vec![
                ("store", max),
                ("store_atomic", alt),
                ("fetch_add", 1),
                ("fetch_sub", 1),
                ("fetch_or", 0x5555_5555_5555_5555 & max),
                ("fetch_and", alt),
                ("cas", max),
                ("update", 3),
                ("set_zero", 0),
            ];
            let nsym = alphabet.len() * 3;
            for d in 1..=depth {
                let count = nsym.pow(d as u32);
                // all sequences of this length when they fit the budget, else a seeded stride
                let step = (count / hist_budget).max(1);
                let mut idx = if step > 1 { env.rng.below(step as u64) as usize } else { 0 };
                while idx < count {
                    fill(env, &h, if idx % 3 == 0 { 2 } else { (idx % 3 - 1) as u32 });
                    let mut x = idx;
                    for _ in 0..d {
                        let s = x % nsym;
                        x /= nsym;
                        let (kind, v) = alphabet[s / 3];
                        let field = f0 + s % 3;
                        let (a1, a2) = match kind {
                            "cas" => (current(env, &h, field), v),
                            "update" => (0, 0),
                            _ => (v, 0),
                        };
                        do_op(env, &h, &Op { kind, field, a1, a2, o1: "seqcst", o2: "seqcst", fmode: 2, fc: v });
                    }
                    idx += step;
                }
            }
        }

        // ---- 3. random histories over the whole window -------------------------------------
        let nrand = if thorough { 1500 } else { 300 };
        let nrand = if pname == "word" { nrand } else { nrand / 5 };
        fill(env, &h, 2);
        for i in 0..nrand {
            if i % 500 == 499 {
                fill(env, &h, (i / 500 % 3) as u32);
            }
            let kind = *env.rng.pick(&KINDS);
            let field = if env.rng.chance(3, 4) { *env.rng.pick(&targets) } else { env.rng.range(1, fields as u64 - 2) as usize };
            let v = if env.rng.chance(1, 2) { *env.rng.pick(&classes) } else { env.rng.next() & max };
            let v2 = env.rng.next() & max;
            let (a1, a2) = match kind {
                "cas" => (if env.rng.chance(2, 3) { current(env, &h, field) } else { v }, v2),
                "update" | "load" | "load_atomic" | "set_zero" | "set_zero_atomic" => (0, 0),
                _ => (v, 0),
            };
            let fmode = env.rng.below(5);
            do_op(env, &h, &Op { kind, field, a1, a2, o1: "seqcst", o2: "seqcst", fmode, fc: v2 });
        }
        // leave the window zeroed
        raw_fill(h.maddr, &vec![0u8; h.n]);
    }
}
