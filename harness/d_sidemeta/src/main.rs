//! Side metadata drivers (C20 accessors, C21 bulk operations, C22 search/scan).
//!
//! `d_sidemeta <c20|c21|c22> --out trace.ndjson [--tier quick|thorough] [--configs lb:lr,..]`
//! runs one child process per spec shape (each shape reserves its own metadata address range, and
//! a crash of the code under test must not take the other shapes with it) and concatenates the
//! children's rows in a fixed order.  The drivers only report; Trace_SideMeta*.tla judge.
mod c20;
mod c21;
mod c22;
mod common;

use std::io::Write;
use vcommon::*;

const LRS: [usize; 7] = [0, 3, 4, 8, 12, 15, 22];

fn configs(prop: &str, thorough: bool) -> Vec<(usize, usize)> {
    if let Some(s) = arg("configs") {
        return s
            .split(',')
            .map(|c| {
                let mut it = c.split(':');
                (it.next().unwrap().parse().unwrap(), it.next().unwrap().parse().unwrap())
            })
            .collect();
    }
    let mut v = vec![];
    if thorough || flag("allconfigs") {
        for lb in 0..=6usize {
            for lr in LRS {
                // a spec needs at least two data bits per metadata bit; two specs of ratio 1 do not
                // fit the address space, so bcopy (c21) starts at ratio 2
                let min_ratio = if prop == "c21" { 2 } else { 1 };
                if lr + 3 >= lb + min_ratio {
                    v.push((lb, lr));
                }
            }
        }
    } else {
        v = match prop {
            "c21" => vec![(0, 3), (0, 12), (1, 0), (1, 4), (2, 3), (2, 15), (3, 3), (3, 22), (4, 4), (5, 8), (6, 12)],
            "c20" => vec![(0, 3), (1, 0), (1, 15), (2, 4), (3, 3), (3, 12), (4, 8), (5, 3), (5, 22), (6, 4)],
            _ => vec![(0, 3), (0, 0), (1, 3), (1, 15), (2, 0), (2, 4), (3, 3), (3, 12), (4, 8), (5, 3), (5, 22), (6, 4)],
        };
    }
    v
}

fn child(prop: &str) {
    let lb = arg_u64("lb", 0) as usize;
    let lr = arg_u64("lr", 3) as usize;
    let out = arg("out").expect("--out");
    let thorough = arg_or("tier", "quick") == "thorough";
    let seed = seed_from_env().wrapping_mul(1_000_003).wrapping_add((lb * 64 + lr) as u64);
    if std::env::var("VERIF_BT").is_err() {
        std::panic::set_hook(Box::new(|_| {}));
    }
    let mut env = common::Env::new(lb, lr, prop == "c21", &out, seed);
    match prop {
        "c20" => c20::run(&mut env, thorough),
        "c21" => c21::run(&mut env, thorough),
        "c22" => c22::run(&mut env, thorough),
        _ => panic!("unknown property"),
    }
    env.out.flush().unwrap();
}

fn parent(prop: &str) {
    let out = arg("out").expect("--out");
    let tier = arg_or("tier", "quick");
    let thorough = tier == "thorough";
    let cfgs = configs(prop, thorough);
    let exe = std::env::current_exe().unwrap();
    let jobs = arg_u64("jobs", 4) as usize;
    let mut parts: Vec<(usize, usize, String, Option<std::process::ExitStatus>)> = vec![];
    let mut running: Vec<(usize, std::process::Child)> = vec![];
    let mut next = 0;
    while next < cfgs.len() || !running.is_empty() {
        while next < cfgs.len() && running.len() < jobs {
            let (lb, lr) = cfgs[next];
            let part = format!("{}.part_{}_{}", out, lb, lr);
            let ch = std::process::Command::new(&exe)
                .args(["child", prop, "--lb", &lb.to_string(), "--lr", &lr.to_string(), "--out", &part, "--tier", &tier])
                .spawn()
                .expect("spawn child");
            parts.push((lb, lr, part, None));
            running.push((next, ch));
            next += 1;
        }
        let (i, mut ch) = running.remove(0);
        let st = ch.wait().expect("wait");
        parts[i].3 = Some(st);
    }
    let mut w = std::io::BufWriter::new(std::fs::File::create(&out).unwrap());
    let mut rows = 0usize;
    let mut crashed = 0usize;
    for (lb, lr, part, st) in &parts {
        let body = std::fs::read_to_string(part).unwrap_or_default();
        // drop a torn last line of a child that died
        let complete = match body.rfind('\n') {
            Some(p) => &body[..=p],
            None => "",
        };
        w.write_all(complete.as_bytes()).unwrap();
        rows += complete.lines().count();
        let st = st.unwrap();
        if !st.success() {
            crashed += 1;
            let line = Obj::new("Crash")
                .str("what", "driver process died")
                .str("msg", &format!("{}", st))
                .int("lb", *lb as i64)
                .int("lr", *lr as i64)
                .int("after_rows", complete.lines().count() as i64)
                .finish();
            w.write_all(line.as_bytes()).unwrap();
            w.write_all(b"\n").unwrap();
            rows += 1;
        }
        let _ = std::fs::remove_file(part);
    }
    w.flush().unwrap();
    println!("rows={} configs={} crashed={}", rows, parts.len(), crashed);
}

fn main() {
    let args: Vec<String> = std::env::args().collect();
    match args.get(1).map(|s| s.as_str()) {
        Some("child") => child(args.get(2).map(|s| s.as_str()).unwrap_or("")),
        Some(p @ ("c20" | "c21" | "c22")) => parent(p),
        _ => {
            eprintln!("usage: d_sidemeta <c20|c21|c22> --out <trace.ndjson> [--tier quick|thorough] [--configs lb:lr,..]");
            std::process::exit(2);
        }
    }
}
