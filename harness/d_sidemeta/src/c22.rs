//! C22: find_prev_non_zero_value / find_next_non_zero_value / scan_non_zero_values on custom
//! specs.  The harness writes a bitmap into the window (raw bytes, logged), then asks the real
//! code many questions and logs the answers.  Rows: see Trace_SideMetaSearch.tla.
use crate::common::*;
use mmtk::util::Address;
use vcommon::*;

macro_rules! by_width {
    ($lb:expr, $t:ident, $e:expr) => {
        match $lb {
            0..=3 => {
                type $t = u8;
                $e
            }
            4 => {
                type $t = u16;
                $e
            }
            5 => {
                type $t = u32;
                $e
            }
            _ => {
                type $t = u64;
                $e
            }
        }
    };
}

fn off_of(h: &Hist, r: Option<Address>) -> i64 {
    match r {
        None => -1,
        Some(a) => a.as_usize() as i64 - h.dref as i64,
    }
}

fn find(env: &Env, h: &Hist, prev: bool, a: usize, l: usize) -> Result<i64, String> {
    let spec = env.spec;
    let da = addr(h.dref + a);
    let lb = env.lb;
    if std::env::var("VERIF_DEBUG").is_ok() {
        eprintln!("find prev={} a={} l={} dref={:x}", prev, a, l, h.dref);
    }
    catch(std::panic::AssertUnwindSafe(|| {
        let r = by_width!(lb, T, unsafe {
            if prev {
                spec.find_prev_non_zero_value::<T>(da, l)
            } else {
                spec.find_next_non_zero_value::<T>(da, l)
            }
        });
        off_of(h, r)
    }))
}

fn scan(env: &Env, h: &Hist, s: usize, e: usize) -> Result<Vec<i64>, String> {
    let spec = env.spec;
    let lb = env.lb;
    let (ds, de) = (addr(h.dref + s), addr(h.dref + e));
    let dref = h.dref as i64;
    catch(std::panic::AssertUnwindSafe(|| {
        let mut v: Vec<i64> = vec![];
        by_width!(lb, T, spec.scan_non_zero_values::<T>(ds, de, &mut |a: Address| v.push(a.as_usize() as i64 - dref)));
        v
    }))
}

/// Write a bitmap: `set` lists (field, value) pairs; everything else in the dump is zero.
fn set_fields(env: &mut Env, h: &Hist, set: &[(usize, u64)]) {
    let mut bytes = vec![0u8; h.n];
    for &(f, v) in set {
        let bit = f * env.b;
        for k in 0..env.b {
            if (v >> k) & 1 == 1 {
                bytes[(bit + k) / 8] |= 1 << ((bit + k) % 8);
            }
        }
    }
    raw_fill(h.maddr, &bytes);
}

fn nonzero_val(env: &mut Env, i: usize) -> u64 {
    let m = env.max_val();
    match i % 4 {
        0 => 1,
        1 => 1u64 << (env.b - 1), // only the highest bit: the search must align down to the field
        2 => m,
        _ => (env.rng.next() & m) | 1,
    }
}

/// Every query row carries its own context (lb, lr, dhi and the window's bytes after the query)
/// so that a stored row can be re-validated alone.
fn qrow(env: &Env, h: &Hist, z: &Sizes, ev: &str) -> Obj {
    Obj::new(ev)
        .int("lb", env.lb as i64)
        .int("lr", env.lr as i64)
        .int("dhi", z.dhi as i64)
        .json("dump", &dump(h.maddr, h.n))
}

struct Sizes {
    r: usize,
    nf: usize,
    span: usize,
    dhi: usize,
}

fn queries(env: &mut Env, h: &Hist, z: &Sizes, nq: usize, focus: &[usize]) {
    let r = z.r;
    // query positions: around the set fields, the boundary, the ends of the dump, above the dump
    let mut pick_addr = |env: &mut Env| -> usize {
        let f = match env.rng.below(10) {
            0..=4 => {
                let c = *env.rng.pick(focus) as i64 + env.rng.range(0, 6) as i64 - 3;
                c.clamp(0, z.nf as i64 + 2) as usize
            }
            5..=7 => env.rng.range(0, z.nf as u64 - 1) as usize,
            8 => z.nf + env.rng.range(0, 3) as usize,
            _ => env.rng.range(0, 3) as usize,
        };
        let within = if r > 1 && env.rng.chance(1, 2) { env.rng.range(1, r as u64 - 1) as usize } else { 0 };
        f * r + within
    };
    let pick_limit = |env: &mut Env, a: usize| -> usize {
        let l = match env.rng.below(12) {
            0 => 1,
            1 => r,
            2 => r + 1,
            3 => (2 * r).saturating_sub(1).max(1),
            4 => a + 1,                                        // exactly down to the dump start
            5 => a + 1 + env.rng.range(1, 4 * r as u64) as usize, // below the dump start
            6 => z.span,
            7 => z.span + 3 * r,
            8 => (a % r).max(1),                              // ends inside the start region
            _ => env.rng.range(1, (z.span / 2).max(2) as u64) as usize,
        };
        l.clamp(1, 1 << 30)
    };
    for prev in [true, false] {
        let mut normal: Vec<String> = vec![];
        let mut smalls: Vec<String> = vec![];
        for _ in 0..nq {
            let a = pick_addr(env);
            let l = pick_limit(env, a);
            // find_prev with a limit that ends inside the region of an unaligned start address is
            // logged in its own row (class "small")
            let small = prev && a % r != 0 && l <= a % r;
            match find(env, h, prev, a, l) {
                Ok(res) => {
                    let q = json_ints([a as i64, l as i64, res]);
                    if small {
                        smalls.push(q);
                    } else {
                        normal.push(q);
                    }
                }
                Err(msg) => {
                    let row = crash_row("panic in search", &msg)
                        .str("q", if prev { "find_prev" } else { "find_next" })
                        .str("cls", if small { "small" } else { "normal" })
                        .int("a", a as i64)
                        .int("L", l as i64)
                        .int("lb", env.lb as i64)
                        .int("lr", env.lr as i64)
                        .finish();
                    env.emit(row);
                }
            }
        }
        let row = qrow(env, h, z, if prev { "FP" } else { "FN" }).json("qs", &json_array(normal)).finish();
        env.emit(row);
        if !smalls.is_empty() {
            let row = qrow(env, h, z, "FPU").json("qs", &json_array(smalls)).finish();
            env.emit(row);
        }
    }
    // a start address in unmapped data: documented as safe
    if z.dhi < (1 << 30) {
        let mut qs = vec![];
        for k in 0..2usize {
            let a = z.dhi + k * (CHUNK / 2) + env.rng.below(64) as usize;
            let l = a - env.rng.below(z.span as u64) as usize;
            if let Ok(res) = find(env, h, true, a, l.max(1)) {
                qs.push(json_ints([a as i64, l.max(1) as i64, res]));
            }
        }
        let row = qrow(env, h, z, "FP").json("qs", &json_array(qs)).finish();
        env.emit(row);
    }
    // scans: the data range must be mapped, so stay inside the window
    let nscan = (nq / 16).max(2);
    for i in 0..nscan {
        let fs = env.rng.range(0, z.nf as u64 - 1) as usize;
        let fe = env.rng.range(fs as u64, z.nf as u64) as usize;
        let (fs, fe) = if i == 0 { (0, z.nf) } else { (fs, fe) };
        // region-aligned start; the end is unaligned now and then
        let e = fe * r + if r > 1 && i % 3 == 2 && fe < z.nf { env.rng.range(1, r as u64 - 1) as usize } else { 0 };
        emit_scan(env, h, z, "SC", fs * r, e);
    }
    if r > 1 && env.rng.chance(1, 4) {
        // unaligned start (the API does not forbid it)
        let fs = env.rng.range(0, z.nf as u64 / 2) as usize;
        let s = fs * r + env.rng.range(1, r as u64 - 1) as usize;
        emit_scan(env, h, z, "SCU", s, z.nf * r);
    }
}

fn emit_scan(env: &mut Env, h: &Hist, z: &Sizes, ev: &str, s: usize, e: usize) {
    match scan(env, h, s, e) {
        Ok(v) => {
            let row = qrow(env, h, z, ev).int("s", s as i64).int("e", e as i64).ints("res", v).finish();
            env.emit(row);
        }
        Err(msg) => {
            let row = crash_row("panic in scan", &msg)
                .str("q", "scan")
                .str("cls", if ev == "SCU" { "unaligned_start" } else { "normal" })
                .int("a", s as i64)
                .int("L", e as i64)
                .int("lb", env.lb as i64)
                .int("lr", env.lr as i64)
                .finish();
            env.emit(row);
        }
    }
}

pub fn run(env: &mut Env, thorough: bool) {
    let n = match env.b {
        1 | 2 => 24,
        4 => 32,
        8 => 40,
        16 => 48,
        32 => 64,
        _ => 96,
    };
    let g1 = (n / 2) & !7;
    let r = 1usize << env.lr;
    let nf = n * 8 / env.b;
    let quick_places = ["word", "page", "edge_lo", "edge_hi"];
    for (pname, m) in places(n, g1, thorough) {
        if !thorough && !quick_places.contains(&pname) {
            continue;
        }
        let h = match env.hist(m, n, true) {
            Some(h) => h,
            None => continue,
        };
        let span = nf * r;
        // probe (through the public Address::is_mapped) where the mapped data above the window ends
        let mut top = (h.dref + span + CHUNK - 1) & !(CHUNK - 1);
        let mut steps = 0;
        while addr(top).is_mapped() && steps < 64 {
            top += CHUNK;
            steps += 1;
        }
        let dhi = if steps < 64 && top - h.dref < (1 << 30) { top - h.dref } else { (1 << 31) - 1 };
        let row = env.map_row(&h, "c22", pname, Obj::raw("")).int("dhi", dhi as i64).finish();
        env.emit(row);
        let z = Sizes { r, nf, span, dhi };
        let pb = g1 * 8 / env.b;
        let nq = if thorough { 80 } else { 32 };

        let mut bitmaps: Vec<Vec<(usize, u64)>> = vec![vec![]]; // the empty bitmap
        // one set field: every position near the boundary and at the ends (all positions: thorough)
        let mut singles: Vec<usize> = if thorough { vec![0, 1, nf - 2, nf - 1] } else { vec![0, nf - 1] };
        let near = if thorough { 8 } else { 3 };
        singles.extend(pb.saturating_sub(near)..(pb + near).min(nf));
        if thorough {
            singles.extend((0..nf).step_by(3));
        }
        singles.sort_unstable();
        singles.dedup();
        for (i, &f) in singles.iter().enumerate() {
            let v = nonzero_val(env, i);
            bitmaps.push(vec![(f, v)]);
        }
        // two set fields
        let pairs_from: Vec<usize> = if thorough {
            singles.clone()
        } else {
            vec![0, pb - 1, pb, (pb + 1).min(nf - 1), nf - 1]
        };
        let mut k = 0;
        let npairs = pairs_from.len() * (pairs_from.len() - 1) / 2;
        for (i, &f1) in pairs_from.iter().enumerate() {
            for &f2 in &pairs_from[i + 1..] {
                k += 1;
                if thorough && k % (npairs / 60 + 1) != 0 {
                    continue;
                }
                let (v1, v2) = (nonzero_val(env, k), nonzero_val(env, k + 1));
                bitmaps.push(vec![(f1, v1), (f2, v2)]);
            }
        }
        let nb_fixed = bitmaps.len();
        let nrand = if thorough { 40 } else { 6 };

        for bi in 0..(nb_fixed + nrand) {
            let focus: Vec<usize>;
            if bi < nb_fixed {
                let bm = bitmaps[bi].clone();
                set_fields(env, &h, &bm);
                focus = if bm.is_empty() { vec![pb] } else { bm.iter().map(|x| x.0).chain([pb]).collect() };
            } else {
                let kind = [3u32, 2, 4, 1][(bi - nb_fixed) % 4];
                let p = pattern(&mut env.rng, kind, h.n);
                raw_fill(h.maddr, &p);
                focus = vec![pb, 0, nf - 1, nf / 3];
            }
            let row = Obj::new("Set").json("dump", &dump(h.maddr, h.n)).finish();
            env.emit(row);
            queries(env, &h, &z, nq, &focus);
        }
        raw_fill(h.maddr, &vec![0u8; h.n]);
    }
}
