//! C21: bzero_metadata / bset_metadata / bcopy_metadata_contiguous on custom specs.  Each row is
//! self-contained: the raw metadata bytes of the window (destination and, for bcopy, source spec)
//! before and after the call.  Rows: see Trace_SideMetaBulk.tla.
use crate::common::*;
use vcommon::*;

const OPS: [&str; 3] = ["bzero", "bset", "bcopy"];

fn bulk(env: &mut Env, h: &Hist, op: &str, start: usize, size: usize) {
    // pre-state: something the operation has to change, and a source that differs from it
    let (dk, sk) = match op {
        "bzero" => (if env.rng.chance(1, 2) { 1 } else { 4 }, 2),
        "bset" => (if env.rng.chance(1, 2) { 0 } else { 3 }, 2),
        _ => (2, 2),
    };
    let p = pattern(&mut env.rng, dk, h.n);
    raw_fill(h.maddr, &p);
    let is_copy = op == "bcopy";
    if is_copy {
        let p = pattern(&mut env.rng, sk, h.n);
        raw_fill(h.maddr2, &p);
    }
    let pre = dump(h.maddr, h.n);
    let spre = if is_copy { dump(h.maddr2, h.n) } else { "[]".to_string() };
    let spec = env.spec;
    let spec2 = env.spec2.unwrap();
    let a = addr(h.dref + start);
    let op_owned = op.to_string();
    let res = catch(std::panic::AssertUnwindSafe(|| match op_owned.as_str() {
        "bzero" => spec.bzero_metadata(a, size),
        "bset" => spec.bset_metadata(a, size),
        _ => spec.bcopy_metadata_contiguous(a, size, &spec2),
    }));
    let post = dump(h.maddr, h.n);
    let spost = if is_copy { dump(h.maddr2, h.n) } else { "[]".to_string() };
    let o = Obj::new(if res.is_ok() { "Bulk" } else { "Crash" })
        .str("op", op)
        .int("start", start as i64)
        .int("size", size as i64)
        .int("lb", env.lb as i64)
        .int("lr", env.lr as i64)
        .json("pre", &pre)
        .json("post", &post)
        .json("spre", &spre)
        .json("spost", &spost);
    let o = match res {
        Ok(()) => o,
        Err(m) => o.str("what", "panic in bulk operation").str("msg", &m[..m.len().min(200)]),
    };
    env.emit(o.finish());
}

pub fn run(env: &mut Env, thorough: bool) {
    let (g1, n) = if env.b >= 16 { (32, 64) } else { (24, 48) };
    let guard = 8; // bytes on each side never inside a range
    let w_lo = guard * 8 / env.b; // first field of the window
    let w_hi = (n - guard) * 8 / env.b; // one past the last field of the window
    let pb = g1 * 8 / env.b; // the field that starts on the boundary
    let quick_places = ["word", "page", "chunk"];
    let r = 1usize << env.lr;
    for (pname, m) in places(n, g1, thorough) {
        if !thorough && !quick_places.contains(&pname) {
            continue;
        }
        let h = match env.hist(m, n, false) {
            Some(h) => h,
            None => continue,
        };
        let mref2 = h.maddr2 - env.spec2.unwrap().get_starting_address();
        let row = env
            .map_row(&h, "c21", pname, Obj::raw(""))
            .json("mref2", &json_ints((0..48).map(|i| ((mref2 >> i) & 1) as i64)))
            .finish();
        env.emit(row);

        // positions (region boundaries) from which ranges are formed
        let mut pos: Vec<usize> = vec![];
        let all = w_hi - w_lo <= if thorough { 40 } else { 24 };
        if all {
            pos.extend(w_lo..=w_hi);
        } else {
            let near = if thorough { 10 } else { 9 };
            let ends = if thorough { 5 } else { 2 };
            pos.extend(pb.saturating_sub(near).max(w_lo)..=(pb + near).min(w_hi));
            pos.extend(w_lo..=(w_lo + ends));
            pos.extend((w_hi - ends)..=w_hi);
            for _ in 0..(if thorough { 8 } else { 4 }) {
                pos.push(env.rng.range(w_lo as u64, w_hi as u64) as usize);
            }
            pos.sort_unstable();
            pos.dedup();
        }
        let mut k = 0usize;
        for (i, &s) in pos.iter().enumerate() {
            for &e in &pos[i..] {
                k += 1;
                // region-aligned range [s, e)
                if thorough && (pname == "word" || pname == "page") {
                    for op in OPS {
                        bulk(env, &h, op, s * r, (e - s) * r);
                    }
                } else {
                    bulk(env, &h, OPS[k % 3], s * r, (e - s) * r);
                }
                // ranges that start and/or end inside a region (allowed by the API)
                if env.lr > 0 && e > s && (thorough || k % 4 == 0) {
                    let d1 = env.rng.range(0, r as u64 - 1) as usize;
                    let d2 = env.rng.range(0, r as u64 - 1) as usize;
                    let (us, ue) = (s * r + d1, (e - 1) * r + d2);
                    if ue >= us {
                        bulk(env, &h, OPS[(k / 4) % 3], us, ue - us);
                    }
                }
            }
        }
        raw_fill(h.maddr, &vec![0u8; h.n]);
        raw_fill(h.maddr2, &vec![0u8; h.n]);
    }
}
