//! Shared set-up for the side metadata drivers: custom specs, placement of dump windows in the
//! metadata address space, raw memory dumps, row writer.
//!
//! Projection used by all three drivers (documented in spec/sidemeta/SideMeta.tla and re-checked
//! there on every `Map` row): the dump of a history starts at the metadata address of the
//! region-aligned data address `dref`,
//!     maddr = spec.get_starting_address() + ((dref >> lr) >> (3 - lb))      (lb <= 3)
//!     maddr = spec.get_starting_address() + ((dref >> lr) << (lb - 3))      (lb  > 3)
//! and every data address in a row is the byte offset from `dref`.  The drivers never interpret
//! the dumped bytes.

use mmtk::util::metadata::side_metadata::verif_sidemeta as hk;
use mmtk::util::metadata::side_metadata::SideMetadataSpec;
use mmtk::util::Address;
use std::io::Write;
use vcommon::*;

pub const CHUNK: usize = 1 << 22;
pub const DBASE: usize = 1 << 44;
pub const DLIMIT: usize = (1 << 45) - (1 << 40);

pub struct Env {
    pub lb: usize,
    pub lr: usize,
    pub b: usize,
    pub ratio: usize,
    pub spec: SideMetadataSpec,
    /// a second spec of equal shape (source of bcopy), laid out after `spec`
    pub spec2: Option<SideMetadataSpec>,
    pub out: std::fs::File,
    pub rows: usize,
    pub rng: Rng,
}

/// One history: a dump window in the metadata of `spec` (and of `spec2`).
#[derive(Clone, Copy)]
pub struct Hist {
    pub dref: usize,
    pub maddr: Address,
    pub maddr2: Address,
    pub n: usize,
}

pub fn addr(a: usize) -> Address {
    unsafe { Address::from_usize(a) }
}

impl Env {
    pub fn new(lb: usize, lr: usize, two_specs: bool, out_path: &str, seed: u64) -> Env {
        assert!(lb <= 6 && lr + 3 > lb, "spec needs at least two data bits per metadata bit");
        let spec = SideMetadataSpec {
            name: "verif_a",
            is_global: false,
            offset: hk::first_free_offset(),
            log_num_of_bits: lb,
            log_bytes_in_region: lr,
        };
        let spec2 = if two_specs {
            Some(SideMetadataSpec {
                name: "verif_b",
                is_global: false,
                offset: hk::offset_after(&spec),
                log_num_of_bits: lb,
                log_bytes_in_region: lr,
            })
        } else {
            None
        };
        let mut all = vec![spec];
        if let Some(s) = spec2 {
            all.push(s);
        }
        hk::init(&all);
        Env {
            lb,
            lr,
            b: 1 << lb,
            ratio: lr + 3 - lb,
            spec,
            spec2,
            out: std::fs::File::create(out_path).expect("create trace part"),
            rows: 0,
            rng: Rng::new(seed),
        }
    }

    pub fn emit(&mut self, line: String) {
        self.out.write_all(line.as_bytes()).unwrap();
        self.out.write_all(b"\n").unwrap();
        self.rows += 1;
    }

    /// bytes per value in rows
    pub fn vlen(&self) -> usize {
        if self.b < 8 {
            1
        } else {
            self.b / 8
        }
    }
    pub fn max_val(&self) -> u64 {
        if self.b == 64 {
            u64::MAX
        } else {
            (1u64 << self.b) - 1
        }
    }
    /// a value as little-endian bytes (JSON array)
    pub fn val(&self, v: u64) -> String {
        json_ints((0..self.vlen()).map(|i| ((v >> (8 * i)) & 0xff) as i64))
    }
    /// value classes for this width
    pub fn classes(&mut self) -> Vec<u64> {
        let m = self.max_val();
        let mut v = vec![0, 1, m, 0xAAAA_AAAA_AAAA_AAAA & m, 0x5555_5555_5555_5555 & m, self.rng.next() & m];
        if self.b >= 8 {
            v.push(1u64 << (self.b - 1)); // only the top bit
            v.push(m - 1);
        }
        v.sort_unstable();
        v.dedup();
        v
    }

    fn meta_of(&self, spec: &SideMetadataSpec, d: usize) -> Address {
        let r = d >> self.lr;
        let off = if self.lb <= 3 { r >> (3 - self.lb) } else { r << (self.lb - 3) };
        spec.get_starting_address() + off
    }

    /// Data address whose metadata lies `mbytes` after the metadata of DBASE (mbytes % 8 == 0).
    pub fn data_at_meta(&self, mbytes: usize) -> Option<usize> {
        assert!(mbytes % 8 == 0);
        let fields = (mbytes as u128 * 8) / self.b as u128;
        let off = fields << self.lr;
        if off > (DLIMIT - DBASE) as u128 {
            return None;
        }
        Some(DBASE + off as usize)
    }

    /// Set up a history whose dump is the `n` metadata bytes starting `mbytes` after meta(DBASE).
    /// Maps the metadata (and optionally the data) of the window.
    pub fn hist(&mut self, mbytes: usize, n: usize, map_data: bool) -> Option<Hist> {
        assert!(n % 8 == 0);
        let dref = self.data_at_meta(mbytes)?;
        let span = ((n * 8 / self.b) << self.lr).max(1);
        if dref + span > DLIMIT {
            return None;
        }
        let lo = dref & !4095;
        let hi = (dref + span + 4095) & !4095;
        let mut specs = vec![self.spec];
        if let Some(s) = self.spec2 {
            specs.push(s);
        }
        if map_data {
            // data is mapped at chunk granularity; keep MMTk's invariant that mapped data has
            // mapped metadata by mapping the metadata of the same chunks
            let clo = dref & !(CHUNK - 1);
            let chi = (dref + span + CHUNK - 1) & !(CHUNK - 1);
            hk::map_metadata(&specs, addr(clo), chi - clo).expect("map metadata");
            hk::map_data(addr(lo), hi - lo).expect("map data");
        } else {
            hk::map_metadata(&specs, addr(lo), hi - lo).expect("map metadata");
        }
        let maddr = self.meta_of(&self.spec, dref);
        let maddr2 = match self.spec2 {
            Some(s) => self.meta_of(&s, dref),
            None => maddr,
        };
        Some(Hist { dref, maddr, maddr2, n })
    }

    /// The `Map` row of a history.
    pub fn map_row(&mut self, h: &Hist, prop: &str, place: &str, extra: Obj) -> Obj {
        let _ = extra;
        let bits = |x: usize| json_ints((0..48).map(|i| ((x >> i) & 1) as i64));
        let mref = h.maddr - self.spec.get_starting_address();
        Obj::new("Map")
            .str("p", prop)
            .int("lb", self.lb as i64)
            .int("lr", self.lr as i64)
            .str("place", place)
            .json("dref", &bits(h.dref))
            .json("mref", &bits(mref))
            .json("dump", &dump(h.maddr, h.n))
    }
}

/// The standard placements of a dump of `n` bytes whose byte `g1` sits on the named boundary of
/// the metadata address space.  Returns (name, metadata byte offset of the dump start from
/// meta(DBASE)).  meta(DBASE) is aligned to the mmap chunk for every ratio <= 22.
pub fn places(n: usize, g1: usize, tier_thorough: bool) -> Vec<(&'static str, usize)> {
    let mut v = vec![
        ("word", 64 - g1),
        ("page", 4096 - g1),
        ("edge_lo", 0),
        ("chunk", CHUNK - g1),
        ("edge_hi", 3 * CHUNK - n),
    ];
    if tier_thorough {
        v.push(("page3", 3 * 4096 - g1));
        v.push(("odd_word", 8 * 37 - g1));
    }
    v
}

pub fn dump(a: Address, n: usize) -> String {
    let p = a.to_ptr::<u8>();
    json_ints((0..n).map(|i| unsafe { std::ptr::read_volatile(p.add(i)) } as i64))
}

pub fn raw_fill(a: Address, bytes: &[u8]) {
    let p = a.to_mut_ptr::<u8>();
    for (i, b) in bytes.iter().enumerate() {
        unsafe { std::ptr::write_volatile(p.add(i), *b) };
    }
}

/// Fill patterns: 0 = zeros, 1 = ones, 2 = random, 3 = sparse random (about 1 bit in 16), 4 = dense
pub fn pattern(rng: &mut Rng, kind: u32, n: usize) -> Vec<u8> {
    (0..n)
        .map(|_| match kind {
            0 => 0u8,
            1 => 0xff,
            2 => rng.next() as u8,
            3 => (rng.next() & rng.next() & rng.next() & rng.next()) as u8,
            _ => (rng.next() | rng.next() | rng.next()) as u8,
        })
        .collect()
}

pub fn crash_row(what: &str, msg: &str) -> Obj {
    Obj::new("Crash").str("what", what).str("msg", &msg.chars().take(300).collect::<String>())
}
