//! racedrive: real-thread race drivers for C17 (fwd), C18 (cas) and C19 (pool).
mod cas;
mod fwd;
mod pool;
mod rec;
mod vm;
mod world;

fn main() {
    let args: Vec<String> = std::env::args().collect();
    let variant = vcommon::arg_u64("variant", 0) as u32;
    match (args.get(1).map(|s| s.as_str()), variant) {
        (Some("fwd"), 0) => fwd::run::<0>(),
        (Some("fwd"), 1) => fwd::run::<1>(),
        (Some("fwd"), 2) => fwd::run::<2>(),
        (Some("cas"), 0) => cas::run::<0>(),
        (Some("cas"), 1) => cas::run::<1>(),
        (Some("cas"), 2) => cas::run::<2>(),
        (Some("pool"), _) => pool::run(),
        _ => {
            eprintln!("usage: racedrive fwd|cas|pool [--variant 0|1|2] --out FILE ...");
            std::process::exit(2);
        }
    }
}
