//! C17: real threads race the real forwarding protocol (`mmtk::util::object_forwarding`, reached
//! through `mmtk::verif::race`) on real objects, calling the functions in the order
//! `CopySpace::trace_object` ("copyspace") or `ImmixSpace::trace_object_with_opportunistic_copy`
//! ("immix") call them. Every atomic metadata operation is recorded per thread by the hook
//! `verif_steps`; the driver only projects addresses and writes the logs. One row per
//! (round, object); see spec/forwarding/Trace_Forwarding.tla for the format.

use crate::rec::{self, Step};
use crate::vm::*;
use crate::world::{self, World, K, MAX_THREADS};
use mmtk::util::copy::{CopySemantics, GCWorkerCopyContext};
use mmtk::util::ObjectReference;
use mmtk::verif::race as mr;
use mmtk::vm::ObjectModel;
use std::sync::atomic::Ordering;
use vcommon::*;

/// Projection mask for the final dump of the pointer field (the raced code applies its own).
const PTR_MASK: usize = 0x00ff_ffff_ffff_fff8;

#[derive(Clone)]
struct Plan {
    /// objects of this round (indices into world.objs), in the order each thread traces them
    order: Vec<Vec<usize>>,
    /// immix: per thread "copy space exhausted"
    exhausted: Vec<bool>,
    /// immix: the objects are pinned this round (every winner declines)
    pinned: bool,
}

fn trace_copyspace<const V: u32>(o: ObjectReference, ctx: &mut GCWorkerCopyContext<RaceVM<V>>) -> ObjectReference {
    let status = mr::attempt_to_forward::<RaceVM<V>>(o);
    if mr::state_is_forwarded_or_being_forwarded(status) {
        mr::spin_and_get_forwarded_object::<RaceVM<V>>(o, status)
    } else {
        mr::forward_object::<RaceVM<V>>(o, CopySemantics::DefaultCopy, ctx, |_new| {})
    }
}

fn trace_immix<const V: u32>(
    w: &World<V>,
    o: ObjectReference,
    ctx: &mut GCWorkerCopyContext<RaceVM<V>>,
    mark_state: u8,
    decline: bool,
) -> ObjectReference {
    let status = mr::attempt_to_forward::<RaceVM<V>>(o);
    if mr::state_is_forwarded_or_being_forwarded(status) {
        mr::spin_and_get_forwarded_object::<RaceVM<V>>(o, status)
    } else if OM::<V>::LOCAL_MARK_BIT_SPEC.load_atomic::<RaceVM<V>, u8>(o, None, Ordering::SeqCst) == mark_state {
        // is_marked(object)
        mr::clear_forwarding_bits::<RaceVM<V>>(o);
        o
    } else {
        // is_pinned(object) || (!nursery_collection && defrag.space_exhausted())
        rec::push(rec::OP_DECIDE, o.to_raw_address().as_usize(), decline as u64);
        if decline {
            mr::immix_hooks::attempt_mark(w.mmtk, o, mark_state).expect("plan has no ImmixSpace");
            mr::clear_forwarding_bits::<RaceVM<V>>(o);
            o
        } else {
            mr::forward_object::<RaceVM<V>>(o, CopySemantics::DefaultCopy, ctx, |_new| {})
        }
    }
}

fn label<const V: u32>(w: &World<V>, j: usize, s: &Step) -> String {
    let bits = OM::<V>::LOCAL_FORWARDING_BITS_SPEC.as_spec();
    let ptr = OM::<V>::LOCAL_FORWARDING_POINTER_SPEC.as_spec();
    let mark = OM::<V>::LOCAL_MARK_BIT_SPEC.as_spec();
    let f = |name: &str, a: i64, b: i64, ok: i64, op: &str| format!("[\"{}\",\"{}\",{},{},{}]", op, name, a, b, ok);
    let small = |x: u64| if x < 1 << 20 { x as i64 } else { -9 };
    match s.op {
        rec::OP_COPY => f("", w.proj(j, s.a as usize), 0, 0, "copy"),
        rec::OP_DECIDE => f("", s.a as i64, 0, 0, "decide"),
        rec::OP_RET => f("", w.proj(j, s.a as usize), 0, 0, "ret"),
        rec::OP_LOAD | rec::OP_STORE | rec::OP_CAS => {
            // the pointer spec is tested first: in the combined layout the bits spec has the same
            // bit offset but a different width, so the identities never coincide
            let (name, is_ptr) = if rec::is_spec(s, ptr) {
                ("ptr", true)
            } else if rec::is_spec(s, bits) {
                ("bits", false)
            } else if rec::is_spec(s, mark) {
                ("mark", false)
            } else {
                ("other", false)
            };
            match s.op {
                rec::OP_LOAD => {
                    if is_ptr {
                        f(name, w.proj(j, s.r as usize), 0, 0, "ld")
                    } else {
                        f(name, small(s.r), 0, 0, "ld")
                    }
                }
                rec::OP_STORE => {
                    if is_ptr {
                        f(name, w.proj(j, (s.a as usize) & !7), (s.a & 7) as i64, 0, "st")
                    } else {
                        f(name, small(s.a), 0, 0, "st")
                    }
                }
                _ => f(name, small(s.a), small(s.b), s.ok as i64, "cas"),
            }
        }
        _ => f("", 0, 0, 0, "unknown"),
    }
}

pub fn run<const V: u32>() {
    let out = arg_or("out", "fwd.ndjson");
    let rounds = arg_u64("rounds", 1000);
    let nt = (arg_u64("threads", 4) as usize).clamp(2, MAX_THREADS);
    let caller = arg_or("caller", "copyspace");
    let immix = caller == "immix";
    let seed = seed_from_env();
    let w = world::boot::<V>();
    let w = &w;
    let bits_spec = *OM::<V>::LOCAL_FORWARDING_BITS_SPEC.as_spec();
    let ptr_spec = *OM::<V>::LOCAL_FORWARDING_POINTER_SPEC.as_spec();
    let mark_spec = *OM::<V>::LOCAL_MARK_BIT_SPEC.as_spec();
    for o in &w.objs {
        world::check_location::<V>(&bits_spec, *o);
        world::check_location::<V>(&mark_spec, *o);
    }
    let mark_state = mr::immix_hooks::mark_state(w.mmtk).expect("plan has no ImmixSpace");
    // The specification's "combined" variant is the code path taken when
    // forwarding_bits_offset_in_forwarding_pointer() is Some (both in the header, bits inside the
    // pointer word): layout V = 1.
    let variant = if V == 1 { "combined" } else { "split" };
    rec::install_perturbation();
    let mut rng = Rng::new(seed ^ 0xF17);
    let trace = Trace::new();
    trace.push(
        Obj::new("Cfg")
            .str("variant", variant)
            .str("caller", &caller)
            .int("nt", nt as i64)
            .str("layout", variant_name(V))
            .finish(),
    );
    let lineup = rec::LineUp::new();
    let (mut contended, mut declined, mut prefwd, mut rows) = (0u64, 0u64, 0u64, 0u64);
    for round in 0..rounds {
        let n = rng.range(2, nt as u64) as usize;
        let nobj = if rng.chance(1, 3) { 2 } else { 1 };
        let first = rng.below((K - nobj + 1) as u64) as usize;
        let objs: Vec<usize> = (first..first + nobj).collect();
        let plan = Plan {
            order: (0..n)
                .map(|_| {
                    let mut v = objs.clone();
                    if v.len() == 2 && rng.chance(1, 2) {
                        v.swap(0, 1);
                    }
                    v
                })
                .collect(),
            exhausted: (0..n).map(|_| immix && rng.chance(1, 6)).collect(),
            pinned: immix && rng.chance(1, 5),
        };
        // initial state of the round's objects (set through the real accessors, unrecorded)
        let mut inits = vec![];
        for &j in &objs {
            let o = w.objs[j];
            let marked = immix && rng.chance(1, 5);
            let pre = rng.chance(1, 10);
            mark_spec.store_atomic::<RaceVM<V>, u8>(o, if marked { mark_state } else { mark_state ^ 1 }, None, Ordering::SeqCst);
            if pre {
                // already forwarded before the race, by "thread n" (its slot is otherwise unused
                // in this round because nobody can win the race again)
                let dst = w.slot(n, j);
                if V == 1 {
                    ptr_spec.store_atomic::<RaceVM<V>, usize>(o, dst | 3, None, Ordering::SeqCst);
                } else {
                    ptr_spec.store_atomic::<RaceVM<V>, usize>(o, dst, None, Ordering::SeqCst);
                    bits_spec.store_atomic::<RaceVM<V>, u8>(o, 3, None, Ordering::SeqCst);
                }
                prefwd += 1;
                inits.push((3i64, n as i64, marked as i64));
            } else {
                ptr_spec.store_atomic::<RaceVM<V>, usize>(o, 0, None, Ordering::SeqCst);
                bits_spec.store_atomic::<RaceVM<V>, u8>(o, 0, None, Ordering::SeqCst);
                inits.push((0i64, -1i64, marked as i64));
            }
        }
        lineup.reset();
        let logs: Vec<Vec<Step>> = std::thread::scope(|sc| {
            let hs: Vec<_> = (0..n)
                .map(|ti| {
                    let plan = &plan;
                    let lineup = &lineup;
                    sc.spawn(move || {
                        let t = ti + 1;
                        TO_BASE.with(|c| c.set(w.slot(t, 0)));
                        rec::seed_delays(seed, round, t as u64);
                        let mut ctx = std::mem::ManuallyDrop::new(GCWorkerCopyContext::<RaceVM<V>>::new_non_copy());
                        lineup.wait(n);
                        rec::start();
                        for &j in &plan.order[ti] {
                            let o = w.objs[j];
                            let r = if immix {
                                trace_immix::<V>(w, o, &mut ctx, mark_state, plan.pinned || plan.exhausted[ti])
                            } else {
                                trace_copyspace::<V>(o, &mut ctx)
                            };
                            rec::push(rec::OP_RET, o.to_raw_address().as_usize(), r.to_raw_address().as_usize() as u64);
                        }
                        rec::stop()
                    })
                })
                .collect();
            hs.into_iter().map(|h| h.join().expect("racing thread panicked")).collect()
        });
        for (k, &j) in objs.iter().enumerate() {
            let o = w.objs[j];
            let oa = o.to_raw_address().as_usize();
            let mut any_contention = false;
            let mut any_decline = false;
            let logs_json = json_array(logs.iter().map(|log| {
                let mut labels: Vec<String> = vec![];
                for s in log.iter().filter(|s| s.obj == oa) {
                    let l = label::<V>(w, j, s);
                    // spinning: a run of identical loads of BEING_FORWARDED is logged once
                    if l == "[\"ld\",\"bits\",2,0,0]" && labels.last().map(|x| x == &l).unwrap_or(false) {
                        continue;
                    }
                    if l == "[\"ld\",\"bits\",2,0,0]" || (l.starts_with("[\"cas\"") && l.ends_with(",0]")) {
                        any_contention = true;
                    }
                    if l.starts_with("[\"decide\",\"\",1") {
                        any_decline = true;
                    }
                    labels.push(l);
                }
                json_array(labels)
            }));
            let fb = bits_spec.load_atomic::<RaceVM<V>, u8>(o, None, Ordering::SeqCst) as i64;
            let fp = ptr_spec.load_atomic::<RaceVM<V>, usize>(o, Some(PTR_MASK), Ordering::SeqCst);
            let fm = (mark_spec.load_atomic::<RaceVM<V>, u8>(o, None, Ordering::SeqCst) == mark_state) as i64;
            let fpp = if fp == 0 { -1 } else { w.proj(j, fp) };
            let (ib, ip, im) = inits[k];
            trace.push(
                Obj::new("Fwd")
                    .str("variant", variant)
                    .str("caller", &caller)
                    .int("nt", nt as i64)
                    .int("round", round as i64)
                    .int("obj", j as i64)
                    .ints("init", [ib, ip, im])
                    .json("logs", &logs_json)
                    .ints("final", [fb, fpp, fm])
                    .finish(),
            );
            rows += 1;
            contended += any_contention as u64;
            declined += any_decline as u64;
        }
    }
    trace.push(
        Obj::new("Stats")
            .int("rows", rows as i64)
            .int("contended", contended as i64)
            .int("declined", declined as i64)
            .int("prefwd", prefwd as i64)
            .int("copies", COPIES.load(Ordering::Relaxed) as i64)
            .finish(),
    );
    let n = trace.write_to(&out).expect("write trace");
    println!("fwd: layout {} caller {} rounds {} rows {} contended {} declined {} -> {} lines", variant_name(V), caller, rounds, rows, contended, declined, n);
}
