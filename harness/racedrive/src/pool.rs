//! C19: drive the real `BlockPool` (src/util/heap/blockpageresource.rs).
//!  (a) sequential histories: one thread, switching the acting worker ordinal with the hook
//!      `verif_set_worker_ordinal`; exhaustive over the alphabet {push by w0, push by w1, pop,
//!      flush_all} up to `--maxlen`, plus random long histories that cross the queue capacity
//!      (256) and use `add_global_array`; every history ends with len, iterate_blocks,
//!      flush_all and pops until None.
//!  (b) concurrent batches: W workers push distinct blocks while P threads pop; then (quiescent)
//!      len and iterate_blocks, flush_all, pops until None.
//! Rows: spec/blockpool/Trace_BlockPool.tla. The driver reports what the pool returned.

use crate::rec;
use mmtk::util::linear_scan::Region;
use mmtk::util::Address;
use mmtk::verif::race::{verif_set_worker_ordinal, BlockPool};
use vcommon::*;

/// A 32 KB region type of our own; block number k <-> address BASE + k * 32 KB.
#[derive(Clone, Copy, PartialEq, PartialOrd, Debug)]
pub struct Blk(Address);
const BASE: usize = 1 << 40;
impl Region for Blk {
    const LOG_BYTES: usize = 15;
    fn from_aligned_address(address: Address) -> Self {
        assert!(address.is_aligned_to(Self::BYTES));
        Blk(address)
    }
    fn start(&self) -> Address {
        self.0
    }
}
fn blk(k: usize) -> Blk {
    Blk::from_aligned_address(unsafe { Address::from_usize(BASE + (k << 15)) })
}
fn num(b: Blk) -> i64 {
    ((b.start().as_usize() - BASE) >> 15) as i64
}

struct Pool(BlockPool<Blk>);
unsafe impl Sync for Pool {}

struct Hist {
    pool: Pool,
    ops: Vec<String>,
    iters: Vec<String>,
    free: Vec<usize>, // block numbers not in the pool, lowest last
    next: usize,
}
impl Hist {
    fn new(nw: usize) -> Self {
        Hist { pool: Pool(BlockPool::new(nw)), ops: vec![], iters: vec![], free: vec![], next: 1 }
    }
    fn fresh(&mut self) -> usize {
        if let Some(k) = self.free.pop() {
            k
        } else {
            self.next += 1;
            self.next - 1
        }
    }
    fn push(&mut self, w: usize) {
        let k = self.fresh();
        verif_set_worker_ordinal(w);
        self.pool.0.push(blk(k));
        self.ops.push(format!("[\"push\",{},{}]", w, k));
    }
    fn pop(&mut self) -> bool {
        let r = self.pool.0.pop();
        match r {
            Some(b) => {
                self.ops.push(format!("[\"pop\",0,{}]", num(b)));
                if num(b) >= 1 {
                    self.free.push(num(b) as usize);
                }
                true
            }
            None => {
                self.ops.push("[\"pop\",0,-1]".to_string());
                false
            }
        }
    }
    fn flush(&mut self) {
        self.pool.0.flush_all();
        self.ops.push("[\"flush\",0,0]".to_string());
    }
    fn len(&mut self) {
        self.ops.push(format!("[\"len\",0,{}]", self.pool.0.len()));
    }
    fn iter(&mut self) {
        let mut v = vec![];
        self.pool.0.iterate_blocks(&mut |b| v.push(num(b)));
        self.iters.push(json_ints(v));
        self.ops.push(format!("[\"iter\",0,{}]", self.iters.len()));
    }
    fn addg(&mut self, n: usize) {
        let ks: Vec<usize> = (0..n).map(|_| self.fresh()).collect();
        let bs: Vec<Blk> = ks.iter().map(|k| blk(*k)).collect();
        self.pool.0.verif_add_global_arrays(&bs);
        self.iters.push(json_ints(ks.iter().map(|k| *k as i64)));
        self.ops.push(format!("[\"addg\",0,{}]", self.iters.len()));
    }
    fn epilogue(&mut self, bound: usize) {
        self.len();
        self.iter();
        self.flush();
        let mut n = 0;
        while self.pop() {
            n += 1;
            if n > bound {
                break; // a pool that never runs dry: the row shows the repeated blocks
            }
        }
        self.len();
    }
    fn row(&self, nw: usize, kind: &str) -> String {
        Obj::new("Hist")
            .str("kind", kind)
            .int("nw", nw as i64)
            .json("ops", &json_array(self.ops.iter().cloned()))
            .json("iters", &json_array(self.iters.iter().cloned()))
            .finish()
    }
}

fn one_history(nw: usize, kind: &str, body: impl FnOnce(&mut Hist) + std::panic::UnwindSafe) -> String {
    // the history object lives outside catch_unwind so that a panic leaves the prefix
    let mut h = Hist::new(nw);
    let hp = &mut h as *mut Hist as usize;
    let res = catch(move || {
        let h = unsafe { &mut *(hp as *mut Hist) };
        body(h);
        let bound = h.next + 8;
        h.epilogue(bound);
    });
    match res {
        Ok(()) => h.row(nw, kind),
        Err(msg) => Obj::new("Crash")
            .str("msg", &msg.chars().take(300).collect::<String>())
            .str("kind", kind)
            .json("ops", &json_array(h.ops.iter().cloned()))
            .finish(),
    }
}

fn exhaustive(trace: &Trace, maxlen: usize) -> u64 {
    // alphabet: 0 = push by worker 0, 1 = push by worker 1, 2 = pop, 3 = flush_all
    let mut count = 0;
    let mut word: Vec<u8> = vec![];
    fn rec_(trace: &Trace, word: &mut Vec<u8>, maxlen: usize, count: &mut u64) {
        let w = word.clone();
        trace.push(one_history(2, "exhaustive", move |h| {
            for c in &w {
                match c {
                    0 => h.push(0),
                    1 => h.push(1),
                    2 => {
                        h.pop();
                    }
                    _ => h.flush(),
                }
            }
        }));
        *count += 1;
        if word.len() < maxlen {
            for c in 0..4u8 {
                word.push(c);
                rec_(trace, word, maxlen, count);
                word.pop();
            }
        }
    }
    rec_(trace, &mut word, maxlen, &mut count);
    count
}

fn random_history(trace: &Trace, rng: &mut Rng, cap: usize) {
    let nw = rng.range(1, 4) as usize;
    let nops = rng.range(6, 28) as usize;
    let overflow_at = if rng.chance(2, 3) { rng.below(nops as u64) as usize } else { usize::MAX };
    let seed = rng.next();
    trace.push(one_history(nw, "random", move |h| {
        let mut g = Rng::new(seed);
        for i in 0..nops {
            match if i == overflow_at { 0 } else { g.below(20) } {
                0..=7 => {
                    // a burst of pushes by one worker; one burst per history is long enough to
                    // overflow the worker's local queue (capacity 256)
                    let w = g.below(nw as u64) as usize;
                    let n = if i == overflow_at { g.range(cap as u64 - 3, cap as u64 + 40) } else { g.range(1, 12) };
                    for _ in 0..n {
                        h.push(w);
                    }
                }
                8..=13 => {
                    for _ in 0..g.range(1, 30) {
                        h.pop();
                    }
                }
                14..=15 => h.flush(),
                16 => h.len(),
                17 => h.iter(),
                _ => {
                    let n = if g.chance(1, 8) { g.range(cap as u64 - 2, cap as u64 + 5) } else { g.range(1, 20) };
                    h.addg(n as usize);
                }
            }
        }
    }));
}

fn batch(trace: &Trace, rng: &mut Rng, seed: u64, id: u64, cap: usize) {
    let nw = rng.range(1, 3) as usize;
    let np = rng.range(1, 3) as usize;
    let pool = Pool(BlockPool::new(nw));
    let pool = &pool;
    let mut next = 1usize;
    // pre-fill
    let npre = match rng.below(4) {
        0 => 0,
        1 => rng.range(cap as u64 - 4, cap as u64 + 30) as usize,
        _ => rng.range(1, 80) as usize,
    };
    let pre: Vec<usize> = (0..npre).map(|i| next + i).collect();
    next += npre;
    if rng.chance(1, 2) {
        pool.0.verif_add_global_arrays(&pre.iter().map(|k| blk(*k)).collect::<Vec<_>>());
    } else {
        for (i, k) in pre.iter().enumerate() {
            verif_set_worker_ordinal(i % nw);
            pool.0.push(blk(*k));
        }
        pool.0.flush_all();
    }
    let big = if rng.chance(1, 2) { rng.below(nw as u64) as usize } else { usize::MAX };
    let push_lists: Vec<Vec<usize>> = (0..nw)
        .map(|w| {
            let n = if w == big { rng.range(cap as u64 - 5, cap as u64 + 40) } else { rng.range(0, 60) } as usize;
            let v: Vec<usize> = (0..n).map(|i| next + i).collect();
            next += n;
            v
        })
        .collect();
    let pop_attempts: Vec<usize> = (0..np).map(|_| rng.range(0, 400) as usize).collect();
    let lineup = rec::LineUp::new();
    let n = nw + np;
    let res: Result<(Vec<Vec<i64>>, Vec<i64>, usize, Vec<i64>, usize), String> = catch(std::panic::AssertUnwindSafe(|| {
        let popped: Vec<Vec<i64>> = std::thread::scope(|sc| {
            let mut pushers = vec![];
            for (w, list) in push_lists.iter().enumerate() {
                let lineup = &lineup;
                pushers.push(sc.spawn(move || {
                    verif_set_worker_ordinal(w);
                    rec::seed_delays(seed, id, w as u64 + 1);
                    lineup.wait(n);
                    for k in list {
                        pool.0.push(blk(*k));
                    }
                }));
            }
            let mut poppers = vec![];
            for (p, attempts) in pop_attempts.iter().enumerate() {
                let lineup = &lineup;
                poppers.push(sc.spawn(move || {
                    rec::seed_delays(seed, id, 100 + p as u64);
                    lineup.wait(n);
                    let mut got = vec![];
                    for _ in 0..*attempts {
                        if let Some(b) = pool.0.pop() {
                            got.push(num(b));
                        }
                    }
                    got
                }));
            }
            let msg = |e: Box<dyn std::any::Any + Send>| -> String {
                if let Some(s) = e.downcast_ref::<&str>() {
                    s.to_string()
                } else if let Some(s) = e.downcast_ref::<String>() {
                    s.clone()
                } else {
                    "panic".to_string()
                }
            };
            let mut failed: Option<String> = None;
            for h in pushers {
                if let Err(e) = h.join() {
                    failed.get_or_insert(format!("push: {}", msg(e)));
                }
            }
            let mut got = vec![];
            for h in poppers {
                match h.join() {
                    Ok(g) => got.push(g),
                    Err(e) => {
                        failed.get_or_insert(format!("pop: {}", msg(e)));
                    }
                }
            }
            if let Some(f) = failed {
                panic!("{}", f);
            }
            got
        });
        let len_mid = pool.0.len();
        let mut iter_mid = vec![];
        pool.0.iterate_blocks(&mut |b| iter_mid.push(num(b)));
        pool.0.flush_all();
        let mut drained = vec![];
        let bound = next + 8;
        while let Some(b) = pool.0.pop() {
            drained.push(num(b));
            if drained.len() > bound {
                break;
            }
        }
        (popped, iter_mid, len_mid, drained, pool.0.len())
    }));
    match res {
        Ok((popped, iter_mid, len_mid, drained, len_end)) => trace.push(
            Obj::new("Batch")
                .int("id", id as i64)
                .int("nw", nw as i64)
                .int("np", np as i64)
                .ints("pre", pre.iter().map(|k| *k as i64))
                .json("pushed", &json_array(push_lists.iter().map(|l| json_ints(l.iter().map(|k| *k as i64)))))
                .json("popped", &json_array(popped.iter().map(|l| json_ints(l.iter().copied()))))
                .int("len_mid", len_mid as i64)
                .ints("iter_mid", iter_mid)
                .ints("drained", drained)
                .int("len_end", len_end as i64)
                .finish(),
        ),
        Err(msg) => trace.push(
            Obj::new("Crash").str("msg", &msg.chars().take(300).collect::<String>()).str("kind", "batch").int("id", id as i64).finish(),
        ),
    }
}

pub fn run() {
    let out = arg_or("out", "pool.ndjson");
    let maxlen = arg_u64("maxlen", 5) as usize;
    let nrandom = arg_u64("random", 100);
    let nbatch = arg_u64("batches", 100);
    let seed = seed_from_env();
    let cap = BlockPool::<Blk>::VERIF_CAPACITY;
    let trace = Trace::new();
    std::panic::set_hook(Box::new(|_| {}));
    let nex = exhaustive(&trace, maxlen);
    let mut rng = Rng::new(seed ^ 0xC19);
    for _ in 0..nrandom {
        random_history(&trace, &mut rng, cap);
    }
    rec::install_perturbation();
    for id in 0..nbatch {
        batch(&trace, &mut rng, seed, id, cap);
    }
    let n = trace.write_to(&out).expect("write trace");
    println!("pool: capacity {} exhaustive histories {} (maxlen {}), random {}, batches {} -> {} lines", cap, nex, maxlen, nrandom, nbatch, n);
}
