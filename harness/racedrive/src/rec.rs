//! Thin layer over the per-thread recorder hook `mmtk::util::metadata::verif_steps`: harness-level
//! steps, the schedule-perturbation hook, a start line-up for racing threads, and the naming of
//! metadata fields.

use mmtk::util::metadata::MetadataSpec;
use mmtk::verif::race::verif_steps as vs;
use std::cell::RefCell;
use std::sync::atomic::{AtomicUsize, Ordering};
use vcommon::Rng;

pub use vs::Step;

pub const OP_LOAD: u8 = 0;
pub const OP_STORE: u8 = 1;
pub const OP_CAS: u8 = 2;
/// `ObjectModel::copy` ran: obj = from, a = destination address
pub const OP_COPY: u8 = 16;
/// the caller's decision "pinned or copy space exhausted": a = 0/1
pub const OP_DECIDE: u8 = 17;
/// the traced function returned: a = returned value (reference address, or 0/1 for booleans)
pub const OP_RET: u8 = 18;

pub fn push(op: u8, obj: usize, a: u64) {
    vs::push(Step { op, side: false, loc: 0, bits: 0, obj, a, b: 0, r: 0, ok: true, masked: false });
}
pub fn start() {
    vs::start()
}
pub fn stop() -> Vec<Step> {
    vs::stop()
}

/// (side?, loc, bits) identity of a spec as the recorder reports it.
pub fn ident(spec: &MetadataSpec) -> (bool, isize, usize) {
    match spec {
        MetadataSpec::OnSide(s) => (true, s.offset as isize, 1usize << s.log_num_of_bits),
        MetadataSpec::InHeader(h) => (false, h.bit_offset, h.num_of_bits),
    }
}
pub fn is_spec(step: &Step, spec: &MetadataSpec) -> bool {
    step.op < 16 && ident(spec) == (step.side, step.loc, step.bits)
}

thread_local! {
    static DELAY_RNG: RefCell<Rng> = RefCell::new(Rng::new(1));
}
/// Seed the calling thread's perturbation stream (seed, round, thread).
pub fn seed_delays(seed: u64, round: u64, thread: u64) {
    DELAY_RNG.with(|r| *r.borrow_mut() = Rng::new(seed ^ round.wrapping_mul(0x9E37_79B9) ^ (thread << 56)));
}
/// Install the schedule-perturbation hook: at every recorded atomic operation (site "meta.op")
/// and around `ObjectModel::copy` the thread does nothing (most often), yields, or spins for a
/// pseudo-random number of iterations.
pub fn install_perturbation() {
    mmtk::verif::install_sync_hook(Box::new(|_site, _id| {
        let x = DELAY_RNG.with(|r| r.borrow_mut().next());
        match x % 16 {
            0..=8 => {}
            9..=11 => std::thread::yield_now(),
            12..=14 => {
                for _ in 0..((x >> 8) % 400) {
                    std::hint::spin_loop();
                }
            }
            _ => {
                for _ in 0..((x >> 8) % 6000) {
                    std::hint::spin_loop();
                }
            }
        }
    }));
}

/// Line-up: every racing thread calls this right before its racing code; returns once `n`
/// threads have arrived (spin, then yield).
pub struct LineUp {
    arrived: AtomicUsize,
}
impl LineUp {
    pub const fn new() -> Self {
        LineUp { arrived: AtomicUsize::new(0) }
    }
    pub fn reset(&self) {
        self.arrived.store(0, Ordering::SeqCst);
    }
    pub fn wait(&self, n: usize) {
        self.arrived.fetch_add(1, Ordering::SeqCst);
        let mut i = 0u32;
        while self.arrived.load(Ordering::SeqCst) < n {
            i += 1;
            if i > 2000 {
                std::thread::yield_now();
            } else {
                std::hint::spin_loop();
            }
        }
    }
}
