//! C18: real threads race the real mark / log / pin transition functions on real objects.
//!   mark : MarkState::test_and_mark, ImmixSpace::attempt_mark (hook immix_hooks::attempt_mark)
//!   los  : LargeObjectSpace::test_and_mark (hook los_hooks::test_and_mark), both GC kinds
//!   log  : ObjectBarrier::log_object (hook ObjectBarrier::verif_log_object)
//!   pin / unpin : VMLocalPinningBitSpec::{pin_object, unpin_object}
//!   set  : VMLocalMarkBitSpec::mark, VMGlobalLogBitSpec::{mark_as_unlogged, clear} (plain stores,
//!          used as concurrent updates of a neighbouring field)
//! A round picks 1..3 metadata fields (object x spec), some of which share a metadata byte, and
//! 2..4 threads; every thread performs one transition on its field. Rows: see
//! spec/metacas/Trace_MetaCAS.tla. The driver reports, it never judges.

use crate::rec::{self, Step};
use crate::vm::*;
use crate::world::{self, World, K, MAX_THREADS};
use mmtk::util::metadata::MetadataSpec;
use mmtk::util::ObjectReference;
use mmtk::verif::race as mr;
use mmtk::vm::{ObjectModel, VMBinding};
use std::sync::atomic::Ordering;
use vcommon::*;

/// A barrier semantics that does nothing: only `ObjectBarrier::log_object` is of interest.
pub struct NoSem<const V: u32>;
impl<const V: u32> mr::BarrierSemantics for NoSem<V> {
    type VM = RaceVM<V>;
    fn flush(&mut self) {}
    fn object_reference_write_slow(
        &mut self,
        _src: ObjectReference,
        _slot: <RaceVM<V> as VMBinding>::VMSlot,
        _target: Option<ObjectReference>,
    ) {
    }
    fn memory_region_copy_slow(
        &mut self,
        _src: <RaceVM<V> as VMBinding>::VMMemorySlice,
        _dst: <RaceVM<V> as VMBinding>::VMMemorySlice,
    ) {
    }
}

#[derive(Clone, Copy, PartialEq, Eq, Debug)]
enum Kind {
    Mark,
    Los,
    Log,
    Pin,
    Unpin,
    SetMark,
    SetLog,
}
impl Kind {
    fn name(self) -> &'static str {
        match self {
            Kind::Mark => "mark",
            Kind::Los => "los",
            Kind::Log => "log",
            Kind::Pin => "pin",
            Kind::Unpin => "unpin",
            Kind::SetMark | Kind::SetLog => "set",
        }
    }
}

#[derive(Clone)]
struct Field {
    kind: Kind,
    obj: ObjectReference,
    spec: MetadataSpec,
    init: u8,
    tv: u8,
    mask: u8,
}

fn spec_of<const V: u32>(k: Kind) -> MetadataSpec {
    match k {
        Kind::Mark | Kind::SetMark => *OM::<V>::LOCAL_MARK_BIT_SPEC.as_spec(),
        Kind::Los => *OM::<V>::LOCAL_LOS_MARK_NURSERY_SPEC.as_spec(),
        Kind::Log | Kind::SetLog => *OM::<V>::GLOBAL_LOG_BIT_SPEC.as_spec(),
        Kind::Pin | Kind::Unpin => *OM::<V>::LOCAL_PINNING_BIT_SPEC.as_spec(),
    }
}

/// The transition a thread performs; `alt` selects between equivalent entry points.
fn perform<const V: u32>(w: &World<V>, f: &Field, alt: bool, barrier: &mr::ObjectBarrier<NoSem<V>>) -> u64 {
    let o = f.obj;
    match f.kind {
        Kind::Mark => {
            // MarkState marks with 1 (side) / its current state (header); attempt_mark takes the
            // state as an argument. MarkState is only usable when the target is its state.
            if alt && f.tv == 1 {
                mr::MarkState::new().test_and_mark::<RaceVM<V>>(o) as u64
            } else if alt && OM::<V>::LOCAL_MARK_BIT_SPEC.is_in_header() {
                let mut ms = mr::MarkState::new();
                ms.on_global_release::<RaceVM<V>>(); // header mark bit: the state flips to 0
                ms.test_and_mark::<RaceVM<V>>(o) as u64
            } else {
                mr::immix_hooks::attempt_mark(w.mmtk, o, f.tv).expect("no ImmixSpace") as u64
            }
        }
        Kind::Los => mr::los_hooks::test_and_mark(w.mmtk, o, f.tv).expect("no LOS") as u64,
        Kind::Log => barrier.verif_log_object(o) as u64,
        Kind::Pin => OM::<V>::LOCAL_PINNING_BIT_SPEC.pin_object::<RaceVM<V>>(o) as u64,
        Kind::Unpin => OM::<V>::LOCAL_PINNING_BIT_SPEC.unpin_object::<RaceVM<V>>(o) as u64,
        Kind::SetMark => {
            // tv is 1
            OM::<V>::LOCAL_MARK_BIT_SPEC.mark::<RaceVM<V>>(o, Ordering::SeqCst);
            0
        }
        Kind::SetLog => {
            if f.tv == 1 {
                OM::<V>::GLOBAL_LOG_BIT_SPEC.mark_as_unlogged::<RaceVM<V>>(o, Ordering::SeqCst);
            } else {
                OM::<V>::GLOBAL_LOG_BIT_SPEC.clear::<RaceVM<V>>(o, Ordering::SeqCst);
            }
            0
        }
    }
}

pub fn run<const V: u32>() {
    let out = arg_or("out", "cas.ndjson");
    let rounds = arg_u64("rounds", 1000);
    let nt = (arg_u64("threads", 4) as usize).clamp(2, MAX_THREADS);
    let seed = seed_from_env();
    let w = world::boot::<V>();
    let w = &w;
    for k in [Kind::Mark, Kind::Log, Kind::Pin] {
        for o in &w.objs {
            world::check_location::<V>(&spec_of::<V>(k), *o);
        }
    }
    for o in &w.los {
        world::check_location::<V>(&spec_of::<V>(Kind::Los), *o);
    }
    rec::install_perturbation();
    let mut rng = Rng::new(seed ^ 0xC18);
    let trace = Trace::new();
    trace.push(Obj::new("Cfg").str("layout", variant_name(V)).int("nt", nt as i64).finish());
    let lineup = rec::LineUp::new();
    let barrier = mr::ObjectBarrier::new(NoSem::<V>);
    let barrier = &barrier;
    let (mut contended, mut shared, mut rows) = (0u64, 0u64, 0u64);
    let small_kinds = [Kind::Mark, Kind::Mark, Kind::Log, Kind::Log, Kind::Pin, Kind::Pin, Kind::Unpin, Kind::SetMark, Kind::SetLog];
    for round in 0..rounds {
        let n = rng.range(2, nt as u64) as usize;
        let nf = match rng.below(10) {
            0..=3 => 1,
            4..=8 => 2,
            _ => 3,
        }
        .min(n);
        let nursery = rng.chance(1, 2);
        // pick distinct fields; prefer neighbours: the K small objects are adjacent
        let mut fields: Vec<Field> = vec![];
        let mut guard = 0;
        let want_shared = rng.chance(2, 3);
        while fields.len() < nf {
            guard += 1;
            assert!(guard < 100000);
            let (kind, obj) = if rng.chance(1, 6) {
                (Kind::Los, w.los[rng.below(w.los.len() as u64) as usize])
            } else {
                (*rng.pick(&small_kinds), w.objs[rng.below(K as u64) as usize])
            };
            let spec = spec_of::<V>(kind);
            if fields.iter().any(|f| f.obj == obj && rec::ident(&f.spec) == rec::ident(&spec)) {
                continue;
            }
            // two out of three times insist on a field that shares a metadata byte with one
            // already chosen (neighbouring objects on the side, neighbouring header bits)
            if !fields.is_empty() && want_shared && guard < 400 {
                let b = world::locate::<V>(&spec, obj).0;
                if !fields.iter().any(|f| world::locate::<V>(&f.spec, f.obj).0 == b) {
                    continue;
                }
            }
            let (init, tv, mask) = match kind {
                Kind::Los => (rng.below(4) as u8, rng.below(2) as u8, if nursery { 3 } else { 1 }),
                Kind::Mark => (rng.below(2) as u8, rng.below(2) as u8, 0),
                Kind::SetMark => (rng.below(2) as u8, 1, 0),
                Kind::SetLog => (rng.below(2) as u8, rng.below(2) as u8, 0),
                _ => (rng.below(2) as u8, 0, 0),
            };
            fields.push(Field { kind, obj, spec, init, tv, mask });
        }
        // threads -> fields (every field gets at least one thread)
        let mut fo: Vec<usize> = (0..n).map(|t| if t < nf { t } else { rng.below(nf as u64) as usize }).collect();
        for i in (1..n).rev() {
            let j = rng.below(i as u64 + 1) as usize;
            fo.swap(i, j);
        }
        let alts: Vec<bool> = (0..n).map(|_| rng.chance(1, 2)).collect();
        // bytes
        let locs: Vec<(usize, usize, usize)> = fields.iter().map(|f| world::locate::<V>(&f.spec, f.obj)).collect();
        let mut byte_ids: Vec<usize> = vec![];
        let mut seen: Vec<usize> = vec![];
        for l in &locs {
            let id = match seen.iter().position(|b| *b == l.0) {
                Some(p) => p + 1,
                None => {
                    seen.push(l.0);
                    seen.len()
                }
            };
            byte_ids.push(id);
        }
        if seen.len() < fields.len() {
            shared += 1;
        }
        unsafe { mr::los_hooks::set_in_nursery_gc(w.mmtk, nursery) };
        for f in &fields {
            f.spec.store_atomic::<RaceVM<V>, u8>(f.obj, f.init, None, Ordering::SeqCst);
        }
        lineup.reset();
        let logs: Vec<Vec<Step>> = std::thread::scope(|sc| {
            let hs: Vec<_> = (0..n)
                .map(|ti| {
                    let fields = &fields;
                    let fo = &fo;
                    let alts = &alts;
                    let lineup = &lineup;
                    sc.spawn(move || {
                        rec::seed_delays(seed, round, ti as u64 + 1);
                        let f = &fields[fo[ti]];
                        lineup.wait(n);
                        rec::start();
                        let r = perform::<V>(w, f, alts[ti], barrier);
                        rec::push(rec::OP_RET, f.obj.to_raw_address().as_usize(), r);
                        rec::stop()
                    })
                })
                .collect();
            hs.into_iter().map(|h| h.join().expect("racing thread panicked")).collect()
        });
        let small = |x: u64| if x < 1 << 20 { x as i64 } else { -9 };
        let mut any_fail = false;
        let logs_json = json_array(logs.iter().enumerate().map(|(ti, log)| {
            let own = fo[ti] + 1;
            json_array(log.iter().map(|s| {
                let fidx = if s.op >= 16 {
                    own as i64
                } else {
                    fields
                        .iter()
                        .position(|f| f.obj.to_raw_address().as_usize() == s.obj && rec::is_spec(s, &f.spec))
                        .map(|p| p as i64 + 1)
                        .unwrap_or(0)
                };
                match s.op {
                    rec::OP_LOAD => format!("[\"ld\",{},{},0,0]", fidx, small(s.r)),
                    rec::OP_STORE => format!("[\"st\",{},{},0,0]", fidx, small(s.a)),
                    rec::OP_CAS => {
                        if !s.ok {
                            any_fail = true;
                        }
                        format!("[\"cas\",{},{},{},{}]", fidx, small(s.a), small(s.b), s.ok as i64)
                    }
                    rec::OP_RET => format!("[\"ret\",{},{},0,0]", fidx, small(s.a)),
                    _ => format!("[\"unknown\",{},0,0,0]", fidx),
                }
            }))
        }));
        contended += any_fail as u64;
        let finals: Vec<i64> = fields.iter().map(|f| f.spec.load_atomic::<RaceVM<V>, u8>(f.obj, None, Ordering::SeqCst) as i64).collect();
        let sc = Obj::raw("")
            .strs("kind", fields.iter().map(|f| f.kind.name()))
            .json("sub", &json_array(locs.iter().map(|l| (l.2 < 8).to_string())))
            .ints("init", fields.iter().map(|f| f.init as i64))
            .ints("tv", fields.iter().map(|f| f.tv as i64))
            .ints("mask", fields.iter().map(|f| f.mask as i64))
            .ints("byte", byte_ids.iter().map(|b| *b as i64))
            .ints("fo", fo.iter().map(|f| *f as i64 + 1))
            .finish();
        trace.push(
            Obj::new("Cas")
                .int("round", round as i64)
                .json("sc", &sc)
                .json("where", &json_array(locs.iter().zip(fields.iter()).map(|(l, f)| {
                    format!("\"{}@{}:{}\"", f.kind.name(), (l.0 & 0xfff), l.1)
                })))
                .json("logs", &logs_json)
                .ints("final", finals)
                .finish(),
        );
        rows += 1;
    }
    trace.push(
        Obj::new("Stats").int("rows", rows as i64).int("contended", contended as i64).int("shared_byte", shared as i64).finish(),
    );
    let n = trace.write_to(&out).expect("write trace");
    println!("cas: layout {} rounds {} contended {} shared-byte rounds {} -> {} lines", variant_name(V), rounds, contended, shared, n);
}
