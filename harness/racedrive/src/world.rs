//! Process set-up shared by the `fwd` and `cas` drivers: a real MMTK instance (plan Immix) for
//! `RaceVM<V>`, real objects allocated through the real allocators, side metadata mapped for
//! every spec of the VM, and the location (byte, shift) of a metadata field in raw memory.

use crate::vm::*;
use mmtk::util::metadata::side_metadata::verif_sidemeta as hk;
use mmtk::util::metadata::MetadataSpec;
use mmtk::util::opaque_pointer::*;
use mmtk::util::{Address, ObjectReference};
use mmtk::vm::ObjectModel;
use mmtk::{memory_manager, AllocationSemantics, Mutator, MMTK};
use std::sync::atomic::Ordering;

/// Adjacent 16-byte objects; the first one is 64-byte aligned, so for V = 0 all `K` objects
/// share one side metadata byte per 1-bit spec and pairs share a byte of the 2-bit specs.
pub const K: usize = 4;
pub const MAX_THREADS: usize = 4;

pub struct World<const V: u32> {
    pub mmtk: &'static MMTK<RaceVM<V>>,
    /// kept alive for the lifetime of the process (the allocator state lives in it)
    pub _mutator: *mut Mutator<RaceVM<V>>,
    /// the K adjacent small objects (default space = the plan's ImmixSpace)
    pub objs: Vec<ObjectReference>,
    /// two objects in the large object space
    pub los: Vec<ObjectReference>,
    /// to-space: slot of (thread t in 1..=MAX_THREADS, object j) = to_base + ((t-1)*K + j) * 16
    pub to_base: usize,
    _to_space: Vec<u64>,
}
unsafe impl<const V: u32> Sync for World<V> {}

pub fn addr(a: usize) -> Address {
    unsafe { Address::from_usize(a) }
}

pub fn all_specs<const V: u32>() -> Vec<MetadataSpec> {
    vec![
        *OM::<V>::GLOBAL_LOG_BIT_SPEC.as_spec(),
        *OM::<V>::LOCAL_FORWARDING_POINTER_SPEC.as_spec(),
        *OM::<V>::LOCAL_FORWARDING_BITS_SPEC.as_spec(),
        *OM::<V>::LOCAL_MARK_BIT_SPEC.as_spec(),
        *OM::<V>::LOCAL_PINNING_BIT_SPEC.as_spec(),
        *OM::<V>::LOCAL_LOS_MARK_NURSERY_SPEC.as_spec(),
    ]
}

pub fn boot<const V: u32>() -> World<V> {
    let mut builder = mmtk::MMTKBuilder::new_no_env_vars();
    assert!(builder.set_option("plan", "Immix"));
    assert!(builder.set_option("threads", "1"));
    assert!(builder.set_option("gc_trigger", "FixedHeapSize:512m"));
    let m: &'static MMTK<RaceVM<V>> = Box::leak(memory_manager::mmtk_init::<RaceVM<V>>(&builder));
    // No initialize_collection: no GC thread exists and no GC is ever requested.
    let tls = VMMutatorThread(VMThread(OpaquePointer::from_address(addr(8))));
    let mutator = Box::into_raw(memory_manager::bind_mutator(m, tls));
    let mu = unsafe { &mut *mutator };
    let mut objs = vec![];
    let first = memory_manager::alloc(mu, OBJ_BYTES, 64, 0, AllocationSemantics::Default);
    assert!(!first.is_zero() && first.is_aligned_to(64));
    objs.push(first);
    for _ in 1..K {
        let a = memory_manager::alloc(mu, OBJ_BYTES, 8, 0, AllocationSemantics::Default);
        objs.push(a);
    }
    for (j, a) in objs.iter().enumerate() {
        assert_eq!(*a, first + j * OBJ_BYTES, "race objects are not adjacent");
        unsafe { std::ptr::write_bytes(a.to_mut_ptr::<u8>(), 0, OBJ_BYTES) };
    }
    let objs: Vec<ObjectReference> = objs.iter().map(|a| ObjectReference::from_raw_address(*a).unwrap()).collect();
    for o in &objs {
        memory_manager::post_alloc(mu, *o, OBJ_BYTES, AllocationSemantics::Default);
    }
    let mut los = vec![];
    for _ in 0..2 {
        let a = memory_manager::alloc(mu, 1 << 16, 8, 0, AllocationSemantics::Los);
        assert!(!a.is_zero());
        unsafe { std::ptr::write_bytes(a.to_mut_ptr::<u8>(), 0, 64) };
        let o = ObjectReference::from_raw_address(a).unwrap();
        memory_manager::post_alloc(mu, o, 1 << 16, AllocationSemantics::Los);
        los.push(o);
    }
    // Make sure the side metadata of EVERY spec of the VM is mapped for the pages of the race
    // objects (a space only maps the specs it uses itself; plan Immix does not use the log bit).
    let side: Vec<_> = all_specs::<V>()
        .iter()
        .filter_map(|s| if let MetadataSpec::OnSide(x) = s { Some(*x) } else { None })
        .collect();
    if !side.is_empty() {
        for o in objs.iter().chain(los.iter()) {
            let page = o.to_raw_address().align_down(4096);
            hk::map_metadata(&side, page, 4096).expect("map side metadata");
        }
    }
    OBJ_BASE.store(first.as_usize(), Ordering::SeqCst);
    let words = MAX_THREADS * K * OBJ_BYTES / 8 + 16;
    let to_space: Vec<u64> = vec![0; words];
    let to_base = (to_space.as_ptr() as usize + 63) & !63;
    World { mmtk: m, _mutator: mutator, objs, los, to_base, _to_space: to_space }
}

impl<const V: u32> World<V> {
    /// to-space slot of thread `t` (1-based) for object `j`
    pub fn slot(&self, t: usize, j: usize) -> usize {
        self.to_base + ((t - 1) * K + j) * OBJ_BYTES
    }
    /// Reference projection used in traces: 0 = the object itself, t = thread t's copy of it,
    /// -1 = anything else.
    pub fn proj(&self, j: usize, a: usize) -> i64 {
        if a == self.objs[j].to_raw_address().as_usize() {
            return 0;
        }
        for t in 1..=MAX_THREADS {
            if a == self.slot(t, j) {
                return t as i64;
            }
        }
        -1
    }
}

/// Where a field of `spec` for object `o` lives in raw memory: (byte address, shift, width).
/// Only used to decide which fields of a round share a metadata byte and for the start-up
/// self-check `check_location` (the raced code never sees this).
pub fn locate<const V: u32>(spec: &MetadataSpec, o: ObjectReference) -> (usize, usize, usize) {
    match spec {
        MetadataSpec::OnSide(s) => {
            let d = o.to_raw_address().as_usize();
            let lb = s.log_num_of_bits;
            let r = d >> s.log_bytes_in_region;
            assert!(lb <= 3);
            let byte = s.get_starting_address().as_usize() + (r >> (3 - lb));
            let shift = (r & ((8usize >> lb) - 1)) << lb;
            (byte, shift, 1 << lb)
        }
        MetadataSpec::InHeader(h) => {
            let hdr = OM::<V>::ref_to_header(o).as_usize() as isize;
            let byte = hdr + h.bit_offset.div_euclid(8);
            (byte as usize, h.bit_offset.rem_euclid(8) as usize, h.num_of_bits)
        }
    }
}

/// Self-check of `locate` against the real accessors: store all-ones / zero through the spec and
/// look at the raw byte. A mismatch is an error of the harness (exit code 3), not a finding.
pub fn check_location<const V: u32>(spec: &MetadataSpec, o: ObjectReference) {
    let (byte, shift, width) = locate::<V>(spec, o);
    if width >= 8 {
        return;
    }
    let ones = (1u8 << width) - 1;
    let before = unsafe { (byte as *const u8).read_volatile() };
    spec.store_atomic::<RaceVM<V>, u8>(o, ones, None, Ordering::SeqCst);
    let mid = unsafe { (byte as *const u8).read_volatile() };
    spec.store_atomic::<RaceVM<V>, u8>(o, 0, None, Ordering::SeqCst);
    let after = unsafe { (byte as *const u8).read_volatile() };
    let m = ones << shift;
    if mid & m != m || after & m != 0 || (mid & !m) != (before & !m) || (after & !m) != (before & !m) {
        eprintln!(
            "racedrive: locate() disagrees with the accessors for {:?} at {:?}: byte {:x} shift {} width {}: {:02x} -> {:02x} -> {:02x}",
            spec, o, byte, shift, width, before, mid, after
        );
        std::process::exit(3);
    }
}
