//! RaceVM: a minimal `VMBinding` for the race drivers. No GC ever runs in these processes; the
//! binding only supplies the metadata layout (the thing the raced functions are generic over)
//! and an `ObjectModel::copy` that copies into a private per-thread to-space.
//!
//! Layout variants (const generic `V`), objects are 16 bytes `[word0][word1]`, reference = start:
//!   V = 0  "side":     forwarding pointer in word0; forwarding bits, mark, pin, LOS bits and the
//!                      log bit on the side (1- and 2-bit fields of neighbouring objects share
//!                      metadata bytes)
//!   V = 1  "combined": forwarding pointer in word0 with the forwarding bits in its two low bits
//!                      (one atomic store publishes both); word1 byte0: mark (bit 0), pin (bit 1),
//!                      log (bit 2), LOS mark/nursery (bits 4-5)
//!   V = 2  "hdrsplit": word0 byte0: forwarding bits (0-1), mark (2), pin (3), log (4),
//!                      LOS (5-6); forwarding pointer in word1 (two separate stores)

use mmtk::util::copy::{CopySemantics, GCWorkerCopyContext};
use mmtk::util::opaque_pointer::*;
use mmtk::util::{Address, ObjectReference};
use mmtk::vm::*;
use mmtk::Mutator;
use std::cell::Cell;
use std::ops::Range;
use std::sync::atomic::{AtomicUsize, Ordering};

#[derive(Default)]
pub struct RaceVM<const V: u32>;

impl<const V: u32> VMBinding for RaceVM<V> {
    type VMObjectModel = OM<V>;
    type VMScanning = Scan<V>;
    type VMCollection = Coll<V>;
    type VMActivePlan = AP<V>;
    type VMReferenceGlue = RG<V>;
    type VMSlot = Address;
    type VMMemorySlice = Range<Address>;
    const MIN_ALIGNMENT: usize = 8;
    const MAX_ALIGNMENT: usize = 64;
}

pub const OBJ_BYTES: usize = 16;

thread_local! {
    /// Where this thread's `ObjectModel::copy` puts the copy of object `j`: TO_BASE + j * OBJ_BYTES.
    pub static TO_BASE: Cell<usize> = const { Cell::new(0) };
}
/// Address of the first race object (objects are `OBJ_BYTES` apart), to turn `from` into `j`.
pub static OBJ_BASE: AtomicUsize = AtomicUsize::new(0);
/// Number of `ObjectModel::copy` calls.
pub static COPIES: AtomicUsize = AtomicUsize::new(0);

pub struct OM<const V: u32>;

impl<const V: u32> ObjectModel<RaceVM<V>> for OM<V> {
    const GLOBAL_LOG_BIT_SPEC: VMGlobalLogBitSpec = match V {
        0 => VMGlobalLogBitSpec::side_first(),
        1 => VMGlobalLogBitSpec::in_header(64 + 2),
        _ => VMGlobalLogBitSpec::in_header(4),
    };
    const LOCAL_FORWARDING_POINTER_SPEC: VMLocalForwardingPointerSpec = match V {
        0 | 1 => VMLocalForwardingPointerSpec::in_header(0),
        _ => VMLocalForwardingPointerSpec::in_header(64),
    };
    const LOCAL_FORWARDING_BITS_SPEC: VMLocalForwardingBitsSpec = match V {
        0 => VMLocalForwardingBitsSpec::side_first(),
        _ => VMLocalForwardingBitsSpec::in_header(0),
    };
    const LOCAL_MARK_BIT_SPEC: VMLocalMarkBitSpec = match V {
        0 => VMLocalMarkBitSpec::side_after(Self::LOCAL_FORWARDING_BITS_SPEC.as_spec()),
        1 => VMLocalMarkBitSpec::in_header(64),
        _ => VMLocalMarkBitSpec::in_header(2),
    };
    const LOCAL_PINNING_BIT_SPEC: VMLocalPinningBitSpec = match V {
        0 => VMLocalPinningBitSpec::side_after(Self::LOCAL_MARK_BIT_SPEC.as_spec()),
        1 => VMLocalPinningBitSpec::in_header(64 + 1),
        _ => VMLocalPinningBitSpec::in_header(3),
    };
    const LOCAL_LOS_MARK_NURSERY_SPEC: VMLocalLOSMarkNurserySpec = match V {
        0 => VMLocalLOSMarkNurserySpec::side_after(Self::LOCAL_PINNING_BIT_SPEC.as_spec()),
        1 => VMLocalLOSMarkNurserySpec::in_header(64 + 4),
        _ => VMLocalLOSMarkNurserySpec::in_header(5),
    };

    const UNIFIED_OBJECT_REFERENCE_ADDRESS: bool = true;
    const OBJECT_REF_OFFSET_LOWER_BOUND: isize = 0;

    /// Copies the 16 object bytes into the calling thread's private to-space slot for this
    /// object. The copy context is not used (the race drivers own the to-space).
    fn copy(
        from: ObjectReference,
        _semantics: CopySemantics,
        _copy_context: &mut GCWorkerCopyContext<RaceVM<V>>,
    ) -> ObjectReference {
        let src = from.to_raw_address().as_usize();
        let j = (src - OBJ_BASE.load(Ordering::Relaxed)) / OBJ_BYTES;
        let dst = TO_BASE.with(|c| c.get()) + j * OBJ_BYTES;
        mmtk::verif::sync_point("copy.before", src);
        unsafe { std::ptr::copy_nonoverlapping(src as *const u8, dst as *mut u8, OBJ_BYTES) };
        COPIES.fetch_add(1, Ordering::Relaxed);
        crate::rec::push(crate::rec::OP_COPY, src, dst as u64);
        mmtk::verif::sync_point("copy.after", src);
        ObjectReference::from_raw_address(unsafe { Address::from_usize(dst) }).unwrap()
    }

    fn copy_to(_from: ObjectReference, _to: ObjectReference, _region: Address) -> Address {
        unimplemented!()
    }
    fn get_reference_when_copied_to(_from: ObjectReference, to: Address) -> ObjectReference {
        ObjectReference::from_raw_address(to).unwrap()
    }
    fn get_current_size(_object: ObjectReference) -> usize {
        OBJ_BYTES
    }
    fn get_size_when_copied(_object: ObjectReference) -> usize {
        OBJ_BYTES
    }
    fn get_align_when_copied(_object: ObjectReference) -> usize {
        8
    }
    fn get_align_offset_when_copied(_object: ObjectReference) -> usize {
        0
    }
    fn get_type_descriptor(_reference: ObjectReference) -> &'static [i8] {
        unreachable!()
    }
    fn ref_to_object_start(object: ObjectReference) -> Address {
        object.to_raw_address()
    }
    fn ref_to_header(object: ObjectReference) -> Address {
        object.to_raw_address()
    }
    fn dump_object(object: ObjectReference) {
        eprintln!("object {:?}", object);
    }
}

pub struct Scan<const V: u32>;
impl<const V: u32> Scanning<RaceVM<V>> for Scan<V> {
    fn scan_object<SV: SlotVisitor<Address>>(_tls: VMWorkerThread, _object: ObjectReference, _sv: &mut SV) {
        unimplemented!()
    }
    fn notify_initial_thread_scan_complete(_partial_scan: bool, _tls: VMWorkerThread) {}
    fn scan_roots_in_mutator_thread(
        _tls: VMWorkerThread,
        _mutator: &'static mut Mutator<RaceVM<V>>,
        _factory: impl RootsWorkFactory<Address>,
    ) {
        unimplemented!()
    }
    fn scan_vm_specific_roots(_tls: VMWorkerThread, _factory: impl RootsWorkFactory<Address>) {
        unimplemented!()
    }
    fn supports_return_barrier() -> bool {
        false
    }
    fn prepare_for_roots_re_scanning() {}
}

pub struct Coll<const V: u32>;
impl<const V: u32> Collection<RaceVM<V>> for Coll<V> {
    fn stop_all_mutators<F>(_tls: VMWorkerThread, _mutator_visitor: F)
    where
        F: FnMut(&'static mut Mutator<RaceVM<V>>),
    {
        unimplemented!("no GC in the race drivers")
    }
    fn resume_mutators(_tls: VMWorkerThread) {
        unimplemented!()
    }
    fn block_for_gc(_tls: VMMutatorThread) {
        panic!("the race drivers never collect: heap too small for the race objects?")
    }
    fn spawn_gc_thread(_tls: VMThread, _ctx: GCThreadContext<RaceVM<V>>) {
        unimplemented!()
    }
}

pub struct AP<const V: u32>;
impl<const V: u32> ActivePlan<RaceVM<V>> for AP<V> {
    fn is_mutator(_tls: VMThread) -> bool {
        true
    }
    fn mutator(_tls: VMMutatorThread) -> &'static mut Mutator<RaceVM<V>> {
        unimplemented!()
    }
    fn mutators<'a>() -> Box<dyn Iterator<Item = &'a mut Mutator<RaceVM<V>>> + 'a> {
        Box::new(std::iter::empty())
    }
    fn number_of_mutators() -> usize {
        1
    }
}

pub struct RG<const V: u32>;
impl<const V: u32> ReferenceGlue<RaceVM<V>> for RG<V> {
    type FinalizableType = ObjectReference;
    fn clear_referent(_new_reference: ObjectReference) {}
    fn get_referent(_object: ObjectReference) -> Option<ObjectReference> {
        None
    }
    fn set_referent(_reff: ObjectReference, _referent: ObjectReference) {}
    fn enqueue_references(_references: &[ObjectReference], _tls: VMWorkerThread) {}
}

pub fn variant_name(v: u32) -> &'static str {
    match v {
        0 => "side",
        1 => "combined",
        _ => "hdrsplit",
    }
}
