//! scheddrive: driver of the scheduler checks C13 (VM weak-reference rounds), C16 (fork /
//! shutdown round trip) and of the gated reproductions of two scheduler findings (C14).
//! Real MMTk + ShadowVM binding; the scheduler hooks in /repo log every protocol step. The driver
//! never judges: the trace is validated by spec/scheduler/Trace_Scheduler.tla.
//!
//!   scheddrive --plan P --variant V --workers N --mutators M --heap MB --programs K --ops L
//!              [--weak-chains k] [--weak-extra r] [--fork-cycles c] [--shutdown]
//!              [--gate f1|trylock] --out trace.ndjson

use mmtk::memory_manager;
use mmtk::util::{Address, ObjectReference};
use mmtk::{AllocationSemantics, BarrierSelector};
use shadowvm::*;
use std::sync::atomic::{AtomicBool, AtomicUsize, Ordering};
use std::sync::{Condvar, Mutex};
use std::time::{Duration, Instant};
use vcommon::*;

fn main() {
    match arg_u64("variant", 0) {
        0 => run::<0>(),
        1 => run::<1>(),
        _ => {
            eprintln!("unknown variant");
            std::process::exit(2);
        }
    }
}

struct Drv<const V: u32> {
    next_id: u64,
    barrier: BarrierSelector,
    max_non_los: usize,
    rng: Rng,
    nslots: usize,
    /// (index in the VM's weak table, key id, value id) of every entry of the current program
    chains: Vec<(usize, u64, u64)>,
}

fn root_get(m: usize, i: usize) -> usize {
    with_world(|w| w.mutators[m].roots[i])
}
fn root_set(m: usize, i: usize, v: usize) {
    with_world(|w| w.mutators[m].roots[i] = v)
}

impl<const V: u32> Drv<V> {
    /// Allocate and root one object with `nf` reference fields (0 on failure).
    fn new_object(&mut self, m: usize, slot: usize, size: usize, nf: usize) -> usize {
        let sem = if size >= self.max_non_los { AllocationSemantics::Los } else { AllocationSemantics::Default };
        let id = self.next_id;
        self.next_id += 1;
        let mu = mutator::<V>(m);
        let a = memory_manager::alloc::<ShadowVM<V>>(mu, size, 8, 0, sem);
        if a.is_zero() {
            return 0;
        }
        let s = a.as_usize();
        let h = Hdr { size, nfields: nf, log_align: 3, kind: KIND_PLAIN, off8: 0 };
        store_word(s, 0);
        store_word(s + 8, pack_hdr(&h));
        store_word(s + 16, id as usize);
        for k in 0..nf {
            store_word(s + HDR_BYTES + 8 * k, 0);
        }
        let r = ref_of_start(s);
        fill_payload(r, id);
        let o = ObjectReference::from_raw_address(unsafe { Address::from_usize(r) }).unwrap();
        memory_manager::post_alloc::<ShadowVM<V>>(mu, o, size, sem);
        root_set(m, slot, r);
        r
    }

    fn write_field(&mut self, m: usize, src: usize, k: usize, val: usize) {
        let slot = unsafe { Address::from_usize(field_addr(src, k)) };
        let src_o = ObjectReference::from_raw_address(unsafe { Address::from_usize(src) }).unwrap();
        let tgt_o = ObjectReference::from_raw_address(unsafe { Address::from_usize(val) });
        let mu = mutator::<V>(m);
        match self.barrier {
            BarrierSelector::NoBarrier => store_word(field_addr(src, k), val),
            BarrierSelector::ObjectBarrier => {
                store_word(field_addr(src, k), val);
                memory_manager::object_reference_write_post::<ShadowVM<V>>(mu, src_o, slot, tgt_o);
            }
            BarrierSelector::SATBBarrier => {
                memory_manager::object_reference_write_pre::<ShadowVM<V>>(mu, src_o, slot, tgt_o);
                store_word(field_addr(src, k), val);
            }
        }
    }

    fn gc(&mut self, m: usize, exhaustive: bool) {
        if std::env::var("SCHED_DEBUG").is_ok() {
            let t: Vec<(usize, usize)> = with_world(|w| w.weak_table.clone());
            let roots: Vec<usize> = with_world(|w| w.mutators.iter().flat_map(|x| x.roots.iter().copied().collect::<Vec<_>>()).filter(|x| *x != 0).collect());
            eprintln!("GC: table={:x?} roots={:x?}", t, roots);
            let w = walker::walk(&roots);
            for (k, v) in t.iter() {
                if *k != 0 {
                    eprintln!("   key {:x} reachable={} value {:x} reachable={}", k, w.index.contains_key(k), v, w.index.contains_key(v));
                    if w.index.contains_key(k) && !roots.contains(k) {
                        for n in w.nodes.iter() {
                            if n.fields.contains(k) {
                                eprintln!("      referrer {:x} id {} size {} nf {} rooted={}", n.r, n.id, n.size, n.fields.len(), roots.contains(&n.r));
                            }
                        }
                    }
                }
            }
        }
        ev(Obj::new("GCRequest").int("m", m as i64).bool("exhaustive", exhaustive));
        mmtk::<V>().handle_user_collection_request(mutator_tls(m), true, exhaustive);
        ev(Obj::new("GCReturn").int("m", m as i64));
        self.weak_report();
    }

    /// C13 ("objects it traced survive with updated addresses"): what the VM's weak table holds
    /// after a collection. For every entry created by `weak_chain` that is still present: the
    /// identity words read through the table's key and value references, the identities the entry
    /// was created with, and - when some root still refers to the key object - that root's value
    /// (MMTk updated the root slot itself; the table was updated by the VM through the tracer).
    /// The specification compares; nothing is judged here.
    fn weak_report(&mut self) {
        if self.chains.is_empty() {
            return;
        }
        let table: Vec<(usize, usize)> = with_world(|w| w.weak_table.clone());
        let roots: Vec<usize> = with_world(|w| {
            w.mutators.iter().flat_map(|x| x.roots.iter().copied().collect::<Vec<_>>()).filter(|x| *x != 0).collect()
        });
        let mut rows: Vec<String> = vec![];
        for (idx, kid, vid) in self.chains.iter() {
            let (k, v) = table.get(*idx).copied().unwrap_or((0, 0));
            if k == 0 {
                continue;
            }
            let rooted = roots.iter().copied().find(|r| (id_of_ref(*r) & 0x7fff_ffff) == *kid).unwrap_or(0);
            rows.push(format!(
                "{{\"i\":{},\"k\":{},\"kid\":{},\"ekid\":{},\"vid\":{},\"evid\":{},\"root\":{}}}",
                idx + 1,
                proj(k),
                id_of_ref(k) & 0x7fff_ffff,
                kid,
                if v == 0 { 0 } else { id_of_ref(v) & 0x7fff_ffff },
                vid,
                if rooted == 0 { "[0,0]".to_string() } else { proj(rooted) }
            ));
        }
        ev(Obj::new("WeakTable").json("rows", &format!("[{}]", rows.join(","))));
    }

    /// Ephemeron chain of length `k`: key0 is rooted, value_i is the key of entry i+1. Needs k+1
    /// calls of process_weak_refs (the last one finds nothing new).
    fn weak_chain(&mut self, m: usize, k: usize) {
        // every chain object is rooted while the chain is being allocated (an allocation may GC)
        let base = self.nslots;
        for i in 0..=k {
            let sz = 8 * self.rng.range(4, 40) as usize;
            if self.new_object(m, base + i, sz, 1) == 0 {
                return;
            }
        }
        let objs: Vec<usize> = (0..=k).map(|i| root_get(m, base + i)).collect();
        let first = with_world(|w| {
            let first = w.weak_table.len();
            for i in 0..k {
                w.weak_table.push((objs[i], objs[i + 1]));
            }
            first
        });
        for i in 0..k {
            self.chains.push((first + i, id_of_ref(objs[i]) & 0x7fff_ffff, id_of_ref(objs[i + 1]) & 0x7fff_ffff));
        }
        ev(Obj::new("WeakChain").int("m", m as i64).int("len", k as i64));
        // keep only the first key rooted (in an ordinary slot)
        let keep = self.rng.below(self.nslots as u64) as usize;
        root_set(m, keep, objs[0]);
        for i in 0..=k {
            root_set(m, base + i, 0);
        }
    }
}

fn reset(pi: u64) {
    with_world(|w| {
        for m in w.mutators.iter_mut() {
            for r in m.roots.iter_mut() {
                *r = 0;
            }
        }
        w.weak_table.clear();
    });
    ev(Obj::new("Reset").int("prog", pi as i64));
}

fn program<const V: u32>(d: &mut Drv<V>, nmut: usize, pi: u64, nops: u64, weak: usize, is_nogc: bool) {
    reset(pi);
    d.chains.clear();
    let gc_weight = if is_nogc { 0 } else { 2 + d.rng.below(5) };
    for _ in 0..nops {
        safepoint();
        let m = d.rng.below(nmut as u64) as usize;
        let c = d.rng.below(100);
        let nonnull: Vec<usize> = (0..d.nslots).filter(|i| root_get(m, *i) != 0).collect();
        if c < 45 || nonnull.is_empty() {
            let slot = d.rng.below(d.nslots as u64) as usize;
            let words = if d.rng.chance(1, 12) { d.rng.range(200, 3000) } else { d.rng.range(3, 60) };
            let size = words as usize * 8;
            let nf = d.rng.below(((size - HDR_BYTES) / 8).min(5) as u64 + 1) as usize;
            d.new_object(m, slot, size, nf);
        } else if c < 70 {
            let src = root_get(m, *d.rng.pick(&nonnull));
            let nf = hdr_of_ref(src).nfields;
            if nf > 0 {
                let k = d.rng.below(nf as u64) as usize;
                let tm = d.rng.below(nmut as u64) as usize;
                let val = root_get(tm, d.rng.below(d.nslots as u64) as usize);
                d.write_field(m, src, k, val);
            }
        } else if c < 82 {
            root_set(m, d.rng.below(d.nslots as u64) as usize, 0);
        } else if c < 82 + gc_weight {
            let ex = d.rng.chance(1, 2);
            d.gc(m, ex);
        } else if c < 92 && weak > 0 && !is_nogc {
            let k = 1 + d.rng.below(weak as u64) as usize;
            d.weak_chain(m, k);
        } else {
            let n = d.rng.range(5, 80);
            let slot = d.rng.below(d.nslots as u64) as usize;
            for _ in 0..n {
                let size = 8 * d.rng.range(3, 200) as usize;
                d.new_object(m, slot, size, 0);
            }
        }
    }
    if !is_nogc {
        d.gc(0, true);
    }
}

fn wait_exits(target: usize) {
    let t0 = Instant::now();
    while WORKER_EXITS.load(Ordering::SeqCst) < target {
        std::thread::sleep(Duration::from_micros(200));
        if t0.elapsed() > Duration::from_secs(25) {
            // data, not a tool error: the workers did not exit
            ev(Obj::new("Crash").str("msg", "hang: GC workers did not exit after prepare_to_fork/shutdown").str("loc", "scheddrive").int("exitHang", 1));
            TRACE.flush();
            std::process::exit(3);
        }
    }
}

/// prepare_to_fork / wait for the worker threads / after_fork, with a GC request racing against it.
fn fork_cycles<const V: u32>(d: &mut Drv<V>, nmut: usize, cycles: u64, workers: usize, is_nogc: bool) {
    let m = mmtk::<V>();
    let vm_tls = mmtk::util::opaque_pointer::VMThread(mmtk::util::opaque_pointer::OpaquePointer::from_address(unsafe {
        Address::from_usize(8000)
    }));
    for c in 0..cycles {
        let exits_target = WORKER_EXITS.load(Ordering::SeqCst) + workers;
        let race = !is_nogc && c % 3 != 0;
        ev(Obj::new("ForkCycle").int("c", c as i64).bool("race", race));
        if race {
            // a VM thread stops the workers for fork while the mutator thread asks for a GC
            let delay = d.rng.below(300);
            let h = std::thread::spawn(move || {
                mmtk::verif::set_thread_tag(2000);
                std::thread::sleep(Duration::from_micros(delay));
                m.prepare_to_fork();
                wait_exits(exits_target);
                m.after_fork(vm_tls);
            });
            if d.rng.chance(1, 2) {
                std::thread::sleep(Duration::from_micros(d.rng.below(300)));
            }
            let ex = d.rng.chance(1, 2);
            d.gc(0, ex);
            h.join().unwrap();
        } else {
            m.prepare_to_fork();
            wait_exits(exits_target);
            m.after_fork(vm_tls);
        }
        // the respawned workers must be able to collect
        if !is_nogc {
            let sl = d.rng.below(d.nslots as u64) as usize;
            let mm = d.rng.below(nmut as u64) as usize;
            let nalloc = d.rng.range(1, 30);
            for _ in 0..nalloc {
                let sz = 8 * d.rng.range(4, 100) as usize;
                d.new_object(mm, sl, sz, 1);
            }
            d.gc(0, true);
        }
    }
}

// ---- gated reproductions ------------------------------------------------------------------------

struct Gate {
    waiting: usize,
    open: bool,
}
static GATE: Mutex<Gate> = Mutex::new(Gate { waiting: 0, open: true });
static GATE_CV: Condvar = Condvar::new();
static ARMED: AtomicBool = AtomicBool::new(false);
static AT_LOCKED: AtomicBool = AtomicBool::new(false);
static RELEASE_LOCKED: AtomicBool = AtomicBool::new(false);
static GATE_MODE: AtomicUsize = AtomicUsize::new(0); // 1 = f1, 2 = trylock

fn install_gate() {
    mmtk::verif::install_sync_hook(Box::new(|site: &'static str, _id: usize| {
        let mode = GATE_MODE.load(Ordering::SeqCst);
        if mode == 1 && site == "poll.empty" && ARMED.load(Ordering::SeqCst) {
            // hold every worker in the unlocked window between "found nothing" and park
            let mut g = GATE.lock().unwrap();
            g.waiting += 1;
            GATE_CV.notify_all();
            let t0 = Instant::now();
            while !g.open && t0.elapsed() < Duration::from_millis(1500) {
                g = GATE_CV.wait_timeout(g, Duration::from_millis(20)).unwrap().0;
            }
            g.waiting -= 1;
        }
        if mode == 2 && site == "make_request.locked" && ARMED.load(Ordering::SeqCst) && mmtk::verif::thread_tag() == 1000 {
            // the mutator holds WorkerMonitor::sync inside make_request(Gc)
            AT_LOCKED.store(true, Ordering::SeqCst);
            let t0 = Instant::now();
            while !RELEASE_LOCKED.load(Ordering::SeqCst) && t0.elapsed() < Duration::from_millis(1500) {
                std::thread::sleep(Duration::from_micros(100));
            }
        }
        if mode == 2 && site == "all_exited.before_try_lock" && ARMED.load(Ordering::SeqCst) {
            // the last exiting worker waits until the mutator is inside make_request
            let t0 = Instant::now();
            while !AT_LOCKED.load(Ordering::SeqCst) && t0.elapsed() < Duration::from_millis(1500) {
                std::thread::sleep(Duration::from_micros(100));
            }
            // returns into `sync.try_lock().unwrap()` while the mutex is held
        }
    }));
}

/// F1: during the concurrent phase of ConcurrentImmix, hold all workers between "poll found
/// nothing" and park, let a mutator flush its SATB buffer into the open Concurrent bucket (its
/// notify_one finds no waiter), release the workers: they all park although a packet is runnable.
fn gate_f1<const V: u32>(d: &mut Drv<V>, workers: usize, heap_mb: usize) {
    GATE_MODE.store(1, Ordering::SeqCst);
    install_gate();
    let m = 0usize;
    for round in 0..12u64 {
        reset(round);
        // a small linked structure that survives: src.f[0] -> old
        let src = d.new_object(m, 0, 64, 2);
        let old = d.new_object(m, 1, 64, 1);
        if src == 0 || old == 0 {
            continue;
        }
        d.write_field(m, src, 0, old);
        root_set(m, 1, 0);
        // allocate more than half of the heap: the poll triggers the InitialMark pause
        let before = GC_EPOCH.load(Ordering::Relaxed);
        let mut allocated = 0usize;
        while GC_EPOCH.load(Ordering::Relaxed) == before && allocated < heap_mb << 20 {
            d.new_object(m, 2, 4096, 0);
            allocated += 4096;
            safepoint();
        }
        // concurrent phase (if this was an InitialMark pause): arm the gate and wait for the workers
        ev(Obj::new("GateArm").int("round", round as i64));
        {
            let mut g = GATE.lock().unwrap();
            g.open = false;
        }
        ARMED.store(true, Ordering::SeqCst);
        let t0 = Instant::now();
        let all = loop {
            let g = GATE.lock().unwrap();
            if g.waiting >= workers {
                break true;
            }
            drop(g);
            if t0.elapsed() > Duration::from_millis(800) {
                break false;
            }
            std::thread::sleep(Duration::from_micros(200));
        };
        ev(Obj::new("GateAll").bool("all", all));
        if all {
            // overwrite the field: the SATB barrier records `old`; flush pushes a packet into the
            // Concurrent bucket and calls notify_one while no worker is waiting
            let src_now = root_get(m, 0);
            d.write_field(m, src_now, 0, 0);
            memory_manager::flush_mutator::<ShadowVM<V>>(mutator::<V>(m));
        }
        ARMED.store(false, Ordering::SeqCst);
        {
            let mut g = GATE.lock().unwrap();
            g.open = true;
            GATE_CV.notify_all();
        }
        // give the workers time to park (or to find the packet); nothing else notifies them
        std::thread::sleep(Duration::from_millis(150));
        ev(Obj::new("GateObserved").int("round", round as i64));
        d.gc(m, true);
    }
}

/// try_lock race: the last surrendering worker reaches `sync.try_lock().unwrap()` while the
/// mutator is inside `make_request(Gc)`, holding `sync`.
fn gate_trylock<const V: u32>(d: &mut Drv<V>, workers: usize) {
    GATE_MODE.store(2, Ordering::SeqCst);
    install_gate();
    let m = mmtk::<V>();
    d.new_object(0, 0, 64, 1);
    let exits_target = WORKER_EXITS.load(Ordering::SeqCst) + workers;
    ARMED.store(true, Ordering::SeqCst);
    let h = std::thread::spawn(move || {
        mmtk::verif::set_thread_tag(2000);
        m.prepare_to_fork();
        // the last worker is held before try_lock until the mutator holds `sync`
        wait_exits(exits_target);
    });
    // give the workers time to exit up to the gate, then request a GC from a mutator thread: it
    // is held inside make_request while it owns `sync`; the request thread then blocks in
    // block_for_gc (no workers are left), so the main thread only waits for the outcome.
    std::thread::sleep(Duration::from_millis(100));
    std::thread::spawn(|| {
        std::thread::sleep(Duration::from_millis(400));
        RELEASE_LOCKED.store(true, Ordering::SeqCst);
    });
    let requester = std::thread::spawn(move || {
        mmtk::verif::set_thread_tag(1000);
        ev(Obj::new("GCRequest").int("m", 0).bool("exhaustive", false));
        m.handle_user_collection_request(mutator_tls(0), true, false);
        ev(Obj::new("GCReturn").int("m", 0));
    });
    let _ = h.join();
    std::thread::sleep(Duration::from_millis(800));
    ev(Obj::new("GateObserved").int("round", 0));
    // C16 "with no work lost; subsequent GCs complete normally": the request made while the last
    // worker was exiting is still pending; the respawned workers must serve it
    let vm_tls = mmtk::util::opaque_pointer::VMThread(mmtk::util::opaque_pointer::OpaquePointer::from_address(unsafe {
        Address::from_usize(8000)
    }));
    ARMED.store(false, Ordering::SeqCst);
    m.after_fork(vm_tls);
    let t0 = Instant::now();
    while !requester.is_finished() {
        std::thread::sleep(Duration::from_millis(2));
        if t0.elapsed() > Duration::from_secs(20) {
            ev(Obj::new("Crash")
                .str("msg", "hang: the GC request made while the workers were exiting for fork was never served after after_fork")
                .str("loc", "scheddrive")
                .int("exitHang", 1));
            TRACE.flush();
            std::process::exit(3);
        }
    }
    let _ = requester.join();
}

fn run<const V: u32>() {
    let plan = arg_or("plan", "SemiSpace");
    let out = arg_or("out", "scheddrive.ndjson");
    let cfg = Config {
        plan: plan.clone(),
        heap_mb: arg_u64("heap", 16) as usize,
        workers: arg_u64("workers", 3) as usize,
        mutators: arg_u64("mutators", 2) as usize,
        extra_options: vec![],
        gc_trigger: None,
    };
    TRACE.open(&out);
    install_process_hooks();
    WALK_AT_RESUME.store(false, Ordering::Relaxed); // no heap walk: these traces are judged by Trace_Scheduler only
    let m = boot::<V>(&cfg);
    let constraints = m.get_plan().constraints();
    let is_nogc = plan == "NoGC";
    let mut d = Drv::<V> {
        next_id: 1,
        barrier: constraints.barrier,
        max_non_los: constraints.max_non_los_default_alloc_bytes,
        rng: Rng::new(seed_from_env() ^ 0x5c4ed),
        nslots: 10,
        chains: vec![],
    };
    ev(Obj::new("Boot")
        .str("plan", &plan)
        .int("variant", V as i64)
        .int("workers", cfg.workers as i64)
        .int("mutators", cfg.mutators as i64)
        .bool("needsForward", constraints.needs_forward_after_liveness));
    with_world(|w| w.weak_extra_rounds = arg_u64("weak-extra", 0) as usize);
    match arg_or("gate", "").as_str() {
        "f1" => gate_f1::<V>(&mut d, cfg.workers, cfg.heap_mb),
        "trylock" => gate_trylock::<V>(&mut d, cfg.workers),
        _ => {
            let weak = arg_u64("weak-chains", 0) as usize;
            for p in 0..arg_u64("programs", 4) {
                program::<V>(&mut d, cfg.mutators, p, arg_u64("ops", 100), weak, is_nogc);
            }
            let cycles = arg_u64("fork-cycles", 0);
            if cycles > 0 {
                fork_cycles::<V>(&mut d, cfg.mutators, cycles, cfg.workers, is_nogc);
            }
            if flag("shutdown") {
                let target = WORKER_EXITS.load(Ordering::SeqCst) + cfg.workers;
                m.shutdown();
                wait_exits(target);
            }
        }
    }
    ev(Obj::new("End"));
    TRACE.flush();
    println!("events={}", TRACE.len());
    std::process::exit(0);
}
