//! ShadowVM: a complete `VMBinding` whose only job is to make MMTk's abstract state observable.
//!
//! * Objects: `[w0: forwarding word][w1: size<<32 | off8<<23 | kind<<20 | logalign<<16 | nfields]
//!   [w2: id][fields ...][payload ...]`; `ObjectReference = start + REF_OFF`.
//! * One OS thread ("the mutator thread") runs all logical mutators; GC workers are real threads.
//! * Every binding callback is logged as an event; the heap walker reports, it never judges.
//!
//! One MMTK instance per process, hence plain (non-generic) statics.

use mmtk::util::alloc::AllocationError;
use mmtk::util::copy::{CopySemantics, GCWorkerCopyContext};
use mmtk::util::opaque_pointer::*;
use mmtk::util::{Address, ObjectReference};
use mmtk::MutatorContext;
use mmtk::vm::*;
use mmtk::{memory_manager, Mutator, MMTK};
use std::ops::Range;
use std::sync::atomic::{AtomicBool, AtomicU64, AtomicUsize, Ordering};
use std::sync::{Condvar, Mutex};
use vcommon::*;

pub mod walker;

// ------------------------------------------------------------------------------------------------
// Variants
// ------------------------------------------------------------------------------------------------

/// `V` bit 0: unified object reference (REF_OFF = 0; required by Compressor); otherwise REF_OFF = 8.
/// `V` bit 1: MAX_ALIGNMENT = 4096 instead of 64.
/// `V` bits 2-4: per-object metadata placement table (see `placement`), 0 = the original placement.
#[derive(Default)]
pub struct ShadowVM<const V: u32>;

// ------------------------------------------------------------------------------------------------
// Metadata placement tables (C24; bits 2-4 of V). Each table says which of the per-object metadata
// live in the header (bits of word 0, the forwarding/scratch word) and in which order the others
// are declared with side_first / side_after. The forwarding pointer is always in_header(0).
//   header bits of word 0: forwarding bits 0-1, mark 2, log 3, pin 4, LOS mark/nursery 5-6.
//   P  log     local side declaration order            in header
//   0  side    fwdbits, mark, [pin], los               -                  (the original placement)
//   1  header  fwdbits, mark, [pin], los               log
//   2  side    fwdbits, [pin], los                     mark
//   3  side    mark, [pin], los                        fwdbits
//   4  header  -                                       log, fwdbits, mark, pin, los
//   5  side    los, mark, fwdbits, [pin]               -
//   6  header  mark, los, [pin]                        log, fwdbits
//   7  side    los, [pin]                              fwdbits, mark
// ------------------------------------------------------------------------------------------------
pub const fn placement(v: u32) -> u32 {
    (v >> 2) & 7
}
pub const M_FWD: u8 = 1;
pub const M_MARK: u8 = 2;
pub const M_PIN: u8 = 3;
pub const M_LOS: u8 = 4;
/// Declaration order of the local side specs of placement `p` (0-terminated).
pub const fn side_order(p: u32) -> [u8; 5] {
    match p {
        0 | 1 => [M_FWD, M_MARK, M_PIN, M_LOS, 0],
        2 => [M_FWD, M_PIN, M_LOS, 0, 0],
        3 => [M_MARK, M_PIN, M_LOS, 0, 0],
        4 => [0, 0, 0, 0, 0],
        5 => [M_LOS, M_MARK, M_FWD, M_PIN, 0],
        6 => [M_MARK, M_LOS, M_PIN, 0, 0],
        _ => [M_LOS, M_PIN, 0, 0, 0],
    }
}
pub const fn log_in_header(p: u32) -> bool {
    matches!(p, 1 | 4 | 6)
}
/// Is local spec `m` declared on the side by placement `p`?
pub const fn on_side(p: u32, m: u8) -> bool {
    let o = side_order(p);
    let mut i = 0;
    while i < 5 {
        if o[i] == m {
            return true;
        }
        i += 1;
    }
    false
}
/// The local side spec declared before `m` (0: `m` is the first one). The pin bit only exists with
/// the object_pinning feature; without it, it is skipped.
pub const fn side_prev(p: u32, m: u8) -> u8 {
    let o = side_order(p);
    let mut prev = 0;
    let mut i = 0;
    while i < 5 {
        if o[i] == m {
            return prev;
        }
        if o[i] != 0 && (o[i] != M_PIN || cfg!(feature = "object_pinning")) {
            prev = o[i];
        }
        i += 1;
    }
    0
}
/// The (untyped) spec of local metadata `m` under placement `p`, built with the typed
/// `in_header` / `side_first` / `side_after` constructors only.
pub const fn local_spec(p: u32, m: u8) -> mmtk::util::metadata::MetadataSpec {
    match m {
        M_FWD => *fwd_bits_spec(p).as_spec(),
        M_MARK => *mark_bit_spec(p).as_spec(),
        #[cfg(feature = "object_pinning")]
        M_PIN => *pin_bit_spec(p).as_spec(),
        _ => *los_spec(p).as_spec(),
    }
}
pub const fn fwd_bits_spec(p: u32) -> VMLocalForwardingBitsSpec {
    if !on_side(p, M_FWD) {
        VMLocalForwardingBitsSpec::in_header(0)
    } else if side_prev(p, M_FWD) == 0 {
        VMLocalForwardingBitsSpec::side_first()
    } else {
        VMLocalForwardingBitsSpec::side_after(&local_spec(p, side_prev(p, M_FWD)))
    }
}
pub const fn mark_bit_spec(p: u32) -> VMLocalMarkBitSpec {
    if !on_side(p, M_MARK) {
        VMLocalMarkBitSpec::in_header(2)
    } else if side_prev(p, M_MARK) == 0 {
        VMLocalMarkBitSpec::side_first()
    } else {
        VMLocalMarkBitSpec::side_after(&local_spec(p, side_prev(p, M_MARK)))
    }
}
#[cfg(feature = "object_pinning")]
pub const fn pin_bit_spec(p: u32) -> VMLocalPinningBitSpec {
    if !on_side(p, M_PIN) {
        VMLocalPinningBitSpec::in_header(4)
    } else if side_prev(p, M_PIN) == 0 {
        VMLocalPinningBitSpec::side_first()
    } else {
        VMLocalPinningBitSpec::side_after(&local_spec(p, side_prev(p, M_PIN)))
    }
}
pub const fn los_spec(p: u32) -> VMLocalLOSMarkNurserySpec {
    if !on_side(p, M_LOS) {
        VMLocalLOSMarkNurserySpec::in_header(5)
    } else if side_prev(p, M_LOS) == 0 {
        VMLocalLOSMarkNurserySpec::side_first()
    } else {
        VMLocalLOSMarkNurserySpec::side_after(&local_spec(p, side_prev(p, M_LOS)))
    }
}

pub const fn ref_off(v: u32) -> usize {
    if v & 1 != 0 {
        0
    } else {
        8
    }
}

pub const HDR_WORDS: usize = 3;
pub const HDR_BYTES: usize = HDR_WORDS * 8;
pub const KIND_PLAIN: u64 = 0;
/// A reference object: field 0 is the referent and is not scanned.
pub const KIND_REF: u64 = 1;

impl<const V: u32> VMBinding for ShadowVM<V> {
    type VMObjectModel = OM<V>;
    type VMScanning = Scan<V>;
    type VMCollection = Coll<V>;
    type VMActivePlan = AP<V>;
    type VMReferenceGlue = RG<V>;
    type VMSlot = Address;
    type VMMemorySlice = Range<Address>;
    const MIN_ALIGNMENT: usize = 8;
    const MAX_ALIGNMENT: usize = if V & 2 != 0 { 4096 } else { 64 };
}

// ------------------------------------------------------------------------------------------------
// Global state
// ------------------------------------------------------------------------------------------------

pub static TRACE: LineLog = LineLog::new();
static MMTK_PTR: AtomicUsize = AtomicUsize::new(0);
pub static REF_OFF: AtomicUsize = AtomicUsize::new(8);
pub static GC_EPOCH: AtomicU64 = AtomicU64::new(0);
pub static OOM_SEEN: AtomicUsize = AtomicUsize::new(0);
pub static VERBOSE_COPY: AtomicBool = AtomicBool::new(false);
pub static COPY_COUNT: AtomicU64 = AtomicU64::new(0);
pub static SCAN_COUNT: AtomicU64 = AtomicU64::new(0);
pub static WALK_AT_RESUME: AtomicBool = AtomicBool::new(true);
/// Was concurrent GC work in progress when the current pause asked the mutators to stop? (C06: tells a
/// final-mark pause from a full stop-the-world pause in the walker report.)
pub static CONC_AT_STOP: AtomicBool = AtomicBool::new(false);

/// Optional extra reporters for directed driver modes (additive; unset by default):
/// `RESUME_HOOK(epoch)` runs inside `resume_mutators` right after the walker report, i.e. after the
/// collection has completely finished and before any mutator runs; `MIDGC_HOOK(epoch)` runs at the
/// first `process_weak_refs` call of a collection, i.e. after the transitive closure from the roots
/// and before the release phase. Both only report (gcdrive --mode immixlines, C34).
pub type GcHook = Box<dyn Fn(u64) + Send + Sync>;
pub static RESUME_HOOK: Mutex<Option<GcHook>> = Mutex::new(None);
pub static MIDGC_HOOK: Mutex<Option<GcHook>> = Mutex::new(None);
fn run_gc_hook(h: &Mutex<Option<GcHook>>, epoch: u64) {
    let g = h.lock().unwrap_or_else(|e| e.into_inner());
    if let Some(f) = g.as_ref() {
        f(epoch);
    }
}

pub const ROOTS_PER_MUTATOR: usize = 32;
pub const MAX_MUTATORS: usize = 4;
pub const VM_ROOTS: usize = 16;

pub struct MutatorRec {
    pub ptr: usize, // *mut Mutator<VM>, 0 when not bound
    pub roots: Box<[usize; ROOTS_PER_MUTATOR]>,
}

pub struct World {
    pub mutators: Vec<MutatorRec>,
    pub vm_roots: Box<[usize; VM_ROOTS]>,
    /// node roots reported through create_process_pinning_roots_work
    pub pin_roots: Vec<usize>,
    /// node roots reported through create_process_tpinning_roots_work
    pub tpin_roots: Vec<usize>,
    /// ephemeron-like weak table processed in process_weak_refs: (key ref, value ref)
    pub weak_table: Vec<(usize, usize)>,
    /// rounds the VM asks for even if nothing new is found (C13)
    pub weak_extra_rounds: usize,
}

static WORLD: Mutex<Option<World>> = Mutex::new(None);

pub fn with_world<R>(f: impl FnOnce(&mut World) -> R) -> R {
    let mut g = WORLD.lock().unwrap_or_else(|e| e.into_inner());
    f(g.as_mut().expect("world not initialised"))
}

struct Safepoint {
    stop_requested: bool,
    mutator_parked: bool,
    epoch: u64,
}
static SP: Mutex<Safepoint> = Mutex::new(Safepoint { stop_requested: false, mutator_parked: false, epoch: 0 });
static SP_CV: Condvar = Condvar::new();

pub fn mmtk<const V: u32>() -> &'static MMTK<ShadowVM<V>> {
    let p = MMTK_PTR.load(Ordering::Acquire);
    assert!(p != 0);
    unsafe { &*(p as *const MMTK<ShadowVM<V>>) }
}

pub fn mutator_tls(m: usize) -> VMMutatorThread {
    VMMutatorThread(VMThread(OpaquePointer::from_address(unsafe { Address::from_usize((m + 1) * 8) })))
}
fn tls_to_m(tls: VMMutatorThread) -> usize {
    let a: usize = unsafe { std::mem::transmute::<OpaquePointer, usize>(tls.0 .0) };
    a / 8 - 1
}

/// Line log that writes through to a file so that a crash leaves the prefix on disk.
pub struct LineLog {
    inner: Mutex<Option<std::io::BufWriter<std::fs::File>>>,
    count: AtomicUsize,
}
impl LineLog {
    pub const fn new() -> Self {
        LineLog { inner: Mutex::new(None), count: AtomicUsize::new(0) }
    }
    pub fn open(&self, path: &str) {
        let f = std::fs::File::create(path).expect("create trace file");
        *self.inner.lock().unwrap() = Some(std::io::BufWriter::with_capacity(1 << 16, f));
    }
    pub fn push(&self, line: String) {
        use std::io::Write;
        let mut g = self.inner.lock().unwrap_or_else(|e| e.into_inner());
        if let Some(w) = g.as_mut() {
            let _ = w.write_all(line.as_bytes());
            let _ = w.write_all(b"\n");
            // write through at the events that precede calls into MMTk: an abort (stack overflow,
            // SIGSEGV) inside the call must not lose the tail of the trace
            let b = line.as_bytes();
            if b.len() > 8 && matches!(&b[7..9], b"Al" | b"Op" | b"GC" | b"Cr" | b"Re" | b"St") {
                let _ = w.flush();
            }
        }
        self.count.fetch_add(1, Ordering::Relaxed);
    }
    pub fn flush(&self) {
        use std::io::Write;
        let mut g = self.inner.lock().unwrap_or_else(|e| e.into_inner());
        if let Some(w) = g.as_mut() {
            let _ = w.flush();
        }
    }
    pub fn len(&self) -> usize {
        self.count.load(Ordering::Relaxed)
    }
    pub fn is_empty(&self) -> bool {
        self.len() == 0
    }
}
impl Default for LineLog {
    fn default() -> Self {
        Self::new()
    }
}

pub fn ev(o: Obj) {
    TRACE.push(o.int("th", mmtk::verif::thread_tag()).finish());
}

/// Install panic hook + event sink. A panic anywhere (GC worker or mutator) logs a `Crash` event,
/// flushes the trace and aborts the process with exit code 101.
pub fn install_process_hooks() {
    std::panic::set_hook(Box::new(|info| {
        let msg = if let Some(s) = info.payload().downcast_ref::<&str>() {
            s.to_string()
        } else if let Some(s) = info.payload().downcast_ref::<String>() {
            s.clone()
        } else {
            "panic".to_string()
        };
        let loc = info.location().map(|l| format!("{}:{}", l.file(), l.line())).unwrap_or_default();
        eprintln!("PANIC at {}: {}", loc, msg);
        if std::env::var("VERIF_BT").is_ok() {
            eprintln!("{}", std::backtrace::Backtrace::force_capture());
        }
        let short: String = msg.chars().take(300).collect();
        TRACE.push(Obj::new("Crash").str("msg", &short).str("loc", &loc).int("th", mmtk::verif::thread_tag()).finish());
        TRACE.flush();
        std::process::exit(101);
    }));
    mmtk::verif::install_sink(Box::new(|body: &str| {
        let mut s = String::with_capacity(body.len() + 24);
        s.push('{');
        s.push_str(body);
        s.push_str(",\"th\":");
        s.push_str(&mmtk::verif::thread_tag().to_string());
        s.push('}');
        TRACE.push(s);
    }));
}

// ------------------------------------------------------------------------------------------------
// Address projection (TLC integers are 32-bit)
// ------------------------------------------------------------------------------------------------

/// proj(addr) = "[addr >> 32, (addr & 0xffff_ffff) >> 3]": a pair of small integers (TLC integers
/// are 32-bit). Word granularity; all addresses the harness reports are 8-byte aligned. The TLA+
/// side orders pairs lexicographically and adds word counts with carry (module HeapTrace, AddW).
pub fn proj(addr: usize) -> String {
    format!("[{},{}]", addr >> 32, (addr & 0xffff_ffff) >> 3)
}

// ------------------------------------------------------------------------------------------------
// Object access
// ------------------------------------------------------------------------------------------------

#[inline]
pub fn load_word(a: usize) -> usize {
    unsafe { (a as *const usize).read_volatile() }
}
#[inline]
pub fn store_word(a: usize, v: usize) {
    unsafe { (a as *mut usize).write_volatile(v) }
}

#[derive(Clone, Copy, Debug)]
pub struct Hdr {
    pub size: usize,
    pub nfields: usize,
    pub log_align: usize,
    pub kind: u64,
    pub off8: usize,
}
pub fn pack_hdr(h: &Hdr) -> usize {
    (h.size << 32) | (h.off8 << 23) | ((h.kind as usize) << 20) | (h.log_align << 16) | h.nfields
}
pub fn unpack_hdr(w: usize) -> Hdr {
    Hdr {
        size: w >> 32,
        off8: (w >> 23) & 0x1ff,
        kind: ((w >> 20) & 7) as u64,
        log_align: (w >> 16) & 0xf,
        nfields: w & 0xffff,
    }
}
pub fn start_of(r: usize) -> usize {
    r - REF_OFF.load(Ordering::Relaxed)
}
pub fn ref_of_start(s: usize) -> usize {
    s + REF_OFF.load(Ordering::Relaxed)
}
pub fn hdr_of_ref(r: usize) -> Hdr {
    unpack_hdr(load_word(start_of(r) + 8))
}
pub fn id_of_ref(r: usize) -> u64 {
    load_word(start_of(r) + 16) as u64
}
pub fn field_addr(r: usize, k: usize) -> usize {
    start_of(r) + HDR_BYTES + 8 * k
}
pub fn payload_range(r: usize) -> (usize, usize) {
    let h = hdr_of_ref(r);
    let s = start_of(r);
    (s + HDR_BYTES + 8 * h.nfields, s + h.size)
}
/// Payload byte stream keyed by the object id.
pub fn fill_payload(r: usize, id: u64) {
    let (lo, hi) = payload_range(r);
    let mut g = Rng::new(id ^ 0xA5A5_5A5A_DEAD_BEEF);
    let mut a = lo;
    while a + 8 <= hi {
        store_word(a, g.next() as usize);
        a += 8;
    }
}
/// 30-bit hash of the payload bytes as they are in memory now.
pub fn payload_hash(r: usize) -> i64 {
    let (lo, hi) = payload_range(r);
    let mut h: u64 = 0xcbf2_9ce4_8422_2325;
    let mut a = lo;
    while a + 8 <= hi {
        h ^= load_word(a) as u64;
        h = h.wrapping_mul(0x0000_0100_0000_01B3);
        a += 8;
    }
    ((h ^ (h >> 31)) & 0x3fff_ffff) as i64
}

// ------------------------------------------------------------------------------------------------
// ObjectModel
// ------------------------------------------------------------------------------------------------

pub struct OM<const V: u32>;

impl<const V: u32> ObjectModel<ShadowVM<V>> for OM<V> {
    // Placement 0 (variants 0..3) is the original declaration: log side_first; forwarding bits
    // side_first, mark side_after(forwarding bits), [pin side_after(mark)], LOS side_after(pin|mark).
    const GLOBAL_LOG_BIT_SPEC: VMGlobalLogBitSpec =
        if log_in_header(placement(V)) { VMGlobalLogBitSpec::in_header(3) } else { VMGlobalLogBitSpec::side_first() };
    const LOCAL_FORWARDING_POINTER_SPEC: VMLocalForwardingPointerSpec = VMLocalForwardingPointerSpec::in_header(0);
    const LOCAL_FORWARDING_BITS_SPEC: VMLocalForwardingBitsSpec = fwd_bits_spec(placement(V));
    const LOCAL_MARK_BIT_SPEC: VMLocalMarkBitSpec = mark_bit_spec(placement(V));
    #[cfg(feature = "object_pinning")]
    const LOCAL_PINNING_BIT_SPEC: VMLocalPinningBitSpec = pin_bit_spec(placement(V));
    const LOCAL_LOS_MARK_NURSERY_SPEC: VMLocalLOSMarkNurserySpec = los_spec(placement(V));

    const UNIFIED_OBJECT_REFERENCE_ADDRESS: bool = V & 1 != 0;
    const OBJECT_REF_OFFSET_LOWER_BOUND: isize = ref_off(V) as isize;

    fn copy(
        from: ObjectReference,
        semantics: CopySemantics,
        copy_context: &mut GCWorkerCopyContext<ShadowVM<V>>,
    ) -> ObjectReference {
        let r = from.to_raw_address().as_usize();
        let h = hdr_of_ref(r);
        let bytes = h.size;
        let align = 1usize << h.log_align;
        let offset = h.off8 * 8;
        mmtk::verif::sync_point("copy.before", r);
        let dst = copy_context.alloc_copy(from, bytes, align, offset, semantics);
        assert!(!dst.is_zero(), "alloc_copy returned null");
        let src = start_of(r);
        unsafe { std::ptr::copy_nonoverlapping(src as *const u8, dst.as_usize() as *mut u8, bytes) };
        let to = ObjectReference::from_raw_address(dst + ref_off(V)).unwrap();
        copy_context.post_copy(to, bytes, semantics);
        COPY_COUNT.fetch_add(1, Ordering::Relaxed);
        if VERBOSE_COPY.load(Ordering::Relaxed) {
            ev(Obj::new("CopyObj")
                .int("id", id_of_ref(r) as i64)
                .json("from", &proj(r))
                .json("to", &proj(to.to_raw_address().as_usize())));
        }
        mmtk::verif::sync_point("copy.after", r);
        to
    }

    fn copy_to(from: ObjectReference, to: ObjectReference, region: Address) -> Address {
        let r = from.to_raw_address().as_usize();
        let bytes = hdr_of_ref(r).size;
        let src = start_of(r);
        let dst = to.to_raw_address().as_usize() - ref_off(V);
        if !region.is_zero() && region.as_usize() < dst {
            unsafe { std::ptr::write_bytes(region.as_usize() as *mut u8, 0, dst - region.as_usize()) };
        }
        if src != dst {
            unsafe { std::ptr::copy(src as *const u8, dst as *mut u8, bytes) };
        }
        COPY_COUNT.fetch_add(1, Ordering::Relaxed);
        unsafe { Address::from_usize(dst + bytes) }
    }

    fn get_reference_when_copied_to(_from: ObjectReference, to: Address) -> ObjectReference {
        ObjectReference::from_raw_address(to + ref_off(V)).unwrap()
    }

    fn get_current_size(object: ObjectReference) -> usize {
        hdr_of_ref(object.to_raw_address().as_usize()).size
    }
    fn get_size_when_copied(object: ObjectReference) -> usize {
        Self::get_current_size(object)
    }
    fn get_align_when_copied(object: ObjectReference) -> usize {
        1usize << hdr_of_ref(object.to_raw_address().as_usize()).log_align
    }
    fn get_align_offset_when_copied(object: ObjectReference) -> usize {
        hdr_of_ref(object.to_raw_address().as_usize()).off8 * 8
    }
    fn get_type_descriptor(_reference: ObjectReference) -> &'static [i8] {
        unreachable!()
    }
    fn ref_to_object_start(object: ObjectReference) -> Address {
        object.to_raw_address() - ref_off(V)
    }
    fn ref_to_header(object: ObjectReference) -> Address {
        object.to_raw_address() - ref_off(V)
    }
    fn dump_object(object: ObjectReference) {
        eprintln!("object {:?} id {}", object, id_of_ref(object.to_raw_address().as_usize()));
    }
}

// ------------------------------------------------------------------------------------------------
// Scanning
// ------------------------------------------------------------------------------------------------

pub struct Scan<const V: u32>;

impl<const V: u32> Scanning<ShadowVM<V>> for Scan<V> {
    fn scan_object<SV: SlotVisitor<Address>>(_tls: VMWorkerThread, object: ObjectReference, slot_visitor: &mut SV) {
        let r = object.to_raw_address().as_usize();
        let h = hdr_of_ref(r);
        if SCAN_COUNT.fetch_add(1, Ordering::Relaxed) == 0 {
            ev(Obj::new("FirstScanObject").int("epoch", GC_EPOCH.load(Ordering::Relaxed) as i64));
        }
        mmtk::verif::sync_point("scan_object", r);
        let first = if h.kind == KIND_REF { 1 } else { 0 };
        for k in first..h.nfields {
            slot_visitor.visit_slot(unsafe { Address::from_usize(field_addr(r, k)) });
        }
    }

    fn notify_initial_thread_scan_complete(_partial_scan: bool, _tls: VMWorkerThread) {}

    fn scan_roots_in_mutator_thread(
        _tls: VMWorkerThread,
        mutator: &'static mut Mutator<ShadowVM<V>>,
        mut factory: impl RootsWorkFactory<Address>,
    ) {
        let m = tls_to_m(mutator.get_tls());
        ev(Obj::new("ScanMutator").int("m", m as i64).int("epoch", GC_EPOCH.load(Ordering::Relaxed) as i64));
        let slots: Vec<Address> = with_world(|w| {
            let rec = &w.mutators[m];
            (0..ROOTS_PER_MUTATOR).map(|i| Address::from_ref(&rec.roots[i])).collect()
        });
        factory.create_process_roots_work(slots);
    }

    fn scan_vm_specific_roots(_tls: VMWorkerThread, mut factory: impl RootsWorkFactory<Address>) {
        ev(Obj::new("ScanVMRoots").int("epoch", GC_EPOCH.load(Ordering::Relaxed) as i64));
        let (slots, pins, tpins) = with_world(|w| {
            let slots: Vec<Address> = (0..VM_ROOTS).map(|i| Address::from_ref(&w.vm_roots[i])).collect();
            let f = |v: &Vec<usize>| -> Vec<ObjectReference> {
                v.iter()
                    .filter(|x| **x != 0)
                    .map(|x| ObjectReference::from_raw_address(unsafe { Address::from_usize(*x) }).unwrap())
                    .collect()
            };
            (slots, f(&w.pin_roots), f(&w.tpin_roots))
        });
        factory.create_process_roots_work(slots);
        if !pins.is_empty() {
            factory.create_process_pinning_roots_work(pins);
        }
        if !tpins.is_empty() {
            factory.create_process_tpinning_roots_work(tpins);
        }
    }

    fn supports_return_barrier() -> bool {
        false
    }
    fn prepare_for_roots_re_scanning() {}

    fn process_weak_refs(
        worker: &mut mmtk::scheduler::GCWorker<ShadowVM<V>>,
        tracer_context: impl ObjectTracerContext<ShadowVM<V>>,
    ) -> bool {
        // Ephemeron-like table: a value is kept alive (traced) once its key is reachable. Entries
        // whose key is reachable have key and value updated to the new addresses. One "layer" of
        // the dependency chain is resolved per call, so chains of length k need k rounds.
        static ROUND: AtomicUsize = AtomicUsize::new(0);
        static LAST_EPOCH: AtomicU64 = AtomicU64::new(u64::MAX);
        let epoch = GC_EPOCH.load(Ordering::Relaxed);
        if LAST_EPOCH.swap(epoch, Ordering::Relaxed) != epoch {
            ROUND.store(0, Ordering::Relaxed);
        }
        let round = ROUND.fetch_add(1, Ordering::Relaxed);
        ev(Obj::new("ProcessWeakRefsEnter").int("round", round as i64).int("epoch", epoch as i64));
        if round == 0 {
            run_gc_hook(&MIDGC_HOOK, epoch);
        }
        let mut traced_ids: Vec<i64> = vec![];
        let mut more = false;
        let table: Vec<(usize, usize)> = with_world(|w| w.weak_table.clone());
        let mut new_table = table.clone();
        tracer_context.with_tracer(worker, |tracer| {
            for (i, (k, v)) in table.iter().enumerate() {
                if *k == 0 {
                    continue;
                }
                let ko = ObjectReference::from_raw_address(unsafe { Address::from_usize(*k) }).unwrap();
                if ko.is_reachable() {
                    let nk = ko.get_forwarded_object().unwrap_or(ko);
                    new_table[i].0 = nk.to_raw_address().as_usize();
                    if *v != 0 {
                        let vo = ObjectReference::from_raw_address(unsafe { Address::from_usize(*v) }).unwrap();
                        if !vo.is_reachable() {
                            more = true;
                            traced_ids.push(id_of_ref(*v) as i64);
                        }
                        let nv = tracer.trace_object(vo);
                        new_table[i].1 = nv.to_raw_address().as_usize();
                    }
                }
            }
        });
        let extra = with_world(|w| {
            w.weak_table = new_table;
            w.weak_extra_rounds
        });
        if !more && round < extra {
            more = true;
        }
        if !more {
            // last round: drop entries whose key died
            with_world(|w| {
                for e in w.weak_table.iter_mut() {
                    if e.0 != 0 {
                        let ko = ObjectReference::from_raw_address(unsafe { Address::from_usize(e.0) }).unwrap();
                        if !ko.is_reachable() {
                            *e = (0, 0);
                        }
                    }
                }
            });
        }
        ev(Obj::new("ProcessWeakRefsExit")
            .int("round", round as i64)
            .bool("more", more)
            .ints("traced", traced_ids)
            .int("epoch", epoch as i64));
        more
    }

    fn forward_weak_refs(
        worker: &mut mmtk::scheduler::GCWorker<ShadowVM<V>>,
        tracer_context: impl ObjectTracerContext<ShadowVM<V>>,
    ) {
        ev(Obj::new("ForwardWeakRefs").int("epoch", GC_EPOCH.load(Ordering::Relaxed) as i64));
        // forwarding plans (MarkCompact/Compressor): update table entries to forwarded addresses.
        // The entries are updated THROUGH THE TRACER, as the contract of forward_weak_refs says
        // ("use it to update weak references"): objects that are alive only because of the weak
        // table are not reached by the second (forwarding) transitive closure from the roots, and
        // in MarkCompact that closure is what clears their mark bits. Reading
        // get_forwarded_object() instead leaves stale mark bits behind, and a later collection
        // then skips the fields of whatever object is allocated at such an address.
        let table: Vec<(usize, usize)> = with_world(|w| w.weak_table.clone());
        let mut new_table = table.clone();
        tracer_context.with_tracer(worker, |tracer| {
            for (i, e) in table.iter().enumerate() {
                for (j, x) in [e.0, e.1].into_iter().enumerate() {
                    if x != 0 {
                        let o = ObjectReference::from_raw_address(unsafe { Address::from_usize(x) }).unwrap();
                        let n = tracer.trace_object(o).to_raw_address().as_usize();
                        if j == 0 {
                            new_table[i].0 = n;
                        } else {
                            new_table[i].1 = n;
                        }
                    }
                }
            }
        });
        with_world(|w| w.weak_table = new_table);
    }
}

// ------------------------------------------------------------------------------------------------
// Collection
// ------------------------------------------------------------------------------------------------

pub struct Coll<const V: u32>;

impl<const V: u32> Collection<ShadowVM<V>> for Coll<V> {
    fn stop_all_mutators<F>(_tls: VMWorkerThread, mut mutator_visitor: F)
    where
        F: FnMut(&'static mut Mutator<ShadowVM<V>>),
    {
        let epoch = GC_EPOCH.load(Ordering::Relaxed);
        ev(Obj::new("StopEnter").int("epoch", epoch as i64));
        CONC_AT_STOP.store(mmtk::verif::concurrent_work_in_progress(mmtk::<V>()), Ordering::Relaxed);
        {
            let mut sp = SP.lock().unwrap();
            sp.stop_requested = true;
            while !sp.mutator_parked {
                sp = SP_CV.wait(sp).unwrap();
            }
        }
        SCAN_COUNT.store(0, Ordering::Relaxed);
        let ptrs: Vec<usize> = with_world(|w| w.mutators.iter().map(|m| m.ptr).filter(|p| *p != 0).collect());
        ev(Obj::new("StopExit").int("epoch", epoch as i64).int("nmut", ptrs.len() as i64));
        for p in ptrs {
            mutator_visitor(unsafe { &mut *(p as *mut Mutator<ShadowVM<V>>) });
        }
    }

    fn resume_mutators(_tls: VMWorkerThread) {
        let epoch = GC_EPOCH.load(Ordering::Relaxed);
        // C28: raw page-resource counters at the quiescent point (GC work done, mutators stopped)
        mmtk::verif::verif_emit_pr_counters(mmtk::<V>(), "resume");
        if WALK_AT_RESUME.load(Ordering::Relaxed) {
            walker::report::<V>("GCEnd", epoch);
        }
        run_gc_hook(&RESUME_HOOK, epoch);
        ev(Obj::new("Resume").int("epoch", epoch as i64));
        GC_EPOCH.fetch_add(1, Ordering::Relaxed);
        let mut sp = SP.lock().unwrap();
        sp.stop_requested = false;
        sp.epoch += 1;
        SP_CV.notify_all();
    }

    fn block_for_gc(tls: VMMutatorThread) {
        let m = tls_to_m(tls);
        ev(Obj::new("BlockEnter").int("m", m as i64).int("epoch", GC_EPOCH.load(Ordering::Relaxed) as i64));
        {
            let mut sp = SP.lock().unwrap();
            let entry = sp.epoch;
            sp.mutator_parked = true;
            SP_CV.notify_all();
            while sp.epoch == entry || sp.stop_requested {
                sp = SP_CV.wait(sp).unwrap();
            }
            sp.mutator_parked = false;
        }
        ev(Obj::new("BlockExit").int("m", m as i64).int("epoch", GC_EPOCH.load(Ordering::Relaxed) as i64));
    }

    fn spawn_gc_thread(_tls: VMThread, ctx: GCThreadContext<ShadowVM<V>>) {
        let GCThreadContext::Worker(worker) = ctx;
        let ordinal = worker.ordinal;
        ev(Obj::new("SpawnGcThread").int("w", ordinal as i64));
        std::thread::Builder::new()
            .name(format!("gcworker{}", ordinal))
            .spawn(move || {
                mmtk::verif::set_thread_tag(ordinal as i64);
                let tls = VMWorkerThread(VMThread(OpaquePointer::from_address(unsafe {
                    Address::from_usize((100 + ordinal) * 8)
                })));
                memory_manager::start_worker::<ShadowVM<V>>(mmtk::<V>(), tls, worker);
                ev(Obj::new("WorkerThreadExit").int("w", ordinal as i64));
                WORKER_EXITS.fetch_add(1, Ordering::SeqCst);
            })
            .unwrap();
    }

    fn out_of_memory(_tls: VMThread, err_kind: AllocationError) {
        OOM_SEEN.fetch_add(1, Ordering::SeqCst);
        ev(Obj::new("OutOfMemory").str("kind", &format!("{:?}", err_kind)));
    }

    fn schedule_finalization(_tls: VMWorkerThread) {
        ev(Obj::new("ScheduleFinalization").int("epoch", GC_EPOCH.load(Ordering::Relaxed) as i64));
    }

    fn post_forwarding(_tls: VMWorkerThread) {
        ev(Obj::new("PostForwarding").int("epoch", GC_EPOCH.load(Ordering::Relaxed) as i64));
    }
}

pub static WORKER_EXITS: AtomicUsize = AtomicUsize::new(0);

/// Mutator-side safepoint poll: park if a GC asked the mutators to stop.
pub fn safepoint() {
    let mut sp = SP.lock().unwrap();
    if sp.stop_requested {
        sp.mutator_parked = true;
        SP_CV.notify_all();
        while sp.stop_requested {
            sp = SP_CV.wait(sp).unwrap();
        }
        sp.mutator_parked = false;
    }
}

/// Wait (parked) until no GC pause is in progress and, for concurrent plans, until
/// `gc_in_progress` is false — used by the driver to make "the GC has completely finished"
/// an observable point.
pub fn park_while(mut cond: impl FnMut() -> bool) {
    loop {
        safepoint();
        if !cond() {
            return;
        }
        std::thread::sleep(std::time::Duration::from_micros(200));
    }
}

// ------------------------------------------------------------------------------------------------
// ActivePlan
// ------------------------------------------------------------------------------------------------

pub struct AP<const V: u32>;

impl<const V: u32> ActivePlan<ShadowVM<V>> for AP<V> {
    fn is_mutator(tls: VMThread) -> bool {
        let a: usize = unsafe { std::mem::transmute::<OpaquePointer, usize>(tls.0) };
        a / 8 >= 1 && a / 8 <= MAX_MUTATORS
    }
    fn mutator(tls: VMMutatorThread) -> &'static mut Mutator<ShadowVM<V>> {
        let m = tls_to_m(tls);
        let p = with_world(|w| w.mutators[m].ptr);
        assert!(p != 0, "mutator {} not bound", m);
        unsafe { &mut *(p as *mut Mutator<ShadowVM<V>>) }
    }
    fn mutators<'a>() -> Box<dyn Iterator<Item = &'a mut Mutator<ShadowVM<V>>> + 'a> {
        let ptrs: Vec<usize> = with_world(|w| w.mutators.iter().map(|m| m.ptr).filter(|p| *p != 0).collect());
        Box::new(ptrs.into_iter().map(|p| unsafe { &mut *(p as *mut Mutator<ShadowVM<V>>) }))
    }
    fn number_of_mutators() -> usize {
        with_world(|w| w.mutators.iter().filter(|m| m.ptr != 0).count())
    }
}

// ------------------------------------------------------------------------------------------------
// ReferenceGlue
// ------------------------------------------------------------------------------------------------

pub struct RG<const V: u32>;

impl<const V: u32> ReferenceGlue<ShadowVM<V>> for RG<V> {
    type FinalizableType = ObjectReference;

    fn clear_referent(new_reference: ObjectReference) {
        let r = new_reference.to_raw_address().as_usize();
        ev(Obj::new("ClearReferent").int("ref", id_of_ref(r) as i64));
        store_word(field_addr(r, 0), 0);
    }
    fn get_referent(object: ObjectReference) -> Option<ObjectReference> {
        let r = object.to_raw_address().as_usize();
        let v = load_word(field_addr(r, 0));
        ObjectReference::from_raw_address(unsafe { Address::from_usize(v) })
    }
    fn set_referent(reff: ObjectReference, referent: ObjectReference) {
        let r = reff.to_raw_address().as_usize();
        store_word(field_addr(r, 0), referent.to_raw_address().as_usize());
    }
    fn enqueue_references(references: &[ObjectReference], _tls: VMWorkerThread) {
        ev(Obj::new("EnqueueRefs")
            .ints("refs", references.iter().map(|r| id_of_ref(r.to_raw_address().as_usize()) as i64))
            .int("epoch", GC_EPOCH.load(Ordering::Relaxed) as i64));
    }
}

// ------------------------------------------------------------------------------------------------
// Set-up
// ------------------------------------------------------------------------------------------------

pub struct Config {
    pub plan: String,
    pub heap_mb: usize,
    pub workers: usize,
    pub mutators: usize,
    pub extra_options: Vec<(String, String)>,
    pub gc_trigger: Option<String>,
}

/// Create the MMTK instance, initialise collection and bind `mutators` logical mutators.
pub fn boot<const V: u32>(cfg: &Config) -> &'static MMTK<ShadowVM<V>> {
    REF_OFF.store(ref_off(V), Ordering::SeqCst);
    mmtk::verif::set_thread_tag(1000);
    let mut builder = mmtk::MMTKBuilder::new_no_env_vars();
    // C31 / C28: a non-default virtual memory layout (Map32 + sparse chunk SFT map on 64-bit),
    // selected by the environment so that no caller's Config changes.
    match std::env::var("SHADOW_VM_LAYOUT").as_deref() {
        Ok("compressed") => builder.set_vm_layout(mmtk::util::heap::vm_layout::VMLayout {
            log_address_space: 35,
            heap_start: unsafe { Address::from_usize(0x4000_0000) },
            heap_end: unsafe { Address::from_usize(0x8_0000_0000) },
            log_space_extent: 31,
            force_use_contiguous_spaces: false,
        }),
        Ok("32bit") => builder.set_vm_layout(mmtk::util::heap::vm_layout::VMLayout::new_32bit()),
        _ => {}
    }
    assert!(builder.set_option("plan", &cfg.plan), "bad plan {}", cfg.plan);
    assert!(builder.set_option("threads", &cfg.workers.to_string()));
    let trig = cfg.gc_trigger.clone().unwrap_or_else(|| format!("FixedHeapSize:{}m", cfg.heap_mb));
    assert!(builder.set_option("gc_trigger", &trig), "bad trigger {}", trig);
    for (k, v) in &cfg.extra_options {
        assert!(builder.set_option(k, v), "bad option {}={}", k, v);
    }
    *WORLD.lock().unwrap() = Some(World {
        mutators: (0..MAX_MUTATORS).map(|_| MutatorRec { ptr: 0, roots: Box::new([0; ROOTS_PER_MUTATOR]) }).collect(),
        vm_roots: Box::new([0; VM_ROOTS]),
        pin_roots: vec![],
        tpin_roots: vec![],
        weak_table: vec![],
        weak_extra_rounds: 0,
    });
    let m: Box<MMTK<ShadowVM<V>>> = memory_manager::mmtk_init::<ShadowVM<V>>(&builder);
    let m: &'static MMTK<ShadowVM<V>> = Box::leak(m);
    MMTK_PTR.store(m as *const _ as usize, Ordering::Release);
    memory_manager::initialize_collection(m, VMThread(OpaquePointer::from_address(unsafe { Address::from_usize(8000) })));
    for i in 0..cfg.mutators {
        bind::<V>(i);
    }
    m
}

pub fn bind<const V: u32>(m: usize) {
    let b = memory_manager::bind_mutator(mmtk::<V>(), mutator_tls(m));
    let p = Box::into_raw(b) as usize;
    with_world(|w| {
        assert!(w.mutators[m].ptr == 0);
        w.mutators[m].ptr = p;
        for r in w.mutators[m].roots.iter_mut() {
            *r = 0;
        }
    });
    ev(Obj::new("Bind").int("m", m as i64));
}

pub fn destroy<const V: u32>(m: usize) {
    let p = with_world(|w| std::mem::replace(&mut w.mutators[m].ptr, 0));
    assert!(p != 0);
    let mu = unsafe { &mut *(p as *mut Mutator<ShadowVM<V>>) };
    memory_manager::destroy_mutator(mu);
    drop(unsafe { Box::from_raw(p as *mut Mutator<ShadowVM<V>>) });
    with_world(|w| {
        for r in w.mutators[m].roots.iter_mut() {
            *r = 0;
        }
    });
    ev(Obj::new("Destroy").int("m", m as i64));
}

pub fn mutator<const V: u32>(m: usize) -> &'static mut Mutator<ShadowVM<V>> {
    let p = with_world(|w| w.mutators[m].ptr);
    assert!(p != 0, "mutator {} not bound", m);
    unsafe { &mut *(p as *mut Mutator<ShadowVM<V>>) }
}

pub fn slot_value(slot: Address) -> usize {
    load_word(slot.as_usize())
}
