//! Heap walker: follows real pointers from the real root slots through real memory and reports
//! what it finds. It holds no expectation; the TLA+ trace specification judges the report.

use crate::*;
use std::collections::HashMap;

pub struct Node {
    pub r: usize,
    pub bad: bool,
    pub id: u64,
    pub size: usize,
    pub nf: usize,
    pub kind: u64,
    pub hash: i64,
    pub fields: Vec<usize>, // raw reference values (field 0 of a KIND_REF object is the weak referent)
}

/// Immortal / never-collected objects registered by the driver: (ref, id). Re-read at every GC.
pub static IMMORTALS: Mutex<Vec<(usize, u64)>> = Mutex::new(Vec::new());
/// Extra addresses to probe with is_mmtk_object at GC end (refs of objects the driver saw die).
pub static DEAD_PROBES: Mutex<Vec<(usize, u64)>> = Mutex::new(Vec::new());

fn plausible(r: usize) -> bool {
    if r == 0 || r % 8 != 0 || r < 4096 {
        return false;
    }
    let s = start_of(r);
    let a = unsafe { Address::from_usize(s) };
    if !memory_manager::is_mapped_address(a) {
        return false;
    }
    let Some(o) = ObjectReference::from_raw_address(unsafe { Address::from_usize(r) }) else { return false };
    if !memory_manager::is_in_mmtk_spaces(o) {
        return false;
    }
    // header word must be readable: start+8 is in the same page or the next mapped one
    let a2 = unsafe { Address::from_usize(s + HDR_BYTES - 8) };
    if !memory_manager::is_mapped_address(a2) {
        return false;
    }
    let h = hdr_of_ref(r);
    if h.size < HDR_BYTES + 8 * h.nfields || h.size % 8 != 0 || h.size > (256 << 20) {
        return false;
    }
    let end = unsafe { Address::from_usize(s + h.size - 8) };
    memory_manager::is_mapped_address(end)
}

pub fn read_node(r: usize) -> Node {
    if !plausible(r) {
        return Node { r, bad: true, id: 0, size: 0, nf: 0, kind: 0, hash: 0, fields: vec![] };
    }
    let h = hdr_of_ref(r);
    let fields = (0..h.nfields).map(|k| load_word(field_addr(r, k))).collect();
    Node { r, bad: false, id: id_of_ref(r), size: h.size, nf: h.nfields, kind: h.kind, hash: payload_hash(r), fields }
}

pub struct Walk {
    pub nodes: Vec<Node>,
    pub index: HashMap<usize, usize>, // ref -> 1-based node index
}

pub fn walk(root_vals: &[usize]) -> Walk {
    let mut w = Walk { nodes: vec![], index: HashMap::new() };
    let mut queue: Vec<usize> = vec![];
    for r in root_vals {
        if *r != 0 && !w.index.contains_key(r) {
            w.index.insert(*r, w.nodes.len() + 1);
            w.nodes.push(read_node(*r));
            queue.push(w.nodes.len() - 1);
        }
    }
    let mut qi = 0;
    while qi < queue.len() {
        let ni = queue[qi];
        qi += 1;
        if w.nodes[ni].bad {
            continue;
        }
        let first = if w.nodes[ni].kind == KIND_REF { 1 } else { 0 };
        let fields: Vec<usize> = w.nodes[ni].fields[first.min(w.nodes[ni].fields.len())..].to_vec();
        for f in fields {
            if f != 0 && !w.index.contains_key(&f) {
                w.index.insert(f, w.nodes.len() + 1);
                w.nodes.push(read_node(f));
                queue.push(w.nodes.len() - 1);
            }
        }
    }
    w
}

/// Walk the heap from all roots and emit one event `name` with the full report.
pub fn report<const V: u32>(name: &str, epoch: u64) {
    let m = mmtk::<V>();
    // root slots: (slot name, value)
    let (slots, pins, tpins, weak): (Vec<(i64, usize)>, Vec<usize>, Vec<usize>, Vec<(usize, usize)>) = with_world(|w| {
        let mut s = vec![];
        for (mi, rec) in w.mutators.iter().enumerate() {
            if rec.ptr == 0 {
                continue;
            }
            for i in 0..ROOTS_PER_MUTATOR {
                if rec.roots[i] != 0 {
                    s.push(((mi * 100 + i) as i64, rec.roots[i]));
                }
            }
        }
        for i in 0..VM_ROOTS {
            if w.vm_roots[i] != 0 {
                s.push(((900 + i) as i64, w.vm_roots[i]));
            }
        }
        (s, w.pin_roots.clone(), w.tpin_roots.clone(), w.weak_table.clone())
    });
    let mut root_vals: Vec<usize> = slots.iter().map(|x| x.1).collect();
    root_vals.extend(pins.iter().copied().filter(|x| *x != 0));
    root_vals.extend(tpins.iter().copied().filter(|x| *x != 0));
    // weak-table keys are not roots; values are reachable only through live keys (the VM traced them)
    let w = walk(&root_vals);
    let idx = |r: usize| -> i64 {
        if r == 0 {
            0
        } else {
            w.index.get(&r).map(|i| *i as i64).unwrap_or(-1)
        }
    };
    let nodes = json_array(w.nodes.iter().map(|n| {
        let mut o = Obj::raw("").json("a", &proj(n.r)).int("id", (n.id & 0x7fff_ffff) as i64);
        if n.bad {
            o = o.bool("bad", true);
            return o.finish();
        }
        o = o.int("sz", n.size as i64).int("h", n.hash).int("k", n.kind as i64);
        o = o.str("sp", mmtk::verif::space_name_of_address(unsafe { Address::from_usize(n.r) }));
        let first = if n.kind == KIND_REF { 1 } else { 0 };
        o = o.ints("f", n.fields.iter().skip(first).map(|f| idx(*f)));
        if n.kind == KIND_REF {
            let wr = n.fields.first().copied().unwrap_or(0);
            // the referent is reported by identity: node index if it is strongly reachable too,
            // otherwise its id read from memory if the address is still a plausible object
            let wi = idx(wr);
            o = o.int("w", wi);
            if wi == -1 {
                let wn = read_node(wr);
                o = o.int("wid", if wn.bad { -1 } else { (wn.id & 0x7fff_ffff) as i64 });
            }
        }
        #[cfg(feature = "vo_bit")]
        {
            let valid = memory_manager::is_mmtk_object(unsafe { Address::from_usize(n.r) })
                .map(|o| o.to_raw_address().as_usize() == n.r)
                .unwrap_or(false);
            o = o.bool("vo", valid);
        }
        o.finish()
    }));
    let roots = json_array(slots.iter().map(|(s, v)| format!("[{},{}]", s, idx(*v))));
    let imm = {
        let g = IMMORTALS.lock().unwrap();
        json_array(g.iter().map(|(r, _id)| {
            let n = read_node(*r);
            if n.bad {
                format!("[{},-1,0]", proj(*r))
            } else {
                format!("[{},{},{}]", proj(*r), n.id & 0x7fff_ffff, n.hash)
            }
        }))
    };
    let weak_json = json_array(weak.iter().filter(|e| e.0 != 0).map(|(k, v)| {
        let kn = read_node(*k);
        let vn = if *v == 0 { None } else { Some(read_node(*v)) };
        format!(
            "[{},{},{},{}]",
            if kn.bad { -1 } else { (kn.id & 0x7fff_ffff) as i64 },
            idx(*k),
            vn.as_ref().map(|n| if n.bad { -1 } else { (n.id & 0x7fff_ffff) as i64 }).unwrap_or(0),
            idx(*v)
        )
    }));
    #[allow(unused_mut)]
    let mut o = Obj::new(name)
        .int("epoch", epoch as i64)
        .bool("emergency", m.is_emergency_collection())
        .bool("user", m.is_user_triggered_collection())
        .json("roots", &roots)
        .ints("pins", pins.iter().filter(|x| **x != 0).map(|x| idx(*x)))
        .ints("tpins", tpins.iter().filter(|x| **x != 0).map(|x| idx(*x)))
        .json("nodes", &nodes)
        .json("imm", &imm)
        .json("weak", &weak_json)
        .bool("nursery", mmtk::verif::is_nursery_gc(m))
        .int("totalPages", mmtk::verif::total_pages(m).min(1 << 30) as i64)
        .json(
            "spaces",
            &json_array(mmtk::verif::space_page_counters(m).iter().map(|(n, r, c)| {
                Obj::raw("").str("n", n).int("r", (*r).min(1 << 30) as i64).int("c", (*c).min(1 << 30) as i64).finish()
            })),
        )
        .int("usedPages", (memory_manager::used_bytes(m) >> 12) as i64)
        // C36 in situ: the treadmill sets of every large object space, by object identity
        .json(
            "los",
            &json_array(mmtk::verif::los_treadmill_sets(m).iter().map(|(name, sets)| {
                let ids = |v: &Vec<usize>| {
                    json_ints(v.iter().map(|r| {
                        let n = read_node(*r);
                        if n.bad {
                            -1
                        } else {
                            (n.id & 0x7fff_ffff) as i64
                        }
                    }))
                };
                Obj::raw("")
                    .str("n", name)
                    .json("from", &ids(&sets[0]))
                    .json("to", &ids(&sets[1]))
                    .json("cn", &ids(&sets[2]))
                    .json("an", &ids(&sets[3]))
                    .finish()
            })),
        )
        .int("copied", COPY_COUNT.load(Ordering::Relaxed) as i64);
    // enumerate_objects is documented as unsupported while a (concurrent) collection is in progress:
    // the pause that starts concurrent marking reports no enumeration.
    #[cfg(feature = "vo_bit")]
    if !mmtk::verif::concurrent_work_in_progress(m) {
        // enumerate_objects: every object MMTk believes valid (ids read from memory, sorted)
        let mut ids: Vec<i64> = vec![];
        let mut bad = 0i64;
        m.enumerate_objects(|obj| {
            let r = obj.to_raw_address().as_usize();
            let n = read_node(r);
            if n.bad {
                bad += 1;
            } else {
                ids.push((n.id & 0x7fff_ffff) as i64);
            }
        });
        ids.sort();
        o = o.ints("enum", ids).int("enumBad", bad);
        let dead = DEAD_PROBES.lock().unwrap();
        o = o.json(
            "deadProbes",
            &json_array(dead.iter().map(|(r, id)| {
                let v = memory_manager::is_mmtk_object(unsafe { Address::from_usize(*r) }).is_some();
                format!("[{},{},{}]", proj(*r), id & 0x7fff_ffff, if v { 1 } else { 0 })
            })),
        );
    }
    o = o.json("rp", &refproc_report::<V>());
    ev(o);
}

/// C06: what the reference processors and the finalizable processor hold at the end of the pause
/// (ids read from memory, -1 for an entry that is not a plausible object), the kind of pause, and a
/// walk from the objects that are ready for finalization but not yet popped (they are alive only
/// because MMTk keeps them). Reports only.
pub fn refproc_report<const V: u32>() -> String {
    let m = mmtk::<V>();
    let snap = mmtk::verif::refproc_snapshot(m);
    let idof = |o: &ObjectReference| -> i64 {
        let n = read_node(o.to_raw_address().as_usize());
        if n.bad {
            -1
        } else {
            (n.id & 0x7fff_ffff) as i64
        }
    };
    let ids = |v: &Vec<ObjectReference>| -> Vec<i64> {
        let mut x: Vec<i64> = v.iter().map(idof).collect();
        x.sort();
        x
    };
    let pause = if mmtk::verif::concurrent_work_in_progress(m) {
        "InitialMark"
    } else if CONC_AT_STOP.load(Ordering::Relaxed) {
        "FinalMark"
    } else {
        "Full"
    };
    let ready_refs: Vec<usize> = snap.ready.iter().map(|o| o.to_raw_address().as_usize()).collect();
    let w = walk(&ready_refs);
    let idx_id = |r: usize| -> i64 {
        if r == 0 {
            0
        } else {
            match w.index.get(&r) {
                Some(i) => {
                    let n = &w.nodes[*i - 1];
                    if n.bad {
                        -1
                    } else {
                        (n.id & 0x7fff_ffff) as i64
                    }
                }
                None => -1,
            }
        }
    };
    let rnodes = json_array(w.nodes.iter().map(|n| {
        let o = Obj::raw("").int("id", if n.bad { -1 } else { (n.id & 0x7fff_ffff) as i64 });
        if n.bad {
            return o.bool("bad", true).finish();
        }
        let first = if n.kind == KIND_REF { 1 } else { 0 };
        o.int("sz", n.size as i64)
            .int("h", n.hash)
            .int("k", n.kind as i64)
            .ints("f", n.fields.iter().skip(first).map(|f| idx_id(*f)))
            .finish()
    }));
    Obj::raw("")
        .str("pause", pause)
        .ints("soft", ids(&snap.tables[0].0))
        .ints("weak", ids(&snap.tables[1].0))
        .ints("phantom", ids(&snap.tables[2].0))
        .ints("pending", snap.tables.iter().map(|t| t.1.len() as i64))
        .ints("cand", ids(&snap.candidates))
        .ints("ready", ids(&snap.ready))
        .int("nidx", snap.nursery_index as i64)
        .json("rnodes", &rnodes)
        .finish()
}
