//! C39 driver: exercises the real `mmtk::util::options` code (Options::set_from_string,
//! set_bulk_from_string, read_env_var_settings and the public `FromStr` parsers of the option
//! types) and records what it did. Nothing is judged here: every row carries the input (as a
//! sequence of Unicode scalar values), the result, and a dump of ALL option values before and
//! after the call, read through the public `Deref` getters of `MMTKOption`.
//!
//! Row formats (one JSON object per line):
//!   {"ev":"Set","n":name,"nc":[codes],"v":value,"vc":[codes],"ncpu":N,"ret":bool,"panic":msg?,"b":DUMP,"a":DUMP}
//!   {"ev":"Bulk","s":str,"sc":[codes],"ncpu":N,"ret":"true"|"false"|"panic","msg":..,"b":DUMP,"a":DUMP}
//!   {"ev":"EnvRead","pairs":[[keycodes,valcodes],..],"ncpu":N,"ret":"done"|"panic","b":DUMP,"a":DUMP}
//!   {"ev":"Parse","t":type,"v":str,"vc":[codes],"ncpu":N,"ok":bool,"panic":msg?,"val":VALUE|0}
//! DUMP = JSON array of the 28 option values in the order of `NAMES`; VALUE encodings:
//!   bool -> true/false; usize/Address -> decimal digit array; enums -> variant name;
//!   NurserySize -> [kind, A, B] (digit arrays; f64 as [cls,neg,exp10,d1,d2,..] from `{:e}`);
//!   GCTriggerSelector -> [kind, A, B]; AffinityKind -> [kind, [cores]];
//!   PerfEventOptions -> [[namecodes, [neg,digits..], [neg,digits..]], ..].
use mmtk::util::options::*;
use mmtk::util::os::{OSProcess, OS};
use mmtk::util::Address;
use std::panic::AssertUnwindSafe;
use vcommon::*;

const NAMES: [&str; 28] = [
    "plan",
    "threads",
    "use_short_stack_scans",
    "use_return_barrier",
    "eager_complete_sweep",
    "ignore_system_gc",
    "nursery",
    "full_heap_system_gc",
    "no_finalizer",
    "no_reference_types",
    "nursery_zeroing",
    "stress_factor",
    "analysis_factor",
    "precise_stress",
    "vm_space_start",
    "vm_space_size",
    "side_metadata_base_address",
    "work_perf_events",
    "phase_perf_events",
    "perf_exclude_kernel",
    "thread_affinity",
    "gc_trigger",
    "transparent_hugepages",
    "count_live_bytes_in_gc",
    "immix_always_defrag",
    "immix_defrag_every_block",
    "immix_defrag_headroom_percent",
    "concurrent_immix_disable_concurrent_marking",
];
/// the type tag (name used by the specification's Parse rows) of each option
const TYPES: [&str; 28] = [
    "plan", "usize", "bool", "bool", "bool", "bool", "nursery", "bool", "bool", "bool", "zeroing",
    "usize", "usize", "bool", "usize", "usize", "usize", "perf", "perf", "bool", "affinity",
    "gctrigger", "bool", "bool", "bool", "bool", "usize", "bool",
];

// ---------------------------------------------------------------- projections (formatting only)
fn digits(n: u128) -> String {
    json_ints(n.to_string().bytes().map(|b| (b - b'0') as i64))
}
fn codes(s: &str) -> String {
    json_ints(s.chars().map(|c| c as u32 as i64))
}
fn ascii(s: &str) -> String {
    s.chars().map(|c| if (' '..='~').contains(&c) { c } else { '?' }).collect()
}
fn i32_enc(n: i32) -> String {
    let neg = n < 0;
    let mag = (n as i64).unsigned_abs();
    let mut v = vec![neg as i64];
    v.extend(mag.to_string().bytes().map(|b| (b - b'0') as i64));
    json_ints(v)
}
/// f64 -> [cls, neg, exp10, d1, d2, ...] using Rust's shortest round-trip `{:e}` formatting:
/// value = d1.d2d3.. * 10^exp10. cls 0 finite, 1 infinite, 2 NaN.
fn f64_enc(x: f64) -> String {
    if x.is_nan() {
        return "[2,0,0,0]".to_string();
    }
    let neg = x.is_sign_negative() as i64;
    if x.is_infinite() {
        return format!("[1,{},0,0]", neg);
    }
    let s = format!("{:e}", x.abs());
    let (mant, exp) = s.split_once('e').expect("LowerExp output has an exponent");
    let mut v = vec![0, neg, exp.parse::<i64>().expect("exponent")];
    v.extend(mant.bytes().filter(|b| *b != b'.').map(|b| (b - b'0') as i64));
    json_ints(v)
}
fn enc_nursery(n: &NurserySize) -> String {
    match *n {
        NurserySize::Bounded { min, max } => {
            format!("[\"Bounded\",{},{}]", digits(min as u128), digits(max as u128))
        }
        NurserySize::ProportionalBounded { min, max } => {
            format!("[\"ProportionalBounded\",{},{}]", f64_enc(min), f64_enc(max))
        }
        NurserySize::Fixed(v) => format!("[\"Fixed\",{},[]]", digits(v as u128)),
    }
}
fn enc_trigger(g: &GCTriggerSelector) -> String {
    match *g {
        GCTriggerSelector::FixedHeapSize(s) => format!("[\"FixedHeapSize\",{},[]]", digits(s as u128)),
        GCTriggerSelector::DynamicHeapSize(a, b) => {
            format!("[\"DynamicHeapSize\",{},{}]", digits(a as u128), digits(b as u128))
        }
        GCTriggerSelector::Delegated => "[\"Delegated\",[],[]]".to_string(),
    }
}
fn enc_affinity(a: &AffinityKind) -> String {
    match a {
        AffinityKind::OsDefault => "[\"OsDefault\",[]]".to_string(),
        AffinityKind::RoundRobin(v) => format!("[\"RoundRobin\",{}]", json_ints(v.iter().map(|c| *c as i64))),
        AffinityKind::AllInSet(v) => format!("[\"AllInSet\",{}]", json_ints(v.iter().map(|c| *c as i64))),
    }
}
fn enc_perf(p: &PerfEventOptions) -> String {
    json_array(p.events.iter().map(|(n, pid, cpu)| format!("[{},{},{}]", codes(n), i32_enc(*pid), i32_enc(*cpu))))
}
fn b(v: bool) -> String {
    (if v { "true" } else { "false" }).to_string()
}
fn q(s: String) -> String {
    format!("\"{}\"", s)
}
fn addr(a: Address) -> String {
    digits(a.as_usize() as u128)
}

/// All option values through the public getters, in the order of NAMES.
fn dump(o: &Options) -> String {
    json_array(vec![
        q(format!("{:?}", *o.plan)),
        digits(*o.threads as u128),
        b(*o.use_short_stack_scans),
        b(*o.use_return_barrier),
        b(*o.eager_complete_sweep),
        b(*o.ignore_system_gc),
        enc_nursery(&o.nursery),
        b(*o.full_heap_system_gc),
        b(*o.no_finalizer),
        b(*o.no_reference_types),
        q(format!("{:?}", *o.nursery_zeroing)),
        digits(*o.stress_factor as u128),
        digits(*o.analysis_factor as u128),
        b(*o.precise_stress),
        addr(*o.vm_space_start),
        digits(*o.vm_space_size as u128),
        addr(*o.side_metadata_base_address),
        enc_perf(&o.work_perf_events),
        enc_perf(&o.phase_perf_events),
        b(*o.perf_exclude_kernel),
        enc_affinity(&o.thread_affinity),
        enc_trigger(&o.gc_trigger),
        b(*o.transparent_hugepages),
        b(*o.count_live_bytes_in_gc),
        b(*o.immix_always_defrag),
        b(*o.immix_defrag_every_block),
        digits(*o.immix_defrag_headroom_percent as u128),
        b(*o.concurrent_immix_disable_concurrent_marking),
    ])
}

// ---------------------------------------------------------------- the calls under observation
struct Drv {
    trace: Trace,
    ncpu: i64,
    opts: Options,
    counts: std::collections::BTreeMap<&'static str, u64>,
}

impl Drv {
    fn count(&mut self, k: &'static str) {
        *self.counts.entry(k).or_insert(0) += 1;
    }
    /// every row gets a sequence number `id` (used to refer to rows in diagnostics)
    fn push(&mut self, row: Obj) {
        let id = self.trace.len() as i64 + 1;
        self.trace.push(row.int("id", id).finish());
    }
    fn fresh(&mut self) {
        self.opts = Options::default();
    }
    fn set(&mut self, n: &str, v: &str) {
        let before = dump(&self.opts);
        let o = &mut self.opts;
        let r = catch(AssertUnwindSafe(|| o.set_from_string(n, v)));
        let after = dump(&self.opts);
        let mut row = Obj::new("Set")
            .str("n", &ascii(n))
            .json("nc", &codes(n))
            .str("v", &ascii(v))
            .json("vc", &codes(v))
            .int("ncpu", self.ncpu);
        row = match r {
            Ok(ret) => row.bool("ret", ret),
            Err(msg) => row.bool("ret", false).str("panic", &ascii(&msg)),
        };
        self.push(row.json("b", &before).json("a", &after));
        self.count("Set");
    }
    fn bulk(&mut self, s: &str) {
        let before = dump(&self.opts);
        let o = &mut self.opts;
        let r = catch(AssertUnwindSafe(|| o.set_bulk_from_string(s)));
        let after = dump(&self.opts);
        let mut row = Obj::new("Bulk").str("s", &ascii(s)).json("sc", &codes(s)).int("ncpu", self.ncpu);
        row = match r {
            Ok(ret) => row.str("ret", if ret { "true" } else { "false" }),
            Err(msg) => row.str("ret", "panic").str("msg", &ascii(&msg)),
        };
        self.push(row.json("b", &before).json("a", &after));
        self.count("Bulk");
    }
    /// Sets the given environment variables, calls read_env_var_settings, removes them again.
    fn env_read(&mut self, pairs: &[(String, String)]) {
        for (k, v) in pairs {
            std::env::set_var(k, v);
        }
        let before = dump(&self.opts);
        let o = &mut self.opts;
        let r = catch(AssertUnwindSafe(|| o.read_env_var_settings()));
        let after = dump(&self.opts);
        for (k, _) in pairs {
            std::env::remove_var(k);
        }
        let ps = json_array(pairs.iter().map(|(k, v)| format!("[{},{}]", codes(k), codes(v))));
        let show: Vec<String> = pairs.iter().map(|(k, v)| format!("{}={}", ascii(k), ascii(v))).collect();
        let row = Obj::new("EnvRead")
            .str("s", &show.join(" "))
            .json("pairs", &ps)
            .int("ncpu", self.ncpu)
            .str("ret", if r.is_ok() { "done" } else { "panic" })
            .json("b", &before)
            .json("a", &after);
        self.push(row);
        self.count("EnvRead");
    }
    /// Direct call of the public FromStr implementation of an option type.
    fn parse(&mut self, t: &str, v: &str) {
        let r: Result<Option<String>, String> = catch(AssertUnwindSafe(|| match t {
            "usize" => v.parse::<usize>().ok().map(|x| digits(x as u128)),
            "addr" => v.parse::<Address>().ok().map(addr),
            "bool" => v.parse::<bool>().ok().map(b),
            "plan" => v.parse::<PlanSelector>().ok().map(|x| q(format!("{:?}", x))),
            "zeroing" => v.parse::<NurseryZeroingOptions>().ok().map(|x| q(format!("{:?}", x))),
            "nursery" => v.parse::<NurserySize>().ok().map(|x| enc_nursery(&x)),
            "gctrigger" => v.parse::<GCTriggerSelector>().ok().map(|x| enc_trigger(&x)),
            "affinity" => v.parse::<AffinityKind>().ok().map(|x| enc_affinity(&x)),
            "perf" => v.parse::<PerfEventOptions>().ok().map(|x| enc_perf(&x)),
            _ => panic!("driver: unknown type tag {}", t),
        }));
        let mut row = Obj::new("Parse").str("t", t).str("v", &ascii(v)).json("vc", &codes(v)).int("ncpu", self.ncpu);
        row = match r {
            Ok(Some(val)) => row.bool("ok", true).json("val", &val),
            Ok(None) => row.bool("ok", false).int("val", 0),
            Err(msg) => row.bool("ok", false).str("panic", &ascii(&msg)).int("val", 0),
        };
        self.push(row);
        self.count("Parse");
    }
}

// ---------------------------------------------------------------- input corpora (inputs only)
const NUMS: &[&str] = &[
    "0", "1", "2", "9", "10", "15", "16", "17", "49", "50", "51", "255", "256", "1023", "1024", "65535", "65536",
    "2097151", "2097152", "2097153", "1099511627775", "1099511627776", "1099511627777", "4294967295",
    "4294967296", "9223372036854775807", "9223372036854775808", "18446744073709551614",
    "18446744073709551615", "18446744073709551616", "18446744073709551625", "28446744073709551615",
    "18014398509481983", "18014398509481984", "17592186044415", "17592186044416", "17179869183",
    "17179869184", "16777215", "16777216", "99999999999999999999", "100000000000000000000",
    "340282366920938463463374607431768211456", "000", "0001", "00000000000000000000000001",
];
const JUNK: &[&str] = &[
    "", " ", "0", "1", "true", "false", "True", "TRUE", "+1", "-1", "+0", "-0", "+", "-", "++1", "00", "007", " 1",
    "1 ", "1\n", "\t1", "1k", "1K", "16777216t", "0x10", "1e3", "1.0", "1_000", "\u{661}\u{662}\u{663}",
    "\u{ff11}", "\u{e9}", "\u{1f600}", "NoGC", "nogc", "GenImmix", "Temporal", "_", ",", ":", "=", "a=b", "\u{0}",
    "1\u{0}", "true\u{0}", "18446744073709551615", "18446744073709551616", "+18446744073709551615",
    "018446744073709551615", "99999999999999999999", "340282366920938463463374607431768211456",
];
const BOOLS: &[&str] = &["true", "false", "True", "False", "TRUE", "tRue", "1", "0", "yes", "no", "t", "f", "true ", " false", "truee", "tru"];
const PLANS: &[&str] = &[
    "NoGC", "SemiSpace", "GenCopy", "GenImmix", "MarkSweep", "PageProtect", "Immix", "MarkCompact", "Compressor",
    "StickyImmix", "ConcurrentImmix", "nogc", "NOGC", "Nogc", "semispace", "Gen Immix", "GenImmix ", " GenImmix",
    "GenImmi", "GenImmixx", "Immix,Immix", "Temporal", "MarkSweep\n",
];
const ZEROING: &[&str] = &["Temporal", "Nontemporal", "Concurrent", "Adaptive", "temporal", "NonTemporal", "Adaptive ", "Immix", "Tempora"];
const TRIGGERS: &[&str] = &[
    "FixedHeapSize:0", "FixedHeapSize:1", "FixedHeapSize:1024", "FixedHeapSize:1k", "FixedHeapSize:1K",
    "FixedHeapSize:1m", "FixedHeapSize:1M", "FixedHeapSize:1g", "FixedHeapSize:1G", "FixedHeapSize:1t",
    "FixedHeapSize:1T", "FixedHeapSize:0k", "FixedHeapSize:0t", "FixedHeapSize:007m",
    "FixedHeapSize:18446744073709551615", "FixedHeapSize:18446744073709551616",
    "FixedHeapSize:16777215t", "FixedHeapSize:16777216t", "FixedHeapSize:17179869183g",
    "FixedHeapSize:17179869184g", "FixedHeapSize:18014398509481983k", "FixedHeapSize:18014398509481984k",
    "FixedHeapSize:17592186044415m", "FixedHeapSize:17592186044416m", "FixedHeapSize:18446744073709551615k",
    "FixedHeapSize:18446744073709551616k", "FixedHeapSize:36028797018963968k", "FixedHeapSize:33554432t",
    "FixedHeapSize:+1", "FixedHeapSize:-1", "FixedHeapSize: 1", "FixedHeapSize:1 ", "FixedHeapSize:1kk",
    "FixedHeapSize:k", "FixedHeapSize:1b", "FixedHeapSize:1kb", "FixedHeapSize:1p", "fixedheapsize:1",
    "FixedHeapSize", "FixedHeapSize:", "FixedHeapSize:1,2", "xFixedHeapSize:1", "FixedHeapSize:1\n",
    "\nFixedHeapSize:1", "FixedHeapSize:\u{661}", "FixedHeapSize:1\u{212a}", "FixedHeapSize:1\u{ff4b}",
    "FixedHeapSize::1", "FixedHeapSize=1", "DynamicHeapSize:1,2", "DynamicHeapSize:2,1", "DynamicHeapSize:1,1",
    "DynamicHeapSize:0,0", "DynamicHeapSize:0,1", "DynamicHeapSize:1k,1m", "DynamicHeapSize:1m,1k",
    "DynamicHeapSize:1024,1k", "DynamicHeapSize:1025,1k", "DynamicHeapSize:1,", "DynamicHeapSize:,1",
    "DynamicHeapSize:1", "DynamicHeapSize:1,2,3", "DynamicHeapSize:1,2,", "DynamicHeapSize:1;2",
    "DynamicHeapSize:1, 2", "DynamicHeapSize:18446744073709551615,18446744073709551615",
    "DynamicHeapSize:18446744073709551614,18446744073709551615",
    "DynamicHeapSize:18446744073709551615,18446744073709551614", "DynamicHeapSize:16777216t,1",
    "DynamicHeapSize:1,16777216t", "DynamicHeapSize:16777215t,16777215t", "DynamicHeapSize:1G,1g",
    "dynamicheapsize:1,2", "DynamicHeapSize", "Delegated", "Delegated:", "Delegatedx", "Delegated ",
    "Delegated:1", "DelegatedHeapSize:1g", "delegated", " Delegated", "Delegate", "DELEGATED", "",
];
const NURSERIES: &[&str] = &[
    "Fixed:0", "Fixed:1", "Fixed:8192", "Fixed:_", "Fixed:1k", "Fixed:", "Fixed:1,2", "Fixed:+5", "Fixed:-5",
    "Fixed:18446744073709551615", "Fixed:18446744073709551616", "Fixed:0008192", "Fixed", "fixed:1", "Fixed:1:2",
    "Fixed: 1", "Fixed:1 ", "Fixed:1,", "Bounded:1,2", "Bounded:2,1", "Bounded:1,1", "Bounded:0,0", "Bounded:_,2",
    "Bounded:1,_", "Bounded:_,_", "Bounded:1099511627776,_", "Bounded:1099511627777,_", "Bounded:_,2097151",
    "Bounded:_,2097152", "Bounded:1", "Bounded:1,2,3", "Bounded:1;2", "bounded:1,2", "Bounded:1,2:3", "Bounded:",
    "Bounded:,", "Bounded:1,", "Bounded:,2", "Bounded:1k,2k", "Bounded:+1,+2", "Bounded:__,2",
    "Bounded:18446744073709551615,18446744073709551615", "Bounded:18446744073709551616,_",
    "Bounded:0,18446744073709551615", "Bounded:1 ,2", "ProportionalBounded:0.1,0.8",
    "ProportionalBounded:0.25,1.0", "ProportionalBounded:0.25,1", "ProportionalBounded:_,_",
    "ProportionalBounded:0.5,_", "ProportionalBounded:_,0.5", "ProportionalBounded:_,0.25",
    "ProportionalBounded:_,0.2", "ProportionalBounded:0,1", "ProportionalBounded:0.0,1",
    "ProportionalBounded:-0.0,1", "ProportionalBounded:-0.5,1", "ProportionalBounded:0.5,1.5",
    "ProportionalBounded:1,1", "ProportionalBounded:1.0,1.0", "ProportionalBounded:0.9,0.1",
    "ProportionalBounded:1e-1,1e0", "ProportionalBounded:5E-1,1", "ProportionalBounded:.5,1.",
    "ProportionalBounded:+.5,+1", "ProportionalBounded:inf,inf", "ProportionalBounded:0.5,inf",
    "ProportionalBounded:0.5,Infinity", "ProportionalBounded:-inf,1", "ProportionalBounded:nan,1",
    "ProportionalBounded:0.5,NaN", "ProportionalBounded:0.5,0.5", "ProportionalBounded:0x1p-1,1",
    "ProportionalBounded:0.5,1.0000000000000000", "ProportionalBounded:0.5,0.50000", "ProportionalBounded:5e-1,50e-2",
    "ProportionalBounded:0.125,0.875", "ProportionalBounded:1e-300,1", "ProportionalBounded:0.000001,0.00001",
    "ProportionalBounded:123456789012345e-15,1", "ProportionalBounded:0.5", "ProportionalBounded:0.5,1,1",
    "ProportionalBounded:.,1", "ProportionalBounded:e1,1", "ProportionalBounded:1e,1", "ProportionalBounded:1e+,1",
    "ProportionalBounded:0.5 ,1", "ProportionalBounded:0.5,1e0000", "ProportionalBounded:1_0,1",
    "ProportionalBounded:0.1000000000000000055511151231257827,1", "ProportionalBounded:1e-400,1",
    "ProportionalBounded:0.5,1.0000000000000000001", "ProportionalBounded:0.5,1e999999999999999999999",
    "ProportionalBounded:0e999999999999999999999,1", "proportionalbounded:0.5,1", "Proportional:0.5,1", "", ":",
    "Fixed:\u{661}", "Unknown:1",
];
const AFFINITIES: &[&str] = &[
    "", "0", "1", "0,1", "1,0", "0,0", "5,0,5", "0-1", "0-3,2", "2,0-3", "1-0", "3-3", "0-1-4", "0,1-2,4", "0,1-2,4,",
    ",0", "0,,1", "0, 1", "0,1-2,4, 6", "AllInSet:0,1", "AllInSet:1,0,1", "RoundRobin:0", "RoundRobin:0-2", "AllIn:0,1",
    "AllInSet:", "RoundRobin:", ":0", ":", "AllInSet:0:1", "allinset:0", "AllInSet :0", "15", "16", "17", "0-15",
    "0-16", "14-16", "AllInSet:15", "AllInSet:16", "AllInSet:0-20", "AllInSet:1023", "AllInSet:1024", "65535", "65536",
    "AllInSet:65535", "AllInSet:65536", "AllInSet:65530-65535", "AllInSet:65534-65536", "RoundRobin:65535",
    "AllInSet:0-300", "+1", "0-+1", "+0-1", "-1", "0-", "-", "1-", "--", "0--1", "\u{663}", "0,\u{663}", "007", "0-007",
    "OsDefault", "OsDefault:", "RoundRobin", "AllInSet",
];
const PERFS: &[&str] = &[
    "", "a,0,-1", "PERF_COUNT_HW_CPU_CYCLES,0,-1", "a,0,-1;b,1,2", "a,0,-1;", ";a,0,-1", ";;", ";", "a,0", "a,0,1,2",
    ",0,1", "a,x,1", "a,1,x", "a,2147483647,-2147483648", "a,2147483648,0", "a,0,-2147483649", "a,+1,-0",
    "a, 1,2", "a,1,2 ", "a b,1,2", "a,1,2;b", "a,1,2;;b,3,4", "\u{e9},1,2", "a,,", "a,1,", "a,-,1", "a,+,1",
    "a,00012,-0007", "a,99999999999,1",
];

fn corpus_for(ty: &str) -> Vec<&'static str> {
    let mut v: Vec<&'static str> = JUNK.to_vec();
    match ty {
        "usize" => v.extend(NUMS),
        "bool" => v.extend(BOOLS),
        "plan" => v.extend(PLANS),
        "zeroing" => v.extend(ZEROING),
        "nursery" => v.extend(NURSERIES),
        "gctrigger" => v.extend(TRIGGERS),
        "affinity" => v.extend(AFFINITIES),
        "perf" => v.extend(PERFS),
        _ => {}
    }
    v
}

/// A cpu list whose ranges are too wide makes the real parser (sort + dedup after every pushed
/// core) and the specification spend seconds on one row: generator constraint, not a judgement.
fn affinity_too_wide(v: &str) -> bool {
    v.split([',', ':']).any(|item| {
        let p: Vec<&str> = item.split('-').collect();
        if p.len() != 2 {
            return false;
        }
        let num = |s: &str| s.trim_start_matches('+').parse::<u64>().ok();
        match (num(p[0]), num(p[1])) {
            (Some(a), Some(z)) => z > a && z - a > 2500,
            _ => false,
        }
    })
}

// ---------------------------------------------------------------- grammar-directed random values
fn rnd_num(rng: &mut Rng) -> String {
    match rng.below(10) {
        0..=4 => rng.pick(NUMS).to_string(),
        5..=6 => rng.below(200).to_string(),
        _ => {
            let n = rng.range(1, 22);
            (0..n).map(|_| (b'0' + rng.below(10) as u8) as char).collect()
        }
    }
}
fn rnd_size(rng: &mut Rng) -> String {
    let mut s = rnd_num(rng);
    if rng.chance(2, 3) {
        s.push(*rng.pick(&['k', 'K', 'm', 'M', 'g', 'G', 't', 'T']));
    }
    s
}
fn rnd_core(rng: &mut Rng) -> String {
    match rng.below(10) {
        0..=6 => rng.below(20).to_string(),
        7 => rng.pick(&["255", "1023", "1024", "65535", "65536", "300"]).to_string(),
        _ => rng.below(400).to_string(),
    }
}
/// decimal literals that are exactly decidable (<= 15 significant digits, small exponents)
fn rnd_frac(rng: &mut Rng) -> String {
    match rng.below(12) {
        0 => "_".to_string(),
        1 => rng.pick(&["0", "1", "1.0", "0.0", "1.", ".5", "0.25", "0.5", "0.75", "1e0", "5e-1", "25e-2", "+0.5", "-0.5", "2", "1.5"]).to_string(),
        2 => rng.pick(&["inf", "nan", "-inf", "Infinity", "NaN", "INF"]).to_string(),
        3 => format!("{}e-{}", rng.range(1, 999), rng.range(1, 4)),
        _ => {
            let n = rng.range(1, 6);
            let d: String = (0..n).map(|_| (b'0' + rng.below(10) as u8) as char).collect();
            format!("0.{}", d)
        }
    }
}
fn rnd_value(rng: &mut Rng, ty: &str) -> String {
    match ty {
        "usize" => {
            let mut s = rnd_num(rng);
            if rng.chance(1, 8) {
                s.insert(0, '+');
            }
            s
        }
        "bool" => rng.pick(BOOLS).to_string(),
        "plan" => rng.pick(PLANS).to_string(),
        "zeroing" => rng.pick(ZEROING).to_string(),
        "gctrigger" => match rng.below(8) {
            0..=2 => format!("FixedHeapSize:{}", rnd_size(rng)),
            3..=5 => format!("DynamicHeapSize:{},{}", rnd_size(rng), rnd_size(rng)),
            6 => "Delegated".to_string(),
            _ => rng.pick(TRIGGERS).to_string(),
        },
        "nursery" => match rng.below(8) {
            0..=1 => format!("Fixed:{}", rnd_num(rng)),
            2..=3 => {
                let a = if rng.chance(1, 5) { "_".to_string() } else { rnd_num(rng) };
                let z = if rng.chance(1, 5) { "_".to_string() } else { rnd_num(rng) };
                format!("Bounded:{},{}", a, z)
            }
            4..=6 => format!("ProportionalBounded:{},{}", rnd_frac(rng), rnd_frac(rng)),
            _ => rng.pick(NURSERIES).to_string(),
        },
        "affinity" => {
            if rng.chance(1, 8) {
                return rng.pick(AFFINITIES).to_string();
            }
            let mut s = String::new();
            match rng.below(4) {
                0 => s.push_str("AllInSet:"),
                1 => s.push_str("RoundRobin:"),
                _ => {}
            }
            let n = rng.range(1, 5);
            for i in 0..n {
                if i > 0 {
                    s.push(',');
                }
                if rng.chance(1, 3) {
                    let a = rng.below(18);
                    let z = a + rng.below(6);
                    let _ = std::fmt::Write::write_fmt(&mut s, format_args!("{}-{}", a, z));
                } else {
                    s.push_str(&rnd_core(rng));
                }
            }
            s
        }
        "perf" => {
            if rng.chance(1, 6) {
                return rng.pick(PERFS).to_string();
            }
            let n = rng.range(0, 3);
            let mut s = String::new();
            for i in 0..n {
                if i > 0 {
                    s.push(';');
                }
                let name = rng.pick(&["a", "PERF_COUNT_HW_CPU_CYCLES", "x y", "", "e:1"]).to_string();
                let num = |rng: &mut Rng| -> String {
                    match rng.below(6) {
                        0 => rng.pick(&["2147483647", "-2147483648", "2147483648", "-2147483649", "+7", "-0"]).to_string(),
                        1 => format!("-{}", rng.below(100)),
                        _ => rng.below(100).to_string(),
                    }
                };
                let (p, c) = (num(rng), num(rng));
                s.push_str(&format!("{},{},{}", name, p, c));
            }
            s
        }
        _ => String::new(),
    }
}
const MUT_CHARS: &[char] = &[
    '0', '1', '9', 'k', 'K', 't', 'm', 'g', ',', '-', ':', '_', '.', 'e', '+', ' ', '\t', '\n', ';', '=', 'x', 'A',
    '\u{661}', '\u{e9}', '\u{212a}', '\u{1f600}', '\u{a0}',
];
fn mutate(rng: &mut Rng, s: &str) -> String {
    let mut cs: Vec<char> = s.chars().collect();
    let n = rng.range(1, 2);
    for _ in 0..n {
        match rng.below(4) {
            0 if !cs.is_empty() => {
                let i = rng.below(cs.len() as u64) as usize;
                cs.remove(i);
            }
            1 if !cs.is_empty() => {
                let i = rng.below(cs.len() as u64) as usize;
                cs[i] = *rng.pick(MUT_CHARS);
            }
            2 if cs.len() > 1 => {
                let i = rng.below(cs.len() as u64 - 1) as usize;
                cs.swap(i, i + 1);
            }
            _ => {
                let i = rng.below(cs.len() as u64 + 1) as usize;
                cs.insert(i, *rng.pick(MUT_CHARS));
            }
        }
    }
    cs.into_iter().collect()
}
fn rnd_maybe_mutated(rng: &mut Rng, ty: &str) -> String {
    let v = rnd_value(rng, ty);
    let v = if rng.chance(1, 3) { mutate(rng, &v) } else { v };
    if ty == "affinity" && affinity_too_wide(&v) {
        "0-3".to_string()
    } else {
        v
    }
}

// ---------------------------------------------------------------- exhaustive short strings
fn all_strings(alpha: &[char], maxlen: usize, f: &mut dyn FnMut(&str)) {
    fn rec(alpha: &[char], maxlen: usize, cur: &mut String, f: &mut dyn FnMut(&str)) {
        f(cur);
        if cur.chars().count() < maxlen {
            for c in alpha {
                cur.push(*c);
                rec(alpha, maxlen, cur, f);
                cur.pop();
            }
        }
    }
    rec(alpha, maxlen, &mut String::new(), f);
}

/// (option name or type tag, prefix, alphabet, length reduction)
const A_NUM: &[char] = &['0', '1', '9', 'k', 't', ',', '-', ':', 'x'];
const A_NUMP: &[char] = &['0', '1', '5', '9', '+', '-', 'k', ' ', 'x'];
const A_NURS: &[char] = &['0', '1', '9', ',', '_', ':', 'k', '-', 'x'];
const A_PROP: &[char] = &['0', '1', '5', '.', ',', '_', 'e', '-', 'x'];
const A_PERF: &[char] = &['0', '1', '9', ',', ';', '-', 'x', '+', ':'];
const A_BULK: &[char] = &['a', '=', '1', ',', ' ', 'x'];
const EXH: &[(&str, &str, &str, &[char], usize, usize)] = &[
    // (option, type, prefix, alphabet, length reduction of the Set rows, of the Parse rows; 9 = none)
    ("stress_factor", "usize", "", A_NUMP, 1, 1),
    ("threads", "usize", "", A_NUMP, 1, 9),
    ("immix_defrag_headroom_percent", "usize", "", A_NUMP, 1, 9),
    ("vm_space_start", "addr", "", A_NUMP, 2, 1),
    ("gc_trigger", "gctrigger", "FixedHeapSize:", A_NUM, 0, 1),
    ("gc_trigger", "gctrigger", "DynamicHeapSize:", A_NUM, 0, 1),
    ("gc_trigger", "gctrigger", "Delegated", A_NUM, 3, 3),
    ("gc_trigger", "gctrigger", "", A_NUM, 2, 2),
    ("nursery", "nursery", "Fixed:", A_NURS, 1, 2),
    ("nursery", "nursery", "Bounded:", A_NURS, 0, 1),
    ("nursery", "nursery", "ProportionalBounded:", A_PROP, 0, 1),
    ("nursery", "nursery", "", A_NURS, 2, 2),
    ("thread_affinity", "affinity", "", A_NUM, 0, 1),
    ("thread_affinity", "affinity", "AllInSet:", A_NUM, 1, 2),
    ("thread_affinity", "affinity", "RoundRobin:", A_NUM, 1, 2),
    ("work_perf_events", "perf", "a,", A_PERF, 2, 0),
    ("phase_perf_events", "perf", "", A_PERF, 2, 1),
    ("no_finalizer", "bool", "", &['t', 'r', 'u', 'e', 'f', 'T'], 0, 1),
];

fn main() {
    std::panic::set_hook(Box::new(|_| {}));
    let out = arg_or("out", "options.ndjson");
    let maxlen = arg_u64("maxlen", 4) as usize;
    let nrandom = arg_u64("random", 2000);
    let quick = flag("quick");
    let sections = arg_or("sections", "corpus,exh,parse,random,bulk,env");
    let has = |s: &str| sections.split(',').any(|x| x == s);
    // no inherited MMTK_* variable may influence read_env_var_settings
    let inherited: Vec<String> = std::env::vars_os()
        .filter_map(|(k, _)| k.into_string().ok())
        .filter(|k| k.starts_with("MMTK_"))
        .collect();
    for k in inherited {
        std::env::remove_var(k);
    }
    let mut d = Drv {
        trace: Trace::new(),
        ncpu: OS::get_total_num_cpus() as i64,
        opts: Options::default(),
        counts: Default::default(),
    };
    let mut rng = Rng::new(seed_from_env());

    if has("corpus") {
        // every option name x its value corpus, on a fresh Options and on a dirty one (the state
        // left behind by everything before)
        for round in 0..2 {
            for (i, n) in NAMES.iter().enumerate() {
                if round == 0 {
                    d.fresh();
                }
                for v in corpus_for(TYPES[i]) {
                    d.set(n, v);
                }
            }
        }
        // unknown / malformed option names
        for n in ["", "Threads", "THREADS", "threads ", " threads", "thread", "threadss", "plan\n", "gc-trigger", "nursery\u{0}", "\u{e9}", "stress_factor=1", "MMTK_THREADS", "opts"] {
            for v in ["1", "true", "", "NoGC"] {
                d.set(n, v);
            }
        }
        // direct parser calls for every type x corpus
        for ty in ["usize", "addr", "bool", "plan", "zeroing", "nursery", "gctrigger", "affinity", "perf"] {
            for v in corpus_for(if ty == "addr" { "usize" } else { ty }) {
                d.parse(ty, v);
            }
        }
    }
    if has("exh") || has("parse") {
        for (name, ty, prefix, alpha, red, pred) in EXH {
            // quick tier: the two contexts whose grammar is a sub-grammar of a neighbour context
            // (Fixed size = one Dynamic bound, Bounded = two Fixed values) are one symbol shorter
            let lite = quick && (*prefix == "FixedHeapSize:" || *prefix == "Bounded:");
            let l = maxlen.saturating_sub(*red + lite as usize);
            let pl = maxlen.saturating_sub(*pred);
            let mut strs: Vec<(usize, String)> = vec![];
            all_strings(alpha, l.max(pl), &mut |w| strs.push((w.chars().count(), format!("{}{}", prefix, w))));
            d.fresh();
            for (wl, s) in &strs {
                if *ty == "affinity" && affinity_too_wide(s) {
                    continue;
                }
                if has("exh") && *wl <= l {
                    d.set(name, s);
                }
                if has("parse") && *wl <= pl {
                    d.parse(ty, s);
                }
            }
        }
    }
    if has("random") {
        d.fresh();
        for i in 0..nrandom {
            if i % 97 == 96 {
                d.fresh();
            }
            let k = rng.below(NAMES.len() as u64) as usize;
            // mostly a value of the option's own type, sometimes of another type
            let ty = if rng.chance(1, 10) { *rng.pick(&TYPES) } else { TYPES[k] };
            let v = rnd_maybe_mutated(&mut rng, ty);
            d.set(NAMES[k], &v);
            if rng.chance(1, 4) {
                d.parse(ty, &v);
            }
        }
    }
    if has("bulk") {
        // exhaustive short bulk strings (shape of the pair list), then random realistic ones
        d.fresh();
        let mut shapes: Vec<String> = vec![];
        all_strings(A_BULK, maxlen.min(5), &mut |w| shapes.push(w.to_string()));
        for w in &shapes {
            // `a` stands for a known key, `x` for an unknown one
            let s = w.replace('a', "threads");
            d.bulk(&s);
        }
        d.fresh();
        let seps = [" ", ",", "\t", "\n", "  ", ", ", "\r", "\u{c}", " ,"];
        for i in 0..nrandom / 2 {
            if i % 41 == 40 {
                d.fresh();
            }
            let npairs = rng.below(5);
            let mut s = String::new();
            if rng.chance(1, 6) {
                s.push_str(*rng.pick(&seps[..]));
            }
            for j in 0..npairs {
                if j > 0 {
                    s.push_str(*rng.pick(&seps[..]));
                }
                let k = rng.below(NAMES.len() as u64) as usize;
                let name = match rng.below(14) {
                    0 => rng.pick(&["foo", "Threads", "", "plan2", "gc-trigger"]).to_string(),
                    _ => NAMES[k].to_string(),
                };
                let ty = TYPES[k];
                // values with separators inside are legal inputs too (they split the pair)
                let v = if rng.chance(1, 5) { rnd_maybe_mutated(&mut rng, ty) } else { rnd_value(&mut rng, ty) };
                match rng.below(20) {
                    0 => s.push_str(&name),
                    1 => s.push_str(&format!("{}={}={}", name, v, v)),
                    2 => s.push_str(&format!("{}==", name)),
                    _ => s.push_str(&format!("{}={}", name, v)),
                }
            }
            if rng.chance(1, 6) {
                s.push_str(*rng.pick(&seps[..]));
            }
            if s.split([',', ' ']).any(|t| t.starts_with("thread_affinity=") && affinity_too_wide(t)) {
                continue;
            }
            d.bulk(&s);
        }
    }
    if has("env") {
        d.fresh();
        for i in 0..nrandom / 4 {
            if i % 23 == 22 {
                d.fresh();
            }
            let n = rng.range(1, 3);
            let mut used: Vec<String> = vec![];
            let mut pairs: Vec<(String, String)> = vec![];
            for _ in 0..n {
                let k = rng.below(NAMES.len() as u64) as usize;
                if used.iter().any(|u| u == NAMES[k]) {
                    continue;
                }
                used.push(NAMES[k].to_string());
                let upper = NAMES[k].to_uppercase();
                let mixed: String = NAMES[k].chars().enumerate().map(|(i, c)| if i % 2 == 0 { c.to_ascii_uppercase() } else { c }).collect();
                let key = match rng.below(10) {
                    0 => format!("MMTK_{}", NAMES[k]),
                    1 => format!("MMTK_{}", mixed),
                    2 => format!("MMTK{}", upper),
                    3 => format!("mmtk_{}", upper),
                    4 => format!("MMTK_{}X", upper),
                    5 => format!("XMMTK_{}", upper),
                    _ => format!("MMTK_{}", upper),
                };
                let v = rnd_maybe_mutated(&mut rng, TYPES[k]);
                if v.contains('\u{0}') || (TYPES[k] == "affinity" && affinity_too_wide(&v)) {
                    continue;
                }
                pairs.push((key, v));
            }
            d.env_read(&pairs);
        }
    }
    let n = d.trace.write_to(&out).expect("write trace");
    let cs: Vec<String> = d.counts.iter().map(|(k, v)| format!("{}={}", k, v)).collect();
    println!("d_options: {} rows ({}) ncpu={} -> {}", n, cs.join(" "), d.ncpu, out);
}
