//! C26 / C27: drive the real free lists of mmtk-core (`FreeList` trait, `IntArrayFreeList` incl.
//! `from_parent` children, `RawMemoryFreeList`) and record NDJSON rows that
//! `spec/freelist/Trace_FreeList.tla` validates. The driver never judges: it logs the call, its
//! result and a projection of the table obtained through the trait's own getters.
//!
//! Sub-commands (all take `--out <file>`):
//!   explore  breadth-first over the distinct table states reachable by short histories on small
//!            lists; every (state, call) edge is one self-contained row (pre, op, res, post)
//!   random   long random histories on larger lists (rows carry `post` every few calls)
//!   grow     C27 grid: RawMemoryFreeList::new for table pages x block pages x heads x unit counts
//!            x grains, grown to the maximum by several step policies, then allocated completely
//!
//! Row formats (all integers < 2^31):
//!   {"ev":"New","hid":h,"p":PAR,"post":PROJ}
//!   {"ev":"Step","hid":h,"i":i,"p":PAR,"c0":unitsBefore,["pre":PROJ+G,]"op":OP,"res":r[,"post":PROJ]}
//!   {"ev":"Crash","hid":h,"i":i,"p":PAR,"op":OP,"c0":unitsBefore,"hw":pages,"msg":".."}
//!   PAR  = {"kind":"ia"|"rm","max":units,"grain":g,"heads":H,"ppb":pagesPerBlock,"tp":limitPages}
//!   OP   = {"t":"Alloc|AllocFrom|Free|Size|SetUnco|ClearUnco|Grow|Drained","h":head,"n":..,"u":..,"k":..,"rcs":0|1}
//!   PROJ = {"cur":units,"hw":pages,"mlo":p,"mapped":p,"runs":[[start,size,free]..],"back":[starts,
//!           walking left from the bottom sentinel],"unco":[units],"lists":[[units in list order]
//!           per head],"bad":""}   (+ "G":[..] in `pre`: observed initial/growth run starts and
//!           the units the driver passed to set_uncoalescable -- inputs/observations, no verdicts)

use mmtk::util::verif_freelist::{
    new_raw_memory_freelist, FreeList, IntArrayFreeList, RawMemoryFreeList,
};
use mmtk::util::Address;
use std::collections::{BTreeSet, HashMap, HashSet};
use std::panic::{catch_unwind, AssertUnwindSafe};
use vcommon::*;

const PAGE: usize = 4096;
const UPP: i64 = 512; // units per page (8 bytes per unit)

// ------------------------------------------------------------------------------------------------
// A private address range for RawMemoryFreeList: reserved from the kernel (PROT_NONE), so it
// cannot collide with anything mapped in this process nor with MMTk's fixed heap/metadata ranges
// (no MMTK instance is created here). The table is placed one guard zone into the reservation.
// ------------------------------------------------------------------------------------------------
extern "C" {
    fn mmap(addr: *mut u8, len: usize, prot: i32, flags: i32, fd: i32, off: i64) -> *mut u8;
}
const PROT_NONE: i32 = 0;
const MAP_PRIVATE: i32 = 0x02;
const MAP_FIXED: i32 = 0x10;
const MAP_ANONYMOUS: i32 = 0x20;
const MAP_NORESERVE: i32 = 0x4000;
const RESERVE: usize = 64 << 20;
const GUARD: usize = 4 << 20;

struct Region {
    start: usize,
}
impl Region {
    fn new() -> Region {
        let p = unsafe {
            mmap(std::ptr::null_mut(), RESERVE, PROT_NONE, MAP_PRIVATE | MAP_ANONYMOUS | MAP_NORESERVE, -1, 0)
        };
        assert!(p as isize != -1, "cannot reserve address space");
        Region { start: p as usize }
    }
    fn base(&self) -> usize {
        (self.start + GUARD + (4 << 20) - 1) & !((4 << 20) - 1)
    }
    /// back to an untouched PROT_NONE reservation (drops whatever a list mapped)
    fn reset(&self) {
        let p = unsafe {
            mmap(
                self.start as *mut u8,
                RESERVE,
                PROT_NONE,
                MAP_PRIVATE | MAP_ANONYMOUS | MAP_NORESERVE | MAP_FIXED,
                -1,
                0,
            )
        };
        assert!(p as usize == self.start, "cannot reset the reservation");
    }
    /// what the OS reports as accessible inside the reservation: (lowest, highest+1) page offset
    /// relative to `base` (0,0 if nothing is mapped readable/writable)
    fn mapped(&self, base: usize) -> (i64, i64) {
        let maps = std::fs::read_to_string("/proc/self/maps").unwrap_or_default();
        let (mut lo, mut hi) = (usize::MAX, 0usize);
        for line in maps.lines() {
            let mut it = line.split_whitespace();
            let (range, perms) = (it.next().unwrap_or(""), it.next().unwrap_or(""));
            let mut r = range.split('-');
            let s = usize::from_str_radix(r.next().unwrap_or("0"), 16).unwrap_or(0);
            let e = usize::from_str_radix(r.next().unwrap_or("0"), 16).unwrap_or(0);
            if e <= self.start || s >= self.start + RESERVE || !perms.starts_with("rw") {
                continue;
            }
            lo = lo.min(s);
            hi = hi.max(e);
        }
        if hi == 0 {
            (0, 0)
        } else {
            ((lo as i64 - base as i64) / PAGE as i64, (hi as i64 - base as i64) / PAGE as i64)
        }
    }
}

// ------------------------------------------------------------------------------------------------
#[derive(Clone, Copy, PartialEq, Debug)]
enum Kind {
    Ia,
    Rm,
}
#[derive(Clone, Copy, Debug)]
struct Par {
    kind: Kind,
    max: i32,
    grain: i32,
    heads: i32,
    ppb: i32,
    tp: i32, // limit - base in pages (rm)
}
impl Par {
    fn json(&self) -> String {
        Obj::raw("")
            .str("kind", if self.kind == Kind::Ia { "ia" } else { "rm" })
            .int("max", self.max as i64)
            .int("grain", self.grain as i64)
            .int("heads", self.heads as i64)
            .int("ppb", self.ppb as i64)
            .int("tp", self.tp as i64)
            .finish()
    }
}

#[derive(Clone, Debug, PartialEq)]
enum Op {
    Alloc { h: i32, n: i32 },
    AllocFrom { h: i32, n: i32, u: i32 },
    Free { h: i32, u: i32, rcs: bool },
    Size { h: i32, u: i32 },
    SetUnco { h: i32, u: i32 },
    ClearUnco { h: i32, u: i32 },
    Grow { k: i32 },
    Drained,
}
impl Op {
    fn json(&self) -> String {
        let (t, h, n, u, k, rcs) = match *self {
            Op::Alloc { h, n } => ("Alloc", h, n, 0, 0, false),
            Op::AllocFrom { h, n, u } => ("AllocFrom", h, n, u, 0, false),
            Op::Free { h, u, rcs } => ("Free", h, 0, u, 0, rcs),
            Op::Size { h, u } => ("Size", h, 0, u, 0, false),
            Op::SetUnco { h, u } => ("SetUnco", h, 0, u, 0, false),
            Op::ClearUnco { h, u } => ("ClearUnco", h, 0, u, 0, false),
            Op::Grow { k } => ("Grow", 1, 0, 0, k, false),
            Op::Drained => ("Drained", 1, 0, 0, 0, false),
        };
        Obj::raw("")
            .str("t", t)
            .int("h", h as i64)
            .int("n", n as i64)
            .int("u", u as i64)
            .int("k", k as i64)
            .int("rcs", rcs as i64)
            .finish()
    }
}

/// One live list of the code under test.
struct Lst {
    par: Par,
    ia: Option<Box<IntArrayFreeList>>,
    kids: Vec<IntArrayFreeList>, // kids[o] = from_parent(parent, ordinal o)
    rm: Option<RawMemoryFreeList>,
    base: usize,
}

fn panic_msg(e: Box<dyn std::any::Any + Send>) -> String {
    if let Some(s) = e.downcast_ref::<&str>() {
        s.to_string()
    } else if let Some(s) = e.downcast_ref::<String>() {
        s.clone()
    } else {
        "panic".to_string()
    }
}

impl Lst {
    fn new(par: Par, region: &Region) -> Result<Lst, String> {
        catch_unwind(AssertUnwindSafe(|| match par.kind {
            Kind::Ia => {
                let parent = Box::new(IntArrayFreeList::new(par.max as usize, par.grain, par.heads as usize));
                let kids = (0..par.heads).map(|o| IntArrayFreeList::from_parent(&parent, o)).collect();
                Lst { par, ia: Some(parent), kids, rm: None, base: 0 }
            }
            Kind::Rm => {
                region.reset();
                let base = region.base();
                let b = unsafe { Address::from_usize(base) };
                let l = unsafe { Address::from_usize(base + par.tp as usize * PAGE) };
                let rm = new_raw_memory_freelist(b, l, par.ppb, par.max, par.grain, par.heads);
                Lst { par, ia: None, kids: vec![], rm: Some(rm), base }
            }
        }))
        .map_err(panic_msg)
    }
    /// the list object a call through head `h` uses: the parent for head 1, the child with
    /// ordinal h-1 otherwise (as Map32 does: the parent is `global_page_map`)
    fn fl(&mut self, h: i32) -> &mut dyn FreeList {
        match self.par.kind {
            Kind::Ia => {
                if h <= 1 {
                    self.ia.as_mut().unwrap().as_mut()
                } else {
                    &mut self.kids[(h - 1) as usize]
                }
            }
            Kind::Rm => self.rm.as_mut().unwrap(),
        }
    }
    fn growth(&self) -> (i64, i64, i32) {
        match &self.rm {
            Some(r) => {
                let (hw, lim, cur, _max) = r.verif_growth_state();
                (hw as i64, lim as i64, cur)
            }
            None => (0, 0, self.par.max),
        }
    }
    fn cur(&self) -> i32 {
        self.growth().2
    }
    fn nheads_observable(&self) -> i32 {
        if self.par.kind == Kind::Ia {
            self.par.heads
        } else {
            1
        }
    }
    fn apply(&mut self, op: &Op) -> Result<i64, String> {
        PROGRESS.fetch_add(1, std::sync::atomic::Ordering::Relaxed);
        *LAST_CALL.lock().unwrap() = format!("\"p\":{},\"op\":{}", self.par.json(), op.json());
        catch_unwind(AssertUnwindSafe(|| match *op {
            Op::Alloc { h, n } => self.fl(h).alloc(n) as i64,
            Op::AllocFrom { h, n, u } => self.fl(h).alloc_from_unit(n, u) as i64,
            Op::Free { h, u, rcs } => self.fl(h).free(u, rcs) as i64,
            Op::Size { h, u } => self.fl(h).size(u) as i64,
            Op::SetUnco { h, u } => {
                self.fl(h).set_uncoalescable(u);
                0
            }
            Op::ClearUnco { h, u } => {
                self.fl(h).clear_uncoalescable(u);
                0
            }
            Op::Grow { k } => self.rm.as_mut().unwrap().grow_freelist(k) as i64,
            Op::Drained => 0,
        }))
        .map_err(panic_msg)
    }
    /// raw table content through `get_entry` (state identity for the exploration only)
    fn snapshot(&mut self) -> Vec<i32> {
        let (hw, _, cur) = self.growth();
        let heads = self.par.heads;
        let mut v = vec![cur, (hw / PAGE as i64) as i32];
        if self.par.kind == Kind::Rm && hw == 0 {
            return v;
        }
        let n = if self.par.kind == Kind::Rm && cur == 0 { 0 } else { (cur + heads + 1) * 2 };
        let fl = self.fl(1);
        for i in 0..n {
            v.push(fl.get_entry(i));
        }
        v
    }
}

/// Projection of the table through the trait's getters.
#[derive(Clone, Default)]
struct Proj {
    cur: i32,
    hw: i64,
    mlo: i64,
    mapped: i64,
    runs: Vec<(i32, i32, bool)>,
    back: Vec<i32>,
    unco: Vec<i32>,
    lists: Vec<Vec<i32>>,
    bad: String,
}
impl Proj {
    fn json(&self, g: Option<&BTreeSet<i32>>) -> String {
        let mut o = Obj::raw("")
            .int("cur", self.cur as i64)
            .int("hw", self.hw)
            .int("mlo", self.mlo)
            .int("mapped", self.mapped)
            .json(
                "runs",
                &json_array(self.runs.iter().map(|r| format!("[{},{},{}]", r.0, r.1, r.2 as i32))),
            )
            .ints("back", self.back.iter().map(|x| *x as i64))
            .ints("unco", self.unco.iter().map(|x| *x as i64))
            .json("lists", &json_array(self.lists.iter().map(|l| json_ints(l.iter().map(|x| *x as i64)))))
            .str("bad", &self.bad);
        if let Some(g) = g {
            o = o.ints("G", g.iter().map(|x| *x as i64));
        }
        o.finish()
    }
    fn owner(&self) -> HashMap<i32, i32> {
        let mut m = HashMap::new();
        for (h, l) in self.lists.iter().enumerate() {
            for u in l {
                m.insert(*u, h as i32 + 1);
            }
        }
        m
    }
}

fn project(l: &mut Lst, region: &Region) -> Proj {
    PROGRESS.fetch_add(1, std::sync::atomic::Ordering::Relaxed);
    let (hwb, _lim, cur) = l.growth();
    let mut p = Proj { cur, hw: hwb / PAGE as i64, ..Default::default() };
    if hwb % PAGE as i64 != 0 {
        p.bad = format!("high water {} is not page aligned", hwb);
    }
    if l.par.kind == Kind::Rm {
        let (lo, hi) = region.mapped(l.base);
        p.mlo = lo;
        p.mapped = hi;
    }
    let nheads = l.nheads_observable();
    p.lists = vec![vec![]; nheads as usize];
    if cur == 0 && l.par.kind == Kind::Rm {
        return p; // no sentinel exists yet; nothing may be read
    }
    let cap = cur as usize + 2;
    let r = catch_unwind(AssertUnwindSafe(|| {
        let mut q = Proj::default();
        q.lists = vec![vec![]; nheads as usize];
        {
            let fl = l.fl(1);
            // forward walk: run starts, sizes, free flags
            let mut u = 0;
            while u < cur && q.runs.len() <= cap {
                let s = fl.size(u);
                q.runs.push((u, s, fl.is_free(u)));
                if s <= 0 {
                    break;
                }
                u += s;
            }
            // backward walk from the bottom sentinel (uses the size tag at the end of each run)
            let mut u = cur;
            while u > 0 && q.back.len() <= cap {
                let left = fl.get_left(u);
                if left >= u {
                    q.back.push(left);
                    break;
                }
                q.back.push(left);
                u = left;
            }
            for u in 0..=cur {
                if !fl.is_coalescable(u) {
                    q.unco.push(u);
                }
            }
        }
        for h in 1..=nheads {
            let fl = l.fl(h);
            let head = fl.head();
            let mut u = fl.get_next(head);
            while u != head && q.lists[(h - 1) as usize].len() <= cap {
                q.lists[(h - 1) as usize].push(u);
                if u < 0 || u > cur {
                    break;
                }
                u = fl.get_next(u);
            }
        }
        q
    }));
    match r {
        Ok(q) => {
            p.runs = q.runs;
            p.back = q.back;
            p.unco = q.unco;
            p.lists = q.lists;
        }
        Err(e) => p.bad = format!("getter panicked: {}", panic_msg(e)),
    }
    p
}

// ------------------------------------------------------------------------------------------------
// rows
// ------------------------------------------------------------------------------------------------
fn row_new(hid: u64, par: &Par, post: &Proj) -> String {
    Obj::new("New").int("hid", hid as i64).json("p", &par.json()).json("post", &post.json(None)).finish()
}
#[allow(clippy::too_many_arguments)]
fn row_step(
    hid: u64,
    i: usize,
    par: &Par,
    c0: i32,
    pre: Option<(&Proj, &BTreeSet<i32>)>,
    op: &Op,
    res: i64,
    post: Option<&Proj>,
) -> String {
    let mut o = Obj::new("Step")
        .int("hid", hid as i64)
        .int("i", i as i64)
        .json("p", &par.json())
        .int("c0", c0 as i64);
    if let Some((p, g)) = pre {
        o = o.json("pre", &p.json(Some(g)));
    }
    o = o.json("op", &op.json()).int("res", res);
    if let Some(p) = post {
        o = o.json("post", &p.json(None));
    }
    o.finish()
}
fn row_crash(hid: u64, i: usize, par: &Par, op: &Op, cur: i32, hw: i64, msg: &str) -> String {
    let m: String = msg.chars().take(300).collect();
    Obj::new("Crash")
        .int("hid", hid as i64)
        .int("i", i as i64)
        .json("p", &par.json())
        .json("op", &op.json())
        .int("c0", cur as i64)
        .int("hw", hw)
        .str("msg", &m)
        .finish()
}

/// observations/inputs that extend G (see module comment)
fn extend_g(g: &mut BTreeSet<i32>, op: &Op, res: i64, cur_before: i32, post: &Proj) {
    match *op {
        Op::SetUnco { u, .. } => {
            g.insert(u);
        }
        Op::Grow { .. } if res != 0 => {
            for r in &post.runs {
                if r.0 >= cur_before {
                    g.insert(r.0);
                }
            }
        }
        _ => {}
    }
}

// ------------------------------------------------------------------------------------------------
// legality of calls (API preconditions = generator constraints), decided on the observed table
// ------------------------------------------------------------------------------------------------
fn free_heads(p: &Proj, own: &HashMap<i32, i32>, nheads: i32, u: i32) -> Vec<i32> {
    // heads through which free(u) never has to unlink a run of another head's list
    let i = match p.runs.iter().position(|r| r.0 == u) {
        Some(i) => i,
        None => return vec![],
    };
    if p.runs[i].2 {
        return vec![];
    }
    let mut need: Vec<i32> = vec![];
    if i > 0 && p.runs[i - 1].2 && !p.unco.contains(&u) {
        need.push(*own.get(&p.runs[i - 1].0).unwrap_or(&0));
    }
    if i + 1 < p.runs.len() && p.runs[i + 1].2 && !p.unco.contains(&p.runs[i + 1].0) {
        need.push(*own.get(&p.runs[i + 1].0).unwrap_or(&0));
    }
    (1..=nheads).filter(|h| need.iter().all(|x| x == h)).collect()
}
fn grow_legal(par: &Par, cur: i32, k: i32) -> bool {
    let nm = cur as i64 + k as i64;
    nm > par.max as i64 || nm <= par.grain as i64 || nm % par.grain as i64 == 0
}

// ------------------------------------------------------------------------------------------------
// explore: breadth-first over distinct table states
// ------------------------------------------------------------------------------------------------
struct Replay {
    lst: Lst,
    g: BTreeSet<i32>,
}
fn replay(par: Par, region: &Region, path: &[Op]) -> Replay {
    let mut lst = Lst::new(par, region).expect("replay: new failed");
    let p0 = project(&mut lst, region);
    let mut g: BTreeSet<i32> = p0.runs.iter().map(|r| r.0).collect();
    for op in path {
        let cur = lst.cur();
        let res = lst.apply(op).expect("replay: op failed");
        if matches!(op, Op::Grow { .. } | Op::SetUnco { .. }) {
            let post = project(&mut lst, region);
            extend_g(&mut g, op, res, cur, &post);
        }
    }
    Replay { lst, g }
}

fn candidates(par: &Par, p: &Proj, unco_cands: &[i32], grow_steps: &[i32]) -> Vec<Op> {
    let mut v = vec![];
    let own = p.owner();
    let nheads = if par.kind == Kind::Ia { par.heads } else { 1 };
    for h in 1..=nheads {
        for n in 1..=p.cur.max(1) {
            v.push(Op::Alloc { h, n });
        }
    }
    for r in &p.runs {
        v.push(Op::Size { h: 1 + (r.0 % nheads), u: r.0 });
        if !r.2 {
            for h in free_heads(p, &own, nheads, r.0) {
                v.push(Op::Free { h, u: r.0, rcs: false });
                v.push(Op::Free { h, u: r.0, rcs: true });
            }
            v.push(Op::AllocFrom { h: 1 + (r.0 % nheads), n: 1, u: r.0 });
        } else {
            let h = *own.get(&r.0).unwrap_or(&1);
            let mut ns = vec![1, r.1, r.1 + 1];
            if r.1 > 2 {
                ns.push(r.1 - 1);
            }
            ns.sort();
            ns.dedup();
            for n in ns {
                v.push(Op::AllocFrom { h, n, u: r.0 });
            }
        }
    }
    for &u in unco_cands {
        if u <= p.cur {
            if p.unco.contains(&u) {
                v.push(Op::ClearUnco { h: 1, u });
            } else {
                v.push(Op::SetUnco { h: nheads, u });
            }
        }
    }
    if par.kind == Kind::Rm {
        for &k in grow_steps {
            // growth from a size that is not a multiple of the grain to beyond the grain is left
            // to C27's grid (it meets a recorded finding there)
            let c27_domain = p.cur % par.grain != 0 && p.cur + k > par.grain && p.cur + k <= par.max;
            if grow_legal(par, p.cur, k) && !c27_domain {
                v.push(Op::Grow { k });
            }
        }
    }
    v
}

fn explore_one(
    trace: &Trace,
    region: &Region,
    hid: &mut u64,
    par: Par,
    depth: usize,
    unco_cands: &[i32],
    grow_steps: &[i32],
    node_cap: usize,
) -> (usize, usize) {
    let mut seen: HashSet<Vec<i32>> = HashSet::new();
    let mut root = match Lst::new(par, region) {
        Ok(l) => l,
        Err(m) => {
            trace.push(row_crash(*hid, 0, &par, &Op::Drained, 0, 0, &format!("new: {}", m)));
            return (0, 0);
        }
    };
    let p0 = project(&mut root, region);
    trace.push(row_new(*hid, &par, &p0));
    seen.insert(root.snapshot());
    let mut frontier: Vec<Vec<Op>> = vec![vec![]];
    let (mut nodes, mut rows) = (1usize, 0usize);
    for _d in 0..depth {
        let mut next: Vec<Vec<Op>> = vec![];
        for path in &frontier {
            let mut r = replay(par, region, path);
            let pre = project(&mut r.lst, region);
            let g = r.g.clone();
            for op in candidates(&par, &pre, unco_cands, grow_steps) {
                let mut r2 = replay(par, region, path);
                let cur = r2.lst.cur();
                *hid += 1;
                match r2.lst.apply(&op) {
                    Ok(res) => {
                        let post = project(&mut r2.lst, region);
                        trace.push(row_step(*hid, path.len() + 1, &par, cur, Some((&pre, &g)), &op, res, Some(&post)));
                        rows += 1;
                        let snap = r2.lst.snapshot();
                        if post.bad.is_empty() && seen.len() < node_cap && seen.insert(snap) {
                            let mut p2 = path.clone();
                            p2.push(op.clone());
                            next.push(p2);
                            nodes += 1;
                        }
                    }
                    Err(m) => {
                        trace.push(row_crash(*hid, path.len() + 1, &par, &op, cur, pre.hw, &m));
                        rows += 1;
                    }
                }
            }
        }
        frontier = next;
    }
    (nodes, rows)
}

fn explore(region: &Region) {
    let out = arg_or("out", "explore.ndjson");
    let depth = arg_u64("depth", 4) as usize;
    let maxunits = arg_u64("maxunits", 6) as i32;
    let minunits = arg_u64("minunits", 1) as i32;
    let node_cap = arg_u64("nodecap", 4000) as usize;
    let trace = &TRACE;
    let mut hid = 0u64;
    let mut summary = vec![];
    // integer-array lists: units x grain x heads
    for units in minunits..=maxunits {
        for &grain in &[1, 2, 3, 4, 8] {
            if grain > units && grain != 8 {
                continue;
            }
            for heads in 1..=2 {
                // with two heads the exploration needs boundaries to separate the lists
                let cands: Vec<i32> = if units >= 4 { vec![2, units / 2 + 1] } else { vec![1] };
                let par = Par { kind: Kind::Ia, max: units, grain, heads, ppb: 0, tp: 0 };
                let d = if heads == 2 { depth.saturating_sub(1).max(2) } else { depth };
                let (n, r) = explore_one(trace, region, &mut hid, par, d, &cands, &[], node_cap);
                summary.push(format!("ia u{} g{} h{}: {} states {} rows", units, grain, heads, n, r));
                hid += 1;
            }
        }
    }
    // raw-memory lists: grow from nothing (C26 domain: block size divides the table pages)
    for &(max, grain, heads) in &[(4, 2, 1), (6, 2, 1), (6, 3, 2), (5, 8, 1), (4, 1, 1)] {
        if max > maxunits || max < minunits {
            continue;
        }
        let par = Par { kind: Kind::Rm, max, grain, heads, ppb: 1, tp: 1 };
        let steps = [1, 2, 3, 4, 6];
        let (n, r) = explore_one(trace, region, &mut hid, par, depth, &[2], &steps, node_cap);
        summary.push(format!("rm u{} g{} h{}: {} states {} rows", max, grain, heads, n, r));
        hid += 1;
    }
    DONE.store(true, std::sync::atomic::Ordering::Relaxed);
    let n = trace.write_to(&out).expect("write trace");
    for s in summary {
        println!("{}", s);
    }
    println!("rows={}", n);
}

// ------------------------------------------------------------------------------------------------
// random long histories
// ------------------------------------------------------------------------------------------------
fn pages_for(units: i64, heads: i64) -> i64 {
    ((units + heads + 1) * 8 + PAGE as i64 - 1) / PAGE as i64
}

#[allow(clippy::too_many_arguments)]
fn random_history(
    trace: &Trace,
    region: &Region,
    rng: &mut Rng,
    hid: u64,
    par: Par,
    nops: usize,
    every: usize,
    chunk: i32,
) -> usize {
    let mut l = match Lst::new(par, region) {
        Ok(l) => l,
        Err(m) => {
            trace.push(row_crash(hid, 0, &par, &Op::Drained, 0, 0, &format!("new: {}", m)));
            return 0;
        }
    };
    let nheads = l.nheads_observable();
    let mut p = project(&mut l, region);
    trace.push(row_new(hid, &par, &p));
    let mut i = 0usize;
    let mut done = 0usize;
    // one call: apply, project, log; false = history over (crash)
    let call = |l: &mut Lst, p: &mut Proj, op: Op, force_post: bool, i: &mut usize| -> bool {
        *i += 1;
        let (hw, _, cur) = l.growth();
        match l.apply(&op) {
            Ok(res) => {
                *p = project(l, region);
                let with_post = force_post || *i % every == 0 || matches!(op, Op::Grow { .. });
                trace.push(row_step(hid, *i, &par, cur, None, &op, res, if with_post { Some(p) } else { None }));
                true
            }
            Err(m) => {
                trace.push(row_crash(hid, *i, &par, &op, cur, hw / PAGE as i64, &m));
                false
            }
        }
    };
    if par.kind == Kind::Rm {
        // first growth: a few grains
        let k = (par.grain as i64 * rng.range(1, 4) as i64).min(par.max as i64) as i32;
        let k = if grow_legal(&par, 0, k) { k } else { par.max.min(par.grain) };
        if !call(&mut l, &mut p, Op::Grow { k }, true, &mut i) {
            return done;
        }
    }
    while done < nops {
        done += 1;
        let own = p.owner();
        let dice = rng.below(100);
        let allocated: Vec<(i32, i32)> = p.runs.iter().filter(|r| !r.2).map(|r| (r.0, r.1)).collect();
        let op = if dice < 34 {
            // alloc: mostly small, sometimes large, sometimes impossible
            let h = 1 + rng.below(nheads as u64) as i32;
            let n = match rng.below(10) {
                0 => rng.range(1, p.cur.max(1) as u64 + 1) as i32,
                1 | 2 => rng.range(1, (chunk as u64 * 2).max(1)) as i32,
                _ => rng.range(1, 8) as i32,
            };
            Op::Alloc { h, n }
        } else if dice < 66 {
            if allocated.is_empty() {
                continue;
            }
            let (u, _) = *rng.pick(&allocated);
            let hs = free_heads(&p, &own, nheads, u);
            if hs.is_empty() {
                // neighbours on two different lists: separate them first (as the page resources do)
                Op::SetUnco { h: 1, u }
            } else {
                Op::Free { h: *rng.pick(&hs), u, rcs: rng.chance(1, 2) }
            }
        } else if dice < 76 {
            if p.runs.is_empty() {
                continue;
            }
            let r = *rng.pick(&p.runs);
            let h = if r.2 { *own.get(&r.0).unwrap_or(&1) } else { 1 + rng.below(nheads as u64) as i32 };
            let n = match rng.below(4) {
                0 => r.1,
                1 => r.1 + 1,
                2 => rng.range(1, r.1.max(1) as u64) as i32,
                _ => chunk.min(r.1).max(1),
            };
            Op::AllocFrom { h, n, u: r.0 }
        } else if dice < 82 {
            if p.runs.is_empty() {
                continue;
            }
            let r = *rng.pick(&p.runs);
            Op::Size { h: 1 + rng.below(nheads as u64) as i32, u: r.0 }
        } else if dice < 94 {
            // uncoalescable marks: mostly chunk boundaries (run starts or not), sometimes anywhere
            let u = if rng.chance(3, 4) {
                (rng.range(0, (p.cur / chunk.max(1)) as u64) as i32) * chunk.max(1)
            } else {
                rng.range(0, p.cur as u64) as i32
            };
            let h = 1 + rng.below(nheads as u64) as i32;
            if p.unco.contains(&u) && rng.chance(2, 3) {
                Op::ClearUnco { h, u }
            } else {
                Op::SetUnco { h, u }
            }
        } else if par.kind == Kind::Rm && p.cur < par.max {
            let left = (par.max - p.cur) as i64;
            let mut k = par.grain as i64 * rng.range(1, 3) as i64;
            if k > left {
                k = left;
            }
            if rng.chance(1, 10) {
                k = left + 1; // must be refused
            }
            if !grow_legal(&par, p.cur, k as i32) {
                continue;
            }
            Op::Grow { k: k as i32 }
        } else {
            continue;
        };
        if !call(&mut l, &mut p, op, false, &mut i) {
            return done;
        }
    }
    // free everything that is still allocated, in random order
    loop {
        let own = p.owner();
        let allocated: Vec<i32> = p.runs.iter().filter(|r| !r.2).map(|r| r.0).collect();
        if allocated.is_empty() || !p.bad.is_empty() {
            break;
        }
        let u = *rng.pick(&allocated);
        let hs = free_heads(&p, &own, nheads, u);
        let op = if hs.is_empty() {
            Op::SetUnco { h: 1, u }
        } else {
            Op::Free { h: *rng.pick(&hs), u, rcs: rng.chance(1, 2) }
        };
        if !call(&mut l, &mut p, op, false, &mut i) {
            return done;
        }
        if i > nops * 4 + 100_000 {
            break;
        }
    }
    call(&mut l, &mut p, Op::Drained, true, &mut i);
    done
}

fn random(region: &Region) {
    let out = arg_or("out", "random.ndjson");
    let nhist = arg_u64("histories", 40);
    let nops = arg_u64("ops", 300) as usize;
    let maxunits = arg_u64("maxunits", 512);
    let every = arg_u64("every", 1) as usize;
    let mut rng = Rng::new(seed_from_env());
    let trace = &TRACE;
    let mut total = 0usize;
    for hid in 0..nhist {
        let kind = if rng.chance(2, 5) { Kind::Rm } else { Kind::Ia };
        let chunk = *rng.pick(&[4i32, 8, 16, 32]);
        let units = if rng.chance(1, 4) {
            rng.range(1, 64) as i32
        } else {
            (rng.range(2, (maxunits / chunk as u64).max(2)) as i32) * chunk
        };
        let grain = match rng.below(5) {
            0 => 1,
            1 => chunk,
            2 => units.max(1),
            3 => units + rng.range(1, 100) as i32, // Map64::create_freelist: grain above max
            _ => rng.range(1, units.max(1) as u64) as i32,
        };
        let heads = if kind == Kind::Ia { rng.range(1, 3) as i32 } else { rng.range(1, 2) as i32 };
        let par = match kind {
            Kind::Ia => Par { kind, max: units, grain, heads, ppb: 0, tp: 0 },
            Kind::Rm => {
                // C26 domain: the block size divides the table's page count (C27 covers the rest)
                let tp = pages_for(units as i64, heads as i64) as i32;
                let divs: Vec<i32> = [1, 2, 3, 4, 16].iter().copied().filter(|d| tp % d == 0).collect();
                // growth happens in multiples of the grain here
                let g = if grain > units { grain } else { chunk.min(units).max(1) };
                let max = if g > units { units } else { units - units % g };
                Par { kind, max: max.max(1), grain: if max == 0 { 1 } else { g }, heads, ppb: *rng.pick(&divs), tp }
            }
        };
        let ev = if par.max <= 64 { 1 } else { every };
        total += random_history(trace, region, &mut rng, hid, par, nops, ev, chunk);
    }
    DONE.store(true, std::sync::atomic::Ordering::Relaxed);
    let n = trace.write_to(&out).expect("write trace");
    println!("ops={}", total);
    println!("rows={}", n);
}

// ------------------------------------------------------------------------------------------------
// C27: growth grid
// ------------------------------------------------------------------------------------------------
fn grow_history(trace: &Trace, region: &Region, rng: &mut Rng, hid: u64, par: Par, policy: u32) -> bool {
    let mut l = match Lst::new(par, region) {
        Ok(l) => l,
        Err(m) => {
            trace.push(row_crash(hid, 0, &par, &Op::Drained, 0, 0, &format!("new: {}", m)));
            return false;
        }
    };
    let mut p = project(&mut l, region);
    trace.push(row_new(hid, &par, &p));
    let mut i = 0usize;
    // growth rows are self-contained (they carry the observed table before the call)
    let g: std::cell::RefCell<BTreeSet<i32>> = std::cell::RefCell::new(p.runs.iter().map(|r| r.0).collect());
    let call = |l: &mut Lst, p: &mut Proj, op: Op, with_post: bool, i: &mut usize| -> Option<i64> {
        *i += 1;
        let (hw, _, cur) = l.growth();
        let is_grow = matches!(op, Op::Grow { .. });
        let before = if is_grow { Some(p.clone()) } else { None };
        match l.apply(&op) {
            Ok(res) => {
                *p = project(l, region);
                let gs = g.borrow().clone();
                let pre = before.as_ref().map(|b| (b, &gs));
                trace.push(row_step(hid, *i, &par, cur, pre, &op, res, if with_post { Some(p) } else { None }));
                extend_g(&mut g.borrow_mut(), &op, res, cur, p);
                Some(res)
            }
            Err(m) => {
                trace.push(row_crash(hid, *i, &par, &op, cur, hw / PAGE as i64, &m));
                None
            }
        }
    };
    let upb = par.ppb as i64 * UPP;
    // the target: the maximum, or the largest size the grain precondition lets a caller reach
    let target = if par.max <= par.grain { par.max } else { par.max - par.max % par.grain };
    let mut steps_left = 70;
    while p.cur < target && steps_left > 0 {
        steps_left -= 1;
        let left = (target - p.cur) as i64;
        let g = par.grain as i64;
        let mut k: i64 = match policy {
            0 => left,                                  // all at once
            1 => 1024,                                  // Map64: one chunk of pages at a time
            2 => g.min(left),                           // one grain at a time
            3 => rng.range(1, left as u64) as i64,      // random
            4 => {
                // up to the edge of the current block, then one unit more
                let used = p.cur as i64 + par.heads as i64 + 1;
                let room = (upb - used % upb) % upb;
                if room == 0 { 1 } else { room }
            }
            _ => {
                // a first step below the grain, then on to multiples of the grain
                if p.cur == 0 && g > 1 { rng.range(1, (g - 1).min(left) as u64) as i64 } else { left }
            }
        };
        if k > left {
            k = left;
        }
        // respect the precondition of grow_freelist: new size <= grain or a multiple of it
        let nm = p.cur as i64 + k;
        if !(nm <= g || nm % g == 0) {
            let up = (nm + g - 1) / g * g;
            k = if up <= target as i64 { up - p.cur as i64 } else { left };
        }
        if steps_left == 0 {
            k = left;
        }
        if call(&mut l, &mut p, Op::Grow { k: k as i32 }, true, &mut i).is_none() {
            return false;
        }
    }
    // a growth beyond the maximum must be refused
    let over = (par.max - p.cur) as i64 + 1;
    if grow_legal(&par, p.cur, over as i32) && call(&mut l, &mut p, Op::Grow { k: over as i32 }, true, &mut i).is_none() {
        return false;
    }
    // every unit is usable: allocate whole free runs, largest first, until nothing is free
    let mut guard = 0;
    loop {
        let big = p.runs.iter().filter(|r| r.2).map(|r| r.1).max();
        let Some(n) = big else { break };
        guard += 1;
        let last = p.runs.iter().filter(|r| r.2).count() == 1;
        if call(&mut l, &mut p, Op::Alloc { h: 1, n }, last || guard % 64 == 0, &mut i).is_none() {
            return false;
        }
        if guard > 3000 || !p.bad.is_empty() {
            break;
        }
    }
    // one more unit cannot be had
    call(&mut l, &mut p, Op::Alloc { h: 1, n: 1 }, true, &mut i).is_some()
}

fn grow(region: &Region) {
    let out = arg_or("out", "grow.ndjson");
    let maxpages = arg_u64("maxpages", 12) as i64;
    let sample = arg_u64("sample", 1); // take every n-th tuple of the grid (1 = all)
    let mut rng = Rng::new(seed_from_env());
    let trace = &TRACE;
    let mut hid = 0u64;
    let mut tuples = 0u64;
    let mut crashed = 0u64;
    let mut idx = 0u64;
    let phase = seed_from_env() % sample.max(1);
    for tp in 1..=maxpages {
        for &ppb0 in &[1i64, 2, 3, 16, 0] {
            for heads in 1..=2i64 {
                // unit counts whose table needs exactly tp pages: least, greatest, one between
                let hi = tp * UPP - heads - 1;
                let lo = ((tp - 1) * UPP + 1 - heads - 1).max(1);
                let mid = rng.range(lo as u64, hi as u64) as i64;
                let mut maxes = vec![lo, hi, mid];
                maxes.dedup();
                for &max in &maxes {
                    // 0 = the default Map64 uses: min(table pages, 16)
                    let ppb = if ppb0 == 0 { tp.min(16) } else { ppb0 };
                    if ppb0 == 0 && [1, 2, 3, 16].contains(&ppb) {
                        continue;
                    }
                    let grains: Vec<i64> = vec![max + 7, 1024, 512, 64, 1];
                    for &grain in &grains {
                        if grain == 1 && (tp > 2 || max != hi || ppb0 > 2) {
                            continue;
                        }
                        if grain == 64 && tp > 8 {
                            continue;
                        }
                        for policy in 0..6u32 {
                            // policies that need a grain below the maximum / above one unit
                            if policy == 5 && !(grain > 1 && grain < max) {
                                continue;
                            }
                            if policy == 2 && (max / grain.min(max)) > 64 {
                                continue;
                            }
                            if policy == 4 && grain < max && grain != 1 {
                                continue;
                            }
                            idx += 1;
                            if idx % sample.max(1) != phase {
                                continue;
                            }
                            for slack in [0i64, 1] {
                                if slack == 1 && idx % 5 != 0 {
                                    continue;
                                }
                                let par = Par {
                                    kind: Kind::Rm,
                                    max: max as i32,
                                    grain: grain as i32,
                                    heads: heads as i32,
                                    ppb: ppb as i32,
                                    tp: (tp + slack) as i32,
                                };
                                tuples += 1;
                                hid += 1;
                                if !grow_history(trace, region, &mut rng, hid, par, policy) {
                                    crashed += 1;
                                }
                            }
                        }
                    }
                }
            }
        }
    }
    DONE.store(true, std::sync::atomic::Ordering::Relaxed);
    let n = trace.write_to(&out).expect("write trace");
    println!("tuples={}", tuples);
    println!("ended_by_crash={}", crashed);
    println!("rows={}", n);
}

/// The recorded rows (global so that the watchdog can save them when the code under test hangs).
static TRACE: Trace = Trace::new();
static PROGRESS: std::sync::atomic::AtomicU64 = std::sync::atomic::AtomicU64::new(0);
static DONE: std::sync::atomic::AtomicBool = std::sync::atomic::AtomicBool::new(false);
static LAST_CALL: std::sync::Mutex<String> = std::sync::Mutex::new(String::new());

/// A call of the code under test that does not return within `secs` seconds is a hang: the rows
/// recorded so far plus a `Hang` row naming the call are written and the process exits with 3.
fn watchdog(out: String, secs: u64) {
    std::thread::spawn(move || {
        let mut last = u64::MAX;
        let mut still = 0;
        loop {
            std::thread::sleep(std::time::Duration::from_secs(1));
            let now = PROGRESS.load(std::sync::atomic::Ordering::Relaxed);
            if now == last {
                still += 1;
            } else {
                still = 0;
                last = now;
            }
            if DONE.load(std::sync::atomic::Ordering::Relaxed) {
                return;
            }
            if still >= secs {
                let call = LAST_CALL.lock().map(|c| c.clone()).unwrap_or_default();
                let call = if call.is_empty() { "\"op\":{\"t\":\"none\"}".to_string() } else { call };
                TRACE.push(format!("{{\"ev\":\"Hang\",\"secs\":{},{}}}", secs, call));
                let _ = TRACE.write_to(&out);
                println!("hang=1");
                std::process::exit(3);
            }
        }
    });
}

fn main() {
    let args: Vec<String> = std::env::args().collect();
    watchdog(arg_or("out", "trace.ndjson"), arg_u64("hang", 60));
    std::panic::set_hook(Box::new(|_| {})); // panics of the code under test are data (Crash rows)
    let region = Region::new();
    match args.get(1).map(|s| s.as_str()).unwrap_or("") {
        "explore" => explore(&region),
        "random" => random(&region),
        "grow" => grow(&region),
        _ => {
            eprintln!("usage: d_freelist explore|random|grow --out <trace.ndjson> ...");
            std::process::exit(2);
        }
    }
}
