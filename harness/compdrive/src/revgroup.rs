//! C40: drive the real `revisitable_group_by` (hook `mmtk::verif::verif_groups`).
//! Rows: {"ev":"RG","vals":[..],"keys":[..],"mode":m,"split":s,"groups":[{k,len,items,c}]}
use vcommon::*;

fn key_of(kind: u32, sym: i64, idx: usize) -> i64 {
    match kind {
        0 => sym,
        1 => sym % 2,
        2 => 0,
        _ => (sym + idx as i64) % 2, // position dependent
    }
}

fn row(trace: &Trace, syms: &[i64], kind: u32, mode: u32, split: usize) {
    let items: Vec<(i64, i64)> = syms
        .iter()
        .enumerate()
        .map(|(i, s)| (*s + 3 * i as i64, key_of(kind, *s, i)))
        .collect();
    let it = items.clone();
    let res = catch(move || mmtk::verif::verif_groups(&it, mode, split));
    let o = Obj::new("RG")
        .ints("vals", items.iter().map(|x| x.0))
        .ints("keys", items.iter().map(|x| x.1))
        .int("mode", mode as i64)
        .int("split", split as i64);
    let line = match res {
        Ok(groups) => {
            let gs = json_array(groups.iter().enumerate().map(|(i, (k, len, its))| {
                Obj::raw("")
                    .int("k", *k)
                    .int("len", *len as i64)
                    .ints("items", its.iter().copied())
                    .bool("c", !(mode == 1 && i % 2 == 1))
                    .finish()
            }));
            o.json("groups", &gs).finish()
        }
        Err(msg) => Obj::new("Crash").str("msg", &msg).ints("keys", items.iter().map(|x| x.1)).finish(),
    };
    trace.push(line);
}

pub fn run() {
    let out = arg_or("out", "revgroup.ndjson");
    let maxlen = arg_u64("maxlen", 6) as usize;
    let nrandom = arg_u64("random", 500);
    let trace = Trace::new();
    // exhaustive: all sequences over {0,1,2} up to maxlen x key functions x consumption modes
    let mut syms: Vec<i64> = vec![];
    fn rec(trace: &Trace, syms: &mut Vec<i64>, maxlen: usize) {
        for kind in 0..4u32 {
            for mode in 0..3u32 {
                row(trace, syms, kind, mode, 0);
            }
            for split in 0..=syms.len() {
                row(trace, syms, kind, 3, split);
            }
        }
        if syms.len() < maxlen {
            for s in 0..3 {
                syms.push(s);
                rec(trace, syms, maxlen);
                syms.pop();
            }
        }
    }
    rec(&trace, &mut syms, maxlen);
    // random longer inputs
    let mut rng = Rng::new(seed_from_env());
    for _ in 0..nrandom {
        let n = rng.range(0, 40) as usize;
        let alpha = rng.range(1, 4);
        let syms: Vec<i64> = (0..n).map(|_| rng.below(alpha) as i64).collect();
        let kind = rng.below(4) as u32;
        let mode = rng.below(4) as u32;
        let split = rng.range(0, n as u64) as usize;
        row(&trace, &syms, kind, mode, split);
    }
    let n = trace.write_to(&out).expect("write trace");
    println!("rows={}", n);
}
