//! Component drivers: each sub-command exercises one component of mmtk-core and writes an NDJSON
//! trace that a TLA+ trace specification validates. The driver never judges; it only reports.

mod revgroup;

fn main() {
    let args: Vec<String> = std::env::args().collect();
    let family = args.get(1).map(|s| s.as_str()).unwrap_or("");
    match family {
        "revgroup" => revgroup::run(),
        _ => {
            eprintln!("usage: compdrive <family> --out <trace.ndjson> [--tier quick|thorough]");
            std::process::exit(2);
        }
    }
}
